import St4sd.Model.Hash
/-!
# Memoization hashes over a file system that changes (C16)

`St4sd.Hash` (Model/Hash.lean) computes the hashes of components whose references are already *resolved*
(`Target` carries the contents).  This file puts the file system underneath: a reference names a **path**,
the contents are looked up in the *current* file system at the moment the hash is computed
(`DataReference.location` + `os.path.exists/isdir/isfile` + `md5_of_file` in `_compute_memoization_info`),
and the file system evolves by a history of operations (a producer that is re-run rewrites its output in
place, a file is replaced by `os.replace`, removed, renamed, touched; the experiment object is re-created
over the same instance directory).

The only state is the file system: the model has no place where a digest computed earlier could survive.
A file carries its modification time and inode number *only* so that the theorems can say that nothing
reads them (`Props.C16.hash_function_of_current_contents`).
-/
namespace St4sd.Hash
open St4sd.Str

inductive Node where
  /-- a regular file: contents, modification time (ns), inode number -/
  | file (content : S) (mtime : Nat) (ino : Nat)
  | dir
deriving DecidableEq, Repr

/-- path ↦ node; the first binding of a path is the current one -/
abbrev Fs := List (S × Node)

def lookupFs : Fs → S → Option Node
  | [], _ => none
  | (q, n) :: rest, p => if q == p then some n else lookupFs rest p

/-- what can be *read* of a node: `none` = a directory, `some c` = a file with contents `c` -/
def Node.view : Node → Option S
  | .file c _ _ => some c
  | .dir => none

/-- what the hash computation may see of a path: `none` = nothing there, `some none` = a directory,
`some (some c)` = a file with contents `c` (no time, no inode, no size other than that of `c`) -/
def view (fs : Fs) (p : S) : Option (Option S) := (lookupFs fs p).map Node.view

def removeFs : Fs → S → Fs
  | [], _ => []
  | (q, n) :: rest, p => if q == p then removeFs rest p else (q, n) :: removeFs rest p

inductive Op where
  /-- the path now holds a file with these contents, modification time and inode (in-place rewrite: same
  inode; `os.replace` of a temporary file: new inode; the time may be the old one, earlier or later) -/
  | write (p c : S) (mtime ino : Nat)
  /-- `os.utime` -/
  | touch (p : S) (mtime : Nat)
  /-- `os.remove` -/
  | remove (p : S)
  /-- `os.rename` of a regular file (contents, time and inode move) -/
  | rename (a b : S)
  /-- a new `Experiment` object is created over the same instance directory / every cached hash is reset:
  no effect on the file system, and there is no other state -/
  | reload
deriving DecidableEq, Repr

def step (fs : Fs) : Op → Fs
  | .write p c t i => (p, .file c t i) :: removeFs fs p
  | .touch p t =>
    match lookupFs fs p with
    | some (.file c _ i) => (p, .file c t i) :: removeFs fs p
    | _ => fs
  | .remove p => removeFs fs p
  | .rename a b =>
    match lookupFs fs a with
    | some (.file c t i) => if a == b then fs else (b, .file c t i) :: removeFs (removeFs fs a) b
    | _ => fs
  | .reload => fs

def run (fs : Fs) (ops : List Op) : Fs := ops.foldl step fs

/-- the file systems before the first and after every operation -/
def states (fs : Fs) : List Op → List Fs
  | [] => [fs]
  | op :: ops => fs :: states (step fs op) ops

/-! ## symbolic references -/

/-- where `DataReference.location` points -/
inductive Loc where
  /-- not produced by a component of the graph (input/, data/, application dependency, absolute path) -/
  | direct (path : S)
  /-- inside (or equal to) the working directory of producer number `p` -/
  | produced (p : Nat) (path : S)
deriving DecidableEq, Repr

def Loc.path : Loc → S
  | .direct q => q
  | .produced _ q => q

structure SRef where
  abs : S
  rel : S
  method : S
  fileRef : S
  loc : Loc
deriving DecidableEq, Repr

structure SComp where
  name : S
  stage : Nat
  location : S
  mtime : Nat
  replica : Option Nat
  exe : S
  args : S
  refs : List SRef
  backend : Backend
deriving DecidableEq, Repr

/-- the target of a location given what the file system shows at its path -/
def targetOf : Loc → Option (Option S) → Target
  | .direct _, none => .file none
  | .direct _, some none => .dir
  | .direct _, some (some c) => .file (some c)
  | .produced p _, none => .prodFile p none
  | .produced p _, some none => .prodDir p
  | .produced p _, some (some c) => .prodFile p (some c)

/-- the file system answer for a location, at the moment of the hash computation -/
def resolveTarget (fs : Fs) (l : Loc) : Target := targetOf l (view fs l.path)

def SRef.resolve (fs : Fs) (r : SRef) : Ref :=
  { abs := r.abs, rel := r.rel, method := r.method, fileRef := r.fileRef, target := resolveTarget fs r.loc }

def SComp.resolve (fs : Fs) (c : SComp) : Comp :=
  { name := c.name, stage := c.stage, location := c.location, mtime := c.mtime, replica := c.replica,
    exe := c.exe, args := c.args, refs := c.refs.map (SRef.resolve fs), backend := c.backend }

/-- `memoization_hash` (`fuzzy = false`) / `memoization_hash_fuzzy` of every component of the graph computed
**now**, on the file system `fs` -/
def hashesFs (md5 : S → S) (fuzzy : Bool) (bps : Blueprints) (fs : Fs) (cs : List SComp) : List (Option S) :=
  hashes md5 fuzzy bps (cs.map (SComp.resolve fs))

def sersFs (md5 : S → S) (fuzzy : Bool) (bps : Blueprints) (fs : Fs) (cs : List SComp) : List (Option S) :=
  sers md5 fuzzy bps (cs.map (SComp.resolve fs))

/-- the hashes observed before the first and after every operation of a history -/
def observeHistory (md5 : S → S) (fuzzy : Bool) (bps : Blueprints) (cs : List SComp) (fs : Fs) (ops : List Op) :
    List (List (Option S)) :=
  (states fs ops).map (fun s => hashesFs md5 fuzzy bps s cs)

/-- sort of the symbolic references by the length of the absolute spelling (the same insertion sort as
`sortRefs`; `Lemmas.C16Fs.sortRefs_resolve` shows that resolving commutes with it) -/
def insertLenS (x : SRef) : List SRef → List SRef
  | [] => [x]
  | y :: ys => if y.abs.length ≤ x.abs.length then x :: y :: ys else y :: insertLenS x ys

def sortSRefs : List SRef → List SRef
  | [] => []
  | x :: xs => insertLenS x (sortSRefs xs)

end St4sd.Hash
