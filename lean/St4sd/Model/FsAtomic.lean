/-!
# File system traces with crash points (property C14)

Abstract POSIX file system as seen by one writer: `Fs = Path → Option Content`
(`none` = no such file).  Operations are the ones the anchored Python performs on the
state files (`open(p,'w')` = `create` (creates or truncates), `f.write(b)` = `append`,
`f.close()` = `close`, `os.rename/os.replace` = `rename`, `os.remove` = `remove`).

A *trace* is the list of operations one update performs.  A crash (process death or power
loss) after `n` operations leaves the state `run (tr.take n) fs`: every prefix of the trace
is a crash point.  An I/O error raised at operation `i` is the prefix `tr.take i` followed by
whatever clean-up operations the code then performs — again a trace.

Assumptions (trusted, DESIGN section 5): `rename` replaces the target atomically; `create`
truncates; data of a closed file is what was appended.  Content is text (the harness decodes
the on-disk bytes as UTF-8).
-/
namespace St4sd.FsAtomic

abbrev Path := List Char
abbrev Content := List Char
abbrev Fs := Path → Option Content

inductive Op where
  | create (p : Path)
  | append (p : Path) (b : Content)
  | close (p : Path)
  | rename (a b : Path)
  | remove (p : Path)
  deriving DecidableEq, Repr

def set (fs : Fs) (p : Path) (v : Option Content) : Fs := fun q => if q = p then v else fs q

/-- effect of one operation; operations on missing files (`append`, `rename` of a path that does
not exist) fail in the real system with ENOENT/EBADF and change nothing -/
def apply (fs : Fs) : Op → Fs
  | .create p => set fs p (some [])
  | .append p b =>
    match fs p with
    | some c => set fs p (some (c ++ b))
    | none => fs
  | .close _ => fs
  | .rename a b =>
    match fs a with
    | some c => if a = b then fs else set (set fs b (some c)) a none
    | none => fs
  | .remove p => set fs p none

def run (tr : List Op) (fs : Fs) : Fs := tr.foldl apply fs

/-- does the operation name the path `t` (as the file written, removed, or either side of a rename)? -/
def touches (t : Path) : Op → Bool
  | .create p => p == t
  | .append p _ => p == t
  | .close _ => false
  | .rename a b => a == t || b == t
  | .remove p => p == t

def noTouch (t : Path) (tr : List Op) : Bool := tr.all fun o => !touches t o

/-- paths with written-but-not-yet-closed data -/
def updDirty (dirty : List Path) : Op → List Path
  | .create p => p :: dirty
  | .append p _ => p :: dirty
  | .close p => dirty.filter (· != p)
  | .rename _ _ => dirty
  | .remove p => dirty.filter (· != p)

def atomicGo (t : Path) : List Path → List Op → Bool
  | _, [] => false
  | dirty, o :: tr =>
    if touches t o then
      match o with
      | .rename a b => b == t && a != t && !dirty.contains a && noTouch t tr
      | _ => false
    else atomicGo t (updDirty dirty o) tr

/-- The update protocol "write a temporary file, close it, rename it over the target":
the only operation of the trace that names the target `t` is exactly one `rename tmp t` with
`tmp ≠ t`, and at that moment `tmp` has been closed after its last write. -/
def isAtomicProtocol (tr : List Op) (t : Path) : Bool := atomicGo t [] tr

/-- the trace of a complete atomic update writing `chunks` -/
def writerTrace (tmp t : Path) (chunks : List Content) : List Op :=
  [.create tmp] ++ chunks.map (.append tmp) ++ [.close tmp, .rename tmp t]

/-- the trace of an in-place update (`open(target,'w')`, writes, close) -/
def truncTrace (t : Path) (chunks : List Content) : List Op :=
  [.create t] ++ chunks.map (.append t) ++ [.close t]

/-- I/O error at operation `i` of an atomic update, error handler closes the temp file (the `with`
block) and gives up: `Status.update`, `OutputAgent.updateLogs`, the repaired writers. -/
def writerTraceErrGiveUp (tmp t : Path) (chunks : List Content) (i : Nat) : List Op :=
  ((writerTrace tmp t chunks).take i) ++ [.close tmp]

/-- … error handler closes the temp file, logs, and renames it over the target anyway
(`StatusMonitor.try_generate_status_details` before the repair: the `os.rename` is not in an
`else:` branch). Only errors during the write phase (`i ≤ 1 + chunks.length`) are of this form. -/
def writerTraceErrRenameAnyway (tmp t : Path) (chunks : List Content) (i : Nat) : List Op :=
  ((writerTrace tmp t chunks).take i) ++ [.close tmp, .rename tmp t]

def flatten : List Content → Content
  | [] => []
  | c :: cs => c ++ flatten cs

/-- all crash states of the target: content after every prefix (used by the driver) -/
def crashStates (tr : List Op) (fs : Fs) (t : Path) : List (Option Content) :=
  (List.range (tr.length + 1)).map fun n => run (tr.take n) fs t

/-- first crash point at which the target holds neither the old nor the final content -/
def firstUnsafe (tr : List Op) (fs : Fs) (t : Path) : Option Nat :=
  (List.range (tr.length + 1)).find? fun n =>
    let c := run (tr.take n) fs t
    !(c == fs t || c == run tr fs t)

end St4sd.FsAtomic
