/-!
# File system traces with crash points (property C14)

Abstract POSIX file system as seen by one writer: `Fs = Path → Option Content`
(`none` = no such file).  Operations are the ones the anchored Python performs on the
state files (`open(p,'w')` = `create` (creates or truncates), `f.write(b)` = `append`,
`f.close()` = `close`, `os.rename/os.replace` = `rename`, `os.remove` = `remove`).

A *trace* is the list of operations one update performs.  A crash (process death or power
loss) after `n` operations leaves the state `run (tr.take n) fs`: every prefix of the trace
is a crash point.  An I/O error raised at operation `i` is the prefix `tr.take i` followed by
whatever clean-up operations the code then performs — again a trace.

Assumptions (trusted, DESIGN section 5): `rename` replaces the target atomically; `create`
truncates; data of a closed file is what was appended.  Content is text (the harness decodes
the on-disk bytes as UTF-8).
-/
namespace St4sd.FsAtomic

abbrev Path := List Char
abbrev Content := List Char
abbrev Fs := Path → Option Content

inductive Op where
  | create (p : Path)
  | append (p : Path) (b : Content)
  | close (p : Path)
  | rename (a b : Path)
  | remove (p : Path)
  deriving DecidableEq, Repr

def set (fs : Fs) (p : Path) (v : Option Content) : Fs := fun q => if q = p then v else fs q

/-- effect of one operation; operations on missing files (`append`, `rename` of a path that does
not exist) fail in the real system with ENOENT/EBADF and change nothing -/
def apply (fs : Fs) : Op → Fs
  | .create p => set fs p (some [])
  | .append p b =>
    match fs p with
    | some c => set fs p (some (c ++ b))
    | none => fs
  | .close _ => fs
  | .rename a b =>
    match fs a with
    | some c => if a = b then fs else set (set fs b (some c)) a none
    | none => fs
  | .remove p => set fs p none

def run (tr : List Op) (fs : Fs) : Fs := tr.foldl apply fs

/-- does the operation name the path `t` (as the file written, removed, or either side of a rename)? -/
def touches (t : Path) : Op → Bool
  | .create p => p == t
  | .append p _ => p == t
  | .close _ => false
  | .rename a b => a == t || b == t
  | .remove p => p == t

def noTouch (t : Path) (tr : List Op) : Bool := tr.all fun o => !touches t o

/-- paths with written-but-not-yet-closed data -/
def updDirty (dirty : List Path) : Op → List Path
  | .create p => p :: dirty
  | .append p _ => p :: dirty
  | .close p => dirty.filter (· != p)
  | .rename _ _ => dirty
  | .remove p => dirty.filter (· != p)

def atomicGo (t : Path) : List Path → List Op → Bool
  | _, [] => false
  | dirty, o :: tr =>
    if touches t o then
      match o with
      | .rename a b => b == t && a != t && !dirty.contains a && noTouch t tr
      | _ => false
    else atomicGo t (updDirty dirty o) tr

/-- The update protocol "write a temporary file, close it, rename it over the target":
the only operation of the trace that names the target `t` is exactly one `rename tmp t` with
`tmp ≠ t`, and at that moment `tmp` has been closed after its last write. -/
def isAtomicProtocol (tr : List Op) (t : Path) : Bool := atomicGo t [] tr

/-- the trace of a complete atomic update writing `chunks` -/
def writerTrace (tmp t : Path) (chunks : List Content) : List Op :=
  [.create tmp] ++ chunks.map (.append tmp) ++ [.close tmp, .rename tmp t]

/-- the trace of an in-place update (`open(target,'w')`, writes, close) -/
def truncTrace (t : Path) (chunks : List Content) : List Op :=
  [.create t] ++ chunks.map (.append t) ++ [.close t]

/-- I/O error at operation `i` of an atomic update, error handler closes the temp file (the `with`
block) and gives up: `Status.update`, `OutputAgent.updateLogs`, the repaired writers. -/
def writerTraceErrGiveUp (tmp t : Path) (chunks : List Content) (i : Nat) : List Op :=
  ((writerTrace tmp t chunks).take i) ++ [.close tmp]

/-- … error handler closes the temp file, logs, and renames it over the target anyway
(`StatusMonitor.try_generate_status_details` before the repair: the `os.rename` is not in an
`else:` branch). Only errors during the write phase (`i ≤ 1 + chunks.length`) are of this form. -/
def writerTraceErrRenameAnyway (tmp t : Path) (chunks : List Content) (i : Nat) : List Op :=
  ((writerTrace tmp t chunks).take i) ++ [.close tmp, .rename tmp t]

def flatten : List Content → Content
  | [] => []
  | c :: cs => c ++ flatten cs

/-- all crash states of the target: content after every prefix (used by the driver) -/
def crashStates (tr : List Op) (fs : Fs) (t : Path) : List (Option Content) :=
  (List.range (tr.length + 1)).map fun n => run (tr.take n) fs t

/-- first crash point at which the target holds neither the old nor the final content -/
def firstUnsafe (tr : List Op) (fs : Fs) (t : Path) : Option Nat :=
  (List.range (tr.length + 1)).find? fun n =>
    let c := run (tr.take n) fs t
    !(c == fs t || c == run tr fs t)

/-- `crashStates` computed in one pass (what the driver evaluates; `crashStates_eq_scan` in Props/C14) -/
def scanStates : List Op → Fs → Path → List (Option Content)
  | [], fs, t => [fs t]
  | o :: tr, fs, t => fs t :: scanStates tr (apply fs o) t

/-- `firstUnsafe` on a list of crash states -/
def firstUnsafeIn (states : List (Option Content)) (old fin : Option Content) : Option Nat :=
  (List.range states.length).find? fun n =>
    match states[n]? with
    | some c => !(c == old || c == fin)
    | none => false

end St4sd.FsAtomic

/-!
# Typed values stored in the YAML / JSON state files (property C14, read-back clause)

The instance description, the manifest and the status details hold *typed* values: null, booleans,
integers, floats, strings, sequences and mappings.  Python's `==` identifies values of different
types (`1 == True == 1.0`, `0 == False == 0.0 == -0.0`, `3 == 3.0`, also inside sequences and
mappings), the files do not: `3` and `3.0`, `1` and `true` are different documents and load as
different values.  "Reading back returns exactly the values last written" is therefore a statement
about *structural* equality of typed values (`=` on `YVal`), not about Python's `==` (`pyEq`).

Floats are exact dyadic rationals `m / 2^e` (what `float.as_integer_ratio` returns); the special
floats are `fspec 0` = `-0.0`, `fspec 1` = `inf`, `fspec 2` (and above) = `-inf` (NaN is not generated: it is
not equal to itself).  A mapping is the list `k₀, v₀, k₁, v₁, …` of its entries in the canonical
order of its keys (the harness sorts; the keys of one Python `dict` are pairwise `==`-different),
so that structural equality of `YVal` is equality of mappings irrespective of insertion order.
-/
namespace St4sd.TypedStore

mutual
inductive YVal where
  | null
  | bool (b : Bool)
  | int (i : Int)
  | float (m : Int) (e : Nat)
  | fspec (k : Nat)
  | str (s : List Nat)
  | seq (xs : YList)
  | map (kvs : YList)
inductive YList where
  | nil
  | cons (v : YVal) (t : YList)
end

mutual
def YVal.beq : YVal → YVal → Bool
  | .null, .null => true
  | .bool a, .bool b => a == b
  | .int a, .int b => a == b
  | .float m e, .float m' e' => m == m' && e == e'
  | .fspec a, .fspec b => a == b
  | .str a, .str b => a == b
  | .seq a, .seq b => YList.beq a b
  | .map a, .map b => YList.beq a b
  | _, _ => false
def YList.beq : YList → YList → Bool
  | .nil, .nil => true
  | .cons a s, .cons b t => YVal.beq a b && YList.beq s t
  | _, _ => false
end

/-- numeric reading of a scalar as Python's `==` sees it: `some (inl (m, e))` = the finite number
`m / 2^e`, `some (inr false)` = `+inf`, `some (inr true)` = `-inf`, `none` = not a number -/
def numOf : YVal → Option (Sum (Int × Nat) Bool)
  | .bool b => some (.inl (if b then 1 else 0, 0))
  | .int i => some (.inl (i, 0))
  | .float m e => some (.inl (m, e))
  | .fspec 0 => some (.inl (0, 0))
  | .fspec 1 => some (.inr false)
  | .fspec _ => some (.inr true)
  | _ => none

def numEq : Sum (Int × Nat) Bool → Sum (Int × Nat) Bool → Bool
  | .inl (m, e), .inl (m', e') => m * (2 : Int) ^ e' == m' * (2 : Int) ^ e
  | .inr a, .inr b => a == b
  | _, _ => false

mutual
/-- Python's `a == b` on loaded YAML / JSON values -/
def pyEq : YVal → YVal → Bool
  | .null, .null => true
  | .str a, .str b => a == b
  | .seq a, .seq b => pyEqL a b
  | .map a, .map b => pyEqL a b
  | .null, _ => false
  | .str _, _ => false
  | .seq _, _ => false
  | .map _, _ => false
  | a, b =>
    match numOf a, numOf b with
    | some x, some y => numEq x y
    | _, _ => false
def pyEqL : YList → YList → Bool
  | .nil, .nil => true
  | .cons a s, .cons b t => pyEq a b && pyEqL s t
  | _, _ => false
end

/-- the typed content of one state file: `none` = no (loadable) file yet -/
abbrev Stored := Option YVal

/-- the update the anchored code performs: dump the new document and rename it over the target -/
def writeAlways (_ : Stored) (v : YVal) : Stored := some v

/-- an update that first loads the file and skips the write when `eq loaded new` holds -/
def writeSkip (eq : YVal → YVal → Bool) (f : Stored) (v : YVal) : Stored :=
  match f with
  | some w => if eq w v then some w else some v
  | none => some v

/-- the file after a history of updates -/
def runStore (w : Stored → YVal → Stored) (init : Stored) (h : List YVal) : Stored := h.foldl w init

/-- what a reader sees after every update of the history -/
def readBacks (w : Stored → YVal → Stored) : Stored → List YVal → List Stored
  | _, [] => []
  | f, v :: h => w f v :: readBacks w (w f v) h

end St4sd.TypedStore
