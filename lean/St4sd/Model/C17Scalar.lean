import St4sd.Model.Env
import St4sd.Model.C17Vars
/-!
# Typed YAML scalars as values of environment variables and global variables (property C17)

`Model/Env.lean` and `Model/C17Vars.lean` work on texts.  A FlowIR document may give an environment variable
(and a global variable) any YAML primitive: a string, an integer (`OMP_NUM_THREADS: 0`), a float (`SCALE: 0.0`),
a boolean (`USE_GPU: false`) or — environment variables only — nothing (`X:` = null).  The code turns the
value into text when the environment is read, in `FlowIRConcrete.get_platform_environment`
(flowir.py 5557-5562):

    def env_value_to_string(value):
        if value is None: return ""
        return str(value)
    return {str(x): env_value_to_string(environment[x]) for x in environment}

and `FlowIR.interpolate` renders the value of a referenced variable with `str()` too.  This file brings that
conversion inside the model: `Scalar`, `Scalar.text`, typed documents (`TDict`, `TEnvs`, `TVars`),
`platEnvT` = `get_platform_environment` as coded on a typed document, and the conversion of a whole typed
document to the text document the rest of the model reads (`textEnvs`, `textVars`).

* integers are rendered by the model (`intText`, decimal, `-` for negative numbers);
* booleans are `True` / `False` (Python's `str(bool)`);
* a float is carried as the text Python's `str()` gives for it (`0.0`, `-0.0`, `2.5`, `1e-07`): the model does not
  compute float formatting, the harness supplies the text;
* null is the empty text (and an environment variable with an empty text is dropped by `expandAll`, as coded).

`Scalar.textFalsy` is the conversion `str(value) if value else ""` (every *falsy* scalar — `0`, `0.0`, `false`,
not only null — becomes the empty text), kept for `Witness/C17.lean`.

The model converts a typed document when it is loaded; the code converts when an environment is read (after the
lower-casing of names, the flattening into the instance document and the storing / re-loading of
`flowir_instance.yaml`, all of which move values around without looking at them).  `Props.C17.platEnvT_eq` proves
the two coincide for the lookup itself; for the other steps the coincidence is checked by the comparison with the
real code on every run.
-/
namespace St4sd.Env
open St4sd.Str St4sd.Assoc

/-- a YAML primitive as the value of an environment variable / a global variable -/
inductive Scalar where
  | null
  | bool (b : Bool)
  | int (i : Int)
  /-- a float, carried as the text `str()` renders for it -/
  | float (text : S)
  | str (s : S)
  deriving DecidableEq

/-- `str(i)` for a Python `int` -/
def intText (i : Int) : S :=
  match i with
  | .ofNat n => natToDigits n
  | .negSucc n => '-' :: natToDigits (n + 1)

/-- `env_value_to_string` (flowir.py 5557-5560): null is the empty text, everything else `str(value)` -/
def Scalar.text : Scalar → S
  | .null => []
  | .bool true => "True".toList
  | .bool false => "False".toList
  | .int i => intText i
  | .float t => t
  | .str s => s

/-- the scalars whose text is empty: null and the empty string (a float always has a non-empty text; the
constructor allows an empty one, which then counts as empty) -/
def Scalar.declaredEmpty : Scalar → Bool
  | .null => true
  | .str s => s.isEmpty
  | .float t => t.isEmpty
  | _ => false

/-- Python truthiness of the scalar is `False`: null, `false`, `0`, `0.0` / `-0.0`, `''` -/
def Scalar.falsy : Scalar → Bool
  | .null => true
  | .bool b => !b
  | .int i => i == 0
  | .float t => t == "0.0".toList || t == "-0.0".toList || t.isEmpty
  | .str s => s.isEmpty

/-- the conversion `str(value) if value else ""` (NOT what the code does; `Witness/C17.lean`) -/
def Scalar.textFalsy (v : Scalar) : S := if v.falsy then [] else v.text

/-- a dictionary of a typed document -/
abbrev TDict := List (S × Scalar)
/-- `environments:` of a typed document -/
abbrev TEnvs := List (S × List (S × TDict))
/-- global variables per platform of a typed document -/
abbrev TVars := List (S × TDict)

/-- `{str(x): conv(environment[x]) for x in environment}` -/
def textDictWith (conv : Scalar → S) (d : TDict) : Dict := d.map fun kv => (kv.1, conv kv.2)

def textEnvsWith (conv : Scalar → S) (e : TEnvs) : Envs :=
  e.map fun pe => (pe.1, pe.2.map fun ne => (ne.1, textDictWith conv ne.2))

/-- the comprehension of `get_platform_environment` -/
def textDict (d : TDict) : Dict := textDictWith Scalar.text d

/-- the text document of a typed document: every value converted, nothing else touched -/
def textEnvs (e : TEnvs) : Envs := textEnvsWith Scalar.text e

/-- global variables: `FlowIR.interpolate` renders a referenced value with `str()` (null is not a valid value of
a variable: `FlowIRVariableInvalid`; the conversion maps it to the empty text like for environments) -/
def textVars (v : TVars) : Vars := v.map fun pv => (pv.1, textDict pv.2)

/-- the environment `name` as the platform's section of a typed document declares it (no conversion) -/
def platRawT (e : TEnvs) (name plat : S) : Except Err TDict :=
  let name := lower name
  if name == sNone then .ok []
  else match dget e plat with
    | none => .error .unknownEnv
    | some pe => match dget pe name with
      | some d => .ok d
      | none => .error .unknownEnv

/-- `get_platform_environment(name, platform)` as coded on a typed document: look the environment up, then
convert every value with `env_value_to_string` -/
def platEnvT (e : TEnvs) (name plat : S) : Except Err Dict :=
  match platRawT e name plat with
  | .ok d => .ok (textDict d)
  | .error x => .error x

/-- `environmentForNode` of a typed package (no `%(name)s` references) -/
def envForNodeT (sys : Dict) (e : TEnvs) (plat : S) (launch : Dict) (name : Option S) (interp primitive reload : Bool) :
    Except Err Dict :=
  envForNode sys (confEnvs (loadEnvs (textEnvs e)) plat primitive reload) plat launch name interp

/-- `environmentForNode` of a typed package with typed global variables and `%(name)s` references -/
def envForNodeVT (sys : Dict) (e : TEnvs) (vars : TVars) (plat : S) (launch : Dict) (name : Option S)
    (interp primitive reload : Bool) : Except ErrV Dict :=
  envForNodeV sys (confDoc ⟨loadEnvs (textEnvs e), textVars vars⟩ plat primitive reload) plat launch name interp
    primitive

end St4sd.Env
