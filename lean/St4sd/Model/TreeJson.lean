import Lean.Data.Json
import St4sd.Model.Cache
/-!
# JSON codec for `Val`, `Desc`, `Op` (drivers of C04 and C08 only; not part of the model)

Floats travel as `{"$flt": "<repr>"}`; numbers must be integers.
-/
namespace St4sd.Tree
open Lean

partial def valOfJson : Json → Except String Val
  | .null => pure .null
  | .bool b => pure (.bool b)
  | .num n => if n.exponent == 0 then pure (.int n.mantissa) else throw s!"non-integer number {n}"
  | .str s => pure (.str s.toList)
  | .arr a => do pure (.list (← a.toList.mapM valOfJson))
  | .obj kvs =>
    match kvs.toList with
    | [("$flt", .str r)] => pure (.flt r.toList)
    | l => do pure (.dict (← l.mapM (fun (k, v) => do pure (k.toList, ← valOfJson v))))

partial def jsonOfVal : Val → Json
  | .null => .null
  | .bool b => .bool b
  | .int n => .num (JsonNumber.fromInt n)
  | .flt r => Json.mkObj [("$flt", .str (String.ofList r))]
  | .str s => .str (String.ofList s)
  | .list xs => .arr (xs.map jsonOfVal).toArray
  | .dict kvs => Json.mkObj (kvs.map (fun (k, v) => (String.ofList k, jsonOfVal v)))

def fieldsOfJson (j : Json) : Except String Fields := do
  match ← valOfJson j with
  | .dict kvs => pure kvs
  | .null => pure []
  | _ => throw "expected an object"

def objList (j : Json) : Except String (List (String × Json)) :=
  match j with
  | .obj kvs => pure kvs.toList
  | .null => pure []
  | _ => throw "expected an object"

def natKey (k : String) : Except String Nat :=
  match k.toNat? with
  | some n => pure n
  | none => throw s!"stage key {k}"

def optField (j : Json) (k : String) : Json := (j.getObjVal? k).toOption.getD .null

def descOfJson (j : Json) : Except String Desc := do
  let plats ← (← (← j.getObjVal? "platforms").getArr?).toList.mapM (fun p => do pure (← p.getStr?).toList)
  let bp ← (← objList (optField j "blueprint")).mapM (fun (P, b) => do
    let g ← valOfJson (optField b "global")
    let g := if (b.getObjVal? "global").toOption.isNone then Val.dict [] else g
    let st ← (← objList (optField b "stages")).mapM (fun (k, v) => do pure (← natKey k, ← valOfJson v))
    pure (P.toList, (g, st)))
  let vars ← (← objList (optField j "variables")).mapM (fun (P, b) => do
    let g ← fieldsOfJson (optField b "global")
    let st ← (← objList (optField b "stages")).mapM (fun (k, v) => do pure (← natKey k, ← fieldsOfJson v))
    pure (P.toList, ({ global := g, stages := st } : PlatVars)))
  let comps ← (← (← j.getObjVal? "components").getArr?).toList.mapM (fun c => do
    let i ← (← c.getObjVal? "stage").getNat?
    let n ← (← c.getObjVal? "name").getStr?
    let b ← fieldsOfJson (← c.getObjVal? "body")
    pure ({ stage := i, name := n.toList, body := b } : Comp))
  pure { platforms := plats, blueprint := bp, variables := vars, comps := comps }

def userOfJson (j : Json) : Except String UserVars := do
  let g ← fieldsOfJson (optField j "global")
  let st ← (← objList (optField j "stages")).mapM (fun (k, v) => do pure (← natKey k, ← fieldsOfJson v))
  pure { global := g, stages := st }

def errName : Err → String
  | .unknownVariable _ => "unknown-variable"
  | .invalidVariable => "invalid-variable"
  | .incomplete => "incomplete-variable"
  | .fuel => "recursion"
  | .unsupported => "unsupported"
  | .typeClash => "type-clash"
  | .invalidType => "invalid-type"
  | .platformUnknown => "platform-unknown"
  | .componentUnknown => "component-unknown"
  | .componentExists => "component-exists"
  | .inconsistent => "inconsistent"
  | .keyError => "key-error"

def jsonOfResult : Except Err Val → Json
  | .ok v => Json.mkObj [("ok", jsonOfVal v)]
  | .error (.unknownVariable x) => Json.mkObj [("error", "unknown-variable"), ("name", String.ofList x)]
  | .error e => Json.mkObj [("error", errName e)]

def getS (j : Json) (k : String) : Except String St4sd.Str.S := do pure (← (← j.getObjVal? k).getStr?).toList
def getN (j : Json) (k : String) : Except String Nat := do (← j.getObjVal? k).getNat?

def getB (j : Json) (k : String) : Except String Bool := do (← j.getObjVal? k).getBool?

/-- `{"raw":…, "incl":…, "prim":…, "inject":…}` -/
def flagsOfJson (j : Json) : Except String Flags := do
  pure ⟨← getB j "raw", ← getB j "incl", ← getB j "prim", ← getB j "inject"⟩

def opOfJson (j : Json) : Except String Op := do
  let op ← (← j.getObjVal? "op").getStr?
  match op with
  | "setVar" => pure (.setVar (← getN j "stage") (← getS j "name") (← getS j "var") (← valOfJson (optField j "value")))
  | "delVar" => pure (.delVar (← getN j "stage") (← getS j "name") (← getS j "var"))
  | "setOption" => pure (.setOption (← getN j "stage") (← getS j "name") (← getS j "route") (← valOfJson (optField j "value")))
  | "removeOption" => pure (.removeOption (← getN j "stage") (← getS j "name") (← getS j "route"))
  | "setGlobalVar" => pure (.setGlobalVar (← getS j "var") (← valOfJson (optField j "value")))
  | "setStageVar" => pure (.setStageVar (← getN j "stage") (← getS j "var") (← valOfJson (optField j "value")))
  | "setPlatGlobalVar" => pure (.setPlatGlobalVar (← getS j "platform") (← getS j "var") (← valOfJson (optField j "value")))
  | "setPlatStageVar" => pure (.setPlatStageVar (← getS j "platform") (← getN j "stage") (← getS j "var") (← valOfJson (optField j "value")))
  | "addComp" => pure (.addComp (← getN j "stage") (← getS j "name") (← fieldsOfJson (← j.getObjVal? "body")))
  | "updateComp" => pure (.updateComp (← getN j "stage") (← getS j "name") (← fieldsOfJson (← j.getObjVal? "body")))
  | "deleteComp" => pure (.deleteComp (← getN j "stage") (← getS j "name"))
  | "query" => pure (.query (← getN j "stage") (← getS j "name") (← getS j "platform"))
  | "queryF" => pure (.queryF (← getN j "stage") (← getS j "name") (← getS j "platform") (← flagsOfJson j))
  | "read" => pure .read
  | "touchComp" => pure (.touchComp (← getN j "stage") (← getS j "name"))
  | "touchVars" => pure .touchVars
  | _ => throw s!"unknown op {op}"

end St4sd.Tree
