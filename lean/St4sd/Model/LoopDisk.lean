import St4sd.Model.LoopMulti
/-!
# Resolution of references to looped components against what is on disk (property C05)

`Model/Loop.lean` / `Model/LoopMulti.lean` model WHICH instances a reference to a looped component denotes
(`resolveProducerM`: the newest; `loopRefOrderM`: all, in iteration order).  This file models what
`DataReference.resolve` (graph.py 805-1017), `StageReference` (data.py 188-234) and
`ComponentSpecification.resolveArguments` (graph.py 2066-2123) make of that denotation when the per-instance outputs are
looked up on disk — where every instance independently may or may not have produced its file:

* `:loopoutput` (graph.py 888-913): the per-instance files are read in aggregate order, readable contents are
  collected in `contents`, the others in `not_found`; **`if not_found: raise DataReferenceFilesDoNotExistError`**,
  otherwise the contents joined by a blank (`resolveLoopOutput`).  Position `i` of a resolved value therefore is the
  output of iteration `i`;
* `:loopref` (885-887) resolves to the paths, whatever is on disk; `StageReference` then requires every one of them to
  exist (`stageLoopRef`);
* `:output` to a placeholder (917-1015): the file of `latest` is read, `DataReferenceFilesDoNotExistError` naming that
  file if it is not there — never the file of another instance (`resolveOutputM`);
* `resolveArguments` (2070-2120) tolerates ONE missing file of an `:output`/`:loopoutput` reference (`I assume that it
  will be generated`: the value is the empty string) and raises `InternalInconsistencyError` for more than one
  (`argLoopOutput`, `argOutputM`).

The state of the disk is a parameter (`Disk`): the theorems of `Props/C05.lean` quantify over all of them.
-/
namespace St4sd.Loop
open St4sd.Str

/-- what is on disk for ONE instance at the moment a reference is resolved -/
inductive FileState where
  /-- the file exists and can be read: its contents without trailing newlines (`[]`: an empty file) -/
  | value (v : S)
  /-- the working directory of the instance exists, the file does not (never executed, cleaned, unreadable) -/
  | noFile
  /-- the working directory of the instance is not there at all -/
  | noDir
deriving DecidableEq, Repr, Inhabited

def FileState.content? : FileState → Option S
  | .value v => some v
  | _ => none

def FileState.hasDir : FileState → Bool
  | .noDir => false
  | _ => true

/-- the state of the file a reference asks for, per instance -/
abbrev Disk := CId → FileState

/-- the loop of graph.py 893-907 over the per-instance files in aggregate order: (`contents`, `not_found`) -/
def readAll (disk : Disk) : List CId → List S × List CId
  | [] => ([], [])
  | x :: xs =>
    match (disk x).content? with
    | some v => (v :: (readAll disk xs).1, (readAll disk xs).2)
    | none => ((readAll disk xs).1, x :: (readAll disk xs).2)

/-- `DataReference.resolve` of a `:loopoutput` reference whose instances are `order`: the list of the contents
(joined by blanks in the code), or `DataReferenceFilesDoNotExistError(not_found)` -/
def resolveLoopOutput (disk : Disk) (order : List CId) : Except (List CId) (List S) :=
  if (readAll disk order).2.isEmpty then .ok (readAll disk order).1 else .error (readAll disk order).2

/-- `<placeholder p>:loopoutput` in workflow `cs` -/
def loopOutputM (num : Bool) (ds : List Doc) (cs : List Comp) (p : CId) (disk : Disk) : Except (List CId) (List S) :=
  resolveLoopOutput disk (loopRefOrderM num ds cs p)

/-- `StageReference` of a `:loopref` reference: `resolve()` yields one path per instance whatever is on disk, every
path must exist (`ex`), the error lists those that do not -/
def stageLoopRef (ex : CId → Bool) (order : List CId) : Except (List CId) (List CId) :=
  if (order.filter fun x => !ex x).isEmpty then .ok order else .error (order.filter fun x => !ex x)

def stageLoopRefM (num : Bool) (ds : List Doc) (cs : List Comp) (p : CId) (ex : CId → Bool) :
    Except (List CId) (List CId) :=
  stageLoopRef ex (loopRefOrderM num ds cs p)

/-- `<placeholder p>:output`: the contents of the file of `latest`; the error names the instance whose file is not
there (`none`: no instance at all) -/
def resolveOutputM (num : Bool) (ds : List Doc) (cs : List Comp) (p : CId) (disk : Disk) : Except (Option CId) S :=
  match resolveProducerM num ds cs p with
  | some x =>
    match (disk x).content? with
    | some v => .ok v
    | none => .error (some x)
  | none => .error none

/-- what `resolveArguments` substitutes for an aggregate `:loopoutput` reference -/
inductive ArgValue where
  /-- the reference resolved: one value per instance -/
  | full (vs : List S)
  /-- exactly one file missing: `Ignoring missing reference … I assume that it will be generated`, the empty string -/
  | blank
  /-- more than one file missing: `InternalInconsistencyError` (… should contain exactly one entry) -/
  | inconsistent
deriving DecidableEq, Repr

def argLoopOutput (disk : Disk) (order : List CId) : ArgValue :=
  match resolveLoopOutput disk order with
  | .ok vs => .full vs
  | .error [_] => .blank
  | .error _ => .inconsistent

def argLoopOutputM (num : Bool) (ds : List Doc) (cs : List Comp) (p : CId) (disk : Disk) : ArgValue :=
  argLoopOutput disk (loopRefOrderM num ds cs p)

/-- what `resolveArguments` substitutes for `<placeholder p>:output`: the contents of the newest instance's file, the
empty string when it is not there -/
def argOutputM (num : Bool) (ds : List Doc) (cs : List Comp) (p : CId) (disk : Disk) : S :=
  match resolveOutputM num ds cs p disk with
  | .ok v => v
  | .error _ => []

end St4sd.Loop
