import St4sd.Model.Interp
import St4sd.Model.TreeTypes
import St4sd.Gen.C04
/-!
# `FlowIR.convert_component_types` (C04), flowir.py 4056-4221

Only strings, integers and booleans are converted (`isinstance(value, string_types + (int, bool))`);
`None`, floats and lists pass through unchanged; dictionaries are descended into along the type table;
a converter that raises makes the whole resolution fail (`FlowIRFailedComponentConvertType`), except
for the `replica` exemption of primitive graphs.

Documented subset (outside it the model answers `unsupported` and the harness does not compare):
* `int(s)`: optional sign + ASCII digits (Python also accepts surrounding white space and `_`);
* `float(s)`: `[+-]digits[.digits]` with at most 10 integer and 4 fractional digits, returned as
  the Python `repr` of the float (exact for this class); floats are never computed with.
-/
namespace St4sd.Tree
open St4sd.Str

/-- `int(s)` on the documented subset -/
def parseInt (s : S) : Option Int :=
  match s with
  | '-' :: t => (digitsToNat? t).map (fun n => - (n : Int))
  | '+' :: t => (digitsToNat? t).map (fun n => (n : Int))
  | t => (digitsToNat? t).map (fun n => (n : Int))

def stripLeadingZeros (s : S) : S :=
  match s.dropWhile (· == '0') with
  | [] => ['0']
  | t => t

def stripTrailingZeros (s : S) : S :=
  match (s.reverse.dropWhile (· == '0')).reverse with
  | [] => ['0']
  | t => t

/-- `repr(float(s))` on the documented subset; `none` = not a float literal of the subset -/
def floatReprOfStr (s : S) : Option S :=
  let (neg, body) := match s with
    | '-' :: t => (true, t)
    | '+' :: t => (false, t)
    | t => (false, t)
  let (ip, fp) := match splitFirst '.' body with
    | some (a, b) => (a, b)
    | none => (body, ['0'])
  if ip.isEmpty || fp.isEmpty || !ip.all isDigit || !fp.all isDigit then none
  else if ip.length > 10 || fp.length > 4 then none
  else some ((if neg then ['-'] else []) ++ stripLeadingZeros ip ++ ['.'] ++ stripTrailingZeros fp)

/-- is the string inside the float subset at all (used to tell `invalidType` from `unsupported`) -/
def looksNumeric (s : S) : Bool :=
  !s.isEmpty && s.all (fun c => isDigit c || c == '.' || c == '-' || c == '+' || c == 'e' || c == 'E'
    || c == '_' || isSpace c || c == 'n' || c == 'a' || c == 'i' || c == 'f' || c == 'N' || c == 'I')

def floatOfInt (n : Int) : Except Err Val :=
  if n.natAbs < 1000000000000000 then .ok (.flt (intRepr n ++ ".0".toList)) else .error .unsupported

def lookupBool : List (S × Bool) → S → Option Bool
  | [], _ => none
  | (k, b) :: r, s => if k = s then some b else lookupBool r s

/-- `FlowIR.memory_to_bytes` -/
def memoryToBytes (s : S) : Except Err Val :=
  match parseInt s with
  | some n => .ok (.int n)
  | none =>
    let head := s.take (s.length - 2)
    match parseInt head with
    | none => if s.any (fun c => isSpace c || c == '_') then .error .unsupported else .error .invalidType
    | some n =>
      if endsWith s "Mi".toList then .ok (.int (n * 1024 * 1024))
      else if endsWith s "Gi".toList then .ok (.int (n * 1024 * 1024 * 1024))
      else .error .invalidType

def intOfStr (s : S) : Except Err Val :=
  match parseInt s with
  | some n => .ok (.int n)
  | none => if s.any (fun c => isSpace c || c == '_') then .error .unsupported else .error .invalidType

/-- one converter applied to a string / integer / boolean -/
def convScalar : Ty → Val → Except Err Val
  | .str, .str s => .ok (.str s)
  | .str, .int n => .ok (.str (intRepr n))
  | .str, .bool b => .ok (.str (boolRepr b))
  | .int, .int n => .ok (.int n)
  | .int, .bool b => .ok (.int (if b then 1 else 0))
  | .int, .str s => intOfStr s
  | .optInt, .int n => .ok (.int n)
  | .optInt, .bool b => .ok (.int (if b then 1 else 0))
  | .optInt, .str s => intOfStr s
  | .bool, .bool b => .ok (.bool b)
  | .bool, .int n => .ok (.bool (n != 0))
  | .bool, .str s => .ok (.bool (!s.isEmpty))
  | .float, .int n => floatOfInt n
  | .float, .bool b => .ok (.flt (if b then "1.0".toList else "0.0".toList))
  | .float, .str s => match floatReprOfStr s with
    | some r => .ok (.flt r)
    | none => if looksNumeric s then .error .unsupported else .error .invalidType
  | .strToBool, .bool b => .ok (.bool b)
  | .strToBool, .str s => match lookupBool St4sd.Gen.C04.strToBoolTable (lower s) with
    | some b => .ok (.bool b)
    | none => .error .invalidType
  | .strToBool, _ => .error .invalidType
  | .toBool, .bool b => .ok (.bool b)
  | .toBool, .int n => .ok (.bool (n != 0))
  | .toBool, .str s => match lookupBool St4sd.Gen.C04.strToBoolTable (lower s) with
    | some b => .ok (.bool b)
    | none => .error .invalidType
  | .memory, .int n => .ok (.int n)
  | .memory, .bool b => .ok (.int (if b then 1 else 0))
  | .memory, .str s => memoryToBytes s
  | .qos, .str s => if St4sd.Gen.C04.qosLevels.contains (lower s) then .ok (.str (lower s)) else .error .invalidType
  | .qos, _ => .error .invalidType
  | .dict, _ => .error .invalidType
  | _, v => .ok v

def isScalar : Val → Bool
  | .str _ => true
  | .int _ => true
  | .bool _ => true
  | _ => false

/-- every match of the reference pattern, left to right (matches cannot overlap: a match starts with `%`
and contains no other `%`) -/
def allRefs : S → List S
  | [] => []
  | c :: t => match matchRef (c :: t) with
    | some (n, _) => n :: allRefs t
    | none => allRefs t

/-- the `replica` exemption of `convert`: a failed conversion of a string whose only reference is
`%(replica)s` is accepted when the graph is primitive -/
def exempt (prim : Bool) : Val → Bool
  | .str s => prim && allRefs s == [replicaName]
  | _ => false

def convLeaf (prim : Bool) (t : Ty) (v : Val) : Except Err Val :=
  match convScalar t v with
  | .ok w => .ok w
  | .error .unsupported => .error .unsupported
  | .error e => if exempt prim v then .ok v else .error e

mutual
def convert (prim : Bool) : TyTree → Val → Except Err Val
  | .leaf .dict, .dict kvs => .ok (.dict kvs)
  | .leaf _, .dict [] => .ok (.dict [])
  | .leaf _, .dict (_ :: _) => .error .invalidType
  | .node fs, .dict kvs => match convertFields prim fs kvs with
    | .ok kvs' => .ok (.dict kvs')
    | .error e => .error e
  | .leaf t, v => if isScalar v then convLeaf prim t v else .ok v
  | .node _, v => if isScalar v then (if exempt prim v then .ok v else .error .invalidType) else .ok v
def convertFields (prim : Bool) (fs : List (S × TyTree)) : Fields → Except Err Fields
  | [] => .ok []
  | (k, v) :: r =>
    match tyGet fs k with
    | none => match convertFields prim fs r with
      | .ok r' => .ok ((k, v) :: r')
      | .error e => .error e
    | some t => match convert prim t v with
      | .error e => .error e
      | .ok v' => match convertFields prim fs r with
        | .ok r' => .ok ((k, v') :: r')
        | .error e => .error e
end

end St4sd.Tree
