import St4sd.Model.Ref
/-!
# Data references (C09): sessions of calls

`Model/Ref.lean` models every parse / print / expand / classify function as a function of its
arguments and of the reserved-folder list `sf`.  In the code that list (and the list of reference
methods) is *class-level state* of the interpreter (`FlowIR.SpecialFolders`,
`FlowIR.data_reference_methods`, `graph.DataReference.methods`), and the folder / dependency /
component arguments are *optional* (`None`, `[]` or a list).  This file makes both explicit:

* `Tables` — the class-level tables a call can see,
* `Call` — one call of the public API with its arguments exactly as the caller spells them
  (`none` = Python `None`),
* `answer t c` — what the call returns when the tables are `t`,
* `step` / `run` — a *session*: a sequence of calls in one interpreter.  The code that exists only
  reads the tables, so `step` hands them on unchanged; `Props/C09.lean` proves that therefore every
  answer of every session is a function of the call's own arguments (and the tables the session
  started with), whatever was called before.

Extra entry points modelled here (they reach the anchored parser with other argument histories):
`data.DataReferenceInfo` (the only in-project caller of `ParseDataReferenceFull` with
`special_folders=None` and application dependencies) and `FlowIR.validate_references` for one
reference when no component name contains `#`.
-/
namespace St4sd.Ref
open St4sd.Str

abbrev Known := List (Nat × List S)

/-- the class-level tables read by the reference functions -/
structure Tables where
  /-- `FlowIR.SpecialFolders` -/
  special : List S
  /-- `FlowIR.data_reference_methods` -/
  methods : List S
  /-- `graph.DataReference.methods` (a copy made at import time) -/
  drMethods : List S
deriving DecidableEq, Repr

/-- Python's `x or []` for an optional list argument -/
def olist (o : Option (List S)) : List S := o.getD []

/-- one call, arguments as the caller gives them -/
inductive Call where
  | pdr (v : S)
  | ppr (r : S) (i : Option Nat)
  | full (v : S) (i : Option Nat) (deps extra : Option (List S))
  | isc (v : S) (tlf : Option (List S))
  | compile (p : S) (f : Option S) (m : S) (s r : Option Nat)
  | expand (v : S) (ctx : Nat) (known : Option Known) (tlf : Option (List S)) (force : Bool)
  | expandAll (refs : List S) (ctx : Nat) (known : Option Known) (deps tlf : Option (List S))
  | dref (v : S) (i : Option Nat)
  | dri (v : S) (stage : Nat) (deps : Option (List S))
  | vrefs (v : S) (known : Known) (implied : Option Nat) (tlf : Option (List S))
  | validate (v : S) (stage : Nat) (known : Known) (tlf : List S)
  | tlf (keys : List S)
  | tlfOld (keys : List S)
  | appdep (v : S)
  | isvar (v : S)
deriving Repr

/-- what a call returns (`err` = `ValueError`) -/
inductive Answer where
  | err
  | pdr (r : S) (f : Option S) (m : S)
  | ppr (si : Option Nat) (job : S) (has : Bool)
  | full (si : Option Nat) (job : S) (f : Option S) (m : S)
  | bool (b : Bool)
  | str (s : S)
  | strs (l : List S)
  | dref (d : DataRef)
  | dri (pid : Option S) (m : S)
  | missing (o : Option S)
deriving DecidableEq, Repr

/-- `[f(x) for x in l]` where `f` may raise: the first exception aborts the comprehension -/
def mapAll (f : S → Option S) : List S → Option (List S)
  | [] => some []
  | x :: xs =>
    match f x with
    | none => none
    | some y => match mapAll f xs with
      | none => none
      | some ys => some (y :: ys)

/-- `FlowIR.expand_component_references(references, ctx, known, application_dependencies,
top_level_folders)` with optional `application_dependencies` / `top_level_folders`
(`if not references: return references`) -/
def expandAll (sf : List S) (refs : List S) (ctx : Nat) (known : Option Known)
    (deps tlf : Option (List S)) : Option (List S) :=
  mapAll (fun r => expandOne sf r ctx known (olist deps) (olist tlf)) refs

/-- `data.DataReferenceInfo(ref, uri, consumer_stage, "", app_deps)`: the identifier of `_pid`
(`none` for a direct reference) and `method`; `ParseDataReferenceFull` is called **without** a
top-level-folder list.  A direct reference to an absolute path is rejected. -/
def dataRefInfo (sf : List S) (v : S) (stage : Nat) (deps : Option (List S)) : Option (Option S × S) :=
  match parseFull sf v (some stage) (olist deps) [] with
  | none => none
  | some (none, job, _, m) => if isAbs job then none else some (none, m)
  | some (some i, job, _, m) =>
    let p := parseProducerReference job (some i)
    some (some (stagePrefix (p.1.getD i) ++ p.2.1), m)

/-- `FlowIR.validate_references([ref], known, implied_stage, top_level_folders)` when no known name
contains `#`: the absolute identifier of the component the reference is held to point to, when it is
not a known one -/
def validateRefs (sf : List S) (v : S) (known : Known) (implied : Option Nat) (tlf : Option (List S)) :
    Option (Option S) :=
  match parseFull sf v implied [] (olist tlf) with
  | none => none
  | some (none, _) => some none
  | some (some i, job, _) => if (knownAt known i).contains job then some none else some (some (stagePrefix i ++ job))

/-- the answer of a call when the class-level tables are `t` -/
def answer (t : Tables) : Call → Answer
  | .pdr v => match parseDataReference t.special v with
    | none => .err
    | some (r, f, m) => .pdr r f m
  | .ppr r i => let p := parseProducerReference r i; .ppr p.1 p.2.1 p.2.2
  | .full v i deps extra => match parseFull t.special v i (olist deps) (olist extra) with
    | none => .err
    | some (si, job, f, m) => .full si job f m
  | .isc v tlf => match isDataRefToComponent t.special v (olist tlf) with
    | none => .err
    | some b => .bool b
  | .compile p f m s r => .str (compileReference p f m s r)
  | .expand v ctx known tlf force => match expandPotential t.special v ctx known tlf force with
    | none => .err
    | some r => .str r
  | .expandAll refs ctx known deps tlf => match expandAll t.special refs ctx known deps tlf with
    | none => .err
    | some l => .strs l
  | .dref v i => match dataRef t.special t.drMethods v i with
    | none => .err
    | some d => .dref d
  | .dri v stage deps => match dataRefInfo t.special v stage deps with
    | none => .err
    | some (pid, m) => .dri pid m
  | .vrefs v known implied tlf => match validateRefs t.special v known implied tlf with
    | none => .err
    | some o => .missing o
  | .validate v stage known tlf => match validateMissing t.special v stage known tlf with
    | none => .err
    | some none => .missing none
    | some (some (i, job)) => .missing (some (stagePrefix i ++ job))
  | .tlf keys => .strs (topLevelFolders keys)
  | .tlfOld keys => .strs (topLevelFoldersOld keys)
  | .appdep v => .str (appDepName v)
  | .isvar v => .bool (isVarRef v)

/-- one call in an interpreter whose class-level tables are `t`: the code only *reads* the tables -/
def step (t : Tables) (c : Call) : Tables × Answer := (t, answer t c)

/-- a session: the calls are made one after the other in the same interpreter -/
def run (t : Tables) : List Call → Tables × List Answer
  | [] => (t, [])
  | c :: cs =>
    let r := step t c
    let rest := run r.1 cs
    (rest.1, r.2 :: rest.2)

end St4sd.Ref
