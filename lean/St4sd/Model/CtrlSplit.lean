import St4sd.Model.Ctrl
/-!
# `finishedCheck` is not atomic: the lock boundaries of the notification handler (property C01)

`Controller.finishedCheck(state, component)` runs on a thread of the controller pool, concurrently
with the `run()` loop (scheduler passes) and with the handlers of other notifications.  Its body has
three parts, separated by the acquisition and the release of `Controller.comp_lock` (the lock that
`_schedule` holds for a whole pass):

* before `with self.comp_lock:` — reads the reference, logs;                       `SOp.finPre c`
* under the lock — the FAILED branch (stop the stage / kill everything);          `SOp.finCrit c`
* after the lock (`finally:`) — `comp_done.add(ref)`, status report, wake-up of the scheduler.
                                                                                   `SOp.finPost c`

`Ctrl.step wf s (.fin c)` performs the three parts in one step.  Here they are separate operations:
between them any other operation may happen — scheduler passes, task exits, other deliveries (also
other split deliveries: several notifications can be in flight), kills, stage transitions.
`inflight` lists the notifications whose handler has started and not yet ended, with the part that
comes next.

The same system carries one more environment event that `Ctrl.step` does not have:

* `SOp.complete k` — the external stage-completion hook (`hooks/status.py::IsStageComplete`, polled by
  `_observe_completionCheck(stage k)`) returned `True`: under `comp_lock` its closure fake-finishes the
  components of stage k that are not staged in and calls `_stopComponents(components of stage k)` - what the
  FAILED branch of `finishedCheck` does: `Ctrl.stopStage`.  (Before the repair
  `fixes/C02-completion-hook-unstaged.diff` it called `_stopComponents` only, `Ctrl.stopComponents`: see
  `Witness/C02`.)

No Mathlib.
-/
namespace St4sd.Ctrl

/-- the part of `finishedCheck` under `comp_lock`: the FAILED branch -/
def finCritical (wf : Wf) (s : St) (c : Nat) : St :=
  if (s.comp c).ctrl = some .failed then
    if (wf.cdef c).stage > s.cur then killAll wf s else stopStage wf s (wf.cdef c).stage
  else s

/-- the `finally:` block of `finishedCheck`: `comp_done.add(reference)` -/
def finRecord (s : St) (c : Nat) : St :=
  { s with done := fun j => decide (j = c) || s.done j }

/-- `deliverFin` is the three parts in sequence -/
theorem deliverFin_eq (wf : Wf) (s : St) (c : Nat) :
    deliverFin wf s c =
      if Notif.fin c ∈ s.pending then
        finRecord (finCritical wf { s with pending := s.pending.erase (.fin c) } c) c
      else s := rfl

/-- what a notification in flight waits for: `comp_lock` (part 2 comes next) or the `finally:` block
(part 3 comes next) -/
inductive Phase | waitLock | waitRecord
  deriving DecidableEq, Repr

structure SSt where
  base : St
  /-- handlers that have started and not ended, oldest first -/
  inflight : List (Nat × Phase) := []

inductive SOp
  | base (op : Op)
  | finPre (c : Nat)
  | finCrit (c : Nat)
  | finPost (c : Nat)
  | complete (k : Nat)
  deriving DecidableEq, Repr

def sinit : SSt := { base := init }

def sstep (wf : Wf) (s : SSt) : SOp → SSt
  | .base op => { s with base := step wf s.base op }
  | .finPre c =>
    -- a thread of the pool takes the queued notification and calls finishedCheck: nothing else happens
    -- before the lock
    if Notif.fin c ∈ s.base.pending then
      { base := { s.base with pending := s.base.pending.erase (.fin c) },
        inflight := s.inflight ++ [(c, .waitLock)] }
    else s
  | .finCrit c =>
    if (c, Phase.waitLock) ∈ s.inflight then
      { base := finCritical wf s.base c,
        inflight := s.inflight.erase (c, .waitLock) ++ [(c, .waitRecord)] }
    else s
  | .finPost c =>
    if (c, Phase.waitRecord) ∈ s.inflight then
      { base := finRecord s.base c, inflight := s.inflight.erase (c, .waitRecord) }
    else s
  | .complete k => { s with base := stopStage wf s.base k }

def srun (wf : Wf) (ops : List SOp) : SSt := ops.foldl (sstep wf) sinit

/-- `srun` together with the reports of the completed stages (see `Ctrl.runR`) -/
def sstepR (wf : Wf) (a : SSt × Reports) (op : SOp) : SSt × Reports :=
  (sstep wf a.1 op,
   match op with
   | .base o => (stepR wf (a.1.base, a.2) o).2
   | _ => a.2)

def srunR (wf : Wf) (ops : List SOp) : SSt × Reports := ops.foldl (sstepR wf) (sinit, [])

/-! ## the unsplit system with the completion hook (property C02)

`hrun` is the transition system of `Ctrl.step` plus the stage-completion hook (`HOp.hook k` =
`SOp.complete k` = `stopStage`).  Before the repair the closure called `_stopComponents` only, which sends
`finish(SHUTDOWN)` also to components the controller never subscribed to (not yet staged in): they became
SHUTDOWN but were never recorded in `comp_done` (`Witness/C02`). -/

inductive HOp
  | op (o : Op)
  | hook (k : Nat)
  deriving DecidableEq, Repr

def hstep (wf : Wf) (s : St) : HOp → St
  | .op o => step wf s o
  | .hook k => stopStage wf s k

def hrun (wf : Wf) (ops : List HOp) : St := ops.foldl (hstep wf) init

/-- `hrun` embeds into the split system -/
def HOp.toS : HOp → SOp
  | .op o => .base o
  | .hook k => .complete k

end St4sd.Ctrl
