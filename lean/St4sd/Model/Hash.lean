import St4sd.Model.Str
/-!
# Memoization hashes (C16) — model of `ComponentSpecification._compute_memoization_info`
(graph.py 1296-1529) and `_memoization_info_to_hash` (graph.py 1099-1124)

`md5` is a **parameter** of every function (never an axiom); the theorems assume
`Function.Injective md5` where they need it.

What is modelled (quirks included):
* references are processed longest spelling first (stable), `tokens` is the key set of
  `FlowIR.discover_reference_strings` (maximal run of `[.a-zA-Z0-9_/ and -]` followed by `:method`),
  a reference is replaced in the arguments by `re.sub(r'\b' + escape(ref) + r'\b', …)` (`subWord`)
  only when its absolute or relative spelling is one of the tokens;
* a reference to a missing file, to a produced file that does not exist yet, an `:output` reference to a
  directory, an empty file hash, a producer without hash that is needed → no hash at all;
* references to directories are skipped (they contribute only through `producer:<hash>` in the arguments);
* fuzzy: entries of produced files are `fuzzy#<fuzzy hash of producer>#<file>` (contents not read);
* the executable is read from the *unreplicated* blueprint (`blueprintName`: the component itself, or for a
  replica the name without its replica index) — `blueprintNameOld` is the code before the repair
  (`name.rstrip('0123456789')`), kept for `Witness.C16`;
* image: kubernetes `image`, lsf `dockerImage`, docker `image` (`imageOfOld`: docker ignored, before the repair);
* serialisation: keys sorted, values concatenated with **no separators**, list of file entries sorted;
* `files` is a **list**: one entry per distinct reference (`absoluteReference`, `dedupAbs`/`hashesD`) to a file, so
  two different files with the same contents consumed through the same method are two equal entries
  (`hashOneSet` is the set-based variant, kept for `Witness.C16`).

Not modelled: `embeddingFunction` (JavaScript custom fuzzy hashes), DoWhile placeholders / `loopref`.
-/
namespace St4sd.Hash
open St4sd.Str

/-- what a reference points to, as `DataReference.location` + the file system answer -/
inductive Target where
  /-- direct reference (input/, data/, application dependency …) to a file; `none` = the path does not exist -/
  | file (content : Option S)
  /-- direct reference to a directory -/
  | dir
  /-- a file in the working directory of producer number `p` of the world (`none` = not there yet) -/
  | prodFile (p : Nat) (content : Option S)
  /-- the working directory of producer number `p` -/
  | prodDir (p : Nat)
deriving DecidableEq, Repr

structure Ref where
  /-- absolute spelling `stage0.src/out.txt:ref` -/
  abs : S
  /-- relative spelling `src/out.txt:ref` -/
  rel : S
  method : S
  /-- `d.fileRef or ''` -/
  fileRef : S
  target : Target
deriving DecidableEq, Repr

inductive Backend where
  | loc
  | kubernetes (image : S)
  | lsf (dockerImage : Option S)
  | docker (image : S)
  | other
deriving DecidableEq, Repr

structure Comp where
  name : S
  stage : Nat
  /-- instance directory: carried only to state that nothing reads it -/
  location : S
  /-- modification time of the inputs: carried only to state that nothing reads it -/
  mtime : Nat
  /-- value of the `replica` variable for replicas -/
  replica : Option Nat
  /-- the executable the component is declared with (for a replica: its blueprint's); the algorithm does not
  read this field, it looks the executable up in the blueprint table -/
  exe : S
  args : S
  /-- `inputDataReferences + componentDataReferences` in that order -/
  refs : List Ref
  backend : Backend
deriving DecidableEq, Repr

/-- unreplicated components: `(stage, name) ↦ executable` -/
abbrev Blueprints := List ((Nat × S) × S)

structure Info where
  image : Option S
  args : S
  exe : S
  /-- `hash:method` entries, in insertion order -/
  files : List S
deriving DecidableEq, Repr

/-! ## strings -/

def isAlnum (c : Char) : Bool := ('a' ≤ c && c ≤ 'z') || ('A' ≤ c && c ≤ 'Z') || ('0' ≤ c && c ≤ '9')
/-- `\w` on ASCII -/
def isWord (c : Char) : Bool := isAlnum c || c == '_'
/-- `[.a-zA-Z0-9_/ and -]` -/
def isRefChar (c : Char) : Bool := isAlnum c || c == '.' || c == '_' || c == '/' || c == '-'

def wordOpt : Option Char → Bool
  | none => false
  | some c => isWord c

/-- `\b` between `prev` and `next` -/
def boundary (prev next : Option Char) : Bool := wordOpt prev != wordOpt next

/-- worker of `subWord`; `prev` = character before the current position -/
def subWordAux (pat rep : S) : Nat → Option Char → S → S
  | _, _, [] => []
  | skip + 1, _, c :: s => subWordAux pat rep skip (some c) s
  | 0, prev, c :: s =>
    if pat.isPrefixOf (c :: s) && boundary prev (some c)
        && boundary pat.getLast? ((c :: s).drop pat.length).head? then
      rep ++ subWordAux pat rep (pat.length - 1) (some c) s
    else c :: subWordAux pat rep 0 (some c) s

/-- `re.sub(r'\b' + re.escape(pat) + r'\b', rep, s)` for non-empty `pat` (and `rep` without back-references) -/
def subWord (pat rep s : S) : S := if pat.isEmpty then s else subWordAux pat rep 0 none s

/-- `FlowIR.data_reference_methods` in the order of the regular expression alternation -/
def methods : List S :=
  ["copy".toList, "link".toList, "ref".toList, "copyout".toList, "extract".toList, "output".toList,
   "loopref".toList, "loopoutput".toList]

/-- worker of `tokens`: `cur` = current run of reference characters, reversed -/
def tokensAux (ms : List S) : Nat → S → S → List S
  | _, _, [] => []
  | k + 1, cur, _ :: s => tokensAux ms k cur s
  | 0, cur, c :: s =>
    if isRefChar c then tokensAux ms 0 (c :: cur) s
    else if c == ':' && !cur.isEmpty then
      match ms.find? (fun m => m.isPrefixOf s) with
      | some m => (cur.reverse ++ ':' :: m) :: tokensAux ms m.length [] s
      | none => tokensAux ms 0 [] s
    else tokensAux ms 0 [] s

/-- keys of `discover_reference_strings(arguments, …)` (arguments without `%(var)s`) -/
def tokens (s : S) : List S := tokensAux methods 0 [] s

/-! ## sorting -/

/-- insert for `sorted(refs, key=len(spelling), reverse=True)` (stable) -/
def insertLen (x : Ref) : List Ref → List Ref
  | [] => [x]
  | y :: ys => if y.abs.length ≤ x.abs.length then x :: y :: ys else y :: insertLen x ys

def sortRefs : List Ref → List Ref
  | [] => []
  | x :: xs => insertLen x (sortRefs xs)

/-- `a ≤ b` on strings (code points) -/
def lexLe (a b : S) : Bool := !lexLt b a

def insertStr (x : S) : List S → List S
  | [] => [x]
  | y :: ys => if lexLe x y then x :: y :: ys else y :: insertStr x ys

/-- `sorted(list of str)` -/
def sortStr : List S → List S
  | [] => []
  | x :: xs => insertStr x (sortStr xs)

/-! ## the info -/

structure FileEntry where
  abs : S
  hash : S
  method : S
deriving DecidableEq, Repr

inductive EntryRes where
  | fail
  | skip
  | entry (e : FileEntry)

def isOutputMethod (m : S) : Bool := m == "output".toList || m == "loopoutput".toList

/-- body of the first loop of `_compute_memoization_info` for one reference; `ph p` = hash of producer `p`
(fuzzy hashes when `fuzzy`) -/
def entryOf (md5 : S → S) (fuzzy : Bool) (ph : Nat → Option S) (r : Ref) : EntryRes :=
  match r.target with
  | .file none => .fail
  | .file (some c) => if (md5 c).isEmpty then .fail else .entry ⟨r.abs, md5 c, r.method⟩
  | .dir => if isOutputMethod r.method then .fail else .skip
  | .prodDir _ => if isOutputMethod r.method then .fail else .skip
  | .prodFile _ none => .fail
  | .prodFile p (some c) =>
    if fuzzy then
      match ph p with
      | none => .fail
      | some h => .entry ⟨r.abs, "fuzzy#".toList ++ h ++ '#' :: r.fileRef, r.method⟩
    else if (md5 c).isEmpty then .fail else .entry ⟨r.abs, md5 c, r.method⟩

def fileEntries (md5 : S → S) (fuzzy : Bool) (ph : Nat → Option S) : List Ref → Option (List FileEntry)
  | [] => some []
  | r :: rs =>
    match entryOf md5 fuzzy ph r with
    | .fail => none
    | .skip => fileEntries md5 fuzzy ph rs
    | .entry e => (fileEntries md5 fuzzy ph rs).map (e :: ·)

def Target.producer? : Target → Option Nat
  | .prodFile p _ => some p
  | .prodDir p => some p
  | _ => none

/-- what a reference is replaced with in the arguments (`none` = error → no hash; `some none` = left alone) -/
def replacementOf (fuzzy : Bool) (entries : List FileEntry) (ph : Nat → Option S) (r : Ref) : Option (Option S) :=
  match entries.find? (fun e => e.abs == r.abs) with
  | some e => if e.hash.isEmpty then none else some (some ("file:".toList ++ e.hash ++ ':' :: r.method))
  | none =>
    match r.target.producer? with
    | some p =>
      match ph p with
      | none => none
      | some h =>
        if h.isEmpty then none
        else some (some ((if fuzzy then "fuzzy:".toList else "producer:".toList) ++ h ++ ':' :: r.method))
    | none => some none

/-- second loop: replace the references that occur as tokens of the original arguments -/
def replaceRefs (fuzzy : Bool) (toks : List S) (entries : List FileEntry) (ph : Nat → Option S) :
    List Ref → S → Option S
  | [], a => some a
  | r :: rs, a =>
    let orig : Option S := if toks.contains r.abs then some r.abs else if toks.contains r.rel then some r.rel else none
    match orig with
    | none => replaceRefs fuzzy toks entries ph rs a
    | some o =>
      match replacementOf fuzzy entries ph r with
      | none => none
      | some none => replaceRefs fuzzy toks entries ph rs a
      | some (some rep) => replaceRefs fuzzy toks entries ph rs (subWord o rep a)

def lookupBp (bps : Blueprints) (k : Nat × S) : Option S := (bps.find? (fun e => e.1 == k)).map (·.2)

/-- the code before the repair -/
def blueprintNameOld (c : Comp) : S := rstripChars isDigit c.name

/-- repaired lookup: the component itself when it is an unreplicated component; for a replica the name
without its replica index; (fallback: the old rule) -/
def blueprintName (bps : Blueprints) (c : Comp) : S :=
  if (lookupBp bps (c.stage, c.name)).isSome then c.name
  else match c.replica with
    | some r =>
      if (natToDigits r).isSuffixOf c.name then c.name.take (c.name.length - (natToDigits r).length)
      else blueprintNameOld c
    | none => blueprintNameOld c

def imageOf : Backend → Option S
  | .kubernetes i => some i
  | .lsf (some i) => if i.isEmpty then none else some i
  | .docker i => if i.isEmpty then none else some i
  | _ => none

/-- before the repair: the image of the docker backend is not part of the hash -/
def imageOfOld : Backend → Option S
  | .kubernetes i => some i
  | .lsf (some i) => if i.isEmpty then none else some i
  | _ => none

/-- everything of the info that does not involve names / the blueprint table -/
def infoCore (md5 : S → S) (fuzzy : Bool) (ph : Nat → Option S) (image : Option S) (exe args : S)
    (refs : List Ref) : Option Info :=
  match fileEntries md5 fuzzy ph (sortRefs refs) with
  | none => none
  | some entries =>
    match replaceRefs fuzzy (tokens args) entries ph (sortRefs refs) args with
    | none => none
    | some a => some ⟨image, a, exe, entries.map (fun e => e.hash ++ ':' :: e.method)⟩

/-- `_compute_memoization_info(fuzzy)` (repaired) -/
def mkInfo (md5 : S → S) (fuzzy : Bool) (bps : Blueprints) (ph : Nat → Option S) (c : Comp) : Option Info :=
  match lookupBp bps (c.stage, blueprintName bps c) with
  | none => none
  | some exe => infoCore md5 fuzzy ph (imageOf c.backend) exe c.args c.refs

/-- `_compute_memoization_info(fuzzy)` as it was: blueprint by stripped name, docker image ignored -/
def mkInfoOld (md5 : S → S) (fuzzy : Bool) (bps : Blueprints) (ph : Nat → Option S) (c : Comp) : Option Info :=
  match lookupBp bps (c.stage, blueprintNameOld c) with
  | none => none
  | some exe => infoCore md5 fuzzy ph (imageOfOld c.backend) exe c.args c.refs

/-! ## serialisation and hash -/

def kBackend : S := "backend".toList
def kImage : S := "image".toList
def kCommand : S := "command".toList
def kArguments : S := "arguments".toList
def kExecutable : S := "executable".toList
def kFiles : S := "files".toList

def concat : List S → S
  | [] => []
  | x :: xs => x ++ concat xs

def serBackend : Option S → S
  | none => []
  | some i => kImage ++ i

/-- the buffer `_memoization_info_to_hash` feeds to md5: keys in ascending order, each followed by its
value, nothing in between -/
def serialize (i : Info) : S :=
  kBackend ++ (serBackend i.image ++ (kCommand ++ (kArguments ++ (i.args ++ (kExecutable ++ (i.exe ++
    (kFiles ++ concat (sortStr i.files))))))))

def hashInfo (md5 : S → S) (i : Info) : S := md5 (serialize i)

def getH (hs : List (Option S)) (p : Nat) : Option S :=
  match hs[p]? with
  | some (some h) => some h
  | _ => none

/-- `memoization_hash` / `memoization_hash_fuzzy` of one component given the hashes of the earlier ones -/
def hashOne (md5 : S → S) (fuzzy : Bool) (bps : Blueprints) (hs : List (Option S)) (c : Comp) : Option S :=
  (mkInfo md5 fuzzy bps (getH hs) c).map (hashInfo md5)

def hashOneOld (md5 : S → S) (fuzzy : Bool) (bps : Blueprints) (hs : List (Option S)) (c : Comp) : Option S :=
  (mkInfoOld md5 fuzzy bps (getH hs) c).map (hashInfo md5)

/-- recursion over the DAG: components in topological order, producer numbers refer to earlier positions -/
def hashesAux (md5 : S → S) (fuzzy : Bool) (bps : Blueprints) : List Comp → List (Option S) → List (Option S)
  | [], acc => acc
  | c :: cs, acc => hashesAux md5 fuzzy bps cs (acc ++ [hashOne md5 fuzzy bps acc c])

def hashes (md5 : S → S) (fuzzy : Bool) (bps : Blueprints) (cs : List Comp) : List (Option S) :=
  hashesAux md5 fuzzy bps cs []

def hashesOldAux (md5 : S → S) (fuzzy : Bool) (bps : Blueprints) : List Comp → List (Option S) → List (Option S)
  | [], acc => acc
  | c :: cs, acc => hashesOldAux md5 fuzzy bps cs (acc ++ [hashOneOld md5 fuzzy bps acc c])

def hashesOld (md5 : S → S) (fuzzy : Bool) (bps : Blueprints) (cs : List Comp) : List (Option S) :=
  hashesOldAux md5 fuzzy bps cs []

/-! ## a reference is one consumption: `info_files` is a dictionary keyed by `absoluteReference`

`dataReferences` may hold the same reference more than once (the reference stated twice in `references`, or
a producer reference stated with its relative and with its absolute spelling: both have the same
`absoluteReference`).  `info_files[d.absoluteReference] = …` makes them one entry.  The absolute reference
determines the location, the method and the file part, so which occurrence is kept is immaterial; the model
keeps the last one.  (Two references whose *paths* differ textually — `data/a` and `data/./a` — are two
references, two entries: that is what the code does.) -/

def dedupAbs : List Ref → List Ref
  | [] => []
  | r :: rs => if rs.any (fun r' => r'.abs == r.abs) then dedupAbs rs else r :: dedupAbs rs

/-- the component with every reference counted once -/
def Comp.distinctRefs (c : Comp) : Comp := { c with refs := dedupAbs c.refs }

/-- hashes of the components of a graph as the code computes them: `hashes` on the distinct references -/
def hashesD (md5 : S → S) (fuzzy : Bool) (bps : Blueprints) (cs : List Comp) : List (Option S) :=
  hashes md5 fuzzy bps (cs.map Comp.distinctRefs)

/-! ## a *set* of file entries (not the code: kept for `Witness.C16`)

`files` is a list — one `hash:method` entry per consumed file, equal entries repeated.  Building it as a set
identifies a component that consumes two files with the same contents with one that consumes one of them. -/

def dedupStr : List S → List S
  | [] => []
  | x :: xs => if xs.contains x then dedupStr xs else x :: dedupStr xs

def hashOneSet (md5 : S → S) (fuzzy : Bool) (bps : Blueprints) (hs : List (Option S)) (c : Comp) : Option S :=
  (mkInfo md5 fuzzy bps (getH hs) c).map (fun i => hashInfo md5 { i with files := dedupStr i.files })

/-- serialisations (pre-images) in the same recursion, for the driver -/
def sersAux (md5 : S → S) (fuzzy : Bool) (bps : Blueprints) :
    List Comp → List (Option S) → List (Option S) → List (Option S)
  | [], _, out => out
  | c :: cs, acc, out =>
    let i := mkInfo md5 fuzzy bps (getH acc) c
    sersAux md5 fuzzy bps cs (acc ++ [i.map (hashInfo md5)]) (out ++ [i.map serialize])

def sers (md5 : S → S) (fuzzy : Bool) (bps : Blueprints) (cs : List Comp) : List (Option S) :=
  sersAux md5 fuzzy bps cs [] []

def sersD (md5 : S → S) (fuzzy : Bool) (bps : Blueprints) (cs : List Comp) : List (Option S) :=
  sers md5 fuzzy bps (cs.map Comp.distinctRefs)

end St4sd.Hash
