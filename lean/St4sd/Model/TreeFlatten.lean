import St4sd.Model.Resolve
/-!
# `FlowIRConcrete.instance(platform, ignore_errors=True, fill_in_all=False, …)` — flattening (C04)

What the runtime executes is not the package description but its *flattened* form:
`FlowIRExperimentConfiguration(primitive=False)` replaces its `FlowIRConcrete` by
`FlowIRConcrete(self._unreplicated.replicate(platform, ignore_errors=True), platform)` (conf.py 1023-1034),
`replicate()` starts with `instance(platform, ignore_errors=True, fill_in_all=False)` (flowir.py 4956-4981)
and `store_unreplicated_flowir_to_disk` writes `instance(ignore_errors=True, inject_missing_fields=False,
is_primitive=True)` to `flowir_instance.yaml`.  `instance()` (flowir.py 5160-5449) folds the selected
platform into `default`:

* global variables  = default-global `update` platform-global (the default part is skipped when the platform
  *is* default), every value interpolated strictly in that context - a value with an unknown reference is
  kept as it is - and once more with `fill_in(ignore_errors=True)`;
* stage variables   = default-stage variables **minus the names the PLATFORM's global section defines**
  (that is what keeps "platform global outranks default stage" after the fold) `update` platform-stage,
  each interpolated strictly in global+stage context (unknown reference: kept);
* component         = `get_component_configuration(raw=True, include_default=False, platform)`, its
  `variables` = component variables `update` override variables, `fill_in(ignore_errors=True)` in
  global+stage+component context; `convert_component_types(ignore_convert_errors=True)`; only the override
  block of the selected platform is kept;
* blueprints        = `override_object(default, platform)` per scope (the stage scope repeats the platform's
  GLOBAL blueprint between the two when the default stage blueprint says something: `repeatsPlatformGlobal`),
  `fill_in(ignore_errors=True)`.

`flattenRaw` is the same fold without any interpolation / conversion (the layering skeleton; theorems
`flatten_preserves_layering`, `flatten_preserves_resolution` in Props/C04.lean), `flatten` the function
that is compared with the real `instance()` on every run.

Not modelled: `$import` (DoWhile) components, environments, output, status report, virtual environments,
application dependencies, interface; `ignore_errors=False`; `fill_in_all=True`.  The first interpolation
pass over the global variables mutates the dictionary it uses as context (later names see the already
interpolated earlier ones); the model interpolates every value in the un-interpolated context
(indistinguishable unless a value *creates* a reference by concatenation).
-/
namespace St4sd.Tree
open St4sd.Str

/-! ### interpolation that tolerates unknown variables -/

/-- end of `interpolate(ignore_errors=True)`: no incomplete-reference check -/
def finishSoft (s : S) : Except Err S := if s.contains '[' then .error .unsupported else .ok s

/-- `FlowIR.interpolate(s, ctx, ignore_errors=True, is_primitive=prim)`: a reference to an unknown variable -
or to a variable whose own (strict: the recursive call does not pass `ignore_errors` on) interpolation fails
with `FlowIRVariableUnknown` - is left in place and the search continues behind it -/
def interpSoft : Nat → Fields → Bool → S → S → Except Err S
  | 0, _, _, _, _ => .error .fuel
  | f + 1, ctx, prim, done, s =>
    match findRef s with
    | none => finishSoft (done ++ s)
    | some (pre, x, post) =>
      if x.contains '.' then .error .unsupported else
      match get ctx x with
      | none => interpSoft f ctx prim (done ++ pre ++ refText x) post
      | some (.str v) =>
        match interp f ctx prim [] v with
        | .ok v' => interpSoft f ctx prim done (pre ++ v' ++ post)
        | .error (.unknownVariable _) => interpSoft f ctx prim (done ++ pre ++ refText x) post
        | .error e => .error e
      | some (.int n) => interpSoft f ctx prim done (pre ++ intRepr n ++ post)
      | some (.bool b) => interpSoft f ctx prim done (pre ++ boolRepr b ++ post)
      | some (.flt r) => interpSoft f ctx prim done (pre ++ r ++ post)
      | some _ => .error .invalidVariable

mutual
/-- `FlowIR.fill_in(obj, ctx, ignore_errors=True, is_primitive=prim)` -/
def fillSoft (f : Nat) (ctx : Fields) (prim : Bool) : Val → Except Err Val
  | .str s => match interpSoft f ctx prim [] s with
    | .ok s' => .ok (.str s')
    | .error e => .error e
  | .list xs => match fillSoftList f ctx prim xs with
    | .ok xs' => .ok (.list xs')
    | .error e => .error e
  | .dict kvs => match fillSoftFields f ctx prim kvs with
    | .ok kvs' => .ok (.dict kvs')
    | .error e => .error e
  | v => .ok v
def fillSoftList (f : Nat) (ctx : Fields) (prim : Bool) : List Val → Except Err (List Val)
  | [] => .ok []
  | v :: r => match fillSoft f ctx prim v with
    | .error e => .error e
    | .ok v' => match fillSoftList f ctx prim r with
      | .error e => .error e
      | .ok r' => .ok (v' :: r')
def fillSoftFields (f : Nat) (ctx : Fields) (prim : Bool) : Fields → Except Err Fields
  | [] => .ok []
  | (k, v) :: r => match fillSoft f ctx prim v with
    | .error e => .error e
    | .ok v' => match fillSoftFields f ctx prim r with
      | .error e => .error e
      | .ok r' => .ok ((k, v') :: r')
end

/-- `try: v = FlowIR.interpolate(v, ctx) except FlowIRVariableUnknown: pass` (the loops over the global and
the stage variables): all or nothing.  A value that is not a string or a number is an
`InternalInconsistencyError` -/
def interpOrKeep (f : Nat) (ctx : Fields) (prim : Bool) : Val → Except Err Val
  | .str s => match interp f ctx prim [] s with
    | .ok r => .ok (.str r)
    | .error (.unknownVariable _) => .ok (.str s)
    | .error e => .error e
  | .int n => .ok (.int n)
  | .bool b => .ok (.bool b)
  | .flt r => .ok (.flt r)
  | _ => .error .inconsistent

/-- apply a partial function to every value of a dictionary (keys and their order are kept) -/
def mapFields (g : Val → Except Err Val) : Fields → Except Err Fields
  | [] => .ok []
  | (k, v) :: r => match g v with
    | .error e => .error e
    | .ok v' => match mapFields g r with
      | .error e => .error e
      | .ok r' => .ok ((k, v') :: r')

/-! ### the layering skeleton of the fold -/

/-- global variables of the flattened description, before interpolation -/
def flatGlobal0 (d : Desc) (P : S) : Fields :=
  update (if P = defaultName then [] else globalVars d defaultName) (globalVars d P)

/-- stage variables of the flattened description, before interpolation: the default-stage variables that a
PLATFORM-global variable shadows are removed, then the platform-stage variables are layered on top -/
def flatStage0 (d : Desc) (P : S) (i : Nat) : Fields :=
  update (if P = defaultName then stageVars d defaultName i
          else (stageVars d defaultName i).filter (fun kv => (get (globalVars d P) kv.1).isNone))
    (stageVars d P i)

/-- variables of a flattened component, before interpolation:
`get_component_variables(include_default_* = include_platform_{global,stage} = False)` -/
def flatCompVars0 (c : Comp) (P : S) : Fields := update (compVars c) (ovrVars c P)

/-- "keep just the override options for the currently selected platform" -/
def trimOverride (body : Fields) (P : S) : Except Err Fields :=
  match get body "override".toList with
  | none => .ok body
  | some (.dict o) =>
    match get o P with
    | some v => .ok (set body "override".toList (.dict [(P, v)]))
    | none => .ok (erase body "override".toList)
  | some _ => .error .inconsistent

def trimOverrideRaw (body : Fields) (P : S) : Fields :=
  match trimOverride body P with
  | .ok b => b
  | .error _ => body

/-- the stage indices that have components (each once) -/
def stagesOf : List Comp → List Nat
  | [] => []
  | c :: r => if (stagesOf r).contains c.stage then stagesOf r else c.stage :: stagesOf r

def flatPlatforms (P : S) : List S := if P = defaultName then [defaultName] else [defaultName, P]

/-- the component of the skeleton: own body, `variables` replaced, override trimmed -/
def flatCompRaw (P : S) (c : Comp) : Comp :=
  { c with body := trimOverrideRaw (set c.body "variables".toList (.dict (flatCompVars0 c P))) P }

/-- does `instance()` repeat the platform's GLOBAL blueprint inside the stage blueprint?  The flattened
description has two blueprint scopes only (global, stage): when the default STAGE blueprint says something
and `P` is not the default platform, the platform-global blueprint (which outranks it) is layered on top of it
before the platform-stage blueprint, so that the stage scope keeps the documented order -/
def repeatsPlatformGlobal (d : Desc) (P : S) (i : Nat) : Bool :=
  !falsy (bpStage d defaultName i) && !(P == defaultName)

/-- default stage blueprint (+ platform global blueprint, see `repeatsPlatformGlobal`) without clash checks -/
def stageBpBaseRaw (d : Desc) (P : S) (i : Nat) : Val :=
  if repeatsPlatformGlobal d P i then override (bpStage d defaultName i) (bpGlobal d P)
  else bpStage d defaultName i

/-- the fold without interpolation, type conversion and blueprint layering of the component bodies: what
`instance()` does to the SCOPES of the description -/
def flattenRaw (d : Desc) (P : S) : Desc :=
  { platforms := flatPlatforms P
    blueprint := [(defaultName, (override (bpGlobal d defaultName) (bpGlobal d P),
      (stagesOf d.comps).map fun i => (i, override (stageBpBaseRaw d P i) (bpStage d P i))))]
    variables := [(defaultName, { global := flatGlobal0 d P,
                                  stages := (stagesOf d.comps).map fun i => (i, flatStage0 d P i) })]
    comps := d.comps.map (flatCompRaw P) }

/-! ### `instance()` -/

/-- `convert_component_types(ignore_convert_errors=True)`: every leaf is converted on its own, a failing
conversion keeps the value (`unsupported` = outside the documented literal subset) -/
def convLeafSoft (t : Ty) (v : Val) : Except Err Val :=
  match convScalar t v with
  | .ok w => .ok w
  | .error .unsupported => .error .unsupported
  | .error _ => .ok v

mutual
def convertSoft : TyTree → Val → Except Err Val
  | .node fs, .dict kvs => match convertSoftFields fs kvs with
    | .ok kvs' => .ok (.dict kvs')
    | .error e => .error e
  | .leaf _, .dict kvs => .ok (.dict kvs)
  | .leaf t, v => if isScalar v then convLeafSoft t v else .ok v
  | .node _, v => .ok v
def convertSoftFields (fs : List (S × TyTree)) : Fields → Except Err Fields
  | [] => .ok []
  | (k, v) :: r =>
    match tyGet fs k with
    | none => match convertSoftFields fs r with
      | .ok r' => .ok ((k, v) :: r')
      | .error e => .error e
    | some t => match convertSoft t v with
      | .error e => .error e
      | .ok v' => match convertSoftFields fs r with
        | .ok r' => .ok ((k, v') :: r')
        | .error e => .error e
end

/-- the variable sections of the flattened description -/
structure FlatVars where
  global : Fields
  stages : List (Nat × Fields)
  deriving Repr, Inhabited

/-- global variables after the first, strict pass (unknown reference: value kept); the context of the stage loop -/
def flatGlobal1 (fuel : Nat) (d : Desc) (P : S) : Except Err Fields :=
  mapFields (interpOrKeep fuel (flatGlobal0 d P) false) (flatGlobal0 d P)

def flatStage (fuel : Nat) (d : Desc) (P : S) (prim : Bool) (g1 : Fields) (i : Nat) : Except Err Fields :=
  mapFields (interpOrKeep fuel (update g1 (flatStage0 d P i)) prim) (flatStage0 d P i)

def flatStages (fuel : Nat) (d : Desc) (P : S) (prim : Bool) (g1 : Fields) :
    List Nat → Except Err (List (Nat × Fields))
  | [] => .ok []
  | i :: r => match flatStage fuel d P prim g1 i with
    | .error e => .error e
    | .ok s => match flatStages fuel d P prim g1 r with
      | .error e => .error e
      | .ok r' => .ok ((i, s) :: r')

def flatVars (fuel : Nat) (d : Desc) (P : S) (prim : Bool) : Except Err FlatVars :=
  match flatGlobal1 fuel d P with
  | .error e => .error e
  | .ok g1 =>
    match flatStages fuel d P prim g1 (stagesOf d.comps) with
    | .error e => .error e
    | .ok st =>
      match fillSoftFields fuel g1 prim g1 with
      | .error e => .error e
      | .ok g2 => .ok ⟨g2, st⟩

/-- one component of the flattened description -/
def flatComp (fuel : Nat) (d : Desc) (P : S) (prim inject : Bool) (fv : FlatVars) (c : Comp) : Except Err Comp :=
  match resolveCompF d P c ⟨true, false, prim, inject⟩ fuel with
  | .error e => .error e
  | .ok (.dict kvs) =>
    let cv := dictOr (get kvs "variables".toList)
    let ctx := update (update fv.global ((lookupN fv.stages c.stage).getD [])) cv
    match fillSoftFields fuel ctx prim (flatCompVars0 c P) with
    | .error e => .error e
    | .ok cv1 =>
      match convertSoft St4sd.Gen.C04.typeTable (.dict (set kvs "variables".toList (.dict cv1))) with
      | .error e => .error e
      | .ok (.dict kvs2) =>
        match trimOverride kvs2 P with
        | .error e => .error e
        | .ok body => .ok { c with body := body }
      | .ok _ => .error .inconsistent
  | .ok _ => .error .inconsistent

def flatComps (fuel : Nat) (d : Desc) (P : S) (prim inject : Bool) (fv : FlatVars) : List Comp → Except Err (List Comp)
  | [] => .ok []
  | c :: r => match flatComp fuel d P prim inject fv c with
    | .error e => .error e
    | .ok c' => match flatComps fuel d P prim inject fv r with
      | .error e => .error e
      | .ok r' => .ok (c' :: r')

def flatBlueprint (fuel : Nat) (ctx : Fields) (prim : Bool) (lo hi : Val) : Except Err Val :=
  if clash lo hi then .error .typeClash else fillSoft fuel ctx prim (override lo hi)

/-- `override_object(default stage blueprint, platform global blueprint)` when `repeatsPlatformGlobal` -/
def stageBpBase (d : Desc) (P : S) (i : Nat) : Except Err Val :=
  if repeatsPlatformGlobal d P i then
    (if clash (bpStage d defaultName i) (bpGlobal d P) then .error .typeClash
     else .ok (override (bpStage d defaultName i) (bpGlobal d P)))
  else .ok (bpStage d defaultName i)

def flatStageBlueprints (fuel : Nat) (d : Desc) (P : S) (prim : Bool) (fv : FlatVars) :
    List Nat → Except Err (List (Nat × Val))
  | [] => .ok []
  | i :: r =>
    match stageBpBase d P i with
    | .error e => .error e
    | .ok lo =>
      match flatBlueprint fuel (update fv.global ((lookupN fv.stages i).getD [])) prim lo (bpStage d P i) with
      | .error e => .error e
      | .ok b => match flatStageBlueprints fuel d P prim fv r with
        | .error e => .error e
        | .ok r' => .ok ((i, b) :: r')

/-- `FlowIRConcrete.instance(P, ignore_errors=True, fill_in_all=False, is_primitive=prim,
inject_missing_fields=inject)` as a description -/
def flatten (fuel : Nat) (d : Desc) (P : S) (prim inject : Bool) : Except Err Desc :=
  if !d.platforms.contains P then .error .platformUnknown else
  match flatVars fuel d P prim with
  | .error e => .error e
  | .ok fv =>
    match flatComps fuel d P prim inject fv d.comps with
    | .error e => .error e
    | .ok comps =>
      match flatBlueprint fuel fv.global prim (bpGlobal d defaultName) (bpGlobal d P) with
      | .error e => .error e
      | .ok gb =>
        match flatStageBlueprints fuel d P prim fv (stagesOf d.comps) with
        | .error e => .error e
        | .ok sb =>
          .ok { platforms := flatPlatforms P
                blueprint := [(defaultName, (gb, sb))]
                variables := [(defaultName, { global := fv.global, stages := fv.stages })]
                comps := comps }

end St4sd.Tree
