import St4sd.Model.ValSchema
import St4sd.Model.Str
/-!
# C11 — abstract workflow document and `validate`

An abstract FlowIR document: components with stage, name, declared references to producer components,
component references mentioned in the command line, options (a `Val` tree checked against a schema after the
type conversion), own variables and the variables they mention; global variables.

`validate tbl sch d` returns the list of problems the loader collects; the workflow loads iff the list is empty.
It stands for (python/experiment/model/…):

* unique identifiers — `FlowIRConcrete.refresh_component_dictionary` (`FlowIRInconsistency: Component … exists
  multiple times`);
* options — `FlowIR.convert_component_types` then `validate_object_schema` against
  `FlowIR.type_flowir_component` (`ValSchema.optErrors`);
* references — `FlowIR.validate_component`/`validate_references`: every declared reference to a component must be
  a component identifier or a loop placeholder `(stage, name)` of some component `(stage, "<iteration>#name")`;
  every component reference in the arguments must be declared (`FlowIRUnknownReferenceInArguments`);
* variables — `FlowIR.fill_in`/`interpolate`: every `%(x)s` mentioned by the component or, transitively, by the
  value of a variable it mentions must be defined in the scope of the component (`defsOf`: its own variables, the
  user's variables files for its stage and globally — `FlowIRExperimentConfiguration._patch_in_variable_files`,
  `layer_many_variable_files` —, the active platform's and `default`'s variables for its stage and globally —
  `FlowIRConcrete.get_component_variables`), without circular definitions (`resolveVar` with fuel; the Python
  recursion is cut by its own loop detection/`RecursionError` handling);
* acyclicity — `networkx.topological_sort` in `replicate` / `networkx.find_cycle` in
  `ComponentSpecification.checkDataReferences` (trusted) are represented by Kahn's algorithm with fuel.  The graph
  it runs on is the replica-propagation graph of `FlowIR.propagate_replicate`: one producer → consumer edge per
  declared component reference, whatever the `replicate`/`aggregate` attributes of the two ends are; a reference
  to a loop placeholder `(stage, name)` gives an edge from the last instance `(stage, "<k>#name")`.  It is the
  loader's only cycle check before the graph is expanded;
* replication — `FlowIR.propagate_replicate` (`cnt`, `replErrors`: a component takes the `replicate` value of
  its non-aggregating producers, all of which must agree with each other and with its own) and
  `FlowIR.apply_replicate` / `compile_component_replica` / `compile_component_aggregate` (`expandDoc`: replica
  `k` of `name` is `name<k>` and consumes replica `k` of its replicated producers, an aggregating component
  keeps its name and consumes every replica); the expanded document is loaded again
  (`FlowIRConcrete.refresh_component_dictionary`: duplicate identifiers after the expansion are reported).
No Mathlib.
-/
namespace St4sd.Validate
open St4sd.ValSchema

abbrev Id := Nat × S

structure Comp where
  stage : Nat
  name : S
  refs : List Id
  argRefs : List Id
  opts : Val
  vars : List (S × List S)
  uses : List S
  /-- `workflowAttributes.replicate` after variable substitution and `int()` (`none` = not set) -/
  replicate : Option Nat := none
  /-- `workflowAttributes.aggregate` after `to_bool` -/
  aggregate : Bool := false
  deriving Inhabited

/-- one user variables file (`elaunch --variables` / `variable_files=[…]`): a `global` section and `stages`
sections, each a list of definitions `(name, variables mentioned by the value)` -/
structure UserVars where
  globals : List (S × List S) := []
  stages : List (Nat × List (S × List S)) := []
  deriving Inhabited

structure Doc where
  comps : List Comp
  /-- `variables.default.global` -/
  globals : List (S × List S)
  /-- `variables.default.stages`: `(stage index, definitions)` -/
  stageVars : List (Nat × List (S × List S)) := []
  /-- `variables.<active platform>.global` (empty when the active platform is `default`) -/
  platGlobals : List (S × List S) := []
  /-- `variables.<active platform>.stages` (empty when the active platform is `default`) -/
  platStageVars : List (Nat × List (S × List S)) := []
  /-- the user variables files in the order given (a later file overrides an earlier one) -/
  userFiles : List UserVars := []
  deriving Inhabited

inductive Err where
  | duplicate (i : Id)
  | option (c : Id) (e : SErr)
  | unknownReference (c : Id) (r : Id)
  | undeclaredReferenceInArguments (c : Id) (r : Id)
  | undefinedVariable (c : Id) (v : S)
  | cycle
  | inconsistentReplicate (c : Id)
  | duplicateAfterReplication (i : Id)
  deriving DecidableEq, Repr

def Comp.id (c : Comp) : Id := (c.stage, c.name)

def ids (d : Doc) : List Id := d.comps.map Comp.id

/-- `name.split('#', 1)[1]` when the name contains `#` -/
def afterHash : S → Option S
  | [] => none
  | '#' :: rest => some rest
  | _ :: rest => afterHash rest

/-- loop placeholders: `(stage, base)` for each component `(stage, "<iter>#base")` -/
def placeholders (d : Doc) : List Id :=
  d.comps.filterMap (fun c => (afterHash c.name).map (fun b => (c.stage, b)))

def refResolves (d : Doc) (r : Id) : Bool := (ids d).contains r || (placeholders d).contains r

/-- duplicates: one error per identifier that occurs again later in the list -/
def dupErrors : List Id → List Err
  | [] => []
  | i :: rest => (if rest.contains i then [Err.duplicate i] else []) ++ dupErrors rest

/-! ### variables -/

/-- `%(v)s` can be substituted: `v` is defined and everything its value mentions can be, within `fuel` nestings -/
def resolveVar (defs : List (S × List S)) : Nat → S → Bool
  | 0, _ => false
  | fuel + 1, v =>
    match lookup v defs with
    | none => false
    | some used => used.all (fun u => resolveVar defs fuel u)

/-- the definitions a list of stage sections holds for stage `s` -/
def sectionOf (l : List (Nat × List (S × List S))) (s : Nat) : List (S × List S) :=
  (l.filter (fun p => p.1 == s)).flatMap (·.2)

/-- `layer_many_variable_files`: the `global` sections of the user's files, the last file first (it wins) -/
def userGlobals (d : Doc) : List (S × List S) := d.userFiles.reverse.flatMap (·.globals)

/-- … and their sections for stage `s` -/
def userStage (d : Doc) (s : Nat) : List (S × List S) := d.userFiles.reverse.flatMap (fun f => sectionOf f.stages s)

/-- The variable scope of a component, highest priority first (`lookup` takes the first definition):
its own variables; what `_patch_in_variable_files` writes into the stage scope of every platform for ITS stage
(the user's `stages[stage]` section over the user's `global` section); the active platform's variables for its
stage, the platform's global variables; `default`'s variables for its stage, `default`'s global variables
(`FlowIRConcrete.get_component_variables`).  No section of another stage is part of it. -/
def defsOf (d : Doc) (c : Comp) : List (S × List S) :=
  c.vars ++ userStage d c.stage ++ userGlobals d ++ sectionOf d.platStageVars c.stage ++ d.platGlobals ++
  sectionOf d.stageVars c.stage ++ d.globals

def varErrors (d : Doc) (c : Comp) : List Err :=
  (c.uses.filter (fun v => !resolveVar (defsOf d c) ((defsOf d c).length + 1) v)).map
    (fun v => Err.undefinedVariable c.id v)

/-! ### references -/

def refErrors (d : Doc) (c : Comp) : List Err :=
  ((c.refs.filter (fun r => !refResolves d r)).map (fun r => Err.unknownReference c.id r)) ++
  ((c.argRefs.filter (fun r => !c.refs.contains r)).map (fun r => Err.undeclaredReferenceInArguments c.id r))

/-! ### graph and Kahn's algorithm -/

/-- producer → consumer edges, one per declared reference that is a component identifier -/
def compEdges (d : Doc) : List (Id × Id) :=
  d.comps.flatMap (fun c => (c.refs.filter (fun r => (ids d).contains r)).map (fun r => (r, c.id)))

/-- the component a reference to a loop placeholder stands for in the propagation graph: `propagate_replicate`
maps the placeholder `(stage, name)` to the LAST component `(stage, "<k>#name")` of the document -/
def placeholderInst (d : Doc) (r : Id) : Option Id :=
  ((d.comps.filter (fun c => c.stage == r.1 && afterHash c.name == some r.2)).getLast?).map Comp.id

/-- … and the edge for a declared reference that is not a component identifier but a placeholder -/
def placeholderEdges (d : Doc) : List (Id × Id) :=
  d.comps.flatMap (fun c => c.refs.filterMap (fun r =>
    if (ids d).contains r then none else (placeholderInst d r).map (fun s => (s, c.id))))

/-- the graph the loader's cycle check runs on -/
def edges (d : Doc) : List (Id × Id) := compEdges d ++ placeholderEdges d

/-- rank of a node in the association list built so far -/
def rankOf (ranks : List (Id × Nat)) (v : Id) : Option Nat := (ranks.find? (fun p => p.1 == v)).map (·.2)

def isRanked (ranks : List (Id × Nat)) (v : Id) : Bool := (rankOf ranks v).isSome

/-- nodes not yet ranked all of whose producers are ranked -/
def ready (es : List (Id × Id)) (ranks : List (Id × Nat)) (nodes : List Id) : List Id :=
  nodes.filter (fun v => !isRanked ranks v && es.all (fun e => !(e.2 == v) || isRanked ranks e.1))

/-- Kahn's algorithm by rounds: round `r` ranks every ready node with `r`; stops when nothing is ready or the
fuel is used up.  Returns the ranks. -/
def kahn (es : List (Id × Id)) (nodes : List Id) : Nat → Nat → List (Id × Nat) → List (Id × Nat)
  | 0, _, ranks => ranks
  | fuel + 1, r, ranks =>
    match ready es ranks nodes with
    | [] => ranks
    | v :: vs => kahn es nodes fuel (r + 1) (((v :: vs).map (fun x => (x, r))) ++ ranks)

def kahnRanks (d : Doc) : List (Id × Nat) := kahn (edges d) (ids d) (ids d).length 0 []

/-- the graph is acyclic as far as Kahn's algorithm can tell: every node got a rank -/
def acyclicB (d : Doc) : Bool := (ids d).all (isRanked (kahnRanks d))

/-! ### replication: `propagate_replicate` and `apply_replicate` -/

def findComp (d : Doc) (i : Id) : Option Comp := d.comps.find? (fun c => c.id == i)

/-- `replicate_instructions[i][1]` -/
def isAgg (d : Doc) (i : Id) : Bool :=
  match findComp d i with
  | some c => c.aggregate
  | none => false

/-- the producers whose `replicate` value flows into `c`: declared references to non-aggregating components -/
def feeders (d : Doc) (c : Comp) : List Id := c.refs.filter (fun r => (ids d).contains r && !isAgg d r)

def firstSome : List (Option Nat) → Option Nat
  | [] => none
  | some k :: _ => some k
  | none :: rest => firstSome rest

/-- the propagated `replicate` of a component: its own value or that of a feeder (they must agree, see
`replErrors`); the recursion follows producer edges, `fuel` bounds the depth -/
def propagated (d : Doc) : Nat → Id → Option Nat
  | 0, _ => none
  | fuel + 1, v =>
    match findComp d v with
    | none => none
    | some c => firstSome (c.replicate :: (feeders d c).map (propagated d fuel))

/-- number of replicas (`0`: not replicated) -/
def cnt (d : Doc) (i : Id) : Nat := (propagated d ((ids d).length + 1) i).getD 0

/-- "Replicate values of … predecessors are not consistent": every feeder that is replicated has the count of
the component -/
def replOk (d : Doc) (c : Comp) : Bool :=
  (feeders d c).all (fun r => cnt d r == 0 || cnt d c.id == cnt d r)

def replErrors (d : Doc) : List Err :=
  (d.comps.filter (fun c => !replOk d c)).map (fun c => Err.inconsistentReplicate c.id)

/-- the reference `r` is rewritten for the replicas / expanded by the aggregators that consume it -/
def rewrites (d : Doc) (r : Id) : Bool := (ids d).contains r && !isAgg d r && decide (0 < cnt d r)

def replName (n : S) (k : Nat) : S := n ++ St4sd.Str.natToDigits k

def replicaRef (d : Doc) (k : Nat) (r : Id) : Id := if rewrites d r then (r.1, replName r.2 k) else r

def aggRefs (d : Doc) (n : Nat) (r : Id) : List Id :=
  if rewrites d r then (List.range n).map (fun k => (r.1, replName r.2 k)) else [r]

/-- `apply_replicate` on one component -/
def expandComp (d : Doc) (c : Comp) : List Comp :=
  if rewrites d c.id then
    (List.range (cnt d c.id)).map (fun k =>
      { c with name := replName c.name k, refs := c.refs.map (replicaRef d k),
               argRefs := c.argRefs.map (replicaRef d k) })
  else if isAgg d c.id then
    [{ c with refs := c.refs.flatMap (aggRefs d (cnt d c.id)),
              argRefs := c.argRefs.flatMap (aggRefs d (cnt d c.id)) }]
  else [c]

/-- the expanded (replicated) document: what the workflow graph is built from -/
def expandDoc (d : Doc) : Doc := { d with comps := d.comps.flatMap (expandComp d) }

def dupErrorsExpanded : List Id → List Err
  | [] => []
  | i :: rest => (if rest.contains i then [Err.duplicateAfterReplication i] else []) ++ dupErrorsExpanded rest

/-! ### the whole check -/

def compErrors (tbl : List (S × Conv)) (sch : Schema) (d : Doc) (c : Comp) : List Err :=
  ((optErrors tbl sch c.opts).map (Err.option c.id)) ++ refErrors d c ++ varErrors d c

def validate (tbl : List (S × Conv)) (sch : Schema) (d : Doc) : List Err :=
  dupErrors (ids d) ++ d.comps.flatMap (compErrors tbl sch d) ++ (if acyclicB d then [] else [Err.cycle]) ++
  replErrors d ++ dupErrorsExpanded (ids (expandDoc d))

def accepts (tbl : List (S × Conv)) (sch : Schema) (d : Doc) : Bool := (validate tbl sch d).isEmpty

end St4sd.Validate
