import St4sd.Model.ValSchema
/-!
# C11 — abstract workflow document and `validate`

An abstract FlowIR document: components with stage, name, declared references to producer components,
component references mentioned in the command line, options (a `Val` tree checked against a schema after the
type conversion), own variables and the variables they mention; global variables.

`validate tbl sch d` returns the list of problems the loader collects; the workflow loads iff the list is empty.
It stands for (python/experiment/model/…):

* unique identifiers — `FlowIRConcrete.refresh_component_dictionary` (`FlowIRInconsistency: Component … exists
  multiple times`);
* options — `FlowIR.convert_component_types` then `validate_object_schema` against
  `FlowIR.type_flowir_component` (`ValSchema.optErrors`);
* references — `FlowIR.validate_component`/`validate_references`: every declared reference to a component must be
  a component identifier or a loop placeholder `(stage, name)` of some component `(stage, "<iteration>#name")`;
  every component reference in the arguments must be declared (`FlowIRUnknownReferenceInArguments`);
* variables — `FlowIR.fill_in`/`interpolate`: every `%(x)s` mentioned by the component or, transitively, by the
  value of a variable it mentions must be defined by the component or globally, without circular definitions
  (`resolveVar` with fuel; the Python recursion is cut by its own loop detection/`RecursionError` handling);
* acyclicity — `networkx.topological_sort` in `replicate` / `networkx.find_cycle` in
  `ComponentSpecification.checkDataReferences` (trusted) are represented by Kahn's algorithm with fuel.
No Mathlib.
-/
namespace St4sd.Validate
open St4sd.ValSchema

abbrev Id := Nat × S

structure Comp where
  stage : Nat
  name : S
  refs : List Id
  argRefs : List Id
  opts : Val
  vars : List (S × List S)
  uses : List S
  deriving Inhabited

structure Doc where
  comps : List Comp
  globals : List (S × List S)
  deriving Inhabited

inductive Err where
  | duplicate (i : Id)
  | option (c : Id) (e : SErr)
  | unknownReference (c : Id) (r : Id)
  | undeclaredReferenceInArguments (c : Id) (r : Id)
  | undefinedVariable (c : Id) (v : S)
  | cycle
  deriving DecidableEq, Repr

def Comp.id (c : Comp) : Id := (c.stage, c.name)

def ids (d : Doc) : List Id := d.comps.map Comp.id

/-- `name.split('#', 1)[1]` when the name contains `#` -/
def afterHash : S → Option S
  | [] => none
  | '#' :: rest => some rest
  | _ :: rest => afterHash rest

/-- loop placeholders: `(stage, base)` for each component `(stage, "<iter>#base")` -/
def placeholders (d : Doc) : List Id :=
  d.comps.filterMap (fun c => (afterHash c.name).map (fun b => (c.stage, b)))

def refResolves (d : Doc) (r : Id) : Bool := (ids d).contains r || (placeholders d).contains r

/-- duplicates: one error per identifier that occurs again later in the list -/
def dupErrors : List Id → List Err
  | [] => []
  | i :: rest => (if rest.contains i then [Err.duplicate i] else []) ++ dupErrors rest

/-! ### variables -/

/-- `%(v)s` can be substituted: `v` is defined and everything its value mentions can be, within `fuel` nestings -/
def resolveVar (defs : List (S × List S)) : Nat → S → Bool
  | 0, _ => false
  | fuel + 1, v =>
    match lookup v defs with
    | none => false
    | some used => used.all (fun u => resolveVar defs fuel u)

def defsOf (d : Doc) (c : Comp) : List (S × List S) := c.vars ++ d.globals

def varErrors (d : Doc) (c : Comp) : List Err :=
  (c.uses.filter (fun v => !resolveVar (defsOf d c) ((defsOf d c).length + 1) v)).map
    (fun v => Err.undefinedVariable c.id v)

/-! ### references -/

def refErrors (d : Doc) (c : Comp) : List Err :=
  ((c.refs.filter (fun r => !refResolves d r)).map (fun r => Err.unknownReference c.id r)) ++
  ((c.argRefs.filter (fun r => !c.refs.contains r)).map (fun r => Err.undeclaredReferenceInArguments c.id r))

/-! ### graph and Kahn's algorithm -/

/-- producer → consumer edges, one per declared reference that is a component identifier -/
def edges (d : Doc) : List (Id × Id) :=
  d.comps.flatMap (fun c => (c.refs.filter (fun r => (ids d).contains r)).map (fun r => (r, c.id)))

/-- rank of a node in the association list built so far -/
def rankOf (ranks : List (Id × Nat)) (v : Id) : Option Nat := (ranks.find? (fun p => p.1 == v)).map (·.2)

def isRanked (ranks : List (Id × Nat)) (v : Id) : Bool := (rankOf ranks v).isSome

/-- nodes not yet ranked all of whose producers are ranked -/
def ready (es : List (Id × Id)) (ranks : List (Id × Nat)) (nodes : List Id) : List Id :=
  nodes.filter (fun v => !isRanked ranks v && es.all (fun e => !(e.2 == v) || isRanked ranks e.1))

/-- Kahn's algorithm by rounds: round `r` ranks every ready node with `r`; stops when nothing is ready or the
fuel is used up.  Returns the ranks. -/
def kahn (es : List (Id × Id)) (nodes : List Id) : Nat → Nat → List (Id × Nat) → List (Id × Nat)
  | 0, _, ranks => ranks
  | fuel + 1, r, ranks =>
    match ready es ranks nodes with
    | [] => ranks
    | v :: vs => kahn es nodes fuel (r + 1) (((v :: vs).map (fun x => (x, r))) ++ ranks)

def kahnRanks (d : Doc) : List (Id × Nat) := kahn (edges d) (ids d) (ids d).length 0 []

/-- the graph is acyclic as far as Kahn's algorithm can tell: every node got a rank -/
def acyclicB (d : Doc) : Bool := (ids d).all (isRanked (kahnRanks d))

/-! ### the whole check -/

def compErrors (tbl : List (S × Conv)) (sch : Schema) (d : Doc) (c : Comp) : List Err :=
  ((optErrors tbl sch c.opts).map (Err.option c.id)) ++ refErrors d c ++ varErrors d c

def validate (tbl : List (S × Conv)) (sch : Schema) (d : Doc) : List Err :=
  dupErrors (ids d) ++ d.comps.flatMap (compErrors tbl sch d) ++ (if acyclicB d then [] else [Err.cycle])

def accepts (tbl : List (S × Conv)) (sch : Schema) (d : Doc) : Bool := (validate tbl sch d).isEmpty

end St4sd.Validate
