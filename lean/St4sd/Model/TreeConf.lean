import St4sd.Model.Resolve
/-!
# Variable files in the INI flavour (`*.conf`) (C04)

Model of `FlowIRExperimentConfiguration.read_user_variables` for a path that ends in `.conf`:
`DOSINIExperimentConfiguration._fetch_user_variables` (conf.py) on top of `Dosini.fetch_user_variables` /
`dosini_to_dict` (frontends/dosini.py).

The input (`ConfFile`) is what `configparser` hands out for a file WITHOUT a `[DEFAULT]` section: the
sections in file order with their options (option names keep their letter case, values are the raw texts,
sections with the same spelling were merged by the parser: the names are distinct).

* a section whose upper-cased name is `DEFAULT` is skipped by `dosini_to_dict`;
* the section spelled exactly `GLOBAL` becomes the `global` scope;
* every other section must be called `stage<index>` in ANY letter case: `name.lower().startswith('stage')`,
  its scope is `stages[int(name[5:])]` (`stageSectionIndex`); any other name raises;
* two sections that name the same stage in different spellings: the later one REPLACES the earlier one.

`int()` is modelled on `[white space] digits [white space]` (leading zeros included).
-/
namespace St4sd.Tree
open St4sd.Str

/-- what `configparser` yields: `(section name, options)` in file order -/
abbrev ConfFile := List (S × Fields)

def stageWord : S := "stage".toList
def globalSection : S := "GLOBAL".toList
def defaultWord : S := "default".toList

/-- `int(text)` on `[white space] digits [white space]` -/
def confInt? (t : S) : Option Nat := digitsToNat? (strip t)

/-- the section-name → scope map of the `.conf` loader: `if name.lower().startswith('stage'): int(name[5:])`
(`none`: the loader raises) -/
def stageSectionIndex (name : S) : Option Nat :=
  if startsWith (lower name) stageWord then confInt? (name.drop 5) else none

/-- `dosini_to_dict`: sections whose upper-cased name is `DEFAULT` are not sections -/
def confSections (cf : ConfFile) : ConfFile := cf.filter (fun e => lower e.1 != defaultWord)

/-- the `global` scope: the options of `[GLOBAL]` (exact spelling) -/
def confGlobal (cf : ConfFile) : Fields := (lookupS (confSections cf) globalSection).getD []

/-- everything but `[GLOBAL]` has to be a stage section -/
def confStageSections (cf : ConfFile) : ConfFile := (confSections cf).filter (fun e => e.1 != globalSection)

/-- `for name in sections: stages[index(name)] = sections[name]` -/
def confStagesAux : ConfFile → List (Nat × Fields) → Option (List (Nat × Fields))
  | [], acc => some acc
  | (n, f) :: r, acc =>
    match stageSectionIndex n with
    | some i => confStagesAux r (setN acc i f)
    | none => none

/-- `read_user_variables("….conf")`; `none`: a section is neither `GLOBAL` nor `stage<index>` (the loader raises) -/
def confUser (cf : ConfFile) : Option UserVars :=
  match confStagesAux (confStageSections cf) [] with
  | some st => some ⟨confGlobal cf, st⟩
  | none => none

/-- the options of the LAST section of the list that names stage `i` -/
def sectionFor : ConfFile → Nat → Option Fields
  | [], _ => none
  | (n, f) :: r, i =>
    match sectionFor r i with
    | some g => some g
    | none => if stageSectionIndex n = some i then some f else none

/-- the canonical spelling `STAGE<i>` -/
def stageSectionName (i : Nat) : S := "STAGE".toList ++ natToDigits i

end St4sd.Tree
