import St4sd.Gen.C12
/-!
# Restart policy of a component's task (property C12)

Models, in the coded order of their tests,

* `Engine.restart` (engine.py 811-1018): budget check before anything else, `restarts` incremented
  *before* the hook is asked, hook protocol (string context / bool / raising / IOError / junk, the
  DLMESO fallback when no hook module can be imported), context -> code decision, `run()`, and the
  `_resubmissionAttempts` increment on an initiated `SubmissionFailed` restart;
* `Engine.run` as far as the counters are concerned (engine.py 426-806): `LaunchTask` either creates a Task
  object (`taskCreated`: `SetLaunchTime` records the launch time and touches no counter) or the task generator
  raises (no task: `SubmissionFailed` for OSError/JobLaunchError, `UnknownIssue` otherwise); `HandleTaskExit`
  hands the task's own exit reason to `_setExitReason`;
* `Engine._setExitReason` (engine.py 1092-1113): `Success` — and nothing else — resets `_resubmissionAttempts`;
* `RepeatingEngine.restart` (engine.py 2074-2156): at most one restart, only for `ResourceExhausted`
  (*repaired*: honours an explicit `maxRestarts` and `restartHookOn`; `repeatingRestartOld` is the code before the repair);
* `ComponentState.restart` (workflow.py 624-639): raises after the engine was shut down;
* `Controller._restartComponent` (control.py 1883-1974): three branches, exceptions of the restart are
  swallowed and leave `RestartCouldNotInitiate` (*repaired*: the `SubmissionFailed`/cap branch is tested
  first; `ctrlRestartOld` is the order before the repair: `restartHookOn` first);
* `Controller.postMortemCheck` (control.py 1981-2030): anything but `RestartInitiated` gives the component
  its final state, which shuts the engine down.

The numbers (cap of consecutive resubmissions, default maxima, the "no limit" marker) and the
context -> code table come from `St4sd.Gen.C12`, regenerated from the sources on every run.
-/
namespace St4sd.Restart
open St4sd.Gen

/-- `experiment.model.codes.exitReasons` -/
inductive Reason where
  | success | knownIssue | systemIssue | submissionFailed | unknownIssue | killed | cancelled | resourceExhausted
  deriving DecidableEq, Repr

def Reason.all : List Reason :=
  [.success, .knownIssue, .systemIssue, .submissionFailed, .unknownIssue, .killed, .cancelled, .resourceExhausted]

def Reason.name : Reason → String
  | .success => "Success" | .knownIssue => "KnownIssue" | .systemIssue => "SystemIssue"
  | .submissionFailed => "SubmissionFailed" | .unknownIssue => "UnknownIssue" | .killed => "Killed"
  | .cancelled => "Cancelled" | .resourceExhausted => "ResourceExhausted"

/-- `experiment.model.codes.restartContexts` -/
inductive RCtx where
  | possible | hookNotAvailable | notRequired | notPossible | hookFailed | conditionsNotMet
  deriving DecidableEq, Repr

def RCtx.all : List RCtx := [.possible, .hookNotAvailable, .notRequired, .notPossible, .hookFailed, .conditionsNotMet]

def RCtx.name : RCtx → String
  | .possible => "RestartContextRestartPossible" | .hookNotAvailable => "RestartContextHookNotAvailable"
  | .notRequired => "RestartContextRestartNotRequired" | .notPossible => "RestartContextRestartNotPossible"
  | .hookFailed => "RestartContextHookFailed" | .conditionsNotMet => "RestartContextRestartConditionsNotMet"

/-- `experiment.model.codes.restartCodes` -/
inductive Code where
  | initiated | notRequired | couldNotInitiate | maxAttemptsExceeded
  deriving DecidableEq, Repr

def Code.all : List Code := [.initiated, .notRequired, .couldNotInitiate, .maxAttemptsExceeded]

def Code.name : Code → String
  | .initiated => "RestartInitiated" | .notRequired => "RestartNotRequired"
  | .couldNotInitiate => "RestartCouldNotInitiate" | .maxAttemptsExceeded => "RestartMaxAttemptsExceeded"

/-- What the restart hook does when it is asked. -/
inductive HookAns where
  | ctx (c : RCtx)   -- returns one of the restartContexts strings
  | yes | no         -- old interface: returns a bool
  | raises           -- raises an exception that is not an IOError
  | ioError          -- raises IOError/OSError
  | junk             -- returns anything else (int, None, unknown string, list …)
  deriving DecidableEq, Repr

/-- What importing the hook module gives. -/
inductive HookModule where
  | fallback   -- `restartHookFile == ''`, or the file cannot be read (ImportError/IOError): DLMESORestart is used
  | scripted   -- the module imports and has a callable `Restart`
  | broken     -- importing raises something else (SyntaxError, no attribute `Restart`): the exception leaves `Engine.restart`
  deriving DecidableEq, Repr

structure Cfg where
  /-- `workflowAttributes.maxRestarts` (None = unset) -/
  maxRestarts : Option Int
  /-- `workflowAttributes.restartHookFile` is a non-empty string -/
  hookFileNamed : Bool
  /-- `workflowAttributes.restartHookOn` -/
  hookOn : List Reason
  /-- backend `simulator` with `sim_restart` in yes/true -/
  simulator : Bool
  /-- the component has a RepeatingEngine -/
  repeating : Bool
  hookModule : HookModule
  deriving Repr

/-- How the launch that precedes a task exit went (`Engine.run`: `LaunchTask`, `SetLaunchTime`). -/
inductive Launch where
  /-- the task generator returned a Task object (the `taskCreated` event); the task later exits and reports its
  own exit reason — which may be `SubmissionFailed` (kubernetes image pull, LSF TERM_* codes) -/
  | task
  /-- the generator raised OSError / JobLaunchError: no task, `HandleTaskExit` reports `SubmissionFailed` -/
  | submitError
  /-- the generator raised anything else: no task, `UnknownIssue` -/
  | otherError
  /-- no launch precedes the exit (an exit reported on an engine that was not launched again; RepeatingEngine) -/
  | none
  deriving DecidableEq, Repr

/-- One task exit and everything the environment decides around the restart attempt that follows. -/
structure Inp where
  /-- the exit reason the engine reports (`Engine.exitReason()`) -/
  reason : Reason
  /-- answer of the hook, if it is asked -/
  hook : HookAns
  /-- a DLMESO `CONTROL` file exists in the working directory (only read by the fallback hook) -/
  control : Bool
  /-- `run()` (Engine) / starting the restart thread (RepeatingEngine) raises -/
  runFails : Bool
  /-- `MonitorExceptionTracker.isSystemStable` -/
  stable : Bool
  /-- how the launch before this exit went -/
  launch : Launch
  deriving Repr

/-- consistency of `launch` and `reason` as `HandleTaskExit` produces them (the theorems do not need it) -/
def Inp.wf (i : Inp) : Bool :=
  match i.launch with
  | .submitError => decide (i.reason = .submissionFailed)
  | .otherError => decide (i.reason = .unknownIssue)
  | _ => true

structure St where
  /-- `Engine.restarts` -/
  restarts : Nat
  /-- `Engine._resubmissionAttempts` -/
  resub : Nat
  /-- number of `run()` invocations made by restarts (restart threads actually started for a RepeatingEngine) -/
  runs : Nat
  /-- the component got its final state (`Engine.isShutdown`) -/
  shutdown : Bool
  deriving DecidableEq, Repr

def St.init : St := ⟨0, 0, 0, false⟩

/-- consecutive-resubmission cap of the controller -/
def cap : Nat := C12.resubmissionCap

/-- `max_restarts` as computed at the top of `Engine.restart` -/
def effMax (c : Cfg) : Int :=
  match c.maxRestarts with
  | some m => m
  | none => if c.hookFileNamed then C12.defaultMaxRestartsWithHookFile else C12.defaultMaxRestarts

/-- negation of `(max_restarts != -1) and (self.restarts + 1 > max_restarts)` -/
def budgetLeft (c : Cfg) (s : St) : Bool :=
  effMax c == C12.unlimited || decide ((s.restarts : Int) + 1 ≤ effMax c)

/-- conversion of the hook's answer into a restart context (`try/except/finally` of `Engine.restart`) -/
def answerCtx : HookAns → RCtx
  | .ctx c => c
  | .yes => .possible
  | .no => .notRequired
  | .raises => .hookFailed
  | .ioError => .hookNotAvailable
  | .junk => .hookNotAvailable

/-- The hook outcomes that refuse the restart (property C12: "not required, not possible, failed, raising"):
the hook returns `RestartContextRestartNotRequired` / `RestartContextRestartNotPossible` /
`RestartContextHookFailed`, returns `False` (old interface: "not required") or raises an exception that is not an
IOError ("Will consider it RestartContextHookFailed").  `possible` / `True` allow the restart; `IOError`, the
answer `RestartContextHookNotAvailable` and junk values are documented as "no specific hook: vanilla restart". -/
def HookAns.refuses : HookAns → Bool
  | .ctx .notRequired => true
  | .ctx .notPossible => true
  | .ctx .hookFailed => true
  | .no => true
  | .raises => true
  | _ => false

/-- `DLMESORestart` on a working directory whose `CONTROL` file is absent or well formed -/
def dlmeso (r : Reason) (control : Bool) : HookAns :=
  if r ≠ .resourceExhausted then .no else if control then .yes else .ioError

/-- final decision of `Engine.restart` when `run()` does not raise -/
def ctxToCode : RCtx → Code
  | .possible => .initiated
  | .hookNotAvailable => .initiated
  | .notRequired => .notRequired
  | _ => .couldNotInitiate

/-- tail of `Engine.restart`: decide, call `run()`, count the resubmission -/
def launch (s : St) (i : Inp) (x : RCtx) : St × Option Code :=
  match ctxToCode x with
  | .initiated =>
    let s1 := { s with runs := s.runs + 1 }
    if i.runFails then (s1, some .couldNotInitiate)
    else if i.reason = .submissionFailed then ({ s1 with resub := s1.resub + 1 }, some .initiated)
    else (s1, some .initiated)
  | code => (s, some code)

/-- `Engine.restart`; `none` = an exception leaves the method -/
def engineRestart (c : Cfg) (s : St) (i : Inp) : St × Option Code :=
  if !budgetLeft c s then (s, some .maxAttemptsExceeded)
  else if c.simulator && decide (i.reason ∈ c.hookOn) then
    launch (if i.reason = .submissionFailed then s else { s with restarts := s.restarts + 1 }) i .possible
  else if i.reason = .submissionFailed then launch s i .possible
  else if i.reason ∈ c.hookOn then
    let s1 := { s with restarts := s.restarts + 1 }
    match c.hookModule with
    | .broken => (s1, none)
    | .scripted => launch s1 i (answerCtx i.hook)
    | .fallback => launch s1 i (answerCtx (dlmeso i.reason i.control))
  else launch s i .conditionsNotMet

/-- the hook module's `Restart` is called by `Engine.restart` on state `s` (the state when the restart is
attempted): budget left, no simulated restart, the exit is not a failed submission, the reason is listed and the
module imported fine -/
def engineAsksHook (c : Cfg) (s : St) (i : Inp) : Bool :=
  budgetLeft c s && !(c.simulator && decide (i.reason ∈ c.hookOn)) && decide (i.reason ≠ .submissionFailed) &&
    decide (i.reason ∈ c.hookOn) && decide (c.hookModule = .scripted)

/-- explicit `maxRestarts` budget of the repaired `RepeatingEngine.restart` -/
def repeatingBudgetLeft (c : Cfg) (s : St) : Bool :=
  match c.maxRestarts with
  | none => true
  | some m => m == C12.unlimited || decide ((s.restarts : Int) + 1 ≤ m)

/-- `RepeatingEngine.restart` after the repair (fixes/C12-repeating-engine-policy.diff): an explicit
`maxRestarts` is honoured and the exit reason must be listed in `restartHookOn` (before the repair the
controller's unstable-system path restarted a RepeatingEngine whose component does not list
`ResourceExhausted`) -/
def repeatingRestart (c : Cfg) (s : St) (i : Inp) : St × Option Code :=
  if !repeatingBudgetLeft c s then (s, some .maxAttemptsExceeded)
  else if i.reason = .resourceExhausted ∧ s.restarts = 0 ∧ i.reason ∈ c.hookOn then
    if i.runFails then (s, some .couldNotInitiate)
    else ({ s with restarts := s.restarts + 1, runs := s.runs + 1 }, some .initiated)
  else (s, some .notRequired)

/-- `RepeatingEngine.restart` as it is in the tree: neither `maxRestarts` nor `restartHookOn` is read -/
def repeatingRestartOld (_c : Cfg) (s : St) (i : Inp) : St × Option Code :=
  if i.reason = .resourceExhausted ∧ s.restarts = 0 then
    if i.runFails then (s, some .couldNotInitiate)
    else ({ s with restarts := s.restarts + 1, runs := s.runs + 1 }, some .initiated)
  else (s, some .notRequired)

/-- `ComponentState.restart`: raises `CannotRestartShutdownEngineError` after shutdown -/
def compRestart (old : Bool) (c : Cfg) (s : St) (i : Inp) : St × Option Code :=
  if s.shutdown then (s, none)
  else if c.repeating then (if old then repeatingRestartOld c s i else repeatingRestart c s i)
  else engineRestart c s i

/-- `try: retval = component.restart(...) except Exception: log` with `retval` preset to CouldNotInitiate -/
def guarded (r : St × Option Code) : St × Code :=
  (r.1, r.2.getD .couldNotInitiate)

/-- `Controller._restartComponent` after the repair (fixes/C12-resubmission-cap.diff): the
SubmissionFailed branch with its cap is tested first -/
def ctrlRestart (c : Cfg) (s : St) (i : Inp) : St × Code :=
  if i.reason = .submissionFailed then
    if s.resub < cap then guarded (compRestart false c s i) else (s, .maxAttemptsExceeded)
  else if i.reason ∈ c.hookOn then guarded (compRestart false c s i)
  else if i.reason ≠ .killed ∧ i.reason ≠ .cancelled ∧ i.reason ≠ .success then
    if i.stable then (s, .couldNotInitiate) else guarded (compRestart false c s i)
  else (s, .couldNotInitiate)

/-- `Controller._restartComponent` as it is in the tree: `restartHookOn` first, so the cap is never
consulted when `SubmissionFailed ∈ restartHookOn`; and the unrepaired RepeatingEngine -/
def ctrlRestartOld (c : Cfg) (s : St) (i : Inp) : St × Code :=
  if i.reason ∈ c.hookOn then guarded (compRestart true c s i)
  else if i.reason = .submissionFailed then
    if s.resub < cap then guarded (compRestart true c s i) else (s, .maxAttemptsExceeded)
  else if i.reason ≠ .killed ∧ i.reason ≠ .cancelled ∧ i.reason ≠ .success then
    if i.stable then (s, .couldNotInitiate) else guarded (compRestart true c s i)
  else (s, .couldNotInitiate)

/-- the scripted hook is asked while `Controller._restartComponent` handles the exit on state `s`: the
`restartHookOn` branch reaches `ComponentState.restart` (engine not shut down) and a plain `Engine` asks it -/
def ctrlAsksHook (c : Cfg) (s : St) (i : Inp) : Bool :=
  !s.shutdown && !c.repeating && engineAsksHook c s i

/-- the task exits with `reason` (`Engine._setExitReason`; a RepeatingEngine has no such reset) -/
def exit (c : Cfg) (s : St) (r : Reason) : St :=
  if !c.repeating && decide (r = .success) then { s with resub := 0 } else s

/-- the `taskCreated` event (`SetLaunchTime` with a Task object): the launch time is recorded; neither
`Engine.restarts` nor `Engine._resubmissionAttempts` is touched — a streak of failed submissions is NOT ended by
the backend accepting a task, only by a task that succeeds -/
def taskCreated (_c : Cfg) (s : St) : St := s

/-- from the launch to the exit: the `taskCreated` event if a Task object was created, then `_setExitReason` -/
def arrive (c : Cfg) (s : St) (i : Inp) : St :=
  exit c (match i.launch with | .task => taskCreated c s | _ => s) i.reason

/-- One step: the launch, the task exits, the controller handles the post-mortem notification.
`fin = true`: `Controller.postMortemCheck` (a refused restart gives the final state, the engine is shut down);
`fin = false`: only `Controller._restartComponent` (lets histories continue after a refusal, which the real
controller never does: used to explore the counters). -/
def stepGen (arr : Cfg → St → Inp → St) (ctrl : Cfg → St → Inp → St × Code) (fin : Bool) (c : Cfg) (s : St)
    (i : Inp) : St × Code :=
  let r := ctrl c (arr c s i) i
  if fin && decide (r.2 ≠ .initiated) then ({ r.1 with shutdown := true }, r.2) else r

/-- the hook is asked during this step (the exit itself does not change what the decision reads) -/
def stepAsksHook (c : Cfg) (s : St) (i : Inp) : Bool := ctrlAsksHook c (arrive c s i) i

def stepWith (ctrl : Cfg → St → Inp → St × Code) := stepGen arrive ctrl

def step := stepWith ctrlRestart
def stepOld := stepWith ctrlRestartOld

/-- what is observed of one step -/
structure Ev where
  reason : Reason
  code : Code
  st : St
  deriving DecidableEq, Repr

/-- chronological list of events of a history of task exits -/
def execGen (arr : Cfg → St → Inp → St) (ctrl : Cfg → St → Inp → St × Code) (fin : Bool) (c : Cfg) :
    St → List Inp → List Ev
  | _, [] => []
  | s, i :: is =>
    let r := stepGen arr ctrl fin c s i
    ⟨i.reason, r.2, r.1⟩ :: execGen arr ctrl fin c r.1 is

/-- state after a history -/
def finalGen (arr : Cfg → St → Inp → St) (ctrl : Cfg → St → Inp → St × Code) (fin : Bool) (c : Cfg) :
    St → List Inp → St
  | s, [] => s
  | s, i :: is => finalGen arr ctrl fin c (stepGen arr ctrl fin c s i).1 is

def execWith (ctrl : Cfg → St → Inp → St × Code) := execGen arrive ctrl
def finalWith (ctrl : Cfg → St → Inp → St × Code) := finalGen arrive ctrl

/-- the variant in which the streak of failed submissions is ended by the creation of a Task object instead of
by a successful task (kept only for `St4sd.Witness.C12`) -/
def arriveResetAtCreation (_c : Cfg) (s : St) (i : Inp) : St :=
  match i.launch with | .task => { s with resub := 0 } | _ => s

def exec := execWith ctrlRestart
def final := finalWith ctrlRestart
def execOld := execWith ctrlRestartOld
def finalOld := finalWith ctrlRestartOld

/-- an event that is an initiated re-submission after a failed submission -/
def Ev.isResub (e : Ev) : Bool := decide (e.reason = .submissionFailed) && decide (e.code = .initiated)

/-- an event that starts the task again for a reason other than a failed submission -/
def Ev.isRestart (e : Ev) : Bool := decide (e.reason ≠ .submissionFailed) && decide (e.code = .initiated)

/-- the schema's domain of `restartHookOn` (flowir.py): every exit reason but the excluded ones -/
def schemaValid (c : Cfg) : Bool :=
  c.hookOn.all (fun r => !(C12.dontRestartOn.contains r.name)) &&
    (match c.maxRestarts with | some m => decide (-1 ≤ m) | none => true)

/-! ## The loader: restart policy written in the document -> policy the runtime sees

`FlowIR.inject_default_values_to_component` (flowir.py): `workflowAttributes` of the component overrides
`default_component_structure()`; `maxRestarts` and `restartHookFile` default to None (kept as written: 0 stays 0,
`''` stays `''`); `restartHookOn` is a list and gets the default list only when it `is None`, i.e. is missing. -/

/-- the restart policy as written in the component's `workflowAttributes` (`none` = the key is missing) -/
structure Written where
  maxRestarts : Option Int
  hookFile : Option String
  hookOn : Option (List Reason)
  deriving Repr

/-- the restart policy the runtime reads from `job.workflowAttributes` -/
structure Seen where
  maxRestarts : Option Int
  hookFile : Option String
  hookOn : List Reason
  deriving DecidableEq, Repr

/-- `default_component_structure()['workflowAttributes']['restartHookOn']` -/
def defaultHookOn : List Reason := Reason.all.filter (fun r => C12.defaultRestartHookOn.contains r.name)

/-- the loader's defaulting -/
def load (w : Written) : Seen :=
  ⟨w.maxRestarts, w.hookFile, match w.hookOn with | some l => l | none => defaultHookOn⟩

/-- a defaulting that treats every falsy value as missing (`written or default`): kept only for `St4sd.Witness.C12` -/
def loadFalsy (w : Written) : Seen :=
  ⟨match w.maxRestarts with | some 0 => none | m => m,
   match w.hookFile with | some "" => none | f => f,
   match w.hookOn with | some (r :: l) => r :: l | _ => defaultHookOn⟩

/-- the configuration `Engine.restart` / `Controller._restartComponent` work with, given the loaded policy and what
else the component is (backend, engine kind, what importing ITS hook file gives) -/
def Seen.cfg (p : Seen) (simulator repeating : Bool) (m : HookModule) : Cfg :=
  ⟨p.maxRestarts, (match p.hookFile with | some f => f != "" | none => false), p.hookOn, simulator, repeating, m⟩

/-! ## Several components of one experiment

Every component has its own engine (own counters) and names its own hook file (`restartHookFile`, `restart.py`
when missing); `Engine.restart` imports THAT file of the instance's `hooks` directory at every restart attempt.
`files` = what the `Restart` function of each hook file of the instance answers. -/

/-- a component of the experiment: its configuration and the name of the hook file it uses -/
structure MCfg where
  cfg : Cfg
  hookFile : String
  deriving Repr

/-- one task exit of component `comp` (the `hook` field of `inp` is not read: the answer comes from the file) -/
structure MInp where
  comp : Nat
  inp : Inp
  deriving Repr

/-- the exit as the component's engine sees it: the hook answer is the one of the component's own hook file -/
def ownInp (files : String → HookAns) (c : MCfg) (i : Inp) : Inp := { i with hook := files c.hookFile }

/-- one exit of one component: only that component's state changes -/
def mstep (fin : Bool) (files : String → HookAns) (cf : Nat → MCfg) (ss : Nat → St) (m : MInp) : (Nat → St) × Ev :=
  let r := step fin (cf m.comp).cfg (ss m.comp) (ownInp files (cf m.comp) m.inp)
  (fun j => if j = m.comp then r.1 else ss j, ⟨m.inp.reason, r.2, r.1⟩)

/-- chronological events (component, event) of an interleaved history of exits of several components -/
def mexec (fin : Bool) (files : String → HookAns) (cf : Nat → MCfg) : (Nat → St) → List MInp → List (Nat × Ev)
  | _, [] => []
  | ss, m :: ms =>
    let r := mstep fin files cf ss m
    (m.comp, r.2) :: mexec fin files cf r.1 ms

/-- the events of component `k` -/
def eventsOf (k : Nat) (l : List (Nat × Ev)) : List Ev := (l.filter (fun e => e.1 == k)).map (·.2)

/-- the exits of component `k`, answered by its own hook file -/
def ownInps (files : String → HookAns) (cf : Nat → MCfg) (k : Nat) (ms : List MInp) : List Inp :=
  (ms.filter (fun m => m.comp == k)).map (fun m => ownInp files (cf k) m.inp)

/-- a variant that imports the hook once per instance (cache keyed by the `hooks` directory, not by the file): the
`Restart` function of whichever component asked first answers for every component.  Kept only for
`St4sd.Witness.C12`. -/
def mexecCached (fin : Bool) (files : String → HookAns) (cf : Nat → MCfg) :
    Option String → (Nat → St) → List MInp → List (Nat × Ev)
  | _, _, [] => []
  | cache, ss, m :: ms =>
    let c := cf m.comp
    let used := cache.getD c.hookFile
    let r := step fin c.cfg (ss m.comp) { m.inp with hook := files used }
    let cache' := if stepAsksHook c.cfg (ss m.comp) m.inp then some used else cache
    (m.comp, ⟨m.inp.reason, r.2, r.1⟩) :: mexecCached fin files cf cache' (fun j => if j = m.comp then r.1 else ss j) ms

end St4sd.Restart
