import St4sd.Model.Str
import St4sd.Model.Assoc
/-!
# Order sensitive algorithms of package loading (property C15)

* `override`/`overrideOrd` — `FlowIR.override_object` (flowir.py 3621-3681) on the two-level
  dictionary of a user variables file (`global: {name: value}`, `stages: {i: {name: value}}`),
  flattened to keys `(section, name)`.  The code enumerates `keys_novel`/`keys_common` as Python
  *sets*; `overrideOrd` takes that enumeration order as an explicit argument.
* `layerMany` — `FlowIRExperimentConfiguration.layer_many_variable_files` (conf.py 759-807):
  left fold of `override` over the files in the order of the list.
* `dedupKeepLast` — the order preserving de-duplication of the repaired conf.py 283/484
  (fixes/C15-variable-files-order.diff); `loadVars` = de-duplicate, then layer.
  `loadVarsOld order` = the code before the repair, `list(set(variable_files))`: the files are
  layered in an arbitrary enumeration `order` of the *set* of paths.
* `effective` — `_patch_in_variable_files` (conf.py 952-971): the value injected for stage `i`.
* `serialize` — `ComponentSpecification._memoization_info_to_hash` (graph.py 1099-1124) up to
  the final md5: depth first, dictionary keys in sorted order, list items sorted, values
  concatenated without separators.
-/
namespace St4sd.Layer
open St4sd.Str St4sd.Assoc

/-- key of a user variable: section (`none` = global, `some i` = stage `i`) and name -/
abbrev VKey := Option Nat × S
abbrev Vars := List (VKey × S)

/-- `override_object(old, new)`; `order` = the order in which the key sets are enumerated -/
def overrideOrd (order : List VKey) (old new : Vars) : Vars :=
  order.foldl (fun acc k => match dget new k with
    | some v => dset acc k v
    | none => acc) old

/-- enumeration in the order of `new` (any other order gives the same mapping:
`Props.C15.override_key_order_irrelevant`) -/
def override (old new : Vars) : Vars := overrideOrd (keys new) old new

/-- `layer_many_variable_files`: `agg = {}; for f in files: override_object(agg, f)` -/
def layerMany (files : List Vars) : Vars := files.foldl override []

/-- keep the last occurrence of every path, preserve the order otherwise -/
def dedupKeepLast : List Nat → List Nat
  | [] => []
  | p :: r => if r.contains p then dedupKeepLast r else p :: dedupKeepLast r

/-- keep the first occurrence (`list(dict.fromkeys(paths))`) -/
def dedupKeepFirst (l : List Nat) : List Nat := (dedupKeepLast l.reverse).reverse

/-- repaired loader: de-duplicate (order preserving), then layer in the order given -/
def loadVars (content : Nat → Vars) (paths : List Nat) : Vars :=
  layerMany ((dedupKeepLast paths).map content)

/-- loader before the repair: the set of paths is enumerated in some order `order`
(any permutation of the distinct paths, chosen by the string hash of the process) -/
def loadVarsOld (content : Nat → Vars) (order : List Nat) : Vars :=
  layerMany (order.map content)

/-- value injected into stage `i` for variable `name`: the stage section wins over the global one -/
def effective (vars : Vars) (i : Nat) (name : S) : Option S :=
  match dget vars (some i, name) with
  | some v => some v
  | none => dget vars (none, name)

/-! ## memoization serialisation -/

/-- memoization info: primitives (already `str()`-ed), dictionaries (`dnil`/`dcons`), lists of
primitives (`lnil`/`lcons`).  A plain (non nested) inductive type so that recursion and induction
are structural. -/
inductive Tree where
  | prim (s : S)
  | dnil
  | dcons (k : S) (v : Tree) (rest : Tree)
  | lnil
  | lcons (x : S) (rest : Tree)

/-- `a <= b` on strings (code point order, as `sorted` uses) -/
def leS (a b : S) : Bool := !(lexLt b a)

def insertBy (a : S × S) : List (S × S) → List (S × S)
  | [] => [a]
  | b :: r => if leS a.1 b.1 then a :: b :: r else b :: insertBy a r

/-- `sorted(d)` on the keys, carrying the values (stable insertion sort) -/
def sortByKey : List (S × S) → List (S × S)
  | [] => []
  | a :: r => insertBy a (sortByKey r)

def insertS (a : S) : List S → List S
  | [] => [a]
  | b :: r => if leS a b then a :: b :: r else b :: insertS a r

def sortS : List S → List S
  | [] => []
  | a :: r => insertS a (sortS r)

def flat : List (S × S) → S
  | [] => []
  | (k, v) :: r => k ++ v ++ flat r

def concat : List S → S
  | [] => []
  | a :: r => a ++ concat r

/-- (serialisation, entries of a dictionary with serialised values, items of a list) -/
def ser : Tree → S × List (S × S) × List S
  | .prim s => (s, [], [])
  | .dnil => ([], [], [])
  | .dcons k v rest =>
    let es := (k, (ser v).1) :: (ser rest).2.1
    (flat (sortByKey es), es, [])
  | .lnil => ([], [], [])
  | .lcons x rest =>
    let xs := x :: (ser rest).2.2
    (concat (sortS xs), [], xs)

/-- the buffer that `_memoization_info_to_hash` feeds to md5 -/
def serialize (t : Tree) : S := (ser t).1

/-- build a dictionary / a list -/
def ofEntries : List (S × Tree) → Tree
  | [] => .dnil
  | (k, v) :: r => .dcons k v (ofEntries r)

def ofItems : List S → Tree
  | [] => .lnil
  | x :: r => .lcons x (ofItems r)

end St4sd.Layer
