/-!
# Python string operations on `List Char` (shared, import-free)

Only structural recursion (so that `decide` can evaluate the functions on concrete
witnesses and induction principles are the obvious ones).  `replaceAll` is CPython's
`str.replace(pat, rep)` for a non-empty `pat` (leftmost, non-overlapping); `splitOn` is
`str.split(sep)` for a non-empty separator; `splitChar` for a one-character separator.

This file is shared by several properties: do not change existing definitions; add new
helpers to a property-specific module instead.
-/
namespace St4sd.Str

abbrev S := List Char

/-- `s.startswith(p)` -/
def startsWith (s p : S) : Bool := p.isPrefixOf s

/-- `s.endswith(p)` -/
def endsWith (s p : S) : Bool := p.isSuffixOf s

/-- `p in s` (substring test) -/
def isInfix (p : S) : S → Bool
  | [] => p.isEmpty
  | c :: s => p.isPrefixOf (c :: s) || isInfix p s

/-- worker of `replaceAll`: `skip` characters of an already matched occurrence remain to be dropped -/
def replaceAux (pat rep : S) : Nat → S → S
  | _, [] => []
  | skip + 1, _ :: s => replaceAux pat rep skip s
  | 0, c :: s =>
    if pat.isPrefixOf (c :: s) then rep ++ replaceAux pat rep (pat.length - 1) s
    else c :: replaceAux pat rep 0 s

/-- `s.replace(pat, rep)`; for `pat = ""` Python inserts `rep` between all characters — the modelled
code never calls it with an empty pattern, the model returns `s` unchanged in that case. -/
def replaceAll (pat rep s : S) : S :=
  if pat.isEmpty then s else replaceAux pat rep 0 s

/-- worker of `splitOn`: `cur` is the current field reversed -/
def splitAux (sep : S) : Nat → S → S → List S
  | _, cur, [] => [cur.reverse]
  | k + 1, cur, _ :: s => splitAux sep k cur s
  | 0, cur, c :: s =>
    if sep.isPrefixOf (c :: s) then cur.reverse :: splitAux sep (sep.length - 1) [] s
    else splitAux sep 0 (c :: cur) s

/-- `s.split(sep)` for non-empty `sep` -/
def splitOn (sep s : S) : List S := splitAux sep 0 [] s

/-- `s.split(c)` for a single character -/
def splitChar (c : Char) : S → List S
  | [] => [[]]
  | d :: s =>
    if d == c then [] :: splitChar c s
    else match splitChar c s with
      | [] => [[d]]          -- unreachable: splitChar never returns []
      | f :: fs => (d :: f) :: fs

/-- `sep.join(parts)` -/
def join (sep : S) : List S → S
  | [] => []
  | [p] => p
  | p :: q :: r => p ++ sep ++ join sep (q :: r)

/-- `s.split(c, 1)`: split at the first occurrence only; `none` when `c` does not occur -/
def splitFirst (c : Char) : S → Option (S × S)
  | [] => none
  | d :: s =>
    if d == c then some ([], s)
    else match splitFirst c s with
      | none => none
      | some (a, b) => some (d :: a, b)

/-- `s.rsplit(c, 1)`: split at the last occurrence -/
def splitLast (c : Char) (s : S) : Option (S × S) :=
  match splitFirst c s.reverse with
  | none => none
  | some (a, b) => some (b.reverse, a.reverse)

def isDigit (c : Char) : Bool := '0' ≤ c && c ≤ '9'

/-- decimal digits of `n`, most significant first (`str(n)`), by fuel so that it is structural -/
def natToDigitsAux : Nat → Nat → S → S
  | 0, _, acc => acc
  | fuel + 1, n, acc =>
    let acc' := Char.ofNat (48 + n % 10) :: acc
    if n < 10 then acc' else natToDigitsAux fuel (n / 10) acc'

def natToDigits (n : Nat) : S := natToDigitsAux (n + 1) n []

/-- `int(s)` for a non-empty all-digit string -/
def digitsToNat? (s : S) : Option Nat :=
  if s.isEmpty || !s.all isDigit then none
  else some (s.foldl (fun acc c => acc * 10 + (c.toNat - 48)) 0)

/-- lexicographic `<` on strings as Python compares them (by code point) -/
def lexLt : S → S → Bool
  | [], [] => false
  | [], _ :: _ => true
  | _ :: _, [] => false
  | a :: s, b :: t => a < b || (a == b && lexLt s t)

/-- `s.strip()` restricted to ASCII white space -/
def isSpace (c : Char) : Bool := c == ' ' || c == '\t' || c == '\n' || c == '\r' || c == '\x0b' || c == '\x0c'
def lstrip (s : S) : S := s.dropWhile isSpace
def rstrip (s : S) : S := (s.reverse.dropWhile isSpace).reverse
def strip (s : S) : S := rstrip (lstrip s)

/-- `s.rstrip(chars)` -/
def rstripChars (p : Char → Bool) (s : S) : S := (s.reverse.dropWhile p).reverse

/-- `s.lower()` on ASCII -/
def lower (s : S) : S := s.map fun c => if 'A' ≤ c && c ≤ 'Z' then Char.ofNat (c.toNat + 32) else c

end St4sd.Str
