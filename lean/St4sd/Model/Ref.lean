import St4sd.Model.Str
/-!
# Data references (C09): parse, print, expand, classify

Executable model of

* `FlowIR.ParseDataReference`, `ParseProducerReference`, `ParseDataReferenceFull`,
  `is_datareference_to_component`, `compile_reference` (flowir.py 3369-3586),
* `FlowIR.expand_potential_component_reference`, `expand_component_references` (flowir.py 1342-1420),
* `FlowIR.application_dependency_to_name`, `FlowIR.is_var_reference`,
* `Manifest.top_level_folders` (flowir.py 1228-1234) — **repaired** behaviour (split on `/`);
  the algorithm that exists before the repair (split on `os.path.pathsep`, i.e. `:`) is kept as
  `topLevelFoldersOld` for `Witness/C09.lean`,
* `graph.ComponentIdentifier`, `graph.DataReference` absolute/relative forms, `to_uid` escaping
  (graph.py 462-802),
* the reference part of `FlowIR.validate_component` / `validate_references`.

Strings are `List Char`.  Everything is structural so that `decide` evaluates witnesses.
The list of reserved folders `sf` (`FlowIR.SpecialFolders`) and of methods are parameters: the
driver and the pin theorems instantiate them with the constants regenerated from /repo.
Quirks kept: `stage([0-9]+)` is *prefix*-matched on the text before the first `.` (so
`stage1x.foo` is component `foo` of stage 1, `stage01.` is stage 1), `value.split(':')` must give
exactly two fields, `os.path.split` of an absolute path, `os.path.join` dropping the producer when
the file part is absolute.
-/
namespace St4sd.Ref
open St4sd.Str

/-- `value.split(':')` when it has exactly two fields -/
def splitColon2 (s : S) : Option (S × S) :=
  match splitFirst ':' s with
  | none => none
  | some (a, b) => if b.contains ':' then none else some (a, b)

/-- `s.startswith('/')` -/
def isAbs : S → Bool
  | c :: _ => c == '/'
  | [] => false

/-- `s.rstrip('/')` -/
def rstripSlash : S → S
  | [] => []
  | c :: s =>
    let r := rstripSlash s
    if r.isEmpty && c == '/' then [] else c :: r

/-- `(p[:i], p[i:])` with `i = p.rfind('/') + 1` -/
def splitLastSlash : S → S × S
  | [] => ([], [])
  | c :: s =>
    let ht := splitLastSlash s
    if c == '/' then ('/' :: ht.1, ht.2)
    else if ht.1.isEmpty then ([], c :: ht.2) else (c :: ht.1, ht.2)

/-- `posixpath.split` -/
def posixSplit (p : S) : S × S :=
  let ht := splitLastSlash p
  let r := rstripSlash ht.1
  (if r.isEmpty then ht.1 else r, ht.2)

/-- `FlowIR.ParseDataReference`: `(producerReference, file, method)`; `none` = `ValueError` -/
def parseDataReference (sf : List S) (value : S) : Option (S × Option S × S) :=
  match splitColon2 value with
  | none => none
  | some (ref, m) =>
    if isAbs ref then
      let ht := posixSplit ref
      some (ht.1, some ht.2, m)
    else match splitFirst '/' ref with
      | none => some (ref, none, m)
      | some (a, b) => if sf.contains a then some (ref, none, m) else some (a, some b, m)

/-- value of a digit string (`int(...)`) -/
def digitsVal (s : S) : Nat := s.foldl (fun acc c => acc * 10 + (c.toNat - 48)) 0

/-- `re.compile(r"stage([0-9]+)").match(stage)` then `int(group(1))`: prefix match -/
def stageMatch : S → Option Nat
  | 's' :: 't' :: 'a' :: 'g' :: 'e' :: rest =>
    let ds := rest.takeWhile isDigit
    if ds.isEmpty then none else some (digitsVal ds)
  | _ => none

/-- `FlowIR.ParseProducerReference`: `(stageIndex, jobName, hasIndex)` -/
def parseProducerReference (reference : S) (index : Option Nat) : Option Nat × S × Bool :=
  if isAbs reference then (index, reference, false)
  else match splitFirst '.' reference with
    | none => (index, reference, false)
    | some (stage, job) =>
      match stageMatch stage with
      | some n => (some n, job, true)
      | none => (index, reference, false)

/-- character class `[a-zA-Z0-9_.-]` of `FlowIR.VariablePattern` -/
def isVarChar (c : Char) : Bool :=
  ('a' ≤ c && c ≤ 'z') || ('A' ≤ c && c ≤ 'Z') || isDigit c || c == '_' || c == '.' || c == '-'

/-- the text starts with a match of `%\([a-zA-Z0-9_.-]+\)s` -/
def varAt : S → Bool
  | '%' :: '(' :: rest =>
    let run := rest.takeWhile isVarChar
    !run.isEmpty && (rest.dropWhile isVarChar).take 2 == [')', 's']
  | _ => false

/-- `re.compile(FlowIR.VariablePattern).search(s)` -/
def hasVar : S → Bool
  | [] => false
  | c :: s => varAt (c :: s) || hasVar s

/-- the text starts with a match of `\[(\d+)\]` (ASCII digits) -/
def idxAt : S → Bool
  | '[' :: rest =>
    let run := rest.takeWhile isDigit
    !run.isEmpty && (rest.dropWhile isDigit).take 1 == [']']
  | _ => false

def hasIdx : S → Bool
  | [] => false
  | c :: s => idxAt (c :: s) || hasIdx s

/-- `FlowIR.is_var_reference` on a string -/
def isVarRef (s : S) : Bool := hasVar s || hasIdx s

/-- `posixpath.splitext(p)[0]` -/
def splitextRoot (p : S) : S :=
  let ht := splitLastSlash p
  let base := ht.2
  let dots := base.takeWhile (· == '.')
  let rest := base.dropWhile (· == '.')
  match splitLast '.' rest with
  | none => p
  | some (a, _) => ht.1 ++ dots ++ a

/-- `FlowIR.application_dependency_to_name` -/
def appDepName (d : S) : S :=
  let d := rstripSlash d
  let folder := if isAbs d then (posixSplit d).2 else d
  lower (splitextRoot folder)

/-- the folder names that make a reference a direct one in `ParseDataReferenceFull` -/
def folders (sf deps extra : List S) : List S := extra ++ sf ++ deps.map appDepName

/-- `FlowIR.ParseDataReferenceFull` with the `hasIndex` flag of the producer added:
`(stageIndex, jobName, filename, method, hasIndex)` -/
def parseFullX (sf : List S) (value : S) (index : Option Nat) (deps extra : List S) :
    Option (Option Nat × S × Option S × S × Bool) :=
  match parseDataReference sf value with
  | none => none
  | some (ref, file, m) =>
    let p := parseProducerReference ref index
    let direct := ((folders sf deps extra).contains p.2.1 && !p.2.2) || (p.2.1.contains '/' && !p.2.2)
      || hasVar p.2.1
    some (if direct then none else p.1, p.2.1, file, m, p.2.2)

/-- `FlowIR.ParseDataReferenceFull` -/
def parseFull (sf : List S) (value : S) (index : Option Nat) (deps extra : List S) :
    Option (Option Nat × S × Option S × S) :=
  (parseFullX sf value index deps extra).map fun r => (r.1, r.2.1, r.2.2.1, r.2.2.2.1)

/-- `FlowIR.is_datareference_to_component(value, top_level_folders)` -/
def isDataRefToComponent (sf : List S) (value : S) (tlf : List S) : Option Bool :=
  match parseDataReference sf value with
  | none => none
  | some (ref, _, _) =>
    let p := parseProducerReference ref none
    some (!(((sf ++ tlf).contains p.2.1 && !p.2.2) || (p.2.1.contains '/' && !p.2.2) || hasVar p.2.1))

/-- `"stage%d." % n` -/
def stagePrefix (n : Nat) : S := 's' :: 't' :: 'a' :: 'g' :: 'e' :: (natToDigits n ++ ['.'])

/-- `producer[/file]:method` -/
def refBody (producer : S) (file : Option S) (m : S) : S :=
  match file with
  | none => producer ++ ':' :: m
  | some f => producer ++ '/' :: (f ++ ':' :: m)

/-- `FlowIR.compile_reference(producer, filename, method, stage_index, replica_id)` -/
def compileReference (producer : S) (file : Option S) (m : S) (stage : Option Nat)
    (replica : Option Nat := none) : S :=
  let p := match replica with
    | none => producer
    | some r => producer ++ natToDigits r
  match stage with
  | none => refBody p file m
  | some n => stagePrefix n ++ refBody p file m

/-- `known_components.get(stage, [])` -/
def knownAt (known : List (Nat × List S)) (stage : Nat) : List S :=
  match known.find? (·.1 == stage) with
  | none => []
  | some e => e.2

/-- the `references_component` decision of `expand_potential_component_reference` for a producer
that is not a variable reference -/
def expandDecision (si : Option Nat) (prod : S) (ctx : Nat) (known : Option (List (Nat × List S)))
    (tlf : Option (List S)) (force : Bool) : Bool :=
  let direct := (match tlf with
    | none => false
    | some t => si.isNone && t.contains prod) || prod.contains '/'
  force
    || ((match tlf with | none => false | some t => !t.isEmpty) && !direct)
    || (match known with | none => false | some k => (knownAt k (si.getD ctx)).contains prod)

/-- `FlowIR.expand_potential_component_reference(ref, stage_context, known_components,
top_level_folders, force_expand)`; `none` = `ValueError` of the parser -/
def expandPotential (sf : List S) (ref : S) (ctx : Nat) (known : Option (List (Nat × List S)))
    (tlf : Option (List S)) (force : Bool) : Option S :=
  match parseFullX sf ref none [] [] with
  | none => none
  | some (si, prod, file, m, _) =>
    if isVarRef prod then some ref
    else if expandDecision si prod ctx known tlf force then
      some (compileReference prod file m (some (si.getD ctx)))
    else some ref

/-- the folder list that `expand_component_references` hands to `expand_potential_component_reference` -/
def expandAllFolders (sf deps tlf : List S) : List S := tlf ++ deps.map appDepName ++ sf

/-- `FlowIR.expand_component_references` for one reference of a non-empty list -/
def expandOne (sf : List S) (ref : S) (ctx : Nat) (known : Option (List (Nat × List S)))
    (deps tlf : List S) : Option S :=
  expandPotential sf ref ctx known (some (expandAllFolders sf deps tlf)) false

/-- repaired `Manifest.top_level_folders`: the left-most folder of every (possibly nested) key -/
def topLevelFolders (keys : List S) : List S :=
  keys.map fun k => match splitFirst '/' k with
    | none => k
    | some (a, _) => a

/-- `Manifest.top_level_folders` as it is before the repair: `x.split(os.path.pathsep, 1)[0]` -/
def topLevelFoldersOld (keys : List S) : List S :=
  keys.map fun k => match splitFirst ':' k with
    | none => k
    | some (a, _) => a

/-- `posixpath.join(a, b)` -/
def pathJoin (a b : S) : S :=
  if isAbs b then b
  else if a.isEmpty || a.getLast? == some '/' then a ++ b
  else a ++ '/' :: b

/-- state of a `graph.DataReference` -/
structure DataRef where
  stage : Option Nat
  name : S
  hasIndex : Bool
  file : Option S
  method : S
deriving Repr, DecidableEq

/-- `ComponentIdentifier.identifier` -/
def DataRef.identifier (d : DataRef) : S :=
  match d.stage with
  | none => d.name
  | some n => stagePrefix n ++ d.name

/-- `DataReference(reference, stageIndex)`; `none` = `ValueError` -/
def dataRef (sf methods : List S) (reference : S) (stageIndex : Option Nat) : Option DataRef :=
  match parseDataReference sf reference with
  | none => none
  | some (ident, file, m) =>
    if !methods.contains m then none else
    let p := parseProducerReference ident stageIndex
    some { stage := p.1, name := p.2.1, hasIndex := p.2.2, file := file, method := m }

def withFile (base : S) (file : Option S) : S :=
  match file with
  | none => base
  | some f => pathJoin base f

/-- `DataReference.absoluteReference` -/
def DataRef.absolute (d : DataRef) : S := withFile d.identifier d.file ++ ':' :: d.method
/-- `DataReference.relativeReference` -/
def DataRef.relative (d : DataRef) : S := withFile d.name d.file ++ ':' :: d.method

/-- the escaping of `ComponentIdentifier.to_uid`: `.replace('%','%25').replace('&','%26')` -/
def uidEscape (s : S) : S := replaceAll ['&'] ['%', '2', '6'] (replaceAll ['%'] ['%', '2', '5'] s)

/-- the reference checks of `FlowIR.validate_component` for one reference of a component of stage
`stage`, when no component name contains `#`: expand with `(component_ids, tlf ++ SpecialFolders)`,
re-parse with `special_folders = tlf`; the answer is the `(stage, name)` the reference is held to
point to when that is not a known component (⇒ `FlowIRReferenceToUnknownComponent`).
`tlf` = manifest top-level folders ++ application-dependency names (`FlowIRConcrete.validate`). -/
def validateMissing (sf : List S) (ref : S) (stage : Nat) (known : List (Nat × List S)) (tlf : List S) :
    Option (Option (Nat × S)) :=
  match expandPotential sf ref stage (some known) (some (tlf ++ sf)) false with
  | none => none
  | some r =>
    match parseFullX sf r (some stage) [] tlf with
    | none => none
    | some (none, _) => some none
    | some (some i, job, _) => if (knownAt known i).contains job then some none else some (some (i, job))

end St4sd.Ref
