import St4sd.Model.Str
/-!
# C19 — names inside the legacy sectioned-file (DOSINI) syntax

The legacy format does not only translate option values (see `Model/Ini.lean`); it also packs *names*
into the syntax of the files themselves.  This file models every such encode/decode pair of
`python/experiment/model/frontends/dosini.py` on the instance path (`dump(is_instance=True)` →
`load_from_directory(is_instance=True)`):

| what                  | writer                                                         | reader |
|-----------------------|----------------------------------------------------------------|--------|
| environment `n`       | `_dump_experiment_root_conf`: section `'ENV-%s' % n.upper()`   | `parse_environment_dicts`: `SANDBOX`/`ENVIRONMENT` as they are, else must start with `ENV-` (any case), name `= section[4:]` |
| status of stage `i`   | `_dump_status`: section `'STAGE%d' % i`                        | `parse_status`: `assert stage.startswith('STAGE')`, `int(stage[5:])` |
| stages of an output   | `_dump_output`: `','.join('stage%d' % i …)`                    | `parse_output`: `split(',')`, `strip()`, drop empty, `assert lower().startswith('stage')`, `int(stage[5:])` |
| file of stage `i`     | `_dump_components`: `'stage%d.instance.conf' % i`              | `_discover_stages`: `name.split('.')[0]`, `int(stage_id[5:])` |
| component / output    | section `[name]`                                                | the section name (identity) |

Abstractions: `str.upper()` / `str.lower()` are modelled on ASCII letters only (the name class of the
harness is printable ASCII); Python's `int()` is modelled on non-empty all-digit texts (`digitsToNat?`),
which is what `'%d' % i` produces for `i ≥ 0`.
-/
namespace St4sd.IniNames
open St4sd.Str

def upperChar (c : Char) : Char := if 'a' ≤ c && c ≤ 'z' then Char.ofNat (c.toNat - 32) else c

/-- `s.upper()` on ASCII -/
def upper (s : S) : S := s.map upperChar

def envPrefix : S := ['E', 'N', 'V', '-']
def sandboxName : S := ['S', 'A', 'N', 'D', 'B', 'O', 'X']
def environmentName : S := ['E', 'N', 'V', 'I', 'R', 'O', 'N', 'M', 'E', 'N', 'T']
/-- `virtual_envs = ['SANDBOX', 'ENVIRONMENT']` -/
def virtualEnvs : List S := [sandboxName, environmentName]

/-- `'ENV-%s' % section_name.upper()` -/
def envSection (name : S) : S := envPrefix ++ upper name

/-- `parse_environment_dicts`: the environment name of a section; `none` = `raise Exception('Invalid name …')` -/
def envName (sec : S) : Option S :=
  let u := upper sec
  if virtualEnvs.contains u then some sec
  else if startsWith u envPrefix then some (sec.drop 4)
  else none

def stageUpper : S := ['S', 'T', 'A', 'G', 'E']
def stageLower : S := ['s', 't', 'a', 'g', 'e']

/-- `'STAGE%d' % stage_index` -/
def stageSection (i : Nat) : S := stageUpper ++ natToDigits i

/-- `assert stage.startswith('STAGE'); int(stage[5:])`; `none` = AssertionError / ValueError -/
def stageIndex (sec : S) : Option Nat :=
  if startsWith sec stageUpper then digitsToNat? (sec.drop 5) else none

/-- `'stage%d' % idx` -/
def stageWord (i : Nat) : S := stageLower ++ natToDigits i

/-- `','.join('stage%d' % idx for idx in entry['stages'])` -/
def outputStages (l : List Nat) : S := join [','] (l.map stageWord)

/-- `extract_stage_index`: `assert stage.lower().startswith('stage'); int(stage[5:])` -/
def stageWordIndex (w : S) : Option Nat :=
  if startsWith (lower w) stageLower then digitsToNat? (w.drop 5) else none

def mapOpt (f : S → Option Nat) : List S → Option (List Nat)
  | [] => some []
  | w :: ws =>
    match f w, mapOpt f ws with
    | some i, some r => some (i :: r)
    | _, _ => none

/-- `parse_output`: the `stages` option back to indices -/
def parseOutputStages (text : S) : Option (List Nat) :=
  mapOpt stageWordIndex (((splitChar ',' text).map strip).filter fun w => !w.isEmpty)

def instanceSuffix : S := ".instance.conf".toList

/-- `'stage%d.instance.conf' % stage_index` -/
def stageFile (i : Nat) : S := stageWord i ++ instanceSuffix

/-- `_discover_stages`: `stage_id = name.split('.')[0]; int(stage_id[5:])` -/
def stageFileIndex (fn : S) : Option Nat :=
  match splitChar '.' fn with
  | [] => none
  | w :: _ => digitsToNat? (w.drop 5)

/-! Variants that look equivalent on the names of ordinary packages (kept for the witnesses). -/

/-- `environment_name.split('-')[1]` instead of `[4:]` -/
def envNameBySplit (sec : S) : Option S :=
  match splitChar '-' sec with
  | _ :: n :: _ => some n
  | _ => none

/-- `int(stage[5])` (one character) instead of `int(stage[5:])` -/
def stageIndexOneDigit (sec : S) : Option Nat :=
  if startsWith sec stageUpper then digitsToNat? ((sec.drop 5).take 1) else none

end St4sd.IniNames
