import St4sd.Model.Str
/-!
# C19 — the legacy sectioned-file (DOSINI) translation of one component

Model of `Dosini._flowir_component_to_dict` (dump side: FlowIR option path → ini key + printed text)
and `Dosini.parse_component` (parse side: ini key + text → FlowIR option path + typed value) in
`python/experiment/model/frontends/dosini.py`.

The two *tables* are not written here: `St4sd/Gen/C19.lean` is regenerated from the Python source on
every run (`harness/gen_c19.py`).  This file fixes what a table entry means:

* a `Printer` is the expression the writer applies to the option value (`value`, `str(value)`,
  `str(value).lower()`, `' '.join(value)`, and the repaired `str(value).lower() if isinstance(value, bool) else value`);
  `configuration_for_stage` finally stores `str(...)` of the result, which is part of `print`;
* a `Parser` is the converter the reader applies (`value`, `value_to_bool/int/float/memorybytes`, `value.split()`);
* a component is the flat list of its `(option path, value)` pairs; component variables are the pairs
  whose path is `["variables", name]`.

Abstractions (stated in the harness evidence): a float is its literal text (CPython's
`float(repr(x)) == x` is trusted); `IndexAccess` (`name[3]`) strings in typed options are not modelled;
`str.split()` splits at ASCII white space.
-/
namespace St4sd.Ini
open St4sd.Str

abbrev Path := List S

/-- values of FlowIR options as far as the legacy writer can see them -/
inductive Val
  | none
  | str (s : S)
  | bool (b : Bool)
  | int (n : Int)
  | float (lit : S)
  | words (ws : List S)
  deriving DecidableEq, Repr

inductive Printer
  | ident        -- `{key: value}`
  | strOf        -- `{key: str(value)}`
  | strLower     -- `{key: str(value).lower()}`
  | lowerIfBool  -- `{key: str(value).lower() if isinstance(value, bool) else value}`
  | joinWords    -- `{key: ' '.join(value)}`
  | unknown
  deriving DecidableEq, Repr

inductive Parser
  | raw | toBool | toInt | toFloat | toMem | split | unknown
  deriving DecidableEq, Repr

structure DumpEntry where
  path : Path
  key : S
  printer : Printer
  deriving DecidableEq, Repr

inductive POut
  | parsed (p : Parser)
  | const (v : Val)
  deriving DecidableEq, Repr

structure ParseEntry where
  key : S
  outs : List (Path × POut)
  deriving DecidableEq, Repr

/-! ## Python `str()` -/

def intToStr : Int → S
  | .ofNat k => natToDigits k
  | .negSucc k => '-' :: natToDigits (k + 1)

def pyRepr (s : S) : S := '\'' :: s ++ ['\'']

def pyStr : Val → S
  | .none => ['N', 'o', 'n', 'e']
  | .str s => s
  | .bool true => ['T', 'r', 'u', 'e']
  | .bool false => ['F', 'a', 'l', 's', 'e']
  | .int n => intToStr n
  | .float l => l
  | .words ws => '[' :: join [',', ' '] (ws.map pyRepr) ++ [']']

/-- text stored in the section for an option value (`cfg.set(name, key, str(printer(value)))`);
ill-typed uses (`' '.join(5)` raises `TypeError` in Python) fall back to `str(value)` — the harness
never produces them, FlowIR validation rejects such components earlier -/
def print : Printer → Val → S
  | .ident, v => pyStr v
  | .strOf, v => pyStr v
  | .strLower, v => lower (pyStr v)
  | .lowerIfBool, .bool b => lower (pyStr (.bool b))
  | .lowerIfBool, v => pyStr v
  | .joinWords, .words ws => join [' '] ws
  | .joinWords, .str s => join [' '] (s.map fun c => [c])
  | .joinWords, v => pyStr v
  | .unknown, v => pyStr v

/-! ## Python parsers -/

/-- `s.split()` -/
def splitWordsAux : S → S → List S
  | cur, [] => if cur.isEmpty then [] else [cur.reverse]
  | cur, c :: s =>
    if isSpace c then
      (if cur.isEmpty then splitWordsAux [] s else cur.reverse :: splitWordsAux [] s)
    else splitWordsAux (c :: cur) s

def splitWords (s : S) : List S := splitWordsAux [] s

/-- `int(s)` for an optionally signed digit string (no white space, no underscores) -/
def parseInt? : S → Option Int
  | '-' :: d => (digitsToNat? d).map fun n => -(n : Int)
  | '+' :: d => (digitsToNat? d).map fun n => (n : Int)
  | d => (digitsToNat? d).map fun n => (n : Int)

def isNameChar (c : Char) : Bool :=
  ('a' ≤ c && c ≤ 'z') || ('A' ≤ c && c ≤ 'Z') || isDigit c || c == '.' || c == '_' || c == '-'

def varRefTail : S → Bool
  | [] => false
  | [_] => false
  | c :: d :: s => (c == ')' && d == 's') || (isNameChar c && varRefTail (d :: s))

/-- `VariableFormat.match(value) is not None`: the text *starts* with `%(name)s` -/
def isVarRef : S → Bool
  | '%' :: '(' :: c :: s => isNameChar c && varRefTail s
  | _ => false

def digitsOk (s : S) : Bool := !s.isEmpty && s.all isDigit

/-- exponent part: `e[+-]?digits` -/
def isExp : S → Bool
  | [] => true
  | c :: s => (c == 'e' || c == 'E') &&
    (match s with
     | '+' :: d => digitsOk d
     | '-' :: d => digitsOk d
     | d => digitsOk d)

/-- after the integer digits: `[.digits*][exp]` -/
def isFracExp : S → Bool
  | '.' :: s => isExp (s.dropWhile isDigit)
  | s => isExp s

def isUnsignedFloat (s : S) : Bool :=
  match s with
  | '.' :: d => (match d with | c :: _ => isDigit c | [] => false) && isExp (d.dropWhile isDigit)
  | c :: _ => isDigit c && isFracExp (s.dropWhile isDigit)
  | [] => false

/-- decimal float literals accepted by `float(s)` (no inf/nan, no white space, no underscores) -/
def isFloatLit : S → Bool
  | '-' :: s => isUnsignedFloat s
  | '+' :: s => isUnsignedFloat s
  | s => isUnsignedFloat s

def dropLast2 (s : S) : S := (s.reverse.drop 2).reverse

/-- `FlowIR.memory_to_bytes(value)`: `int(value)`, else `int(value[:-2])` times Mi / Gi -/
def memBytes? (s : S) : Option Int :=
  match parseInt? s with
  | some n => some n
  | none =>
    match parseInt? (dropLast2 s) with
    | none => none
    | some n =>
      if endsWith s ['M', 'i'] then some (n * 1048576)
      else if endsWith s ['G', 'i'] then some (n * 1073741824)
      else none

def boolOf? (s : S) : Option Bool :=
  let l := lower s
  if l = ['y', 'e', 's'] ∨ l = ['t', 'r', 'u', 'e'] then some true
  else if l = ['n', 'o'] ∨ l = ['f', 'a', 'l', 's', 'e'] then some false
  else none

/-- a typed converter keeps a text that starts with a variable reference, raises otherwise -/
def orVarRef (s : S) : Option Val := if isVarRef s then some (.str s) else none

/-- `none` = `InvalidValueForConstant` is raised -/
def parse : Parser → S → Option Val
  | .raw, s => some (.str s)
  | .toBool, s => match boolOf? s with
    | some b => some (.bool b)
    | none => orVarRef s
  | .toInt, s => match parseInt? s with
    | some n => some (.int n)
    | none => orVarRef s
  | .toFloat, s => if isFloatLit s then some (.float s) else orVarRef s
  | .toMem, s => match memBytes? s with
    | some _ => some (.str s)
    | none => orVarRef s
  | .split, s => some (.words (splitWords s))
  | .unknown, _ => none

/-- what `FlowIR.convert_component_types` later makes of a parsed value (only memory differs:
the reader keeps the text, the resolved configuration holds the number of bytes) -/
def norm : Parser → Val → Val
  | .toMem, .str s => match memBytes? s with
    | some n => .int n
    | none => .str s
  | _, v => v

/-! ## One section -/

def variablesSeg : S := ['v', 'a', 'r', 'i', 'a', 'b', 'l', 'e', 's']

def findDump (dt : List DumpEntry) (p : Path) : Option DumpEntry := dt.find? fun e => e.path = p
def findParse (pt : List ParseEntry) (k : S) : Option ParseEntry := pt.find? fun e => e.key = k

/-- is `p = prefix ++ [k]` for one of the pass-through prefixes (docker `main` executor: every field but
`name` is written under its own name) -/
def passKey (pass : List Path) (p : Path) : Option S :=
  match p.reverse with
  | k :: r => if pass.contains r.reverse then some k else none
  | [] => none

/-- the `key = text` line written for a non-None option value (none: options without a legacy key are
silently skipped) -/
def dumpSome (dt : List DumpEntry) (pass : List Path) (p : Path) (v : Val) : Option (S × S) :=
  match p with
  | [seg, name] =>
    if seg = variablesSeg then some (name, pyStr v)
    else match findDump dt p with
      | some e => some (e.key, print e.printer v)
      | none => none
  | _ =>
    match findDump dt p with
    | some e => some (e.key, print e.printer v)
    | none => match passKey pass p with
      | some k => some (k, pyStr v)
      | none => none

/-- `None` values are filtered out by `_translate_dict_to_dict` / `configuration_for_stage` -/
def dumpPair (dt : List DumpEntry) (pass : List Path) : Path × Val → Option (S × S)
  | (_, .none) => none
  | (p, v) => dumpSome dt pass p v

def dumpSection (dt : List DumpEntry) (pass : List Path) (c : List (Path × Val)) : List (S × S) :=
  c.filterMap (dumpPair dt pass)

def parseOuts (s : S) : List (Path × POut) → Option (List (Path × Val))
  | [] => some []
  | (p, .const v) :: r => (parseOuts s r).map fun t => (p, v) :: t
  | (p, .parsed pa) :: r =>
    match parse pa s, parseOuts s r with
    | some v, some t => some ((p, v) :: t)
    | _, _ => none

/-- `if references: component['references'] = references`: an empty top-level list is not stored -/
def dropEmptyTop (l : List (Path × Val)) : List (Path × Val) :=
  l.filter fun pv => !(pv.1.length == 1 && pv.2 == .words [])

/-- one `key = text` line read back: a known key goes through its branch of the if/elif chain (a known
key without a branch is consumed and lost), any other key is a component variable -/
def parsePair (pt : List ParseEntry) (known : List S) : S × S → Option (List (Path × Val))
  | (k, s) =>
    if known.contains k then
      match findParse pt k with
      | some e => (parseOuts s e.outs).map dropEmptyTop
      | none => some []
    else some [([variablesSeg, k], .str s)]

def parseSection (pt : List ParseEntry) (known : List S) : List (S × S) → Option (List (Path × Val))
  | [] => some []
  | kv :: r =>
    match parsePair pt known kv, parseSection pt known r with
    | some a, some b => some (a ++ b)
    | _, _ => none

/-- parser responsible for a path according to the parse table (first `.parsed` output with that path) -/
def parserFor (pt : List ParseEntry) (k : S) (p : Path) : Option Parser :=
  match findParse pt k with
  | none => none
  | some e => e.outs.findSome? fun
    | (q, .parsed pa) => if q = p then some pa else none
    | _ => none

/-- printer/parser pairs whose composition is the identity on the parser's value domain -/
def good : Printer → Parser → Bool
  | .ident, .raw => true
  | .strOf, .raw => true
  | .lowerIfBool, .toBool => true
  | .strOf, .toInt => true
  | .ident, .toInt => true
  | .strOf, .toFloat => true
  | .ident, .toFloat => true
  | .ident, .toMem => true
  | .strOf, .toMem => true
  | .joinWords, .split => true
  | _, _ => false

/-- the parse table sends the key of dump entry `e` back to `e.path` through a parser that inverts `e.printer`,
and the key is one of the known (non-variable) keys -/
def isConst : Path × POut → Bool
  | (_, .const _) => true
  | _ => false

def agrees (pt : List ParseEntry) (known : List S) (e : DumpEntry) : Bool :=
  known.contains e.key &&
  match findParse pt e.key with
  | some pe => (match pe.outs with
    | (q, .parsed pa) :: rest => q = e.path && good e.printer pa && rest.all isConst
    | _ => false)
  | none => false

/-- the value domain of a parser ("the entry's type domain") -/
def wordOk (w : S) : Bool := !w.isEmpty && w.all fun c => !isSpace c

def inDom : Parser → Val → Bool
  | .raw, .str _ => true
  | .toBool, .bool _ => true
  | .toBool, .str s => isVarRef s && (boolOf? s).isNone
  | .toInt, .int _ => true
  | .toInt, .str s => isVarRef s && (parseInt? s).isNone
  | .toFloat, .float l => isFloatLit l
  | .toFloat, .str s => isVarRef s && !isFloatLit s
  | .toMem, .int _ => true
  | .toMem, .str s => (memBytes? s).isSome || isVarRef s
  | .split, .words ws => ws.all wordOk
  | _, _ => false

/-- the parser of the reader's branch for the key of dump entry `e` -/
def entryParser (pt : List ParseEntry) (e : DumpEntry) : Option Parser :=
  match findParse pt e.key with
  | some pe => (match pe.outs with
    | (_, .parsed pa) :: _ => some pa
    | _ => none)
  | none => none

def tableOk (dt : List DumpEntry) (pt : List ParseEntry) (p : Path) (v : Val) : Bool :=
  match findDump dt p with
  | some e => (match entryParser pt e with
    | some pa => inDom pa v
    | none => false)
  | none => false

/-- "expressible in the legacy format", per (option path, value) pair of a component: `None`; a variable
whose name is not a legacy key and whose value is text; an option with a dump entry whose value lies in
the type domain of the reader's converter for that key -/
def pairOkSome (dt : List DumpEntry) (pt : List ParseEntry) (known : List S) (p : Path) (v : Val) : Bool :=
  match p with
  | [seg, name] =>
    if seg = variablesSeg then (match v with
      | .str _ => !known.contains name
      | _ => false)
    else tableOk dt pt p v
  | _ => tableOk dt pt p v

def pairOk (dt : List DumpEntry) (pt : List ParseEntry) (known : List S) : Path × Val → Bool
  | (_, .none) => true
  | (p, v) => pairOkSome dt pt known p v

/-- `FlowIR.compress_flowir` at the end of `load_from_directory`: empty lists are removed -/
def compress (c : List (Path × Val)) : List (Path × Val) := c.filter fun pv => pv.2 != .words []

/-- layering as far as this property needs it: an explicitly set option wins over the default -/
def resolve (dflt : Path → Val) (c : List (Path × Val)) (p : Path) : Val :=
  match c.lookup p with
  | some v => v
  | none => dflt p

end St4sd.Ini
