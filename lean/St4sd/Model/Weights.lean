/-!
# Stage weights and total progress (property C20)

Models `FlowIR.inject_default_values` (flowir.py, the `stage-weight` block),
`StatusMonitor.__init__` (output.py, `stageWeights`) and the total-progress sum of
`StatusMonitor.run/CheckStatus`.

Numbers.  The Python code works on floats.  The model works on exact integers:
a weight `w` is represented by `u = w * 10^9` (the harness only generates weights with at
most 9 decimals, so `u` is an integer), the tolerance `1e-6` of the code is `tol = 1000`
units, fallback weights are multiples of `1/1000`, i.e. of `10^6` units.  Float rounding
(≤ 1e-12 for the sums that occur) is far below one unit except exactly at the tolerance
boundary, which the generator avoids (trusted base: CPython float addition error).
-/
namespace St4sd.Weights

/-- one = 10^9 units -/
def one : Int := 1000000000
/-- tolerance 1e-6 in units of 1e-9 -/
def tol : Int := 1000
/-- a thousandth in units -/
def milli : Int := 1000000

def sum : List Int → Int
  | [] => 0
  | x :: xs => x + sum xs

def allNonneg : List Int → Bool
  | [] => true
  | x :: xs => decide (0 ≤ x) && allNonneg xs

/-- `all(e >= 0) and abs(sum(weights) - 1.0) < 1e-6` -/
def proper (ws : List Int) : Bool :=
  allNonneg ws && decide (sum ws - one < tol) && decide (one - sum ws < tol)

/-- `int(1000/num_stages)` thousandths for every stage, and
`1000 - (n-1)*int(1000/n)` thousandths for the last one (the guard
`num_stages * int(100*fallbackWeight) != 1000` of the code is always true, see
`Props.C20.guard_always_true`). -/
def fallback (n : Nat) : List Int :=
  List.replicate (n - 1) ((1000 / (n : Int)) * milli) ++
    [(1000 - ((n : Int) - 1) * (1000 / (n : Int))) * milli]

/-- the loader: keep proper weights, otherwise the fallback (n = number of stages ≥ 1) -/
def normalize (ws : List Int) : List Int :=
  if proper ws then ws else fallback ws.length

/-- `StatusMonitor.__init__`: same test; fallback there is `1/n` for every stage, which is
not a multiple of a unit: represented as the pair (kept?, weights) -/
def monitorKeeps (ws : List Int) : Bool := proper ws

/-- Σ over active stages of progress*weight + Σ over finished of weight.
`ps` are (progress numerator over `scale`, weight) pairs; finished = progress `scale`. -/
def progress : List (Int × Int) → Int
  | [] => 0
  | (p, w) :: r => p * w + progress r

/-- The algorithm before the repair (kept for the witnesses): `ts` are the truncated
thousandths `int(w*1000)` computed by CPython. -/
def keptOld (ts : List Int) : Bool := decide (sum ts = 1000)

end St4sd.Weights
