/-!
# Stage weights and total progress (property C20)

Models `FlowIR.inject_default_values` (flowir.py, the `stage-weight` block),
`StatusMonitor.__init__` (output.py, `stageWeights`) and the total-progress sum of
`StatusMonitor.run/CheckStatus`.

Numbers.  The Python code works on floats.  The model works on exact integers:
a weight `w` is represented by `u = w * 10^9` (the harness only generates weights with at
most 9 decimals, so `u` is an integer), the tolerance `1e-6` of the code is `tol = 1000`
units, fallback weights are multiples of `1/1000`, i.e. of `10^6` units.  Float rounding
(≤ 1e-12 for the sums that occur) is far below one unit except exactly at the tolerance
boundary, which the generator avoids (trusted base: CPython float addition error).
-/
namespace St4sd.Weights

/-- one = 10^9 units -/
def one : Int := 1000000000
/-- tolerance 1e-6 in units of 1e-9 -/
def tol : Int := 1000
/-- a thousandth in units -/
def milli : Int := 1000000

def sum : List Int → Int
  | [] => 0
  | x :: xs => x + sum xs

def allNonneg : List Int → Bool
  | [] => true
  | x :: xs => decide (0 ≤ x) && allNonneg xs

/-- `all(e >= 0) and abs(sum(weights) - 1.0) < 1e-6` -/
def proper (ws : List Int) : Bool :=
  allNonneg ws && decide (sum ws - one < tol) && decide (one - sum ws < tol)

/-- `int(1000/num_stages)` thousandths for every stage, and
`1000 - (n-1)*int(1000/n)` thousandths for the last one (the guard
`num_stages * int(100*fallbackWeight) != 1000` of the code is always true, see
`Props.C20.guard_always_true`). -/
def fallback (n : Nat) : List Int :=
  List.replicate (n - 1) ((1000 / (n : Int)) * milli) ++
    [(1000 - ((n : Int) - 1) * (1000 / (n : Int))) * milli]

/-- the loader: keep proper weights, otherwise the fallback (n = number of stages ≥ 1) -/
def normalize (ws : List Int) : List Int :=
  if proper ws then ws else fallback ws.length

/-- `StatusMonitor.__init__`: same test; fallback there is `1/n` for every stage, which is
not a multiple of a unit: represented as the pair (kept?, weights) -/
def monitorKeeps (ws : List Int) : Bool := proper ws

/-- `StatusMonitor.__init__`, position by position: the list it uses for reporting.
`some ws` = exactly the loaded list (same order, same length: `stageWeights[i]` is the loaded
weight of stage `i`); `none` = the uniform `1/n` fallback (not a multiple of a unit).  The
code appends the weights in the order of the loaded status report, i.e. in stage order. -/
def monitorWeights (ws : List Int) : Option (List Int) := if proper ws then some ws else none

/-! ## One status check against a controller (snapshot semantics)

`StatusMonitor.run/CheckStatus` reads from the controller: the current stage `cur`, the
list `transit` of stages with a component that is still active and the list `finished` of
stages all of whose components have been handled (both under `controller.comp_lock`, so they
are taken at one instant), and then one progress value per active stage (`p k`, numerator
over `scale`; `None` is read as 0).  It reports

  Σ_{k ∈ {cur} ∪ (transit \ {cur})} p k · w k  +  Σ_{k ∈ finished, k ≠ cur} w k .

`active_stages` is a dict (duplicates in `transit` collapse), the finished list is iterated
as it is (an index occurring twice is added twice).  The model states the same sum position
by position: stage `k` contributes `stageFactor k · w k`. -/

/-- Σ_j f (k+j) · ws[j] -/
def wsumFrom (f : Nat → Int) : Nat → List Int → Int
  | _, [] => 0
  | k, w :: ws => f k * w + wsumFrom f (k + 1) ws

/-- Σ_k f k · ws[k] -/
def wsum (f : Nat → Int) (ws : List Int) : Int := wsumFrom f 0 ws

/-- what one `CheckStatus` multiplies the weight of stage `k` with (numerator over `scale`) -/
def stageFactor (scale : Int) (cur : Nat) (transit finished : List Nat) (p : Nat → Int) (k : Nat) : Int :=
  (if k = cur ∨ k ∈ transit then p k else 0)
    + (((finished.filter (fun i => i != cur)).count k : Nat) : Int) * scale

/-- the total progress one `CheckStatus` reports (numerator over `scale * one`) -/
def checkTotal (scale : Int) (cur : Nat) (transit finished : List Nat) (p : Nat → Int) (ws : List Int) : Int :=
  wsum (stageFactor scale cur transit finished p) ws

/-- the progress values read from a list (`get_stage_status` answers; missing = 0) -/
def readOf (ps : List Int) : Nat → Int := fun k => ps.getD k 0

/-- A controller state at one instant.  `prog k` is what `get_stage_status k` reports
(numerator over `scale`, 0 for a stage the controller does not know yet). -/
structure Snap where
  cur : Nat
  transit : List Nat
  finished : List Nat
  prog : Nat → Int

/-- What `Controller.comp_lock` guarantees for the two lists when they are read in one
critical section (`get_stages_in_transit`: stages with an active node; `get_stages_finished`:
known stages without an active node, each once), plus what the states mean for the
progress of a stage: finished = complete, unknown = nothing done, otherwise within `[0, scale]`. -/
structure Snap.Consistent (s : Snap) (scale : Int) : Prop where
  disjoint : ∀ k, k ∈ s.transit → k ∉ s.finished
  nodup : s.finished.Nodup
  range : ∀ k, 0 ≤ s.prog k ∧ s.prog k ≤ scale
  fin_complete : ∀ k, k ∈ s.finished → s.prog k = scale
  idle_zero : ∀ k, k ∉ s.transit → k ∉ s.finished → s.prog k = 0

/-- Σ over active stages of progress*weight + Σ over finished of weight.
`ps` are (progress numerator over `scale`, weight) pairs; finished = progress `scale`. -/
def progress : List (Int × Int) → Int
  | [] => 0
  | (p, w) :: r => p * w + progress r

/-! ## Given, missing and materialised stage weights

What a package gives for one stage is `some u` (a `stage-weight`, already in units; an unparsable
text counts as `some 0`, which is what the loader's `except ValueError` makes of it) or `none`
(the stage has no `status-report` entry, or an entry with other keys only).  The loader
(`FlowIR.inject_default_values`) first **stores** the default `0.0` into the status report of
such a stage and then validates; so the report it leaves behind has a `stage-weight` for every
stage.  `StatusMonitor.__init__` reads that report key by key inside a bare `try/except`; a
stage whose key it cannot read is given the sentinel `fallbackWeight * 1000` (= `1000/n`), which
makes its own properness test fail and replaces ALL weights by `1/n`. -/

/-- the weight list the loader validates: a missing weight counts as the default 0.0 -/
def givenUnits : List (Option Int) → List Int
  | [] => []
  | none :: r => 0 :: givenUnits r
  | some u :: r => u :: givenUnits r

/-- the loaded weights of a package that gives `gs` -/
def load (gs : List (Option Int)) : List Int := normalize (givenUnits gs)

/-- the status report after loading, as `StatusMonitor` sees it: every stage has the key -/
def loadReport (gs : List (Option Int)) : List (Option Int) := (load gs).map some

/-- `fallbackWeight * 1000` of `StatusMonitor.__init__` for `n` stages, in units (rounded down) -/
def sentinel (n : Nat) : Int := 1000 * one / (n : Int)

/-- `StatusMonitor.__init__` reading a status report of `n` stages key by key -/
def readReport (n : Nat) : List (Option Int) → List Int
  | [] => []
  | none :: r => sentinel n :: readReport n r
  | some u :: r => u :: readReport n r

/-- the list `StatusMonitor` reports with, from the report it is handed (`none` = uniform `1/n`) -/
def monitorFromReport (r : List (Option Int)) : Option (List Int) :=
  monitorWeights (readReport r.length r)

/-- A loader that validates with the default but does NOT store it (the report keeps its holes). -/
def loadReportNoDefault (gs : List (Option Int)) : List (Option Int) :=
  if proper (givenUnits gs) then gs else (fallback gs.length).map some

/-! ## Stage progress from the controller's component bookkeeping

`Controller.get_stage_status k` = (components of stage `k` in the FINISHED state) / (components of
stage `k`), both taken from the graph as it is at the time of the call.  A stage is modelled by
the list of the done-flags of its current population; a DoWhile that instantiates its next
iteration appends unfinished components to the stage. -/

/-- number of finished components -/
def finishedCount : List Bool → Nat
  | [] => 0
  | true :: r => finishedCount r + 1
  | false :: r => finishedCount r

/-- (finished, population) of a stage as it is now -/
def stageProgress (s : List Bool) : Nat × Nat := (finishedCount s, s.length)

/-- controller operations that matter for progress -/
inductive CtlOp where
  /-- component `i` (position in the stage's population) of stage `k` reaches FINISHED -/
  | fin (k i : Nat)
  /-- stage `k` gains `m` new (unfinished) components: next DoWhile iteration -/
  | grow (k m : Nat)
  /-- somebody asks for the progress of stage `k` -/
  | query (k : Nat)

/-- Controller state: the stages, plus (for the stale variant only) the population remembered
at the first query of a stage. -/
structure Ctl where
  stages : List (List Bool)
  remembered : List (Option Nat)

def setAt {α : Type} : List α → Nat → α → List α
  | [], _, _ => []
  | _ :: r, 0, a => a :: r
  | x :: r, i + 1, a => x :: setAt r i a

def modifyAt {α : Type} (f : α → α) : List α → Nat → List α
  | [], _ => []
  | x :: r, 0 => f x :: r
  | x :: r, i + 1 => x :: modifyAt f r i

def step (c : Ctl) : CtlOp → Ctl
  | .fin k i => { c with stages := modifyAt (fun s => setAt s i true) c.stages k }
  | .grow k m => { c with stages := modifyAt (fun s => s ++ List.replicate m false) c.stages k }
  | .query k =>
    match c.remembered.getD k none with
    | some _ => c
    | none => { c with remembered := setAt c.remembered k (some ((c.stages.getD k []).length)) }

def run (c : Ctl) : List CtlOp → Ctl
  | [] => c
  | o :: r => run (step c o) r

/-- what `get_stage_status k` answers in state `c` -/
def queryStage (c : Ctl) (k : Nat) : Nat × Nat := stageProgress (c.stages.getD k [])

/-- a variant that keeps the denominator of the first query (for the witness) -/
def queryStageStale (c : Ctl) (k : Nat) : Nat × Nat :=
  (finishedCount (c.stages.getD k []),
   match c.remembered.getD k none with
   | some p => p
   | none => (c.stages.getD k []).length)

/-- common denominator of the stage fractions: the product of the populations -/
def prodLen : List (List Bool) → Int
  | [] => 1
  | s :: r => (s.length : Int) * prodLen r

/-- progress numerator of stage `s` over the common scale `D` -/
def scaled (D : Int) (s : List Bool) : Int := (finishedCount s : Int) * (D / (s.length : Int))

/-- the total a status check reports when it reads all stages of one controller state:
`Σ_k w_k · finished_k / population_k`, numerator over `prodLen stages · one` -/
def totalOfStages (stages : List (List Bool)) (ws : List Int) : Int :=
  progress ((stages.map (scaled (prodLen stages))).zip ws)

/-! ## Final states of components and the controller's record of observed terminations

A component terminates in one of three final states (`ComponentState.finish`: FINISHED, SHUTDOWN —
stopped by `_stopComponents` after the package's `IsStageComplete` hook / `shutdownOn` / the failure of
a stage mate —, FAILED).  The controller *observes* a termination in `finishedCheck`, which adds the
component to `comp_done` whatever its final state.  `Controller.node_is_active` = "not in
`comp_done`".  The two stage lists of a status check are derived from `comp_done` only:

* `get_stages_in_transit`: stages with an active node,
* `get_stages_finished`:   stages without an active node,

while `get_stage_status` counts the components whose own state is FINISHED over the population. -/

inductive Final where
  | finished
  | shutdown
  | failed
  deriving DecidableEq, Repr

/-- `st`: the final state the component reached (`none`: still alive); `seen`: it is in `comp_done` -/
structure Comp where
  st : Option Final
  seen : Bool
  deriving DecidableEq, Repr

def Comp.fresh : Comp := ⟨none, false⟩

/-- `Controller.node_is_active` -/
def Comp.active (c : Comp) : Bool := !c.seen

/-- `comp.state in [FINISHED_STATE]` (`get_stage_status`): the component's own state -/
def Comp.succeeded (c : Comp) : Bool := decide (c.st = some Final.finished)

/-- `Controller.get_node_state(..) == FINISHED_STATE`: RUNNING until observed, then the own state -/
def Comp.stateFinished (c : Comp) : Bool := c.seen && c.succeeded

def succCount : List Comp → Nat
  | [] => 0
  | c :: r => (if c.succeeded then 1 else 0) + succCount r

/-- the stage has a node that the controller has not observed terminating -/
def hasActive (s : List Comp) : Bool := s.any Comp.active

/-- `Controller.get_stages_in_transit` -/
def inTransitOf (ss : List (List Comp)) : List Nat :=
  (List.range ss.length).filter (fun k => hasActive (ss.getD k []))

/-- `Controller.get_stages_finished` -/
def finishedOf (ss : List (List Comp)) : List Nat :=
  (List.range ss.length).filter (fun k => !hasActive (ss.getD k []))

/-- A variant of `get_stages_in_transit` that skips a node by its STATE being FINISHED instead of by
`comp_done` membership (for the witness: it disagrees with `finishedOf` on stages that completed with
a SHUTDOWN / FAILED component). -/
def inTransitByStateOf (ss : List (List Comp)) : List Nat :=
  (List.range ss.length).filter (fun k => (ss.getD k []).any (fun c => !c.stateFinished))

def prodLenC : List (List Comp) → Int
  | [] => 1
  | s :: r => (s.length : Int) * prodLenC r

/-- `get_stage_status` over the common scale `D` -/
def scaledC (D : Int) (s : List Comp) : Int := (succCount s : Int) * (D / (s.length : Int))

/-- the per-stage progress values a check reads (numerators over `prodLenC ss`) -/
def progC (ss : List (List Comp)) : Nat → Int := fun k => scaledC (prodLenC ss) (ss.getD k [])

/-- the total one `CheckStatus` reports on controller state `(cur, ss)`: numerator over `prodLenC ss · one` -/
def compTotal (cur : Nat) (ss : List (List Comp)) (ws : List Int) : Int :=
  checkTotal (prodLenC ss) cur (inTransitOf ss) (finishedOf ss) (progC ss) ws

/-- the same with the by-state in-transit list (witness) -/
def compTotalByState (cur : Nat) (ss : List (List Comp)) (ws : List Int) : Int :=
  checkTotal (prodLenC ss) cur (inTransitByStateOf ss) (finishedOf ss) (progC ss) ws

/-- `ComponentState.finish(f)`: the first final state sticks -/
def Comp.term (f : Final) (c : Comp) : Comp :=
  match c.st with
  | none => { c with st := some f }
  | some _ => c

/-- `finishedCheck` delivered (only terminations are notified): `comp_done.add` -/
def Comp.see (c : Comp) : Comp :=
  match c.st with
  | none => c
  | some _ => { c with seen := true }

/-- `_fake_finish_with_state(SHUTDOWN)` / `_stopComponents` of a component that has not terminated,
followed by its notification -/
def Comp.stop (c : Comp) : Comp :=
  match c.st with
  | none => ⟨some Final.shutdown, true⟩
  | some _ => c

inductive COp where
  /-- component `i` of stage `k` terminates in final state `f` -/
  | term (k i : Nat) (f : Final)
  /-- the controller observes the termination of component `i` of stage `k` (`finishedCheck`) -/
  | see (k i : Nat)
  /-- stage `k` gains `m` new components (next DoWhile iteration) -/
  | grow (k m : Nat)
  /-- every component of stage `k` that has not terminated is stopped (SHUTDOWN) and observed -/
  | stop (k : Nat)
  /-- the stage loop moves on -/
  | next

structure CState where
  cur : Nat
  stages : List (List Comp)

def stepC (c : CState) : COp → CState
  | .term k i f => { c with stages := modifyAt (fun s => modifyAt (Comp.term f) s i) c.stages k }
  | .see k i => { c with stages := modifyAt (fun s => modifyAt Comp.see s i) c.stages k }
  | .grow k m => { c with stages := modifyAt (fun s => s ++ List.replicate m Comp.fresh) c.stages k }
  | .stop k => { c with stages := modifyAt (fun s => s.map Comp.stop) c.stages k }
  | .next => { c with cur := c.cur + 1 }

def runC (c : CState) : List COp → CState
  | [] => c
  | o :: r => runC (stepC c o) r

/-- observed ⇒ terminated -/
def Comp.wf (c : Comp) : Bool := !c.seen || c.st.isSome

def wfStages (ss : List (List Comp)) : Bool := ss.all (fun s => s.all Comp.wf)

/-- The algorithm before the repair (kept for the witnesses): `ts` are the truncated
thousandths `int(w*1000)` computed by CPython. -/
def keptOld (ts : List Int) : Bool := decide (sum ts = 1000)

end St4sd.Weights
