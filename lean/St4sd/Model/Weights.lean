/-!
# Stage weights and total progress (property C20)

Models `FlowIR.inject_default_values` (flowir.py, the `stage-weight` block),
`StatusMonitor.__init__` (output.py, `stageWeights`) and the total-progress sum of
`StatusMonitor.run/CheckStatus`.

Numbers.  The Python code works on floats.  The model works on exact integers:
a weight `w` is represented by `u = w * 10^9` (the harness only generates weights with at
most 9 decimals, so `u` is an integer), the tolerance `1e-6` of the code is `tol = 1000`
units, fallback weights are multiples of `1/1000`, i.e. of `10^6` units.  Float rounding
(≤ 1e-12 for the sums that occur) is far below one unit except exactly at the tolerance
boundary, which the generator avoids (trusted base: CPython float addition error).
-/
namespace St4sd.Weights

/-- one = 10^9 units -/
def one : Int := 1000000000
/-- tolerance 1e-6 in units of 1e-9 -/
def tol : Int := 1000
/-- a thousandth in units -/
def milli : Int := 1000000

def sum : List Int → Int
  | [] => 0
  | x :: xs => x + sum xs

def allNonneg : List Int → Bool
  | [] => true
  | x :: xs => decide (0 ≤ x) && allNonneg xs

/-- `all(e >= 0) and abs(sum(weights) - 1.0) < 1e-6` -/
def proper (ws : List Int) : Bool :=
  allNonneg ws && decide (sum ws - one < tol) && decide (one - sum ws < tol)

/-- `int(1000/num_stages)` thousandths for every stage, and
`1000 - (n-1)*int(1000/n)` thousandths for the last one (the guard
`num_stages * int(100*fallbackWeight) != 1000` of the code is always true, see
`Props.C20.guard_always_true`). -/
def fallback (n : Nat) : List Int :=
  List.replicate (n - 1) ((1000 / (n : Int)) * milli) ++
    [(1000 - ((n : Int) - 1) * (1000 / (n : Int))) * milli]

/-- the loader: keep proper weights, otherwise the fallback (n = number of stages ≥ 1) -/
def normalize (ws : List Int) : List Int :=
  if proper ws then ws else fallback ws.length

/-- `StatusMonitor.__init__`: same test; fallback there is `1/n` for every stage, which is
not a multiple of a unit: represented as the pair (kept?, weights) -/
def monitorKeeps (ws : List Int) : Bool := proper ws

/-- `StatusMonitor.__init__`, position by position: the list it uses for reporting.
`some ws` = exactly the loaded list (same order, same length: `stageWeights[i]` is the loaded
weight of stage `i`); `none` = the uniform `1/n` fallback (not a multiple of a unit).  The
code appends the weights in the order of the loaded status report, i.e. in stage order. -/
def monitorWeights (ws : List Int) : Option (List Int) := if proper ws then some ws else none

/-! ## One status check against a controller (snapshot semantics)

`StatusMonitor.run/CheckStatus` reads from the controller: the current stage `cur`, the
list `transit` of stages with a component that is still active and the list `finished` of
stages all of whose components have been handled (both under `controller.comp_lock`, so they
are taken at one instant), and then one progress value per active stage (`p k`, numerator
over `scale`; `None` is read as 0).  It reports

  Σ_{k ∈ {cur} ∪ (transit \ {cur})} p k · w k  +  Σ_{k ∈ finished, k ≠ cur} w k .

`active_stages` is a dict (duplicates in `transit` collapse), the finished list is iterated
as it is (an index occurring twice is added twice).  The model states the same sum position
by position: stage `k` contributes `stageFactor k · w k`. -/

/-- Σ_j f (k+j) · ws[j] -/
def wsumFrom (f : Nat → Int) : Nat → List Int → Int
  | _, [] => 0
  | k, w :: ws => f k * w + wsumFrom f (k + 1) ws

/-- Σ_k f k · ws[k] -/
def wsum (f : Nat → Int) (ws : List Int) : Int := wsumFrom f 0 ws

/-- what one `CheckStatus` multiplies the weight of stage `k` with (numerator over `scale`) -/
def stageFactor (scale : Int) (cur : Nat) (transit finished : List Nat) (p : Nat → Int) (k : Nat) : Int :=
  (if k = cur ∨ k ∈ transit then p k else 0)
    + (((finished.filter (fun i => i != cur)).count k : Nat) : Int) * scale

/-- the total progress one `CheckStatus` reports (numerator over `scale * one`) -/
def checkTotal (scale : Int) (cur : Nat) (transit finished : List Nat) (p : Nat → Int) (ws : List Int) : Int :=
  wsum (stageFactor scale cur transit finished p) ws

/-- the progress values read from a list (`get_stage_status` answers; missing = 0) -/
def readOf (ps : List Int) : Nat → Int := fun k => ps.getD k 0

/-- A controller state at one instant.  `prog k` is what `get_stage_status k` reports
(numerator over `scale`, 0 for a stage the controller does not know yet). -/
structure Snap where
  cur : Nat
  transit : List Nat
  finished : List Nat
  prog : Nat → Int

/-- What `Controller.comp_lock` guarantees for the two lists when they are read in one
critical section (`get_stages_in_transit`: stages with an active node; `get_stages_finished`:
known stages without an active node, each once), plus what the states mean for the
progress of a stage: finished = complete, unknown = nothing done, otherwise within `[0, scale]`. -/
structure Snap.Consistent (s : Snap) (scale : Int) : Prop where
  disjoint : ∀ k, k ∈ s.transit → k ∉ s.finished
  nodup : s.finished.Nodup
  range : ∀ k, 0 ≤ s.prog k ∧ s.prog k ≤ scale
  fin_complete : ∀ k, k ∈ s.finished → s.prog k = scale
  idle_zero : ∀ k, k ∉ s.transit → k ∉ s.finished → s.prog k = 0

/-- Σ over active stages of progress*weight + Σ over finished of weight.
`ps` are (progress numerator over `scale`, weight) pairs; finished = progress `scale`. -/
def progress : List (Int × Int) → Int
  | [] => 0
  | (p, w) :: r => p * w + progress r

/-- The algorithm before the repair (kept for the witnesses): `ts` are the truncated
thousandths `int(w*1000)` computed by CPython. -/
def keptOld (ts : List Int) : Bool := decide (sum ts = 1000)

end St4sd.Weights
