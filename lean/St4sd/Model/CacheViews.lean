import St4sd.Model.Cache
/-!
# The views of a component's configuration on an experiment graph (C08, second layer)

One `FlowIRConcrete` (description + cache, `Model/Cache.lean`) sits behind every object that answers
questions about a component or accepts updates to it:

* `ComponentSpecification` of the node (graph.py 1032-2210: `configuration`, `commandDetails`,
  `resourceRequest`, `resourceManager`, `executors`, `workflowAttributes`, `customAttributes`,
  `rawDataReferences`, `setOption`, `removeOption`), also the one of the same node in a sibling graph
  (`WorkflowGraph.replicate()` / `.primitive()` share the configuration object);
* the accessors stored in the networkx node (`generate_workflow_access_api`, graph.py 2215-2233:
  `setOption`, `getConfiguration`);
* `WorkflowGraph.configurationForNode / setOptionForNode / removeOptionForNode / dataReferencesForNode`
  (graph.py 3283-3325);
* `FlowIRExperimentConfiguration.configurationForNode / setOptionForNode / removeOptionForNode /
  dataReferencesForNode` (conf.py 1089-1178);
* `FlowIRConcrete` itself;
* `data.Job` (data.py 2690-2705, 3060-3163: `flowir_description`, `workflowAttributes`, `resourceRequest`,
  `resourceManager`, `executors`, `customAttributes`, `type`, `isRepeat`, `setOption`, `removeOption`,
  `options_modify`, `options_remove`).

The code that exists keeps NO state in any of these objects: every read is
`FlowIRConcrete.get_component_configuration(comp, raw, include_default, is_primitive, inject_missing_fields)`
on the active platform followed by picking a part of the answer, every update is the corresponding mutator
of `FlowIRConcrete`.  That is what is modelled: the `Entry` through which a call arrives is carried by the
operation and ignored by `gstep`; a `View` is a projection of the answer.
-/
namespace St4sd.Tree
open St4sd.Str

/-- the object a call goes through -/
inductive Entry where
  | spec | specSibling | node | graph | conf | concrete | job
  deriving Repr, DecidableEq, Inhabited

/-- what a read hands out: the whole configuration, or the value at a route inside it
(`commandDetails` = `["command"]`, `customAttributes` = `["variables"]`, `Job.type` =
`["resourceManager","config","backend"]`, …) -/
inductive View where
  | configuration
  | path (route : List S)
  deriving Repr, Inhabited

/-- `comp[k1][k2]…` on the answer of the query (a missing key is a `KeyError`) -/
def project : View → Except Err Val → Except Err Val
  | _, .error e => .error e
  | .configuration, .ok v => .ok v
  | .path ks, .ok v =>
    match lookupPath ks v with
    | some x => .ok x
    | none => .error .keyError

/-- operations of the graph layer -/
inductive GOp where
  /-- any operation of the configuration interface (`Model/Cache.lean`), arriving through `e` -/
  | via (e : Entry) (u : Op)
  /-- a read through `e`: the query with the keyword arguments `f` on the active platform, then `v` -/
  | view (e : Entry) (v : View) (i : Nat) (n : S) (f : Flags)
  deriving Repr, Inhabited

/-- the call of `FlowIRConcrete` an operation of the graph layer boils down to (`P` = active platform) -/
def lowerOp (P : S) : GOp → Op
  | .via _ u => u
  | .view _ _ i n f => .queryF i n P f

/-- what the caller gets: the answer of the underlying call, seen through the view -/
def present : GOp → Except Err Val → Except Err Val
  | .via _ _, r => r
  | .view _ v _ _ _, r => project v r

/-- one call on the graph layer -/
def gstep (fuel : Nat) (P : S) (s : St) (g : GOp) : St × Except Err Val :=
  let r := step fuel s (lowerOp P g)
  (r.1, present g r.2)

def grun (fuel : Nat) (P : S) : St → List GOp → St × List (Except Err Val)
  | s, [] => (s, [])
  | s, g :: r =>
    let (s1, a) := gstep fuel P s g
    let (s2, as) := grun fuel P s1 r
    (s2, a :: as)

/-- forget through which object a call was made -/
def GOp.withEntry (e : Entry) : GOp → GOp
  | .via _ u => .via e u
  | .view _ v i n f => .view e v i n f

def GOp.readOnly : GOp → Bool
  | .via _ u => u.readOnly
  | .view .. => true

end St4sd.Tree
