/-!
# C19 — the configuration directory over several writes

`Dosini.dump(flowir, dir, update_existing=True, is_instance=…)` is "clean up, then regenerate": it removes EVERY stage
file of the flavour it writes (`stages.d/stage*.instance.conf` for an instance, the other `stages.d/stage*.conf` for a
package; dosini.py 1465-1471) and then writes one file per stage of the description (`_dump_components`).
`Dosini._discover_stages` (1009-1040) reads back every stage file of the flavour that is in the directory and insists
that their indices are exactly `0 … n-1`.  The directory is shared by both flavours (an instance directory holds the
package files too) and is written again whenever the configuration is created with `updateInstanceFiles=True`.

`α` is the content of a stage file (its sections), which this model does not look into (`Model/Ini.lean` does).
`dumpKeep` is NOT the code that exists: a clean-up that removes only the files about to be regenerated (modelled for
`Witness.C19`).
-/
namespace St4sd.IniDir

/-- stage files of one flavour: stage index ↦ content (one entry per index) -/
abbrev Files (α : Type) := List (Nat × α)

structure Dir (α : Type) where
  /-- stages.d/stage<i>.instance.conf -/
  inst : Files α
  /-- stages.d/stage<i>.conf -/
  pkg : Files α

def Dir.files {α : Type} (d : Dir α) (isInstance : Bool) : Files α := if isInstance then d.inst else d.pkg

/-- writing the file of stage `e.1`: replaces a file of that stage, keeps the others -/
def writeFile {α : Type} (fs : Files α) (e : Nat × α) : Files α := fs.filter (fun f => f.1 != e.1) ++ [e]

/-- `_dump_components`: one file per stage of the description -/
def writeAll {α : Type} (fs : Files α) (desc : Files α) : Files α := desc.foldl writeFile fs

/-- `Dosini.dump(desc, dir, update_existing=True, is_instance)` -/
def dump {α : Type} (d : Dir α) (isInstance : Bool) (desc : Files α) : Dir α :=
  if isInstance then { d with inst := writeAll [] desc } else { d with pkg := writeAll [] desc }

/-- a clean-up that only removes the files this dump regenerates (not the code that exists) -/
def dumpKeep {α : Type} (d : Dir α) (isInstance : Bool) (desc : Files α) : Dir α :=
  if isInstance then { d with inst := writeAll d.inst desc } else { d with pkg := writeAll d.pkg desc }

/-- a history of writes into one directory -/
def dumpAll {α : Type} (d : Dir α) (hist : List (Bool × Files α)) : Dir α :=
  hist.foldl (fun d h => dump d h.1 h.2) d

def stageFile {α : Type} (fs : Files α) (i : Nat) : Option α := (fs.find? (fun f => f.1 == i)).map (·.2)

/-- the files of stages `i, i+1, …, i+n-1`, if all are there -/
def collect {α : Type} (fs : Files α) : Nat → Nat → Option (List α)
  | _, 0 => some []
  | i, n + 1 =>
    match stageFile fs i, collect fs (i + 1) n with
    | some a, some r => some (a :: r)
    | _, _ => none

/-- `_discover_stages`: with `n` files found, their indices must be exactly `0 … n-1`; the files in index order -/
def discover {α : Type} (fs : Files α) : Option (List α) := collect fs 0 fs.length

/-- a description whose stages are numbered `k, k+1, …` -/
def descFrom {α : Type} : Nat → List α → Files α
  | _, [] => []
  | k, a :: r => (k, a) :: descFrom (k + 1) r

/-- a description with stages `0 … n-1` -/
def descOf {α : Type} (stages : List α) : Files α := descFrom 0 stages

end St4sd.IniDir
