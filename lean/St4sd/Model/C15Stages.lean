/-!
# C15 — model of `Dosini._discover_stages` (python/experiment/model/frontends/dosini.py)

The loader lists `conf/stages.d` with `glob.glob('stage*.conf')` (an order the file system decides), keeps the
files of the flavour it was asked for (package: the ones that do NOT end in `.instance.conf`; instance: the ones
that do), and stores them with `stage_to_paths[index] = path`: when two listed files carry the same stage index
the one listed LAST wins.

An entry of the listing is abstracted to what the code reads from the file name: the stage index, whether the
name ends in `.instance.conf`, and the name itself (the harness does the parsing of the names and feeds the
entries in the order the real listing returned them).
-/
namespace St4sd.C15Stages

structure Entry where
  idx : Nat
  inst : Bool
  name : String
deriving DecidableEq, Repr

/-- `for path in stage_files: stage_to_paths[stage_index] = path` — the last listed file of an index wins -/
def assign (l : List Entry) (i : Nat) : Option String :=
  ((l.filter (fun e => e.idx == i)).getLast?).map (·.name)

/-- the flavour filter of the code that exists -/
def select (isInst : Bool) (l : List Entry) : List Entry := l.filter (fun e => e.inst == isInst)

/-- `Dosini._discover_stages(directory, is_instance)[i]` for the listing `l` -/
def discover (isInst : Bool) (l : List Entry) (i : Nat) : Option String := assign (select isInst l) i

/-- NOT the code: choosing the flavour through the glob pattern alone (`stage*.conf` also matches
`stage<N>.instance.conf`) -/
def selectPatternOnly (isInst : Bool) (l : List Entry) : List Entry :=
  if isInst then l.filter (fun e => e.inst) else l

def discoverPatternOnly (isInst : Bool) (l : List Entry) (i : Nat) : Option String :=
  assign (selectPatternOnly isInst l) i

end St4sd.C15Stages
