import St4sd.Model.Str
/-!
# C18 — confinement of staging (copy / link / extract) and of manifest deployment

A small POSIX-like file-system model, owned by property C18 (not shared).

* A physical location is the **reversed** list of its component names (`"a/b/c"` is
  `[c, b, a]`, the root is `[]`), so that "is `dest` or lies below `dest`" is `dest <:+ p`
  (`List.IsSuffix`) and "parent directory" is `List.tail`.
* A file-system state is an association list `location ↦ node`; a later binding shadows an
  earlier one (`put` conses).  The root is a directory by convention.
* `resolve` is the kernel's path walk: it follows symbolic links (splicing the link text in
  front of the remaining components), `..` moves to the physical parent, the last component
  may be missing (so that the result can be created).  Fuel bounds the number of steps
  (the kernel gives `ELOOP` after 40 links; the harness keeps chains far below either bound).
* `descend` is `os.makedirs` + walk as `tarfile._extract_member` / `shutil.copytree` use it:
  missing components are created as directories, links on the way are followed.
* An archive is a list of members (`file`, `dir`, `sym name target`, `hard name target`);
  `extractAll` is the fold `tarfile.extractall(dest)` performs with the *fully trusted* filter
  (data.py passes no filter and Python 3.12 then uses `fully_trusted`): names are joined to
  `dest` as they are, absolute names replace `dest`, nothing is normalised.
  The state carries a **log** of every physical location that is created or modified.
* `checkOld`  = data.py 227-232 as committed: textual `commonprefix` of `realpath(dest)+"/"`
  and `join(dest, name)`; no normalisation, link members not inspected.
  `checkFixed` = the proposed repair (`fixes/C18-extract-confinement.diff`): the part of the name
  below `dest` has no `..` component, and the target of a symlink/hardlink member is relative
  and has no `..` component ("descending").
  `checkNormpath` = the tempting relaxation "link target relative and, after `os.path.normpath` against the
  directory holding the link, still under `dest`"; not what the code does — modelled to state exactly how it
  relates to `checkFixed` (`Props.C18.checkFixed_eq_normpath_and_descending`) and that it is unsound on chains
  of links placed through earlier links (`Witness.C18.normpath_link_rule_unsound_*`).
* `deploy…` = `ExperimentPackage.expandPackageToDirectory` (storage.py 566-618) for a single-file
  package with a manifest, `validateOld/validateFixed` = `Manifest.validate` (flowir.py 1236-1252).

Everything is total, computable and structurally recursive (fuel), no Mathlib.
-/
namespace St4sd.Confine
open St4sd.Str

/-- a path component as the kernel sees it (`""` and `"."` are dropped when parsing) -/
inductive Seg where
  | up
  | name (s : S)
  deriving DecidableEq, Repr

/-- physical location, reversed (head = last component), root = `[]` -/
abbrev Path := List S

inductive Node where
  | dir
  /-- regular file; `ino` identifies the inode by the location of its first name, so that a write through
  a hard link is seen to modify the original as well -/
  | file (ino : Path)
  /-- symbolic link with its text: absolute flag and components -/
  | link (abs : Bool) (t : List Seg)
  deriving DecidableEq, Repr

abbrev Fs := List (Path × Node)

def Fs.get : Fs → Path → Option Node
  | [], _ => none
  | (q, n) :: r, p => if q = p then some n else Fs.get r p

def Fs.put (fs : Fs) (p : Path) (n : Node) : Fs := (p, n) :: fs

def Fs.isDir (fs : Fs) (p : Path) : Bool := p.isEmpty || fs.get p == some Node.dir

/-- `p` is `dest` or lies below it -/
def under (dest p : Path) : Bool := dest.isSuffixOf p

/-! ## paths as written in archives and manifests -/

structure RawPath where
  abs : Bool
  segs : List Seg
  deriving DecidableEq, Repr

def parseSeg (s : S) : Option Seg :=
  if s.isEmpty || s == ['.'] then none
  else if s == ['.', '.'] then some Seg.up
  else some (Seg.name s)

/-- split at `/`; empty and `.` components vanish (the kernel ignores them) -/
def parsePath (s : S) : RawPath :=
  { abs := s.head? == some '/', segs := (splitChar '/' s).filterMap parseSeg }

def isName : Seg → Bool
  | Seg.name _ => true
  | Seg.up => false

/-- no `..` component -/
def allNames (l : List Seg) : Bool := l.all isName

/-- split off the last component -/
def splitLastSeg : List Seg → Option (List Seg × Seg)
  | [] => none
  | [x] => some ([], x)
  | x :: y :: r => match splitLastSeg (y :: r) with
    | none => none
    | some (i, l) => some (x :: i, l)

/-- forward components of a physical location -/
def fwd (p : Path) : List Seg := p.reverse.map Seg.name

/-- `os.path.normpath` on components: `..` pops, at the root of an absolute path it is dropped,
in front of a relative path it is kept -/
def normalize (abs : Bool) : List Seg → List Seg → List Seg
  | acc, [] => acc.reverse
  | acc, Seg.name s :: r => normalize abs (Seg.name s :: acc) r
  | Seg.name _ :: acc, Seg.up :: r => normalize abs acc r
  | [], Seg.up :: r => if abs then normalize abs [] r else normalize abs [Seg.up] r
  | Seg.up :: acc, Seg.up :: r => normalize abs (Seg.up :: Seg.up :: acc) r

/-! ## kernel path walk -/

def fuel0 : Nat := 96

/-- physical location denoted by `segs` seen from directory `cur`; links are followed, also in the last
component; the last component may be missing -/
def resolve (fs : Fs) : Nat → Path → List Seg → Option Path
  | 0, _, _ => none
  | _ + 1, cur, [] => some cur
  | f + 1, cur, Seg.up :: r => resolve fs f cur.tail r
  | f + 1, cur, Seg.name s :: r =>
    match fs.get (s :: cur) with
    | none => if r.isEmpty then some (s :: cur) else none
    | some Node.dir => resolve fs f (s :: cur) r
    | some (Node.file _) => if r.isEmpty then some (s :: cur) else none
    | some (Node.link a t) => resolve fs f (if a then [] else cur) (t ++ r)

inductive Err where
  /-- refused by the confinement check before anything is touched -/
  | rejected
  /-- an `OSError` of the operation itself (ENOTDIR, EISDIR, EEXIST, ENOENT, ELOOP …) -/
  | os
  /-- hard link member whose target is neither on disk nor extracted before (tarfile: `KeyError`/copy) -/
  | linkMissing
  /-- a symlink/hardlink member cannot be created because of what is already there (symlink over a directory,
  hard link onto an existing name or to a directory).  Python 3.12's `makelink` then falls back to extracting a
  *copy* of the link target from the archive, or silently skips the member, and goes on; that fallback is not
  modelled — the model stops here and the harness checks such cases with the oracle only. -/
  | linkConflict
  deriving DecidableEq, Repr

/-- state threaded through an operation: the file system and the log of touched locations -/
structure St where
  fs : Fs
  log : List Path
  deriving Repr

/-- `os.makedirs`-and-walk: follow `segs` from `cur`, creating missing components as directories;
links on the way must lead to existing directories.  The state is returned also on failure
(directories made so far stay). -/
def descend : Nat → St → Path → List Seg → St × Option Path
  | 0, st, _, _ => (st, none)
  | _ + 1, st, cur, [] => (st, some cur)
  | f + 1, st, cur, Seg.up :: r => descend f st cur.tail r
  | f + 1, st, cur, Seg.name s :: r =>
    match st.fs.get (s :: cur) with
    | none => descend f { fs := st.fs.put (s :: cur) Node.dir, log := (s :: cur) :: st.log } (s :: cur) r
    | some Node.dir => descend f st (s :: cur) r
    | some (Node.file _) => (st, none)
    | some (Node.link a t) =>
      match resolve st.fs fuel0 (if a then [] else cur) t with
      | none => (st, none)
      | some p => if st.fs.isDir p then descend f st p r else (st, none)

/-! ## archives -/

inductive Member where
  | file (name : RawPath)
  | dir (name : RawPath)
  | sym (name : RawPath) (target : RawPath)
  | hard (name : RawPath) (target : RawPath)
  deriving DecidableEq, Repr

def Member.name : Member → RawPath
  | Member.file n => n
  | Member.dir n => n
  | Member.sym n _ => n
  | Member.hard n _ => n

/-- where a raw path starts: `os.path.join(dest, name)` drops `dest` when `name` is absolute -/
def start (dest : Path) (rp : RawPath) : Path := if rp.abs then [] else dest

/-- `open(path, "wb")`: the last component is followed when it is a link; the file is created when missing.
Logs the physical file (and the inode's first name). -/
def writeFile (st : St) (par : Path) (s : S) : St × Option Err :=
  match resolve st.fs fuel0 par [Seg.name s] with
  | none => (st, some Err.os)
  | some p =>
    if p.isEmpty then (st, some Err.os) else
    match st.fs.get p with
    | some Node.dir => (st, some Err.os)
    | some (Node.link _ _) => (st, some Err.os)
    | some (Node.file ino) => ({ st with log := p :: ino :: st.log }, none)
    | none => ({ fs := st.fs.put p (Node.file p), log := p :: st.log }, none)

/-- `os.path.exists(tp/ts)`: links followed -/
def followsToExisting (fs : Fs) (tp : Path) (ts : S) : Bool :=
  match resolve fs fuel0 tp [Seg.name ts] with
  | some q => q.isEmpty || (fs.get q).isSome
  | none => false

/-- error kind when the path of a member cannot be prepared: fatal `OSError` for files and directories; for
link members most failures end in `makelink`'s fallback (see `Err.linkConflict`) -/
def failKind : Member → Err
  | Member.sym _ _ => Err.linkConflict
  | Member.hard _ _ => Err.linkConflict
  | _ => Err.os

/-- one member, as `TarFile._extract_member` (3.12): parents first (`os.makedirs`), then by type:
`makefile` = `open(…, "wb")`; `makedir` = `mkdir`, an existing entry of any kind is tolerated, and the
attributes of whatever the path denotes are set afterwards (logged); `makelink` for a symlink unlinks an
existing non-directory entry and creates the link; for a hard link `os.link` to the target
(interpreted from `dest`). -/
def extractOne (dest : Path) (st : St) (m : Member) : St × Option Err :=
  let rp := m.name
  match splitLastSeg rp.segs with
  | none =>
    -- the name denotes `dest` (or `/`) itself: fine for a directory member, an error otherwise
    match m with
    | Member.dir _ => (st, none)
    | _ => (st, some Err.os)
  | some (parents, Seg.up) =>
    match descend fuel0 st (start dest rp) (parents ++ [Seg.up]) with
    | (st1, none) => (st1, some Err.os)
    | (st1, some _) =>
      match m with
      | Member.dir _ => (st1, none)
      | _ => (st1, some Err.os)
  | some (parents, Seg.name s) =>
    match descend fuel0 st (start dest rp) parents with
    | (st1, none) => (st1, some (failKind m))
    | (st1, some par) =>
      match m with
      | Member.file _ => writeFile st1 par s
      | Member.dir _ =>
        match st1.fs.get (s :: par) with
        | none => ({ fs := st1.fs.put (s :: par) Node.dir, log := (s :: par) :: st1.log }, none)
        | some _ =>
          match resolve st1.fs fuel0 par [Seg.name s] with
          | some p => ({ st1 with log := p :: st1.log }, none)
          | none => (st1, none)
      | Member.sym _ t =>
        match st1.fs.get (s :: par) with
        | some Node.dir => (st1, some Err.linkConflict)
        | _ => ({ fs := st1.fs.put (s :: par) (Node.link t.abs t.segs), log := (s :: par) :: st1.log }, none)
      | Member.hard _ t =>
        match splitLastSeg t.segs with
        | some (tparents, Seg.name ts) =>
          match resolve st1.fs fuel0 (start dest t) tparents with
          | none => (st1, some Err.linkMissing)
          | some tp =>
            match st1.fs.get (ts :: tp) with
            | some (Node.file ino) =>
              if (st1.fs.get (s :: par)).isSome then (st1, some Err.linkConflict)
              else ({ fs := st1.fs.put (s :: par) (Node.file ino), log := (s :: par) :: st1.log }, none)
            | some (Node.link a lt) =>
              -- `os.path.exists` follows the link: a dangling one counts as missing; otherwise `os.link`
              -- makes a second name for the symbolic link itself
              if !followsToExisting st1.fs tp ts then (st1, some Err.linkMissing)
              else if (st1.fs.get (s :: par)).isSome then (st1, some Err.linkConflict)
              else ({ fs := st1.fs.put (s :: par) (Node.link a lt), log := (s :: par) :: st1.log }, none)
            | some Node.dir => (st1, some Err.linkConflict)
            | none => (st1, some Err.linkMissing)
        | _ => (st1, some Err.os)

/-- `tar.extractall(dest)`: members in archive order, stop at the first error (errorlevel 1) -/
def extractAll (dest : Path) : St → List Member → St × Option Err
  | st, [] => (st, none)
  | st, m :: ms =>
    match extractOne dest st m with
    | (st1, none) => extractAll dest st1 ms
    | (st1, some e) => (st1, some e)

/-! ## the confinement check of data.py -/

/-- textual prefix test of the committed code on components: `join(dest, name)` starts with
`realpath(dest) + "/"`.  For a relative name that is always the case (the code joins `location.path`,
which the harness gives in real form); for an absolute name its components must begin with those of `dest`.
`..` components are *not* interpreted. -/
def prefixOk (dest : Path) (rp : RawPath) : Bool :=
  if rp.abs then (fwd dest).isPrefixOf rp.segs else true

/-- the part of the name below `dest` -/
def below (dest : Path) (rp : RawPath) : List Seg :=
  if rp.abs then rp.segs.drop dest.length else rp.segs

/-- data.py 227-232 as committed -/
def checkOld (dest : Path) (ms : List Member) : Bool := ms.all fun m => prefixOk dest m.name

/-- relative and without `..` -/
def descending (rp : RawPath) : Bool := !rp.abs && allNames rp.segs

def memberOk (dest : Path) : Member → Bool
  | Member.file n => prefixOk dest n && allNames (below dest n)
  | Member.dir n => prefixOk dest n && allNames (below dest n)
  | Member.sym n t => prefixOk dest n && allNames (below dest n) && descending t
  | Member.hard n t => prefixOk dest n && allNames (below dest n) && descending t

/-- the repaired check -/
def checkFixed (dest : Path) (ms : List Member) : Bool := ms.all (memberOk dest)

/-- an accepted absolute name denotes the same file as its part below `dest`
(the components of `realpath(dest)` are directories, not links) -/
def relativize (dest : Path) : Member → Member
  | Member.file n => Member.file ⟨false, below dest n⟩
  | Member.dir n => Member.dir ⟨false, below dest n⟩
  | Member.sym n t => Member.sym ⟨false, below dest n⟩ t
  | Member.hard n t => Member.hard ⟨false, below dest n⟩ t

/-- `StageReference`, extract branch, committed code -/
def stageExtractOld (dest : Path) (st : St) (ms : List Member) : St × Option Err :=
  if checkOld dest ms then extractAll dest st ms else (st, some Err.rejected)

/-- `StageReference`, extract branch, repaired -/
def stageExtractFixed (dest : Path) (st : St) (ms : List Member) : St × Option Err :=
  if checkFixed dest ms then extractAll dest st (ms.map (relativize dest)) else (st, some Err.rejected)

/-! ## the tempting relaxation: judge link targets by textual normalisation

Archives of software trees contain links such as `lib/libx.so -> ../lib64/libx.so`, which `checkFixed`
refuses.  The obvious relaxation resolves the link text *textually* (`os.path.normpath`) against the directory
that holds the link (the archive root for a hard link) and accepts it when the result is still under `dest`.
It is modelled here as `checkNormpath` only to prove (`Witness/C18.lean`) that it is unsound: normalisation
knows nothing of the links that earlier members of the same archive have created, so a member placed *through*
an earlier link, a hard link that copies an earlier link into another directory, or a link whose target passes
through an earlier link is judged at a different place than the one the kernel uses. -/

/-- directory part (all components but the last) -/
def dirSegs (l : List Seg) : List Seg :=
  match splitLastSeg l with
  | some (i, _) => i
  | none => []

/-- a relative path stays at or below its start when its normal form has no leading `..`
(`normalize false` keeps `..` only in front) -/
def normConfined (l : List Seg) : Bool := allNames (normalize false [] l)

def memberOkNormpath (dest : Path) : Member → Bool
  | Member.file n => prefixOk dest n && allNames (below dest n)
  | Member.dir n => prefixOk dest n && allNames (below dest n)
  | Member.sym n t => prefixOk dest n && allNames (below dest n) && !t.abs &&
      normConfined (dirSegs (below dest n) ++ t.segs)
  | Member.hard n t => prefixOk dest n && allNames (below dest n) && !t.abs && normConfined t.segs

/-- names as in `checkFixed`; link targets relative and textually confined -/
def checkNormpath (dest : Path) (ms : List Member) : Bool := ms.all (memberOkNormpath dest)

/-- does the member carry a link target that is absolute or has a `..` component? -/
def linkTargetDescending : Member → Bool
  | Member.sym _ t => descending t
  | Member.hard _ t => descending t
  | _ => true

/-- `StageReference`, extract branch, with the textual-normalisation rule for link targets -/
def stageExtractNormpath (dest : Path) (st : St) (ms : List Member) : St × Option Err :=
  if checkNormpath dest ms then extractAll dest st (ms.map (relativize dest)) else (st, some Err.rejected)

/-! ## copy and link staging (data.py 207-218) -/

inductive RefKind where
  | file
  | dir
  deriving DecidableEq, Repr

/-- `os.path.split(reference)[1]`: text after the last `/` (may be empty, `.` or `..`) -/
def baseName (ref : S) : S :=
  match splitLast '/' ref with
  | none => ref
  | some (_, b) => b

/-- copy staging: a directory goes to `dest/basename` through `shutil.copytree` (the destination must
not exist; the content, abstracted to one file `f`, is created below it); a file is written to
`dest/basename` through `open(…, "wb")` -/
def stageCopy (dest : Path) (st : St) (ref : S) (k : RefKind) : St × Option Err :=
  match parseSeg (baseName ref) with
  | some (Seg.name b) =>
    match k with
    | RefKind.file => writeFile st dest b
    | RefKind.dir =>
      if (st.fs.get (b :: dest)).isSome then (st, some Err.os)
      else ({ fs := (st.fs.put (b :: dest) Node.dir).put (['f'] :: b :: dest) (Node.file (['f'] :: b :: dest)),
              log := (['f'] :: b :: dest) :: (b :: dest) :: st.log }, none)
  | _ => (st, some Err.os)

/-- link staging: `os.symlink(reference, dest/basename)`, fails when the entry exists -/
def stageLink (dest : Path) (st : St) (ref : S) : St × Option Err :=
  match parseSeg (baseName ref) with
  | some (Seg.name b) =>
    if (st.fs.get (b :: dest)).isSome then (st, some Err.os)
    else ({ fs := st.fs.put (b :: dest) (Node.link true (parsePath ref).segs), log := (b :: dest) :: st.log }, none)
  | _ => (st, some Err.os)

/-! ## manifest deployment (storage.py 566-618, flowir.py 1236-1252) -/

inductive Method where
  | copy
  | link
  deriving DecidableEq, Repr

structure Entry where
  key : RawPath
  /-- absolute source folder (components) -/
  src : List Seg
  method : Method
  deriving DecidableEq, Repr

/-- `Manifest.validate` as committed: only absolute keys are refused -/
def validateOld (es : List Entry) : Bool := es.all fun e => !e.key.abs

/-- repaired: additionally no `..` component in a key -/
def validateFixed (es : List Entry) : Bool := es.all fun e => descending e.key

/-- follow `segs` from `cur` as far as entries exist (links followed); stop at the first missing
component.  Result: the directory reached, the components left, and whether the walk is *blocked*
(a regular file or a dangling link where a directory is needed).  This is at the same time what
`os.path.realpath` computes (`realpath = rest` appended textually to the directory reached) and the first
phase of `os.makedirs`. -/
def walk (fs : Fs) : Nat → Path → List Seg → Option (Path × List Seg × Bool)
  | 0, _, _ => none
  | _ + 1, cur, [] => some (cur, [], false)
  | f + 1, cur, Seg.up :: r => walk fs f cur.tail r
  | f + 1, cur, Seg.name s :: r =>
    match fs.get (s :: cur) with
    | none => some (cur, Seg.name s :: r, false)
    | some Node.dir => walk fs f (s :: cur) r
    | some (Node.file _) => some (s :: cur, r, true)
    | some (Node.link a t) =>
      match resolve fs fuel0 (if a then [] else cur) t with
      | none => none
      | some p => if fs.isDir p then walk fs f p r else some (p, r, true)

/-- textual continuation of a location by components (`..` pops) -/
def extend (cur : Path) : List Seg → Path
  | [] => cur
  | Seg.up :: r => extend cur.tail r
  | Seg.name s :: r => extend (s :: cur) r

/-- second phase of `os.makedirs`: create the missing chain below `cur` -/
def mkChain (st : St) (cur : Path) : List Seg → St × Path
  | [] => (st, cur)
  | Seg.up :: r => mkChain st cur.tail r
  | Seg.name s :: r =>
    if (st.fs.get (s :: cur)).isSome then mkChain st (s :: cur) r
    else mkChain { fs := st.fs.put (s :: cur) Node.dir, log := (s :: cur) :: st.log } (s :: cur) r

/-- write to the regular file at physical location `p` (created when missing) -/
def writeAt (st : St) (p : Path) : St × Option Err :=
  if p.isEmpty then (st, some Err.os) else
  match st.fs.get p with
  | some Node.dir => (st, some Err.os)
  | some (Node.link _ _) => (st, some Err.os)
  | some (Node.file ino) => ({ st with log := p :: ino :: st.log }, none)
  | none => ({ fs := st.fs.put p (Node.file p), log := p :: st.log }, none)

/-- one manifest entry.  `guard = true` is the repaired code: key relative and without `..`, and the real
parent directory of the entry (`realpath(dirname(join(target, key)))`) lies under the instance directory. -/
def deployOne (guard : Bool) (target : Path) (st : St) (e : Entry) : St × Option Err :=
  if e.key.abs then (st, some Err.rejected) else
  if guard && !allNames e.key.segs then (st, some Err.rejected) else
  match splitLastSeg e.key.segs with
  | some (parents, Seg.name s) =>
    match walk st.fs fuel0 target parents with
    | none => (st, some (if guard then Err.rejected else Err.os))
    | some (base, rest, blocked) =>
      if guard && !under target (extend base rest) then (st, some Err.rejected) else
      if blocked then (st, some Err.os) else
      match e.method with
      | Method.copy =>
        -- shutil.copytree: os.makedirs(dst) (dst must not exist), then the content (one file `f`)
        match mkChain st base rest with
        | (st1, par) =>
          if (st1.fs.get (s :: par)).isSome then (st1, some Err.os)
          else ({ fs := (st1.fs.put (s :: par) Node.dir).put (['f'] :: s :: par) (Node.file (['f'] :: s :: par)),
                  log := (['f'] :: s :: par) :: (s :: par) :: st1.log }, none)
      | Method.link =>
        -- os.symlink(src, dst): the parent must exist, dst must not
        if !rest.isEmpty then (st, some Err.os)
        else if (st.fs.get (s :: base)).isSome then (st, some Err.os)
        else ({ fs := st.fs.put (s :: base) (Node.link true e.src), log := (s :: base) :: st.log }, none)
  | _ => (st, some Err.os)

def deployAll (guard : Bool) (target : Path) : St → List Entry → St × Option Err
  | st, [] => (st, none)
  | st, e :: es =>
    match deployOne guard target st e with
    | (st1, none) => deployAll guard target st1 es
    | (st1, some x) => (st1, some x)

def confName : S := ['c', 'o', 'n', 'f']
def pkgName : S := ['f','l','o','w','i','r','_','p','a','c','k','a','g','e','.','y','a','m','l']

/-- `os.makedirs(conf_dir)` unless `conf` is a manifest key -/
def confDir (target : Path) (st : St) (confIsKey : Bool) : St × Option Err :=
  if confIsKey then (st, none)
  else if (st.fs.get (confName :: target)).isSome then (st, some Err.os)
  else ({ fs := st.fs.put (confName :: target) Node.dir, log := (confName :: target) :: st.log }, none)

/-- `shutil.copyfile(path, conf/flowir_package.yaml)`, guarded in the repaired code -/
def confFile (guard : Bool) (target : Path) (st1 : St) : St × Option Err :=
  match walk st1.fs fuel0 target [Seg.name confName, Seg.name pkgName] with
  | none => (st1, some (if guard then Err.rejected else Err.os))
  | some (base, rest, blocked) =>
    -- `extend base rest` is `realpath(conf/flowir_package.yaml)`
    if guard && !under target (extend base rest) then (st1, some Err.rejected)
    else if rest.isEmpty then writeAt st1 base
    else if !blocked && rest.length == 1 then writeAt st1 (extend base rest)
    else (st1, some Err.os)

/-- after the manifest: `conf/` is made unless `conf` is a manifest key (an existing one is an error) and the
package file is written to `conf/flowir_package.yaml` with `shutil.copyfile` (`open(…, "wb")`, links
followed).  `guard = true`: the real location of that file must lie under the instance directory. -/
def deployConf (guard : Bool) (target : Path) (st : St) (confIsKey : Bool) : St × Option Err :=
  match confDir target st confIsKey with
  | (st1, some x) => (st1, some x)
  | (st1, none) => confFile guard target st1

/-- `expandPackageToDirectory` for a single-file package with a manifest -/
def deploy (guard : Bool) (target : Path) (st : St) (es : List Entry) (confIsKey : Bool) : St × Option Err :=
  match deployAll guard target st es with
  | (st1, some x) => (st1, some x)
  | (st1, none) => deployConf guard target st1 confIsKey

/-- load (`Manifest.validate`) then deploy -/
def loadAndDeploy (fixed : Bool) (target : Path) (st : St) (es : List Entry) (confIsKey : Bool) : St × Option Err :=
  if (if fixed then validateFixed es else validateOld es) then deploy fixed target st es confIsKey
  else (st, some Err.rejected)

/-! ## components, not characters

The code decides "is `p` the directory `dest` or below it" on STRINGS: `realpath(dest) + "/"` must be the
`commonprefix` of itself and `realpath(p) + "/"` (data.py, storage.py; the comment in data.py says why the
separator is appended: `/usr/var` would match `/usr/var2`).  The model decides it on component lists (`under`).
`underTextSep` is the string test of the code, `underText` the same test WITHOUT the separator
(`realpath(p).startswith(realpath(dest))`) — not what the code does; `Props.C18.underTextSep_eq_under` proves
that the former is exactly `under`, `Witness.C18` that the latter accepts a sibling whose name merely extends
the target's name and that a deployment / extraction guarded by it writes there. -/

/-- the text of a real path: `/a/b/c` (`""` for the root) -/
def compsText : List S → S
  | [] => []
  | x :: r => '/' :: x ++ compsText r

def pathText (p : Path) : S := compsText p.reverse

/-- `commonprefix([realpath(dest) + "/", realpath(p) + "/"]) == realpath(dest) + "/"` -/
def underTextSep (dest p : Path) : Bool := (pathText dest ++ ['/']).isPrefixOf (pathText p ++ ['/'])

/-- `realpath(p).startswith(realpath(dest))` — character-wise, no separator -/
def underText (dest p : Path) : Bool := (pathText dest).isPrefixOf (pathText p)

/-- `deployOne true` with the confinement test of the guard as a parameter (`deployOneWith under = deployOne true`,
`Props.C18.deployOneWith_under`) -/
def deployOneWith (u : Path → Path → Bool) (target : Path) (st : St) (e : Entry) : St × Option Err :=
  if e.key.abs then (st, some Err.rejected) else
  if !allNames e.key.segs then (st, some Err.rejected) else
  match splitLastSeg e.key.segs with
  | some (parents, Seg.name s) =>
    match walk st.fs fuel0 target parents with
    | none => (st, some Err.rejected)
    | some (base, rest, blocked) =>
      if !u target (extend base rest) then (st, some Err.rejected) else
      if blocked then (st, some Err.os) else
      match e.method with
      | Method.copy =>
        match mkChain st base rest with
        | (st1, par) =>
          if (st1.fs.get (s :: par)).isSome then (st1, some Err.os)
          else ({ fs := (st1.fs.put (s :: par) Node.dir).put (['f'] :: s :: par) (Node.file (['f'] :: s :: par)),
                  log := (['f'] :: s :: par) :: (s :: par) :: st1.log }, none)
      | Method.link =>
        if !rest.isEmpty then (st, some Err.os)
        else if (st.fs.get (s :: base)).isSome then (st, some Err.os)
        else ({ fs := st.fs.put (s :: base) (Node.link true e.src), log := (s :: base) :: st.log }, none)
  | _ => (st, some Err.os)

def deployAllWith (u : Path → Path → Bool) (target : Path) : St → List Entry → St × Option Err
  | st, [] => (st, none)
  | st, e :: es =>
    match deployOneWith u target st e with
    | (st1, none) => deployAllWith u target st1 es
    | (st1, some x) => (st1, some x)

/-- the text of a member name as written in the archive -/
def segText : Seg → S
  | Seg.up => ['.', '.']
  | Seg.name s => s

def rawText (rp : RawPath) : S :=
  match rp.abs, rp.segs with
  | true, segs => compsText (segs.map segText)
  | false, [] => []
  | false, x :: r => segText x ++ compsText (r.map segText)

/-- the name test of the extract check on strings, WITHOUT the separator after `realpath(dest)`: an absolute
member name is accepted when its text starts with the text of `dest` -/
def prefixOkText (dest : Path) (rp : RawPath) : Bool :=
  if rp.abs then (pathText dest).isPrefixOf (rawText rp) else true

/-- extraction guarded by the separator-less string test on names (link members judged as in `memberOk`) -/
def stageExtractText (dest : Path) (st : St) (ms : List Member) : St × Option Err :=
  if ms.all (fun m => prefixOkText dest m.name && allNames (below dest m.name) && linkTargetDescending m)
  then extractAll dest st ms else (st, some Err.rejected)

end St4sd.Confine
