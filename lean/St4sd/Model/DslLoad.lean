import St4sd.Model.Str
import St4sd.Model.Layer
/-!
# Order sensitive steps of loading a DSL 2.0 package (property C15)

Model of the two naming loops of `namespace_to_flowir` (frontends/dsl.py 2628-2712).  Both iterate over the
component instances in the order in which `ScopeStack` visited them (that order is fixed by the `execute`
*lists* of the workflows, i.e. by data of the document, not by the order of any mapping).

* `parseName` — `re.fullmatch(SignatureNamePattern, name)`: optional `stage<digits>.` prefix, then a
  non-empty name over `[A-Za-z0-9._-]` that does not end with a digit or a dot.
* `pick` / `assignNames` — "resolve name conflicts by appending the first roman numeral that produces an
  unused name": candidates `s, s-I, s-II, …`; `used_names` holds `(stage, name)` pairs.  The function takes
  the step names in visiting order and nothing else.
* `hashEnv` — `hash_environment`: the identity of an environment = its `(key, str(value))` pairs in *sorted*
  key order, entries whose value is `None` left out.
* `assignEnvs` / `registered` — the loop that names environments `env0, env1, …` (`known_environments`):
  `None` → no environment, `{}` → the literal `none`, otherwise the name already given to the same identity or
  `env<number of identities seen so far>`; the first component with a new identity registers its mapping.
-/
namespace St4sd.DslLoad
open St4sd.Str St4sd.Layer

/-! ## names -/

abbrev FullName := Nat × S

def isLetterish (c : Char) : Bool :=
  ('A' ≤ c && c ≤ 'Z') || ('a' ≤ c && c ≤ 'z') || c == '_' || c == '-'

def isNameChar (c : Char) : Bool := isLetterish c || isDigit c || c == '.'

/-- `[A-Za-z0-9._-]*[A-Za-z_-]+` -/
def validName (n : S) : Bool :=
  n.all isNameChar && match n.getLast? with
    | some c => isLetterish c
    | none => false

/-- `int(digits)` -/
def digitsVal (ds : S) : Nat := ds.foldl (fun acc c => acc * 10 + (c.toNat - 48)) 0

/-- `stage<digits>.<rest>` (the digits are matched greedily; a shorter run cannot be followed by a dot) -/
def stagePrefix (s : S) : Option (Nat × S) :=
  if "stage".toList.isPrefixOf s then
    let r := s.drop 5
    let ds := r.takeWhile isDigit
    match r.dropWhile isDigit with
    | '.' :: name => if ds.isEmpty then none else some (digitsVal ds, name)
    | _ => none
  else none

/-- `pattern_name.fullmatch(name)` → `(int(stage or 0), name)`; the regular expression tries the optional
group first and falls back to the whole string -/
def parseName (s : S) : Option FullName :=
  match stagePrefix s with
  | some (st, name) => if validName name then some (st, name) else if validName s then some (0, s) else none
  | none => if validName s then some (0, s) else none

def romanUnit : Nat → S
  | 1 => "I".toList | 2 => "II".toList | 3 => "III".toList | 4 => "IV".toList | 5 => "V".toList
  | 6 => "VI".toList | 7 => "VII".toList | 8 => "VIII".toList | 9 => "IX".toList | _ => []

/-- `number_to_roman_like_numeral` -/
def roman (n : Nat) : S := List.replicate (n / 10) 'X' ++ romanUnit (n % 10)

/-- `"-".join((step_name, numeral(k)))`, the step name itself for `k = 0` -/
def cand (s : S) : Nat → S
  | 0 => s
  | k + 1 => s ++ '-' :: roman (k + 1)

inductive NameRes where
  | named (stage : Nat) (name : S)
  | invalid      -- a candidate is not a component name: naming error of this component
  | fuelOut      -- no free candidate within the fuel (does not happen: see `assignNames`)
  deriving DecidableEq, Repr

/-- the `while True` loop: first candidate from index `k` on whose full name is not in use -/
def pick (used : List FullName) (s : S) : Nat → Nat → NameRes
  | 0, _ => .fuelOut
  | fuel + 1, k =>
    match parseName (cand s k) with
    | none => .invalid
    | some fn => if used.contains fn then pick used s fuel (k + 1) else .named fn.1 fn.2

/-- names of the component instances; `steps` = their step names in visiting order.  `used.length + 1`
candidates suffice when the candidates are pairwise different. -/
def assignNames : List FullName → List S → List NameRes
  | _, [] => []
  | used, s :: r =>
    match pick used s (used.length + 1) 0 with
    | .named st n => .named st n :: assignNames ((st, n) :: used) r
    | x => x :: assignNames used r

/-- `used_names` after the loop -/
def usedAfter : List FullName → List S → List FullName
  | used, [] => used
  | used, s :: r =>
    match pick used s (used.length + 1) 0 with
    | .named st n => usedAfter ((st, n) :: used) r
    | _ => usedAfter used r

def namedOnly : List NameRes → List FullName
  | [] => []
  | .named st n :: r => (st, n) :: namedOnly r
  | _ :: r => namedOnly r

/-! ## environments -/

/-- an environment as Python holds it: entries in insertion order, `none` = the value `None` -/
abbrev Env := List (S × Option S)

def insertE (a : S × Option S) : Env → Env
  | [] => [a]
  | b :: r => if leS a.1 b.1 then a :: b :: r else b :: insertE a r

/-- `sorted(environment)`, carrying the values -/
def sortE : Env → Env
  | [] => []
  | a :: r => insertE a (sortE r)

def dropNone : Env → List (S × S)
  | [] => []
  | (k, some v) :: r => (k, v) :: dropNone r
  | (_, none) :: r => dropNone r

/-- `hash_environment` -/
def hashEnv (e : Env) : List (S × S) := dropNone (sortE e)

/-- `hash_environment` without the `sorted` (insertion order): the identity is then a function of the way the
mapping was written — kept for `Witness.C15` only -/
def hashEnvUnsorted (e : Env) : List (S × S) := dropNone e

/-- `ComponentFlowIR.environment` -/
inductive CEnv where
  | unset
  | dict (e : Env)
  deriving DecidableEq, Repr

/-- `command.environment` of the produced component -/
inductive EnvName where
  | null
  | noneLit
  | env (i : Nat)
  deriving DecidableEq, Repr

abbrev Known := List (List (S × S) × Nat)

/-- the loop over `components.items()` with an arbitrary identity function `h`; `known` = `known_environments`
(latest first) -/
def assignEnvsWith (h : Env → List (S × S)) : Known → List CEnv → List EnvName
  | _, [] => []
  | known, .unset :: r => .null :: assignEnvsWith h known r
  | known, .dict e :: r =>
    if e.isEmpty then .noneLit :: assignEnvsWith h known r
    else match known.lookup (h e) with
      | some i => .env i :: assignEnvsWith h known r
      | none => .env known.length :: assignEnvsWith h ((h e, known.length) :: known) r

/-- the `complete.set_environment(name, environment)` calls, in order -/
def registeredWith (h : Env → List (S × S)) : Known → List CEnv → List (Nat × Env)
  | _, [] => []
  | known, .unset :: r => registeredWith h known r
  | known, .dict e :: r =>
    if e.isEmpty then registeredWith h known r
    else match known.lookup (h e) with
      | some _ => registeredWith h known r
      | none => (known.length, e) :: registeredWith h ((h e, known.length) :: known) r

/-- `known_environments` after the loop -/
def knownAfterWith (h : Env → List (S × S)) : Known → List CEnv → Known
  | known, [] => known
  | known, .unset :: r => knownAfterWith h known r
  | known, .dict e :: r =>
    if e.isEmpty then knownAfterWith h known r
    else match known.lookup (h e) with
      | some _ => knownAfterWith h known r
      | none => knownAfterWith h ((h e, known.length) :: known) r

def assignEnvs : Known → List CEnv → List EnvName := assignEnvsWith hashEnv
def registered : Known → List CEnv → List (Nat × Env) := registeredWith hashEnv
def knownAfter : Known → List CEnv → Known := knownAfterWith hashEnv

/-! ## the part of a visited component instance that the two loops read -/

structure Inst where
  /-- location of the instance: step names from the entry instance down -/
  loc : List S
  /-- name of the template it instantiates -/
  template : S
  env : CEnv
  deriving Repr

/-- `ComponentFlowIR.step_name`: the last entry of the location -/
def Inst.stepName (c : Inst) : S := c.loc.getLast?.getD []

/-- the names and environment names that `namespace_to_flowir` gives to the visited instances -/
def loadNames (cs : List Inst) : List NameRes := assignNames [] (cs.map Inst.stepName)
def loadEnvs (cs : List Inst) : List EnvName := assignEnvs [] (cs.map Inst.env)
def loadRegistered (cs : List Inst) : List (Nat × Env) := registered [] (cs.map Inst.env)

end St4sd.DslLoad
