import St4sd.Model.Str
import St4sd.Model.Assoc
/-!
# Construction of a component's task environment (property C17)

Models, as coded,
* `FlowIR.from_dict` lower-casing of environment names (flowir.py 1927-1937): `lowerNames`;
* `FlowIRConcrete.get_platform_environment / get_environment` (flowir.py 5502-5590): `platEnv`, `getEnv`;
* `FlowIRExperimentConfiguration.defaultEnvironment / environmentWithName / environmentForNode`
  (conf.py 1163-1383): `defaultEnv`, `envWithName`, `envForNode`;
* `FlowIRConcrete.instance` flattening of the environments of the selected platform into the document a
  non-primitive (replicated) configuration reads (flowir.py 5262-5270): `instEnvs` (as repaired by
  fixes/C17-instance-environment-layering.diff; `instEnvsOld` is the code before the repair);
* sequences of calls on one configuration object: `Conf`, `Call`, `step`, `runCalls`;
* `string.Template.safe_substitute` (`expand_vars`, flowir.py 778) and `os.path.expandvars` as
  tokenisers (`tokT`, `tokE`) followed by `render` with a lookup function.

Dictionaries are association lists (`Model/Assoc.lean`); the order of entries is irrelevant to
every function here (all accesses are by key), the harness compares key-sorted results.

The `%(variable)s` interpolation of environment values with workflow variables (`FlowIR.fill_in` in
`environmentForNode` and in `FlowIRConcrete.instance`) is modelled in `Model/C17Vars.lean`, on top of this file
(`envForNodeV`, `instDoc`); the functions here are the special case of values without `%(name)s` references
(`Props.C17.value_without_references_unchanged`).
-/
namespace St4sd.Env
open St4sd.Str St4sd.Assoc

abbrev Dict := List (S × S)

/-! ## `$NAME` / `${NAME}` expansion -/

inductive Tok where
  | lit (c : Char)
  /-- reference to `name`; `orig` is the text to keep when the name is undefined -/
  | ref (name : S) (orig : S)
  deriving DecidableEq

def lits (s : S) : List Tok := s.map Tok.lit

def render (lk : S → Option S) : List Tok → S
  | [] => []
  | .lit c :: r => c :: render lk r
  | .ref n o :: r => (match lk n with
      | some v => v
      | none => o) ++ render lk r

/-- names referenced by a token list -/
def refNames : List Tok → List S
  | [] => []
  | .lit _ :: r => refNames r
  | .ref n _ :: r => n :: refNames r

def isAlpha (c : Char) : Bool := ('a' ≤ c && c ≤ 'z') || ('A' ≤ c && c ≤ 'Z')
/-- `[_a-zA-Z]` -/
def isIdStart (c : Char) : Bool := c == '_' || isAlpha c
/-- `[_a-zA-Z0-9]` (= ASCII `\w`) -/
def isIdChar (c : Char) : Bool := isIdStart c || isDigit c

/-- scanner state; accumulators are reversed -/
inductive Sc where
  | normal
  | dollar
  | name (acc : S)
  | brace (acc : S)

/-- `string.Template` pattern: `$$` | `$id` | `${id}` | lone `$`, `id = [_a-z][_a-z0-9]*` (ASCII, ignore case) -/
def tokT : Sc → S → List Tok
  | .normal, [] => []
  | .dollar, [] => [.lit '$']
  | .name acc, [] => [.ref acc.reverse ('$' :: acc.reverse)]
  | .brace acc, [] => lits ('$' :: '{' :: acc.reverse)
  | .normal, c :: cs => if c == '$' then tokT .dollar cs else .lit c :: tokT .normal cs
  | .dollar, c :: cs =>
    if c == '$' then .lit '$' :: tokT .normal cs
    else if isIdStart c then tokT (.name [c]) cs
    else if c == '{' then tokT (.brace []) cs
    else .lit '$' :: .lit c :: tokT .normal cs
  | .name acc, c :: cs =>
    if isIdChar c then tokT (.name (c :: acc)) cs
    else .ref acc.reverse ('$' :: acc.reverse) ::
      (if c == '$' then tokT .dollar cs else .lit c :: tokT .normal cs)
  | .brace acc, c :: cs =>
    if (acc.isEmpty && isIdStart c) || (!acc.isEmpty && isIdChar c) then tokT (.brace (c :: acc)) cs
    else if c == '}' && !acc.isEmpty then
      .ref acc.reverse ('$' :: '{' :: (acc.reverse ++ ['}'])) :: tokT .normal cs
    else lits ('$' :: '{' :: acc.reverse) ++
      (if c == '$' then tokT .dollar cs else .lit c :: tokT .normal cs)

/-- `posixpath.expandvars` pattern: `\$(\w+|\{[^}]*\})` (ASCII); no `$$` escape -/
def tokE : Sc → S → List Tok
  | .normal, [] => []
  | .dollar, [] => [.lit '$']
  | .name acc, [] => [.ref acc.reverse ('$' :: acc.reverse)]
  | .brace acc, [] => lits ('$' :: '{' :: acc.reverse)
  | .normal, c :: cs => if c == '$' then tokE .dollar cs else .lit c :: tokE .normal cs
  | .dollar, c :: cs =>
    if isIdChar c then tokE (.name [c]) cs
    else if c == '{' && cs.contains '}' then tokE (.brace []) cs
    else .lit '$' :: (if c == '$' then tokE .dollar cs else .lit c :: tokE .normal cs)
  | .name acc, c :: cs =>
    if isIdChar c then tokE (.name (c :: acc)) cs
    else .ref acc.reverse ('$' :: acc.reverse) ::
      (if c == '$' then tokE .dollar cs else .lit c :: tokE .normal cs)
  | .brace acc, c :: cs =>
    if c == '}' then .ref acc.reverse ('$' :: '{' :: (acc.reverse ++ ['}'])) :: tokE .normal cs
    else tokE (.brace (c :: acc)) cs

/-- `Template(s).safe_substitute(mapping)` -/
def substT (lk : S → Option S) (s : S) : S := render lk (tokT .normal s)
/-- `os.path.expandvars(s)` with `os.environ = lk` -/
def expandvars (lk : S → Option S) (s : S) : S := render lk (tokE .normal s)

/-! ## environments of the package -/

inductive Err where
  | unknownEnv
  deriving DecidableEq, Repr

/-- `environments:` of the document: platform ↦ (environment name ↦ variables) -/
abbrev Envs := List (S × List (S × Dict))

def sDefault : S := "default".toList
def sNone : S := "none".toList
def sEnvironment : S := "environment".toList
def sDEFAULTS : S := "DEFAULTS".toList

/-- lower-casing of the environment names of one platform at load:
`for name in keys: if name != name.lower(): d[name.lower()] = d[name]; del d[name]`.
The order in which the names are visited matters only when one platform spells one name in two ways
(which spelling is kept is a question of determinism of loading — property C15,
fixes/C15-environment-name-case-order.diff; the C17 harness does not generate such documents). -/
def lowerNames (d : List (S × Dict)) : List (S × Dict) :=
  (keys d).foldl (fun acc n =>
    if n != lower n then
      match dget acc n with
      | some v => derase (dset acc (lower n) v) n
      | none => acc
    else acc) d

def loadEnvs (e : Envs) : Envs := e.map fun pe => (pe.1, lowerNames pe.2)

/-- `get_platform_environment(name, platform)` (the platform exists) -/
def platEnv (e : Envs) (name plat : S) : Except Err Dict :=
  let name := lower name
  if name == sNone then .ok []
  else match dget e plat with
    | none => .error .unknownEnv
    | some pe => match dget pe name with
      | some d => .ok d
      | none => .error .unknownEnv

/-- `get_environment(name, platform)`: the platform's environment layered over the default platform's -/
def getEnv (e : Envs) (name plat : S) : Except Err Dict :=
  if plat == sDefault then
    match platEnv e name sDefault with
    | .ok d => .ok (dupdate [] d)
    | .error x => .error x
  else
    match platEnv e name plat, platEnv e name sDefault with
    | .ok p, .ok d => .ok (dupdate (dupdate [] d) p)
    | .ok p, .error _ => .ok (dupdate [] p)
    | .error _, .ok d => .ok (dupdate [] d)
    | .error x, .error _ => .error x

/-! ## the instance document of a platform (`FlowIRConcrete.instance`, used by `replicate()`)

A configuration that is not primitive (every experiment that runs) does not read the package document: it
reads the document `instance(platform)` produces, in which the environments of the selected platform are
flattened into the `default` platform (flowir.py 5262-5270, 5420-5422) and the selected platform is left with
no environment of its own (`configure_platform`). -/

/-- one environment name of the selected platform, *as repaired*
(fixes/C17-instance-environment-layering.diff):
`layered = dict(environments.get(n) or {}); layered.update(platform_environments[n] or {}); environments[n] = layered`.
Every name is visited once, so `environments.get(n)` is the default platform's environment `d[n]`. -/
def layerStep (d p : List (S × Dict)) (acc : List (S × Dict)) (n : S) : List (S × Dict) :=
  dset acc n (dupdate (dupdate [] ((dget d n).getD [])) ((dget p n).getD []))

/-- environments of the `default` platform in `instance(plat)`, as repaired: key-wise layering -/
def flatEnvs (e : Envs) (plat : S) : List (S × Dict) :=
  let d := if plat == sDefault then [] else (dget e sDefault).getD []
  let p := (dget e plat).getD []
  (keys p).foldl (layerStep d p) d

/-- the code before the repair: `environments = default_environments; environments.update(platform_environments)`
— an environment of the platform *replaces* the same-named environment of the default platform
(kept for `Witness/C17.lean`) -/
def flatEnvsOld (e : Envs) (plat : S) : List (S × Dict) :=
  let d := if plat == sDefault then [] else (dget e sDefault).getD []
  let p := (dget e plat).getD []
  dupdate d p

/-- `environments:` of the document a non-primitive configuration reads -/
def instEnvs (e : Envs) (plat : S) : Envs :=
  if plat == sDefault then [(sDefault, flatEnvs e plat)] else [(sDefault, flatEnvs e plat), (plat, [])]

def instEnvsOld (e : Envs) (plat : S) : Envs :=
  if plat == sDefault then [(sDefault, flatEnvsOld e plat)] else [(sDefault, flatEnvsOld e plat), (plat, [])]

/-- the environments a configuration object looks names up in: the package's (primitive), the instance
document's (replicated), or — for a configuration loaded from an instance directory (`is_instance=True`, the
restart path) — the instance document of the stored instance document (`flowir_instance.yaml` is
`instance(platform)` of the package, `replicate()` applies `instance(platform)` to it again) -/
def confEnvs (e : Envs) (plat : S) (primitive reload : Bool) : Envs :=
  if primitive then e else if reload then instEnvs (instEnvs e plat) plat else instEnvs e plat

/-- `defaultEnvironment()`: the environment called `environment`, else the whole launch environment -/
def defaultEnv (e : Envs) (plat : S) (launch : Dict) : Dict :=
  match getEnv e sEnvironment plat with
  | .ok d => d
  | .error _ => launch

/-- which source the name selects (after `or 'environment'` and `.lower()`) -/
def normName (name : Option S) : S :=
  match name with
  | none => sEnvironment
  | some n => if n.isEmpty then sEnvironment else lower n

/-- the selected source: nothing, the default environment, or the named one -/
def selected (e : Envs) (plat : S) (launch : Dict) (name : Option S) : Except Err Dict :=
  let nm := normName name
  if nm == sEnvironment then .ok (defaultEnv e plat launch)
  else if nm == sNone then .ok []
  else getEnv e nm plat

/-- names listed by `DEFAULTS` (`value.split(':')`) -/
def importNames (d : Dict) : List S :=
  match dget d sDEFAULTS with
  | some v => splitChar ':' v
  | none => []

/-- one name of the `DEFAULTS` list: skipped when the launch environment does not define it; added when the
environment does not have it; otherwise the environment's own value with `$name`/`${name}` replaced by the
launch value -/
def importStep (launch : Dict) (acc : Dict) (n : S) : Dict :=
  match dget launch n with
  | none => acc
  | some lv =>
    match dget acc n with
    | none => dset acc n lv
    | some cur => dset acc n (substT (fun x => if x == n then some lv else none) cur)

/-- the `DEFAULTS` block of `environmentWithName` -/
def applyDefaults (launch : Dict) (env : Dict) (removeKey : Bool) : Dict :=
  match dget env sDEFAULTS with
  | none => env
  | some v =>
    let env' := (splitChar ':' v).foldl (importStep launch) env
    if removeKey then derase env' sDEFAULTS else env'

/-- value of `k` after the final comprehension of `environmentWithName` (`expand=True`): a key whose
(unexpanded) value is empty is dropped; references are resolved from the unexpanded environment first
(`expand_vars`) and then from the launch environment (`os.path.expandvars`) -/
def expandVal (launch env : Dict) (k : S) : Option S :=
  match dget env k with
  | none => none
  | some v => if v.isEmpty then none else some (expandvars (dget launch) (substT (dget env) v))

/-- `{key: expandvars(expand_vars(env[key], env)) for key in env if env[key]}`.  Every entry is mapped
through the *effective* value of its key, so the function is correct also for association lists that
repeat a key. -/
def expandAll (launch : Dict) (env : Dict) : Dict :=
  env.filterMap fun kv => (expandVal launch env kv.1).map fun v => (kv.1, v)

/-- `environmentWithName(name, expand, remove_defaults_key)` -/
def envWithName (sys : Dict) (e : Envs) (plat : S) (launch : Dict) (name : Option S)
    (expand removeKey : Bool) : Except Err Dict :=
  match selected e plat launch name with
  | .error x => .error x
  | .ok sel =>
    let base := dupdate sys sel
    let e1 := applyDefaults launch base removeKey
    .ok (if expand then expandAll launch e1 else e1)

def interpVars : List S := ["PATH".toList, "PYTHONPATH".toList, "PYTHONHOME".toList, "LD_LIBRARY_PATH".toList]

def interpStep (launch env : Dict) (acc : Dict) (k : S) : Dict :=
  match dget launch k with
  | none => acc
  | some v => if dhas env k then acc else dset acc k v

/-- search-path variables copied from the launch environment for interpreter components
(`{key: active_shell[key] for key in copy_from if key in active_shell and key not in env}`) -/
def addInterp (launch : Dict) (env : Dict) : Dict :=
  interpVars.foldl (interpStep launch env) env

/-- `environmentForNode` for a component whose `command.environment` is `name` and whose
`command.interpreter` is set iff `interp` (values without `%(...)s` references) -/
def envForNode (sys : Dict) (e : Envs) (plat : S) (launch : Dict) (name : Option S) (interp : Bool) :
    Except Err Dict :=
  match envWithName sys e plat launch name true true with
  | .error x => .error x
  | .ok env => .ok (if interp then addInterp launch env else env)

/-! ## one configuration object, many calls

A `FlowIRExperimentConfiguration` lives as long as the experiment and builds the environment of every
component (`environmentForNode`), of named environments (`environmentWithName`) and the default environment
(`defaultEnvironment`) on demand, in any order; callers own the dictionaries they get back and modify them
(`environmentForNode` itself adds the interpreter variables in place).  `Conf` is the state of the object the
construction reads: system variables, environments (of the document it reads), platform.  Every dictionary the
code hands out is a fresh copy (`(self._system_vars or {}).copy()`, `deep_copy` in `get_environments`,
`copy.deepcopy(os.environ)`), so no call — and nothing a caller does to an answer — changes that state:
`step` returns it unchanged.  The launch environment is fixed for the session. -/

structure Conf where
  sys : Dict
  envs : Envs
  plat : S

inductive Call where
  /-- `environmentForNode` of a component with `command.environment = name`, interpreter iff `interp` -/
  | node (name : Option S) (interp : Bool)
  /-- `environmentWithName(name, expand, remove_defaults_key)` -/
  | withName (name : Option S) (expand removeKey : Bool)
  /-- `defaultEnvironment()` -/
  | dflt
  /-- the caller rewrites a dictionary it was handed earlier (`d.update(edits)`, `d.clear()` …) -/
  | mutate (edits : Dict)

inductive Ans where
  | env (r : Except Err Dict)
  | unit

/-- what a call answers on a configuration in state `c` -/
def answer (launch : Dict) (c : Conf) : Call → Ans
  | .node name interp => .env (envForNode c.sys c.envs c.plat launch name interp)
  | .withName name expand rm => .env (envWithName c.sys c.envs c.plat launch name expand rm)
  | .dflt => .env (.ok (defaultEnv c.envs c.plat launch))
  | .mutate _ => .unit

/-- one call: new state of the configuration object and the answer -/
def step (launch : Dict) (c : Conf) (call : Call) : Conf × Ans := (c, answer launch c call)

/-- a session: the calls are served one after the other by the same object -/
def runCalls (launch : Dict) : Conf → List Call → List Ans
  | _, [] => []
  | c, call :: rest => (step launch c call).2 :: runCalls launch (step launch c call).1 rest

end St4sd.Env
