import St4sd.Model.Str
import St4sd.Model.Assoc
/-!
# Construction of a component's task environment (property C17)

Models, as coded,
* `FlowIR.from_dict` lower-casing of environment names (flowir.py 1927-1937): `lowerNames`;
* `FlowIRConcrete.get_platform_environment / get_environment` (flowir.py 5502-5590): `platEnv`, `getEnv`;
* `FlowIRExperimentConfiguration.defaultEnvironment / environmentWithName / environmentForNode`
  (conf.py 1163-1383): `defaultEnv`, `envWithName`, `envForNode`;
* `string.Template.safe_substitute` (`expand_vars`, flowir.py 778) and `os.path.expandvars` as
  tokenisers (`tokT`, `tokE`) followed by `render` with a lookup function.

Dictionaries are association lists (`Model/Assoc.lean`); the order of entries is irrelevant to
every function here (all accesses are by key), the harness compares key-sorted results.

Not modelled: the `%(variable)s` interpolation of environment values with workflow variables in
`environmentForNode` (`FlowIR.fill_in`); the harness keeps `%` out of generated values.
-/
namespace St4sd.Env
open St4sd.Str St4sd.Assoc

abbrev Dict := List (S × S)

/-! ## `$NAME` / `${NAME}` expansion -/

inductive Tok where
  | lit (c : Char)
  /-- reference to `name`; `orig` is the text to keep when the name is undefined -/
  | ref (name : S) (orig : S)
  deriving DecidableEq

def lits (s : S) : List Tok := s.map Tok.lit

def render (lk : S → Option S) : List Tok → S
  | [] => []
  | .lit c :: r => c :: render lk r
  | .ref n o :: r => (match lk n with
      | some v => v
      | none => o) ++ render lk r

/-- names referenced by a token list -/
def refNames : List Tok → List S
  | [] => []
  | .lit _ :: r => refNames r
  | .ref n _ :: r => n :: refNames r

def isAlpha (c : Char) : Bool := ('a' ≤ c && c ≤ 'z') || ('A' ≤ c && c ≤ 'Z')
/-- `[_a-zA-Z]` -/
def isIdStart (c : Char) : Bool := c == '_' || isAlpha c
/-- `[_a-zA-Z0-9]` (= ASCII `\w`) -/
def isIdChar (c : Char) : Bool := isIdStart c || isDigit c

/-- scanner state; accumulators are reversed -/
inductive Sc where
  | normal
  | dollar
  | name (acc : S)
  | brace (acc : S)

/-- `string.Template` pattern: `$$` | `$id` | `${id}` | lone `$`, `id = [_a-z][_a-z0-9]*` (ASCII, ignore case) -/
def tokT : Sc → S → List Tok
  | .normal, [] => []
  | .dollar, [] => [.lit '$']
  | .name acc, [] => [.ref acc.reverse ('$' :: acc.reverse)]
  | .brace acc, [] => lits ('$' :: '{' :: acc.reverse)
  | .normal, c :: cs => if c == '$' then tokT .dollar cs else .lit c :: tokT .normal cs
  | .dollar, c :: cs =>
    if c == '$' then .lit '$' :: tokT .normal cs
    else if isIdStart c then tokT (.name [c]) cs
    else if c == '{' then tokT (.brace []) cs
    else .lit '$' :: .lit c :: tokT .normal cs
  | .name acc, c :: cs =>
    if isIdChar c then tokT (.name (c :: acc)) cs
    else .ref acc.reverse ('$' :: acc.reverse) ::
      (if c == '$' then tokT .dollar cs else .lit c :: tokT .normal cs)
  | .brace acc, c :: cs =>
    if (acc.isEmpty && isIdStart c) || (!acc.isEmpty && isIdChar c) then tokT (.brace (c :: acc)) cs
    else if c == '}' && !acc.isEmpty then
      .ref acc.reverse ('$' :: '{' :: (acc.reverse ++ ['}'])) :: tokT .normal cs
    else lits ('$' :: '{' :: acc.reverse) ++
      (if c == '$' then tokT .dollar cs else .lit c :: tokT .normal cs)

/-- `posixpath.expandvars` pattern: `\$(\w+|\{[^}]*\})` (ASCII); no `$$` escape -/
def tokE : Sc → S → List Tok
  | .normal, [] => []
  | .dollar, [] => [.lit '$']
  | .name acc, [] => [.ref acc.reverse ('$' :: acc.reverse)]
  | .brace acc, [] => lits ('$' :: '{' :: acc.reverse)
  | .normal, c :: cs => if c == '$' then tokE .dollar cs else .lit c :: tokE .normal cs
  | .dollar, c :: cs =>
    if isIdChar c then tokE (.name [c]) cs
    else if c == '{' && cs.contains '}' then tokE (.brace []) cs
    else .lit '$' :: (if c == '$' then tokE .dollar cs else .lit c :: tokE .normal cs)
  | .name acc, c :: cs =>
    if isIdChar c then tokE (.name (c :: acc)) cs
    else .ref acc.reverse ('$' :: acc.reverse) ::
      (if c == '$' then tokE .dollar cs else .lit c :: tokE .normal cs)
  | .brace acc, c :: cs =>
    if c == '}' then .ref acc.reverse ('$' :: '{' :: (acc.reverse ++ ['}'])) :: tokE .normal cs
    else tokE (.brace (c :: acc)) cs

/-- `Template(s).safe_substitute(mapping)` -/
def substT (lk : S → Option S) (s : S) : S := render lk (tokT .normal s)
/-- `os.path.expandvars(s)` with `os.environ = lk` -/
def expandvars (lk : S → Option S) (s : S) : S := render lk (tokE .normal s)

/-! ## environments of the package -/

inductive Err where
  | unknownEnv
  deriving DecidableEq, Repr

/-- `environments:` of the document: platform ↦ (environment name ↦ variables) -/
abbrev Envs := List (S × List (S × Dict))

def sDefault : S := "default".toList
def sNone : S := "none".toList
def sEnvironment : S := "environment".toList
def sDEFAULTS : S := "DEFAULTS".toList

/-- lower-casing of the environment names of one platform at load:
`for name in keys: if name != name.lower(): d[name.lower()] = d[name]; del d[name]`.
The order in which the names are visited matters only when one platform spells one name in two ways
(which spelling is kept is a question of determinism of loading — property C15,
fixes/C15-environment-name-case-order.diff; the C17 harness does not generate such documents). -/
def lowerNames (d : List (S × Dict)) : List (S × Dict) :=
  (keys d).foldl (fun acc n =>
    if n != lower n then
      match dget acc n with
      | some v => derase (dset acc (lower n) v) n
      | none => acc
    else acc) d

def loadEnvs (e : Envs) : Envs := e.map fun pe => (pe.1, lowerNames pe.2)

/-- `get_platform_environment(name, platform)` (the platform exists) -/
def platEnv (e : Envs) (name plat : S) : Except Err Dict :=
  let name := lower name
  if name == sNone then .ok []
  else match dget e plat with
    | none => .error .unknownEnv
    | some pe => match dget pe name with
      | some d => .ok d
      | none => .error .unknownEnv

/-- `get_environment(name, platform)`: the platform's environment layered over the default platform's -/
def getEnv (e : Envs) (name plat : S) : Except Err Dict :=
  if plat == sDefault then
    match platEnv e name sDefault with
    | .ok d => .ok (dupdate [] d)
    | .error x => .error x
  else
    match platEnv e name plat, platEnv e name sDefault with
    | .ok p, .ok d => .ok (dupdate (dupdate [] d) p)
    | .ok p, .error _ => .ok (dupdate [] p)
    | .error _, .ok d => .ok (dupdate [] d)
    | .error x, .error _ => .error x

/-- `defaultEnvironment()`: the environment called `environment`, else the whole launch environment -/
def defaultEnv (e : Envs) (plat : S) (launch : Dict) : Dict :=
  match getEnv e sEnvironment plat with
  | .ok d => d
  | .error _ => launch

/-- which source the name selects (after `or 'environment'` and `.lower()`) -/
def normName (name : Option S) : S :=
  match name with
  | none => sEnvironment
  | some n => if n.isEmpty then sEnvironment else lower n

/-- the selected source: nothing, the default environment, or the named one -/
def selected (e : Envs) (plat : S) (launch : Dict) (name : Option S) : Except Err Dict :=
  let nm := normName name
  if nm == sEnvironment then .ok (defaultEnv e plat launch)
  else if nm == sNone then .ok []
  else getEnv e nm plat

/-- names listed by `DEFAULTS` (`value.split(':')`) -/
def importNames (d : Dict) : List S :=
  match dget d sDEFAULTS with
  | some v => splitChar ':' v
  | none => []

/-- one name of the `DEFAULTS` list: skipped when the launch environment does not define it; added when the
environment does not have it; otherwise the environment's own value with `$name`/`${name}` replaced by the
launch value -/
def importStep (launch : Dict) (acc : Dict) (n : S) : Dict :=
  match dget launch n with
  | none => acc
  | some lv =>
    match dget acc n with
    | none => dset acc n lv
    | some cur => dset acc n (substT (fun x => if x == n then some lv else none) cur)

/-- the `DEFAULTS` block of `environmentWithName` -/
def applyDefaults (launch : Dict) (env : Dict) (removeKey : Bool) : Dict :=
  match dget env sDEFAULTS with
  | none => env
  | some v =>
    let env' := (splitChar ':' v).foldl (importStep launch) env
    if removeKey then derase env' sDEFAULTS else env'

/-- value of `k` after the final comprehension of `environmentWithName` (`expand=True`): a key whose
(unexpanded) value is empty is dropped; references are resolved from the unexpanded environment first
(`expand_vars`) and then from the launch environment (`os.path.expandvars`) -/
def expandVal (launch env : Dict) (k : S) : Option S :=
  match dget env k with
  | none => none
  | some v => if v.isEmpty then none else some (expandvars (dget launch) (substT (dget env) v))

/-- `{key: expandvars(expand_vars(env[key], env)) for key in env if env[key]}`.  Every entry is mapped
through the *effective* value of its key, so the function is correct also for association lists that
repeat a key. -/
def expandAll (launch : Dict) (env : Dict) : Dict :=
  env.filterMap fun kv => (expandVal launch env kv.1).map fun v => (kv.1, v)

/-- `environmentWithName(name, expand, remove_defaults_key)` -/
def envWithName (sys : Dict) (e : Envs) (plat : S) (launch : Dict) (name : Option S)
    (expand removeKey : Bool) : Except Err Dict :=
  match selected e plat launch name with
  | .error x => .error x
  | .ok sel =>
    let base := dupdate sys sel
    let e1 := applyDefaults launch base removeKey
    .ok (if expand then expandAll launch e1 else e1)

def interpVars : List S := ["PATH".toList, "PYTHONPATH".toList, "PYTHONHOME".toList, "LD_LIBRARY_PATH".toList]

def interpStep (launch env : Dict) (acc : Dict) (k : S) : Dict :=
  match dget launch k with
  | none => acc
  | some v => if dhas env k then acc else dset acc k v

/-- search-path variables copied from the launch environment for interpreter components
(`{key: active_shell[key] for key in copy_from if key in active_shell and key not in env}`) -/
def addInterp (launch : Dict) (env : Dict) : Dict :=
  interpVars.foldl (interpStep launch env) env

/-- `environmentForNode` for a component whose `command.environment` is `name` and whose
`command.interpreter` is set iff `interp` (values without `%(...)s` references) -/
def envForNode (sys : Dict) (e : Envs) (plat : S) (launch : Dict) (name : Option S) (interp : Bool) :
    Except Err Dict :=
  match envWithName sys e plat launch name true true with
  | .error x => .error x
  | .ok env => .ok (if interp then addInterp launch env else env)

end St4sd.Env
