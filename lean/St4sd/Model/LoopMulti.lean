import St4sd.Model.Loop
/-!
# DoWhile unrolling with several DoWhile documents and the Controller's readers (property C05)

`Model/Loop.lean` models one DoWhile document.  A workflow may import several; every one of them is advanced by its
own condition component, in any interleaving.  This file models the code that is shared between the documents:

* `flowir.py` 575-615 (`instantiate_workflow`-time import of the documents): iteration 0 of every document, in document
  order; the foreign ids of a document are the components outside the loops and the placeholder ids of the documents
  not yet imported;
* `graph.py` `map_placeholders_to_looped_instances_of_components` + `_discover_dowhile_placeholders`: ONE set
  `remaining_looped_ids` is threaded through all documents and all placeholder ids; every placeholder takes the
  remaining ids it matches (`represents`), `latest` is chosen among ITS OWN matches (`discover`);
* `graph.py` `update_dowhile_states` / `compute_dowhile_state` per document (`Loop.latestCond`, `Loop.curIter`: they
  already filter the ids of the whole workflow on the stage and name of the document's condition);
* `graph.py` `instantiate_dowhile_next_iteration(document, currentIteration + 1)` for one of the documents (`stepM`);
* `control.py` `Controller._comp_get_active_predecessors(<placeholder>)` (the dependency analysis behind
  `generate_status_report_for_nodes`, run by `Controller.initialise` and after every `finishedCheck`):
  `ctlPredecessors`; `Controller.parse_workflow_graph` (`comp_condition_to_dowhile`): `ctlConditions`.
  These, `get_placeholder_state`, `get_node_state`, `_true_nodes_from_identifiers` and `DataReference.resolve` only
  *read* the workflow: in the model they are functions of the workflow, and the operation `Op.read` is the identity
  (`applyOp`).  The harness runs the real readers between the iterations and observes the workflow again.
-/
namespace St4sd.Loop
open St4sd.Str

/-- `looped_id_match_placeholder_id(looped_id = x, placeholder_id = p)` -/
def matchP (p x : CId) : Bool := x.1 == p.1 && baseName x.2 == p.2

/-- the placeholder ids of all DoWhile documents in document order, each with its document (`DoWhileId`) -/
def taggedIds (ds : List Doc) : List (Doc × CId) := ds.flatMap fun d => (loopIds d).map fun p => (d, p)

/-- `_discover_dowhile_placeholders` called for every document with the shared `remaining_looped_ids`: a placeholder
takes the remaining ids it matches, they are removed from the remaining ids, `latest` is the first maximum (by
iteration) of the placeholder's own matches. -/
def discover (num : Bool) : List (Doc × CId) → List CId → List (Doc × Placeholder)
  | [], _ => []
  | (d, p) :: ps, rem =>
    (d, { id := p, represents := rem.filter (matchP p), latest := firstMaxBy (iterLt num) (rem.filter (matchP p)) })
      :: discover num ps (rem.filter fun x => !matchP p x)

/-- `WorkflowGraph._placeholders` after `map_placeholders_to_looped_instances_of_components` (every placeholder still
running).  Two documents with a common placeholder id cannot be loaded (their iterations 0 would be the same
components); the dictionary would keep the entry of the later document, `findPlaceholderM` takes the first. -/
def placeholdersM (num : Bool) (ds : List Doc) (cs : List Comp) : List (Doc × Placeholder) :=
  discover num (taggedIds ds) (loopedIds cs)

def findPlaceholderM (num : Bool) (ds : List Doc) (cs : List Comp) (p : CId) : Option (Doc × Placeholder) :=
  (placeholdersM num ds cs).find? fun q => q.2.id == p

/-- producer used by `DataReference.resolve` for a non-aggregating method -/
def resolveProducerM (num : Bool) (ds : List Doc) (cs : List Comp) (p : CId) : Option CId :=
  match findPlaceholderM num ds cs p with
  | some q => q.2.latest
  | none => some p

/-- order in which `:loopref` / `:loopoutput` list the instances -/
def loopRefOrderM (num : Bool) (ds : List Doc) (cs : List Comp) (p : CId) : List CId :=
  match findPlaceholderM num ds cs p with
  | some q => sortBy (iterLt num) q.2.represents
  | none => []

/-- edges of `_createCompleteGraph`: a reference to a placeholder depends on all instances it represents and on the
current condition of the placeholder's own document -/
def edgesOfM (ds : List Doc) (cs : List Comp) : List (CId × CId) :=
  cs.flatMap fun c =>
    (c.refs.filter fun r => !r.direct).flatMap fun r =>
      let pid : CId := (r.stage.getD c.stage, r.producer)
      let preds : List CId :=
        match findPlaceholderM true ds cs pid with
        | some q =>
          match latestCond q.1 cs with
          | some cond => if cond != c.id then q.2.represents ++ [cond] else q.2.represents
          | none => []
        | none => [pid]
      (preds.filter fun p => (ids cs).contains p).map fun p => (p, c.id)

/-- what ONE reference `r` of component `c` contributes to the predecessors of `c` in `_createCompleteGraph`: a reference
to a placeholder expands to all instances it represents plus the producer of the current condition of the placeholder's
document — unless `c` IS that producer (`The component which produces the condition should not have a dependency to
itself`).  The expansion is computed for this consumer from a copy of the placeholder's entry: it is a function of the
workflow, the consumer and the reference, never of the consumers visited before. -/
def refPreds (ds : List Doc) (cs : List Comp) (c : Comp) (r : Ref) : List CId :=
  let pid : CId := (r.stage.getD c.stage, r.producer)
  match findPlaceholderM true ds cs pid with
  | some q =>
    match latestCond q.1 cs with
    | some cond => if cond != c.id then q.2.represents ++ [cond] else q.2.represents
    | none => []
  | none => [pid]

/-- `Controller._comp_get_active_predecessors(<placeholder p>)` while no component is done: the instances the
placeholder represents and the producer of the current condition of its document (appended unless already there).
The real code works on a deep copy of the placeholder's entry. -/
def ctlPredecessors (ds : List Doc) (cs : List Comp) (p : CId) : List CId :=
  match findPlaceholderM true ds cs p with
  | some q =>
    match latestCond q.1 cs with
    | some cond => if q.2.represents.contains cond then q.2.represents else q.2.represents ++ [cond]
    | none => q.2.represents
  | none => []

/-- `Controller.comp_condition_to_dowhile` after `parse_workflow_graph`: per document the producer of its current
condition -/
def ctlConditions (ds : List Doc) (cs : List Comp) : List (Option CId) := ds.map fun d => latestCond d cs

/-- iteration 0 of every document at import time.  (The foreign ids of the real code also contain the document's own
placeholder ids; `rewriteRef` tests `known ∪ loopIds d`, so leaving them out changes nothing.) -/
def initComps (out : List Comp) : List Doc → List Comp
  | [] => []
  | d :: ds => instantiate d (ids out ++ ds.flatMap loopIds) 0 ++ initComps out ds

/-- the package as loaded -/
def initM (ds : List Doc) (out : List Comp) : Wf :=
  let cs := out ++ initComps out ds
  { comps := cs, edges := edgesOfM ds cs }

/-- `Controller._instantiate_next_dowhile_iteration(document i)`: the next iteration of document `i` is its own
`currentIteration + 1`; the other documents are not touched (an index without a document is a no-op). -/
def stepM (ds : List Doc) (i : Nat) (w : Wf) : Wf :=
  match ds[i]? with
  | none => w
  | some d =>
    let cs := w.comps ++ instantiate d (ids w.comps) (curIter d w.comps + 1)
    { comps := cs, edges := w.edges ++ edgesOfM ds cs }

/-- the workflow after the history `h` (the documents that instantiated a further iteration, in order) -/
def runM (ds : List Doc) (out : List Comp) (h : List Nat) : Wf :=
  h.foldl (fun w i => stepM ds i w) (initM ds out)

/-- what happens to a workflow at run time, as far as C05 is concerned: a document instantiates its next iteration, or
the Controller / a consumer reads the placeholders (dependency analysis, status report, placeholder state, reference
resolution) -/
inductive Op where
  | advance (i : Nat)
  | read
deriving Repr, DecidableEq

def applyOp (ds : List Doc) (o : Op) (w : Wf) : Wf :=
  match o with
  | .advance i => stepM ds i w
  | .read => w

def runOps (ds : List Doc) (out : List Comp) (ops : List Op) : Wf :=
  ops.foldl (fun w o => applyOp ds o w) (initM ds out)

/-- the documents that advanced, in order -/
def advances : List Op → List Nat
  | [] => []
  | .advance i :: ops => i :: advances ops
  | .read :: ops => advances ops

end St4sd.Loop
