/-!
# C01 — consumers of a DoWhile loop: the set of producers grows while the workflow runs

Model of the part of `Controller` that decides when a component OUTSIDE a DoWhile loop that references
looped components (`stageS.name:ref` / `:loopref`, i.e. a placeholder) may be launched:

* `WorkflowGraph` gives the consumer an edge from EVERY instantiated instance `stageS.k#name` of every
  looped component it references, plus the producer of the CURRENT loop condition at every parse (one parse per
  instantiation, so the condition producers of all iterations so far)
  (`model/graph.py`: "Placeholder dependencies expand to *all* currently known instances of placeholder +
  the condition"); `Controller._comp_get_active_predecessors` keeps those predecessors that are not in
  `comp_done` and `_input_dependencies_satisfied` launches when none is left (`ready`).
* `Controller.finishedCheck(c)` of the instance that produces the condition of the current iteration calls
  `_handle_condition_component_finished` UNDER `comp_lock` - the next iteration is instantiated there when the
  condition says so - and only afterwards, in its `finally`, adds `c` to `comp_done`.

Phases of an instance (iteration `k`, looped component `n`): `0` not over (pending or running), `1` reached a
final state, `2` the critical section of its `finishedCheck` ran, `3` it is in `comp_done`.  Instances exist for
the iterations `≤ cur`.  Dependencies INSIDE the loop are abstracted away (any instance may end at any time: a
superset of the real behaviours), which is exactly what makes "an older instance is still running while newer
iterations are over" reachable - in the real system: a looped component that is not upstream of the condition.

`readyLatest` is the variant that waits only for the instances of the latest iteration; `Witness/C01.lean` shows
that it launches the consumer while an older instance is still running.
-/
namespace St4sd.CtrlLoop

/-- static description: looped component names are `0 … n-1`; `cond` produces the condition; `refs` are the
looped components the consumer outside the loop references -/
structure Loop where
  n : Nat
  cond : Nat
  refs : List Nat

structure LS where
  /-- phase of instance (iteration, name) -/
  ph : Nat → Nat → Nat
  /-- current (latest instantiated) iteration -/
  cur : Nat
  /-- what the condition files will say, one answer per iteration (none left: "False") -/
  script : List Bool
  /-- `some (cur, ph)` at the moment the consumer was launched -/
  launched : Option (Nat × (Nat → Nat → Nat))

inductive Op where
  /-- the task of instance (k, n) ends (any final state) -/
  | exit (k n : Nat)
  /-- `finishedCheck` of instance (k, n): the part under `comp_lock`; `ok` = the instance FINISHED and its
      condition file could be read (otherwise no new iteration is created) -/
  | crit (k n : Nat) (ok : Bool)
  /-- `finishedCheck` of instance (k, n): `comp_done.add` -/
  | post (k n : Nat)
  /-- a scheduler pass looking at the consumer -/
  | sched

def init (script : List Bool) : LS := { ph := fun _ _ => 0, cur := 0, script := script, launched := none }

def setPh (ph : Nat → Nat → Nat) (k n v : Nat) : Nat → Nat → Nat :=
  fun k' n' => if k' = k ∧ n' = n then v else ph k' n'

/-- instance (k, n) exists -/
def Exists (L : Loop) (s : LS) (k n : Nat) : Prop := k ≤ s.cur ∧ n < L.n

/-- `_input_dependencies_satisfied` for the consumer: every instance of every referenced looped component and the
producer of the condition of every iteration so far (the graph is parsed again at every instantiation and the edge
from the then-current condition producer is added each time) are in `comp_done` -/
def ready (L : Loop) (s : LS) : Bool :=
  (List.range (s.cur + 1)).all (fun k => L.refs.all (fun n => n < L.n → s.ph k n = 3) && s.ph k L.cond = 3)

/-- the variant that skips the instances a later iteration has superseded -/
def readyLatest (L : Loop) (s : LS) : Bool :=
  L.refs.all (fun n => n < L.n → s.ph s.cur n = 3) && s.ph s.cur L.cond = 3

def stepWith (rdy : Loop → LS → Bool) (L : Loop) (s : LS) : Op → LS
  | .exit k n => if k ≤ s.cur ∧ n < L.n ∧ s.ph k n = 0 then { s with ph := setPh s.ph k n 1 } else s
  | .crit k n ok =>
      if k ≤ s.cur ∧ n < L.n ∧ s.ph k n = 1 then
        let s1 := { s with ph := setPh s.ph k n 2 }
        if k = s.cur ∧ n = L.cond then
          match s.script with
          | [] => s1
          | more :: rest =>
              if ok && more then { s1 with cur := s.cur + 1, script := rest } else { s1 with script := rest }
        else s1
      else s
  | .post k n => if k ≤ s.cur ∧ n < L.n ∧ s.ph k n = 2 then { s with ph := setPh s.ph k n 3 } else s
  | .sched => if s.launched.isNone ∧ rdy L s = true then { s with launched := some (s.cur, s.ph) } else s

def step := stepWith ready
def stepLatest := stepWith readyLatest

def run (L : Loop) (script : List Bool) (ops : List Op) : LS := ops.foldl (step L) (init script)
def runLatest (L : Loop) (script : List Bool) (ops : List Op) : LS := ops.foldl (stepLatest L) (init script)

end St4sd.CtrlLoop
