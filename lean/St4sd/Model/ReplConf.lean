import St4sd.Model.ReplVars
/-!
# Replication (C03): the configuration object and its (re-)parametrisation

Model of the part of `FlowIRExperimentConfiguration` (conf.py) that decides WHICH document is replicated:

* `__init__` / `parametrize(variable_files, primitive, …)` both end in `_load_concrete` + `_initialize`:
  `_concrete` is rebuilt from `_original_flowir_0` (the document as loaded; `parametrize` passes
  `path=None`), the layered user variables are patched into it (`_patch_in_variable_files`: for every
  stage `i`, `inject = deepcopy(user.global); inject.update(user.stages.get(i, {}))` and every entry of
  `inject` is written into the variables of stage `i`), `_unreplicated = _concrete.copy()`, and unless
  `primitive` the configuration `replicate()`s: `_concrete = FlowIRConcrete(_unreplicated.replicate())`.
* `WorkflowGraph.graphFromPackage(pkg, variable_files=…)` calls `parametrize` on the configuration
  object the package was loaded with — a history of parametrisations on ONE object.

A document is what replication reads of it: the global scope, the stage scopes, the components.
-/
namespace St4sd.Repl
open St4sd.Str

/-- the layered user variable files: a `global` section and per-stage sections -/
structure UserVars where
  global : Vars
  stages : List (Nat × Vars)
deriving Repr

/-- a FlowIR document as far as replication reads it (components in topological order) -/
structure Doc where
  g : Vars
  st : Nat → Vars
  wf : List Raw

/-- what `_patch_in_variable_files` makes of the variables of stage `i` -/
def patchStage (u : UserVars) (st : Nat → Vars) (i : Nat) : Vars :=
  override (st i) (override u.global (stageVars u.stages i))

/-- `_patch_in_variable_files(variable_files, concrete)` -/
def patch (u : UserVars) (d : Doc) : Doc := { d with st := patchStage u d.st }

/-- `_concrete` after `_initialize` -/
inductive Concrete
  | primitive (d : Doc)
  | replicated (r : Except XErr (List Comp))

/-- the configuration object -/
structure Conf where
  /-- `_original_flowir_0` -/
  orig : Doc
  /-- `_unreplicated` -/
  unrepl : Doc
  concrete : Concrete

/-- `FlowIRConcrete.replicate` of a document -/
def replicateDoc (d : Doc) : Except XErr (List Comp) := expandRaw d.g d.st d.wf

/-- `_load_concrete(None, …)` + `_initialize`: one (re-)parametrisation with user variables `u` -/
def parametrize (c : Conf) (u : UserVars) (primitive : Bool) : Conf :=
  let conc := patch u c.orig
  { orig := c.orig, unrepl := conc,
    concrete := if primitive then .primitive conc else .replicated (replicateDoc conc) }

/-- `FlowIRExperimentConfiguration.__init__` on a freshly loaded document -/
def construct (d : Doc) (u : UserVars) (primitive : Bool) : Conf :=
  parametrize { orig := d, unrepl := d, concrete := .primitive d } u primitive

/-- a history of parametrisations on one configuration object -/
def run (c : Conf) (h : List (UserVars × Bool)) : Conf :=
  h.foldl (fun c s => parametrize c s.1 s.2) c

/-! ### a variant that is NOT the code (for `Witness.C03`): the unreplicated snapshot is taken only the
first time, later parametrisations replicate the stale snapshot -/

def parametrizeStale (first : Bool) (c : Conf) (u : UserVars) (primitive : Bool) : Conf :=
  let conc := patch u c.orig
  let snap := if first then conc else c.unrepl
  { orig := c.orig, unrepl := snap,
    concrete := if primitive then .primitive conc else .replicated (replicateDoc snap) }

end St4sd.Repl
