import St4sd.Model.Str
/-!
# The status file encoding (property C14)

Models `Status.writeToStream` / `Status.statusFromFile` + `Status.__init__`
(python/experiment/model/data.py).

* A status is a list of `(key, value)` pairs, already formatted with `'%s' % v` and in the
  order in which the writer emits them (`sorted(keys)`).
* writer: one line `key=value\n` per pair; the value of `error-description` is passed through
  `str.encode('unicode_escape').decode('utf-8')`.
* reader: `split('\n')`, keep the lines containing `=`, `split('=', 1)`, un-escape the value of
  `error-description` (`.encode('utf-8').decode('unicode_escape')`), then `key.strip().lower()`
  and `value.strip()` (in `Status.__init__`).

Domain of the escape model: a value is a list of Unicode scalar values (`Char`; lone surrogates,
which a Python `str` may hold, are outside the model).  `escape` is CPython's `unicode_escape`
encoder on that domain exactly.  `unescape` is CPython's decoder on the image of the encoder
plus the simple escapes `\' \" \a \b \f \v`; octal escapes, `\N{…}`, backslash-newline and unknown
escapes (kept verbatim by CPython with a DeprecationWarning) are outside the model (`none`), as
are malformed escapes, for which CPython raises `UnicodeDecodeError`.

`writeOld` is the writer before the repair proposed in `fixes/C14-status-escape.diff`: it stores
the escaped text back into the object's data, so the next update escapes it again.
-/
namespace St4sd.StatusFile
open St4sd.Str

/-! ## unicode_escape -/

def hexDigit (d : Nat) : Char := if d < 10 then Char.ofNat (48 + d) else Char.ofNat (87 + d)

def hexVal (c : Char) : Option Nat :=
  let n := c.toNat
  if 48 ≤ n && n ≤ 57 then some (n - 48)
  else if 97 ≤ n && n ≤ 102 then some (n - 87)
  else if 65 ≤ n && n ≤ 70 then some (n - 55)
  else none

/-- `k` lower-case hex digits of `n`, most significant first (`'%0kx' % n` for `n < 16^k`) -/
def toHex : Nat → Nat → List Char
  | 0, _ => []
  | k + 1, n => hexDigit (n / 16 ^ k % 16) :: toHex k n

def escapeChar (c : Char) : List Char :=
  let n := c.toNat
  if c = '\\' then ['\\', '\\']
  else if c = '\t' then ['\\', 't']
  else if c = '\n' then ['\\', 'n']
  else if c = '\r' then ['\\', 'r']
  else if n < 32 then '\\' :: 'x' :: toHex 2 n
  else if n < 127 then [c]
  else if n < 256 then '\\' :: 'x' :: toHex 2 n
  else if n < 65536 then '\\' :: 'u' :: toHex 4 n
  else '\\' :: 'U' :: toHex 8 n

/-- `s.encode('unicode_escape').decode('utf-8')` -/
def escape : List Char → List Char
  | [] => []
  | c :: s => escapeChar c ++ escape s

inductive Mode where
  | normal
  | bs                     -- just read a backslash
  | hex (k acc : Nat)      -- inside \x \u \U: `k + 1` digits still to read
  deriving DecidableEq, Repr

def ofCode (n : Nat) : Option Char :=
  if h : n.isValidChar then some (Char.ofNatAux n h) else none

/-- `s.encode('utf-8').decode('unicode_escape')` (on ASCII input; see the module comment) -/
def unesc : Mode → List Char → Option (List Char)
  | .normal, [] => some []
  | .normal, c :: s =>
    if c = '\\' then unesc .bs s else (unesc .normal s).map (c :: ·)
  | .bs, [] => none
  | .bs, c :: s =>
    if c = '\\' then (unesc .normal s).map ('\\' :: ·)
    else if c = 'n' then (unesc .normal s).map ('\n' :: ·)
    else if c = 't' then (unesc .normal s).map ('\t' :: ·)
    else if c = 'r' then (unesc .normal s).map ('\r' :: ·)
    else if c = '\'' then (unesc .normal s).map ('\'' :: ·)
    else if c = '"' then (unesc .normal s).map ('"' :: ·)
    else if c = 'a' then (unesc .normal s).map ('\x07' :: ·)
    else if c = 'b' then (unesc .normal s).map ('\x08' :: ·)
    else if c = 'f' then (unesc .normal s).map ('\x0c' :: ·)
    else if c = 'v' then (unesc .normal s).map ('\x0b' :: ·)
    else if c = 'x' then unesc (.hex 1 0) s
    else if c = 'u' then unesc (.hex 3 0) s
    else if c = 'U' then unesc (.hex 7 0) s
    else none
  | .hex _ _, [] => none
  | .hex k acc, c :: s =>
    match hexVal c with
    | none => none
    | some v =>
      match k with
      | 0 =>
        match ofCode (acc * 16 + v) with
        | none => none
        | some ch => (unesc .normal s).map (ch :: ·)
      | k + 1 => unesc (.hex k (acc * 16 + v)) s

def unescape (s : List Char) : Option (List Char) := unesc .normal s

/-! ## str.strip() / str.lower() as Python defines them -/

/-- `str.isspace()` for a single character: Unicode White_Space plus U+001C..U+001F -/
def pyIsSpace (c : Char) : Bool :=
  let n := c.toNat
  (9 ≤ n && n ≤ 13) || (28 ≤ n && n ≤ 32) || n == 0x85 || n == 0xa0 || n == 0x1680 ||
  (0x2000 ≤ n && n ≤ 0x200a) || n == 0x2028 || n == 0x2029 || n == 0x202f || n == 0x205f || n == 0x3000

def pyStrip (s : List Char) : List Char :=
  ((s.dropWhile pyIsSpace).reverse.dropWhile pyIsSpace).reverse

/-- `str.lower()` on ASCII (the keys of a status file are ASCII) -/
def lowerAscii (s : List Char) : List Char :=
  s.map fun c => if 65 ≤ c.toNat && c.toNat ≤ 90 then Char.ofNat (c.toNat + 32) else c

/-! ## writer -/

abbrev Pair := List Char × List Char
abbrev Data := List Pair

def errKey : List Char := ['e', 'r', 'r', 'o', 'r', '-', 'd', 'e', 's', 'c', 'r', 'i', 'p', 't', 'i', 'o', 'n']

def encodeValue (k v : List Char) : List Char := if k = errKey then escape v else v

/-- one line of the file, value written as it is -/
def rawLine (p : Pair) : List Char := p.1 ++ '=' :: (p.2 ++ ['\n'])

def rawLines : Data → List Char
  | [] => []
  | p :: d => rawLine p ++ rawLines d

def escapeData : Data → Data
  | [] => []
  | (k, v) :: d => (k, encodeValue k v) :: escapeData d

/-- the repaired `writeToStream`: file text for `data` (data is left untouched) -/
def encode (d : Data) : List Char := rawLines (escapeData d)

/-- `writeToStream` before the repair: returns the file text and the *modified* data -/
def writeOld (d : Data) : List Char × Data := (rawLines (escapeData d), escapeData d)

/-- repaired: data unchanged -/
def writeNew (d : Data) : List Char × Data := (encode d, d)

/-! ## reader -/

/-- `text.split('\n')` restricted to what the reader uses: the list of lines (the piece after the
last newline included) -/
def splitLines : List Char → List (List Char)
  | [] => [[]]
  | c :: s =>
    if c = '\n' then [] :: splitLines s
    else match splitLines s with
      | [] => [[c]]
      | l :: ls => (c :: l) :: ls

/-- per line: `split('=',1)` when the line contains `=`, un-escape for `error-description`
(the comparison is on the raw key, before `strip().lower()`, as in the code), then strip.
`none` = the real reader raises (bad escape). -/
def decodeLine (l : List Char) : Option (Option Pair) :=
  match splitFirst '=' l with
  | none => some none
  | some (k, v) =>
    if k = errKey then
      match unescape v with
      | none => none
      | some v' => some (some (lowerAscii (pyStrip k), pyStrip v'))
    else some (some (lowerAscii (pyStrip k), pyStrip v))

def decodeLines : List (List Char) → Option Data
  | [] => some []
  | l :: ls =>
    match decodeLine l, decodeLines ls with
    | some (some p), some d => some (p :: d)
    | some none, some d => some d
    | _, _ => none

/-- `statusFromFile`: pairs in file order (Python builds a dict: for distinct keys the same mapping) -/
def decode (text : List Char) : Option Data := decodeLines (splitLines text)

/-! ## histories of updates -/

/-- `setX(value)`: replace the value of an existing key, otherwise insert the pair before the first
key that is greater (code-point order), so that a list sorted like `sorted(data)` stays sorted -/
def setKey (k v : List Char) : Data → Data
  | [] => [(k, v)]
  | (k', v') :: d =>
    if k' = k then (k, v) :: d
    else if lexLt k k' then (k, v) :: (k', v') :: d
    else (k', v') :: setKey k v d

def applySets (d : Data) (sets : List Pair) : Data := sets.foldl (fun d p => setKey p.1 p.2 d) d

/-- a history: rounds of setter calls, each round followed by one `update()`; returns the text of
the file after the last update (`none` before the first) and the data held by the object -/
def runHistory (write : Data → List Char × Data) : Data → List (List Pair) → Option (List Char) × Data
  | d, [] => (none, d)
  | d, r :: rs =>
    let w := write (applySets d r)
    match rs with
    | [] => (some w.1, w.2)
    | _ :: _ => runHistory write w.2 rs

/-! ## domain predicates (decidable) -/

/-- keys as the status object uses them: lower-case ASCII letters, digits, `-` -/
def keyClean (k : List Char) : Bool :=
  k.all fun c => (97 ≤ c.toNat && c.toNat ≤ 122) || (48 ≤ c.toNat && c.toNat ≤ 57) || c.toNat == 45

/-- plain values: one line, survive `strip()` -/
def plainClean (v : List Char) : Bool := v.all (fun c => c != '\n' && c != '\r') && pyStrip v == v

/-- free text (`error-description`): any characters, survives `strip()` -/
def textClean (v : List Char) : Bool := pyStrip v == v

def pairClean (p : Pair) : Bool := keyClean p.1 && (if p.1 = errKey then textClean p.2 else plainClean p.2)

def dataClean (d : Data) : Bool := d.all pairClean

end St4sd.StatusFile
