import St4sd.Model.ArgSubst
/-!
# C10 — resolving the arguments of ONE live component again and again while the referenced files change

`ComponentSpecification.resolveArguments` is called many times over the lifetime of a component (validation,
memoization, submission, every repeat of a repeating component, restarts).  Between two calls the producers
rewrite, create or remove the files that `:output` / `:loopoutput` references point to.  `DataReference.resolve`
opens and reads the file on EVERY call: the value of the reference is a function of the file's contents at the
time of the call and of nothing else - not of the file's modification time or size, not of what an earlier call
returned.

The model: a file system is an association list `path ↦ (mtime, contents)` (first entry wins); operations write a
file (with whatever modification time the writer leaves: a new one, the same one - coarse time stamps, `cp -p`,
`rsync -t` - or an older one) or remove it; a reference whose value is contents names its file(s) by path
(`PSource`) and is turned into the `Source` of `ArgSubst` by reading the file system when the arguments are
resolved (`PSource.at`).  `resolveRounds` is the history: resolve, apply a batch of operations, resolve, ...
-/
namespace St4sd.ArgSubst
open St4sd.Str

/-- what a file system keeps of one file: the modification time (`os.stat().st_mtime`) and the contents (their
length is `st_size`) -/
structure FileRec where
  mtime : Nat
  contents : S
  deriving DecidableEq, Repr

/-- association list, the first entry of a path is the file -/
abbrev FS := List (S × FileRec)

/-- `os.stat` + `open().read()`: `none` = the file does not exist -/
def FS.stat : FS → S → Option FileRec
  | [], _ => none
  | (q, r) :: fs, p => if q = p then some r else FS.stat fs p

/-- the contents of the file (`none`: it does not exist) -/
def FS.read (fs : FS) (p : S) : Option S := (FS.stat fs p).map (·.contents)

inductive FsOp
  /-- (re)write `path`: afterwards it has these contents and this modification time -/
  | write (path : S) (mtime : Nat) (contents : S)
  | remove (path : S)
  deriving DecidableEq, Repr

def FsOp.path : FsOp → S
  | .write p _ _ => p
  | .remove p => p

def FS.apply (fs : FS) : FsOp → FS
  | .write p t c => (p, { mtime := t, contents := c }) :: fs
  | .remove p => fs.filter fun e => !(e.1 = p)

def FS.applyAll (fs : FS) : List FsOp → FS
  | [] => fs
  | op :: ops => FS.applyAll (FS.apply fs op) ops

/-- what a batch of operations does to ONE path: `none` = nothing (no operation names it), `some none` = the
last operation naming it removed it, `some (some c)` = the last operation naming it wrote `c` -/
def effect : List FsOp → S → Option (Option S)
  | [], _ => none
  | op :: ops, p =>
    match effect ops p with
    | some r => some r
    | none =>
      match op with
      | .write q _ c => if q = p then some (some c) else none
      | .remove q => if q = p then some none else none

/-- what the path `p` holds after a batch of operations when it held `before` (`none`: no file) before it -/
def heldAfter (ops : List FsOp) (p : S) (before : Option S) : Option S :=
  match effect ops p with
  | some r => r
  | none => before

/-- where the value of a declared reference comes from, with files named by PATH.
* `fixed s`       — a path value (`:ref`, `:loopref`, direct `:ref`): does not look at any file;
* `fileAt p`      — `:output`: the contents of the file at `p`;
* `filesAt ps`    — `:loopoutput` of a component that is not a placeholder: the files at `ps`;
* `instFilesAt l` — `:loopoutput` of a placeholder: (instance id, path of its file) in ANY order. -/
inductive PSource
  | fixed (s : Source)
  | fileAt (p : S)
  | filesAt (ps : List S)
  | instFilesAt (l : List (S × S))
  deriving DecidableEq, Repr

/-- `DataReference.resolve` at a moment in time: open and read -/
def PSource.at (fs : FS) : PSource → Source
  | .fixed s => s
  | .fileAt p => .file (FS.read fs p)
  | .filesAt ps => .files (ps.map (FS.read fs))
  | .instFilesAt l => loopOutputSource (l.map fun x => (x.1, FS.read fs x.2))

/-- a declared reference of a live component -/
structure HDecl where
  abs : S
  rel : S
  relActive : Bool
  kind : Kind
  psource : PSource
  deriving DecidableEq, Repr

def HDecl.at (fs : FS) (d : HDecl) : Decl :=
  { abs := d.abs, rel := d.rel, relActive := d.relActive, kind := d.kind, source := d.psource.at fs }

/-- `resolveArguments` of the live component when the file system is `fs` -/
def resolveAt (fs : FS) (decls : List HDecl) (args : S) : Result := resolveD (decls.map (HDecl.at fs)) args

/-- the history of one live component: resolve now, then for every batch of operations apply it and resolve again -/
def resolveRounds (fs : FS) (decls : List HDecl) (args : S) : List (List FsOp) → List Result
  | [] => [resolveAt fs decls args]
  | ops :: rounds => resolveAt fs decls args :: resolveRounds (FS.applyAll fs ops) decls args rounds

/-- the declared text read the way the code reads it (`declOfText`), with a source by path -/
def hdeclOfText (consumer : Nat) (direct : Bool) (text : S) (ps : PSource) : Option HDecl :=
  (parseRef consumer direct text).map fun p =>
    { abs := p.absSpelling, rel := p.relSpelling, relActive := p.relActive consumer, kind := kindOf p.method,
      psource := ps }

end St4sd.ArgSubst
