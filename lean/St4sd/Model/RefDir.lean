import St4sd.Model.Ref
/-!
# Data references (C09): the top-level folders of a package, as derived from disk

The clause "a reference whose first path segment is a *top-level or manifest folder of the package*
is never treated as a reference to a component" depends on how the folder set is obtained.  In the
code it is derived from the file system:

* `Manifest.fromDirectory(path, include_dirs=True, include_files=False)` (flowir.py 1205-1219) lists
  `path` with `os.listdir` and keeps an entry when `os.path.isdir(entry)` (resp. `os.path.isfile`) —
  both **follow symbolic links** — so the keys of the *implied manifest* are the entries that a user
  sees as directories: real directories and links (chains of links) that end in a directory;
* `ExperimentConfigurationFactory.configurationForExperiment` (conf.py 2000-2017) updates the explicit
  manifest (dictionary / `manifest.yaml`) with the implied one: `manifest.update(implied_manifest)`;
* `FlowIRExperimentConfiguration.top_level_folders` = `Manifest(...).top_level_folders` of the result;
* an instance directory is the package directory copied with `shutil.copytree(..., symlinks=True)`
  (links stay links) plus `input/`, `stages/` and the link `output`; loading it again derives the
  folder set from the instance directory in the same way.

This file models a directory listing as a list of named entries with a *kind* and the derivations
above as list functions.
-/
namespace St4sd.Ref
open St4sd.Str

/-- what a directory entry is, as `lstat` + `stat` see it -/
inductive Kind where
  /-- a real directory -/
  | dir
  /-- a regular file -/
  | file
  /-- a symbolic link (or chain of links) that ends in a directory -/
  | linkDir
  /-- a symbolic link (or chain of links) that ends in a regular file -/
  | linkFile
  /-- a symbolic link whose target does not exist, or a loop of links -/
  | broken
  /-- anything else (fifo, socket, device) -/
  | other
deriving DecidableEq, Repr

/-- `os.path.isdir(entry)`: follows links -/
def Kind.isDir : Kind → Bool
  | .dir | .linkDir => true
  | _ => false

/-- `os.path.isfile(entry)`: follows links -/
def Kind.isFile : Kind → Bool
  | .file | .linkFile => true
  | _ => false

/-- one entry of `os.listdir(path)` -/
structure Entry where
  name : S
  kind : Kind
deriving DecidableEq, Repr

/-- the keys of `Manifest.fromDirectory(path, include_dirs, include_files)` in `os.listdir` order;
`listing = none` when `path` is not a directory (the implied manifest is then empty) -/
def impliedKeys (listing : Option (List Entry)) (incDirs incFiles : Bool) : List S :=
  match listing with
  | none => []
  | some l => (l.filter fun e => (incDirs && e.kind.isDir) || (incFiles && e.kind.isFile)).map (·.name)

/-- keys of `explicit.update(implied)` for dictionaries (insertion order) -/
def mergedKeys (explicit implied : List S) : List S :=
  explicit ++ implied.filter fun k => !explicit.contains k

/-- `FlowIRExperimentConfiguration.top_level_folders` of a package directory with listing `listing`
loaded with the explicit manifest keys `explicit` (`[]` when no manifest is given) -/
def packageFolders (listing : Option (List Entry)) (explicit : List S) : List S :=
  topLevelFolders (mergedKeys explicit (impliedKeys listing true false))

/-- `"input"`, `"stages"`, `"output"` -/
def nameInput : S := ['i', 'n', 'p', 'u', 't']
def nameStages : S := ['s', 't', 'a', 'g', 'e', 's']
def nameOutput : S := ['o', 'u', 't', 'p', 'u', 't']

/-- the listing of the instance directory created from a package *directory*:
`shutil.copytree(package, instance, symlinks=True)` keeps every entry with its kind, then
`os.mkdir("input")`, `os.mkdir("stages")`, `os.symlink(shadowDir.outputDir, "output")` -/
def instanceListing (pkg : List Entry) : List Entry :=
  pkg ++ [⟨nameInput, .dir⟩, ⟨nameStages, .dir⟩, ⟨nameOutput, .linkDir⟩]

/-- how a manifest entry is deployed -/
inductive Deploy where
  | copy
  | link
deriving DecidableEq, Repr

/-- the top-level entry that deploying the manifest entry `key: source:method` of a single-file
package creates in the instance directory (`shutil.copytree` / `os.symlink`; the source is a
directory): a nested key `a/b` creates (or re-uses) the real directory `a`; a flat key is a real
directory when copied and a link to a directory when linked -/
def deployEntry (key : S) (m : Deploy) : Entry :=
  match splitFirst '/' key with
  | some (a, _) => ⟨a, .dir⟩
  | none => ⟨key, match m with | .copy => .dir | .link => .linkDir⟩

end St4sd.Ref
