import St4sd.Model.Ini
/-!
# C19 — the legacy reader as a *process*: what one load leaves behind for the next

`Dosini.parse_component` asks `Dosini.known_flowir_options()` twice: once inside `validate_component`, which
EXTENDS the answer with the options of the component's backend (`optional.extend(options_for_backend(backend)['optional'])`)
to look for typographic errors, and once to decide which keys of the section are options (consumed by the if/elif
chain) and which are component variables.  In the code that exists `known_flowir_options()` builds a fresh list on
every call (`ret = cls._known_flowir.copy(); ret.update(...); return list(ret)`), so the extension is invisible to
every later call: the reader has no state.  The model makes that explicit — the process state `Proc.known` is what
`known_flowir_options()` answers with — so that "sections parsed earlier in the process (other components, other
stages, other loads of other workflows) do not change what a section parses to" is a theorem and not an assumption.
`alias = true` is NOT the code that exists: a reader whose `known_flowir_options()` hands out one cached list object
(modelled for `Witness.C19`).

Abstraction: the backend of a section is its `job-type` text when that text has no `%` (the real code resolves
references through the section's own keys first; an unresolvable text means "no backend options"); `validate_component`
only produces diagnostics, which `DOSINIExperimentConfiguration` does not consume.
-/
namespace St4sd.IniProc
open St4sd.Str St4sd.Ini

abbrev Section := List (S × S)
abbrev BackendTable := List (S × List S)

def jobType : S := ['j', 'o', 'b', '-', 't', 'y', 'p', 'e']

def backendOptions (bt : BackendTable) (b : S) : List S :=
  match bt.find? (fun e => e.1 = b) with
  | some e => e.2
  | none => []

/-- the statically known backend of a section -/
def backendOf (sec : Section) : Option S :=
  match sec.lookup jobType with
  | some t => if t.contains '%' then none else some t
  | none => none

structure Proc where
  /-- what `known_flowir_options()` answers with -/
  known : List S
  deriving DecidableEq, Repr

/-- `validate_component`: the list it checks typos against, and the state it leaves -/
def validate (alias : Bool) (bt : BackendTable) (P : Proc) (sec : Section) : Proc × List S :=
  let optional := P.known ++ (match backendOf sec with
    | some b => backendOptions bt b
    | none => [])
  (if alias then ⟨optional⟩ else P, optional)

/-- `parse_component`: validate, then split the keys of the section into options and variables by the answer of
a second `known_flowir_options()` -/
def parseComponent (alias : Bool) (pt : List ParseEntry) (bt : BackendTable) (P : Proc) (sec : Section) :
    Proc × Option (List (Path × Val)) :=
  let P' := (validate alias bt P sec).1
  (P', parseSection pt P'.known sec)

/-- every section of every stage file of every load, in the order the process reads them -/
def parseSeq (alias : Bool) (pt : List ParseEntry) (bt : BackendTable) :
    Proc → List Section → Proc × List (Option (List (Path × Val)))
  | P, [] => (P, [])
  | P, sec :: r =>
    let a := parseComponent alias pt bt P sec
    let b := parseSeq alias pt bt a.1 r
    (b.1, a.2 :: b.2)

end St4sd.IniProc
