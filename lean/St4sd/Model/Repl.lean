import St4sd.Model.Str
/-!
# Replication of a workflow (C03)

Model of `FlowIR.apply_replicate` (flowir.py): `propagate_replicate` (topological propagation of
replica counts, an aggregating component stops the propagation, inconsistent counts are an error),
and the expansion of every component into its copies, at two levels:

* **graph level** (`piece`): references are structured (`Ref`), a reference to a replicated producer
  is redirected to copy `i` (in a copy) or to the copies `0..N-1` in index order (in an aggregator);
* **text level** (`pieceText`): what `compile_component_replica` / `compile_component_aggregate` do:
  every string of the component (the entries of `references`, the command line `arguments`) is
  rewritten by a regular-expression substitution over the *spellings* of the replicated references.

The text level models the **repaired** code (`fixes/C03-reference-token-boundaries.diff`): one pass,
longest spelling first, a spelling only matches where it is a whole reference (not preceded by a
character of a stage prefix / component name / path, not followed by a word character) and the short
(stage-less) spelling is only rewritten for producers of the owner's own stage.  The algorithm of the
unrepaired code (`str.replace` of both spellings, one after the other) is kept as `replicaTextOld` for
the `Witness` theorems.

The input list is in topological order (every producer before its consumers; the harness sorts, the
code uses `networkx.topological_sort`).  Replica counts and aggregate flags are already resolved here;
their resolution from `%(var)s` in the scope chain of each component (component > stage > global) is
modelled in `St4sd.Model.ReplVars` (`resolveAll`, `expandRaw`).
-/
namespace St4sd.Repl
open St4sd.Str

/-- A declared reference as `ParseDataReferenceFull(ref, owner_stage)` sees it.  `isComp = false`:
not a reference to a component (`stage_index is None`): `name` then holds the whole text. -/
structure Ref where
  isComp : Bool
  stage : Nat
  long : Bool
  name : S
  file : Option S
  method : S
deriving DecidableEq, Repr

/-- A component.  `repl` = own resolved `workflowAttributes.replicate`; in an expanded copy it is the
total number of copies and `replica` (= `variables.replica`) the index of the copy. -/
structure Comp where
  stage : Nat
  name : S
  refs : List Ref
  repl : Option Nat
  agg : Bool
  replica : Option Nat := none
deriving DecidableEq, Repr

/-- processed components, newest first, with their propagated count -/
abbrev Done := List (Comp × Option Nat)

def findDone (d : Done) (st : Nat) (nm : S) : Option (Comp × Option Nat) :=
  d.find? fun e => e.1.stage == st && e.1.name == nm

/-- the count a consumer inherits through reference `r` (`propagate_replicate`: the predecessor's
count unless the predecessor aggregates) -/
def inherit (d : Done) (r : Ref) : Option Nat :=
  if r.isComp then
    match findDone d r.stage r.name with
    | some (p, v) => if p.agg then none else v
    | none => none
  else none

/-- all counts visible to `c`: those of its predecessors and its own -/
def vals (d : Done) (c : Comp) : List Nat := c.refs.filterMap (inherit d) ++ c.repl.toList

/-- `set(...)` of the visible counts: empty → `None`, one value → that value, else inconsistent (`none`) -/
def decide1 : List Nat → Option (Option Nat)
  | [] => some none
  | v :: rest => if rest.all (· == v) then some (some v) else none

/-- `r` references a replicated, non-aggregating producer (`ref_replicate > 0 and is_aggregate is False`) -/
def replicated (d : Done) (r : Ref) : Bool :=
  r.isComp &&
    match findDone d r.stage r.name with
    | some (p, some n) => !p.agg && decide (0 < n)
    | _ => false

def copyRef (i : Nat) (r : Ref) : Ref := { r with name := r.name ++ natToDigits i, long := true }

/-- reference of copy `i` -/
def rwRef (d : Done) (i : Nat) (r : Ref) : Ref := if replicated d r then copyRef i r else r

/-- references of an aggregator that stand for `r` -/
def aggRef (d : Done) (n : Nat) (r : Ref) : List Ref :=
  if replicated d r then (List.range n).map fun i => copyRef i r else [r]

def mkCopy (d : Done) (c : Comp) (n i : Nat) : Comp :=
  { c with name := c.name ++ natToDigits i, replica := some i, repl := some n, refs := c.refs.map (rwRef d i) }

/-- what component `c` with propagated count `p` expands to (graph level) -/
def piece (d : Done) (c : Comp) (p : Option Nat) : List Comp :=
  if c.agg then [{ c with refs := c.refs.flatMap (aggRef d (p.getD 0)) }]
  else if 0 < p.getD 0 then (List.range (p.getD 0)).map (mkCopy d c (p.getD 0))
  else [c]

/-- every component reference of `c` names an already processed component (topological order + every
reference names a component of the workflow; otherwise `FlowIRReferenceToUnknownComponent`) -/
def closedAt (d : Done) (c : Comp) : Bool :=
  c.refs.all fun r => !r.isComp || (findDone d r.stage r.name).isSome

inductive Err | unknown | inconsistent | duplicate
deriving DecidableEq, Repr

/-- One pass over the topologically ordered components. -/
def go : Done → List Comp → List Comp → Except Err (Done × List Comp)
  | d, out, [] => .ok (d, out)
  | d, out, c :: cs =>
    if closedAt d c then
      match decide1 (vals d c) with
      | some p => go ((c, p) :: d) (out ++ piece d c p) cs
      | none => .error .inconsistent
    else .error .unknown

def idOf (c : Comp) : Nat × S := (c.stage, c.name)

def uniqueIds : List Comp → Bool
  | [] => true
  | c :: cs => !(cs.any fun x => idOf x == idOf c) && uniqueIds cs

/-- `apply_replicate` followed by the loader's duplicate check -/
def expand (wf : List Comp) : Except Err (List Comp) :=
  match go [] [] wf with
  | .error e => .error e
  | .ok (_, out) => if uniqueIds out then .ok out else .error .duplicate

/-- edges `_createCompleteGraph` derives from the references of the expanded components -/
def edges (out : List Comp) : List ((Nat × S) × (Nat × S)) :=
  out.flatMap fun o =>
    (o.refs.filter fun r => r.isComp && out.any fun p => idOf p == (r.stage, r.name)).map
      fun r => ((r.stage, r.name), idOf o)

/-! ## Text level -/

def stagePrefix (n : Nat) : S := "stage".toList ++ natToDigits n ++ ['.']

/-- `FlowIR.compile_reference` -/
def render (r : Ref) : S :=
  if r.isComp then
    (if r.long then stagePrefix r.stage else []) ++ r.name ++
      (match r.file with | some f => '/' :: f | none => []) ++ ':' :: r.method
  else r.name

/-- Python `\w` on the ASCII range -/
def isWord (c : Char) : Bool := c.isAlphanum || c == '_'

/-- `FlowIR.ReferenceLeftBoundary` = `(?<![\w.#/ -])` -/
def isBoundary (c : Char) : Bool := isWord c || c == '.' || c == '#' || c == '/' || c == '-'

def leftOk : Option Char → Bool
  | none => true
  | some c => !isBoundary c

/-- `(?!\w)` -/
def followOk : S → Bool
  | [] => true
  | c :: _ => !isWord c

/-- first alternative (in the given order) that matches at the head of `s` -/
def firstMatch (keys : List (S × S)) (s : S) : Option (S × S) :=
  keys.find? fun kv => kv.1.isPrefixOf s && followOk (s.drop kv.1.length)

/-- `expression.sub(lambda m: translation[m.group(0)], string)` for
`(?<![\w.#/ -])(?:k1|k2|…)(?!\w)`; `skip` characters of a matched key remain to be dropped,
`prev` is the character before the current position. -/
def scan (keys : List (S × S)) : Nat → Option Char → S → S
  | _, _, [] => []
  | k + 1, _, c :: s => scan keys k (some c) s
  | 0, prev, c :: s =>
    match (if leftOk prev then firstMatch keys (c :: s) else none) with
    | some kv => kv.2 ++ scan keys (kv.1.length - 1) (some c) s
    | none => c :: scan keys 0 (some c) s

/-- stable insertion of a key into a list sorted by decreasing length (`sorted(..., reverse=True)`) -/
def insertKey (kv : S × S) : List (S × S) → List (S × S)
  | [] => [kv]
  | x :: xs => if x.1.length < kv.1.length then kv :: x :: xs else x :: insertKey kv xs

def sortKeys (l : List (S × S)) : List (S × S) := l.foldr insertKey []

/-- the `translation` of `compile_component_replica` for copy `i` (repaired: the short spelling only
when the producer lives in the owner's stage) -/
def keysOf (owner i : Nat) (r : Ref) : List (S × S) :=
  let tgt := render (copyRef i r)
  (render { r with long := true }, tgt) ::
    (if r.stage == owner then [(render { r with long := false }, tgt)] else [])

def translation (d : Done) (c : Comp) (i : Nat) : List (S × S) :=
  sortKeys ((c.refs.filter (replicated d)).flatMap (keysOf c.stage i))

/-- a string of copy `i` of `c` after `compile_component_replica` -/
def replicaText (d : Done) (c : Comp) (i : Nat) (s : S) : S :=
  if (translation d c i).isEmpty then s else scan (translation d c i) 0 none s

/-! ### aggregator -/

def isPathChar (c : Char) : Bool :=
  isWord c || c == '.' || c == '*' || c == '+' || c == '~' || c == '@' || c == '-'

/-- number of characters matched by `(?:/[\w.*+~@-]+)*` at the head of the string -/
def pathLen : Nat → S → Nat
  | 0, _ => 0
  | f + 1, '/' :: rest =>
    let seg := rest.takeWhile isPathChar
    if seg.isEmpty then 0 else 1 + seg.length + pathLen f (rest.drop seg.length)
  | _ + 1, _ => 0

/-- the replacement text of one match (`expand` in the repaired `aggregate`) and the number of
characters the match consumed after the key -/
def aggExpand (reps : List S) (after : S) : S × Nat :=
  let pl := pathLen after.length after
  if pl == 0 then (join [' '] reps, 0)
  else
    let path := after.take pl
    let commas := (after.drop pl).takeWhile (· == ',')
    if commas.isEmpty then (join [' '] (reps.map (· ++ path)), pl)
    else (join [','] (reps.map (· ++ path ++ commas.drop 1)), pl + commas.length)

/-- first alternative (in the given order) that matches at the head of `s` -/
def firstMatchAgg (keys : List (S × List S)) (s : S) : Option (S × List S) :=
  keys.find? fun kv => kv.1.isPrefixOf s && followOk (s.drop kv.1.length)

/-- `expression.sub(expand, string)` for `(?<![\w.#/ -])(k1|k2|…)(?!\w)((?:/[\w.*+~@-]+)+,*)?`
(no space in the character class) -/
def aggScan (keys : List (S × List S)) : Nat → Option Char → S → S
  | _, _, [] => []
  | k + 1, _, c :: s => aggScan keys k (some c) s
  | 0, prev, c :: s =>
    match (if leftOk prev then firstMatchAgg keys (c :: s) else none) with
    | some kv =>
      let e := aggExpand kv.2 ((c :: s).drop kv.1.length)
      e.1 ++ aggScan keys (kv.1.length + e.2 - 1) (some c) s
    | none => c :: aggScan keys 0 (some c) s

/-- the spellings `aggregate` looks for, for one replicated reference, with their replacements -/
def aggKeys (owner n : Nat) (r : Ref) : List (S × List S) :=
  let reps := (List.range n).map fun i => render (copyRef i r)
  (render { r with long := true }, reps) ::
    (if r.stage == owner then [(render { r with long := false }, reps)] else [])

def insertKeyAgg (kv : S × List S) : List (S × List S) → List (S × List S)
  | [] => [kv]
  | x :: xs => if x.1.length < kv.1.length then kv :: x :: xs else x :: insertKeyAgg kv xs

/-- a string of the aggregator after `compile_component_aggregate` (repaired: one pass) -/
def aggText (d : Done) (c : Comp) (n : Nat) (s : S) : S :=
  let keys := ((c.refs.filter (replicated d)).flatMap (aggKeys c.stage n)).foldr insertKeyAgg []
  if keys.isEmpty then s else aggScan keys 0 none s

/-- `str.split()` (on ASCII white space, empty fields dropped) -/
def wordsAux : S → S → List S
  | cur, [] => if cur.isEmpty then [] else [cur.reverse]
  | cur, c :: s =>
    if isSpace c then (if cur.isEmpty then wordsAux [] s else cur.reverse :: wordsAux [] s)
    else wordsAux (c :: cur) s

def words (s : S) : List S := wordsAux [] s

/-- a component at the text level: what the replicated FlowIR holds -/
structure TComp where
  stage : Nat
  name : S
  refs : List S
  args : S
  replica : Option Nat
  repl : Option Nat
deriving DecidableEq, Repr

/-- what component `c` (command line `args`) expands to (text level) -/
def pieceText (d : Done) (c : Comp) (args : S) (p : Option Nat) : List TComp :=
  let n := p.getD 0
  if c.agg then
    [{ stage := c.stage, name := c.name, refs := (c.refs.map render).flatMap fun s => words (aggText d c n s),
       args := aggText d c n args, replica := none, repl := c.repl }]
  else if 0 < n then
    (List.range n).map fun i =>
      { stage := c.stage, name := c.name ++ natToDigits i, refs := (c.refs.map render).map (replicaText d c i),
        args := replicaText d c i args, replica := some i, repl := some n }
  else [{ stage := c.stage, name := c.name, refs := c.refs.map render, args := args, replica := none, repl := c.repl }]

def goText : Done → List TComp → List (Comp × S) → Option (List TComp)
  | _, out, [] => some out
  | d, out, (c, a) :: cs =>
    match decide1 (vals d c) with
    | some p => goText ((c, p) :: d) (out ++ pieceText d c a p) cs
    | none => none

/-! ### the unrepaired algorithm (for the witnesses) -/

/-- `translation` of the unrepaired code: both spellings, whatever the stage -/
def keysOfOld (i : Nat) (r : Ref) : List (S × S) :=
  let tgt := render (copyRef i r)
  [(render { r with long := true }, tgt), (render { r with long := false }, tgt)]

/-- unrepaired `translation_func`: `str.replace` of each spelling in turn, longest first -/
def replicaTextOld (d : Done) (c : Comp) (i : Nat) (s : S) : S :=
  (sortKeys ((c.refs.filter (replicated d)).flatMap (keysOfOld i))).foldl
    (fun acc kv => replaceAll kv.1 kv.2 acc) s

end St4sd.Repl
