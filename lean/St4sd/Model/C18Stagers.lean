import St4sd.Model.Confine
/-!
# C18 — two components staging archives at the same time (two threads, one file system, one process)

The runtime stages components from a thread pool, so two `StageReference(… :extract)` calls may interleave at any
point.  What two threads of one process share is the file system and the process-global state — for staging the
*current directory* matters: a relative path is interpreted by the kernel against the cwd of the PROCESS at the
moment of the system call, whichever thread changed it last.

* `Stager` = one extraction as the code performs it: the archive was vetted (`checkFixed`) against the stager's own
  working directory, then `tar.extractall(dest)` extracts member after member into the ABSOLUTE `dest`.  The
  per-stager state is (`dest`, members still to extract, own log, own answer); nothing of it is shared.
  `World` = the shared file system + two stagers; a schedule is a list of `Bool` (`false` = first stager,
  `true` = second stager performs its next member); stagers that are not finished when the schedule ends run to
  completion (`World.finish`).  Granularity = one member (`TarFile._extract_member`), which is where the harness
  switches threads in the real code.
* `CStager`/`CWorld` is NOT what the code does: extraction relative to a process-wide `chdir(dest)`
  (`chdir(dest); extractall(); chdir(previous)`).  The cwd is a field of the shared world; a member is extracted
  against whatever the cwd is when its step runs.  Kept only for `Witness.C18.shared_cwd_*`.
-/
namespace St4sd.Confine

structure Stager where
  dest : Path
  todo : List Member
  log : List Path
  res : Option Err
  deriving Repr

/-- the check phase: done before anything is extracted, reads nothing but the archive -/
def Stager.init (dest : Path) (ms : List Member) : Stager :=
  if checkFixed dest ms then { dest := dest, todo := ms.map (relativize dest), log := [], res := none }
  else { dest := dest, todo := [], log := [], res := some Err.rejected }

/-- the next member of this stager, on the shared file system -/
def Stager.step (fs : Fs) (s : Stager) : Fs × Stager :=
  match s.todo with
  | [] => (fs, s)
  | m :: ms =>
    match extractOne s.dest ⟨fs, s.log⟩ m with
    | (st1, none) => (st1.fs, { s with todo := ms, log := st1.log })
    | (st1, some e) => (st1.fs, { s with todo := [], log := st1.log, res := some e })

/-- all remaining members of this stager -/
def Stager.drain (fs : Fs) (s : Stager) : Fs × Stager :=
  match s.todo with
  | [] => (fs, s)
  | _ :: _ =>
    match extractAll s.dest ⟨fs, s.log⟩ s.todo with
    | (st1, e) => (st1.fs, { s with todo := [], log := st1.log, res := e })

structure World where
  fs : Fs
  a : Stager
  b : Stager
  deriving Repr

def World.step (w : World) (second : Bool) : World :=
  if second then
    match w.b.step w.fs with
    | (fs1, s1) => { w with fs := fs1, b := s1 }
  else
    match w.a.step w.fs with
    | (fs1, s1) => { w with fs := fs1, a := s1 }

def World.finish (w : World) : World :=
  match w.a.drain w.fs with
  | (fs1, a1) =>
    match w.b.drain fs1 with
    | (fs2, b1) => { fs := fs2, a := a1, b := b1 }

/-- two stagings under a schedule -/
def runStagers (fs : Fs) (dA dB : Path) (msA msB : List Member) (sched : List Bool) : World :=
  (sched.foldl World.step { fs := fs, a := Stager.init dA msA, b := Stager.init dB msB }).finish

/-! ## the shared-cwd variant (not the code) -/

inductive COp where
  | chdir
  | member (m : Member)
  | restore
  deriving Repr

structure CStager where
  dest : Path
  prog : List COp
  /-- `previous = os.getcwd()` taken just before `os.chdir(dest)` -/
  prev : Path
  log : List Path
  res : Option Err
  deriving Repr

def CStager.init (dest : Path) (ms : List Member) : CStager :=
  if checkFixed dest ms then
    { dest := dest, prog := COp.chdir :: (ms.map fun m => COp.member (relativize dest m)) ++ [COp.restore],
      prev := [], log := [], res := none }
  else { dest := dest, prog := [], prev := [], log := [], res := some Err.rejected }

structure CWorld where
  fs : Fs
  /-- the current directory of the process: shared by all threads -/
  cwd : Path
  a : CStager
  b : CStager
  deriving Repr

/-- one step of a stager that extracts relative to the process cwd; after a failing member the `finally:` clause
(restore) is all that is left -/
def CStager.step (fs : Fs) (cwd : Path) (s : CStager) : Fs × Path × CStager :=
  match s.prog with
  | [] => (fs, cwd, s)
  | COp.chdir :: r => (fs, s.dest, { s with prog := r, prev := cwd })
  | COp.restore :: r => (fs, s.prev, { s with prog := r })
  | COp.member m :: r =>
    match extractOne cwd ⟨fs, s.log⟩ m with
    | (st1, none) => (st1.fs, cwd, { s with prog := r, log := st1.log })
    | (st1, some e) => (st1.fs, cwd, { s with prog := [COp.restore], log := st1.log, res := some e })

def CWorld.step (w : CWorld) (second : Bool) : CWorld :=
  if second then
    match w.b.step w.fs w.cwd with
    | (fs1, c1, s1) => { w with fs := fs1, cwd := c1, b := s1 }
  else
    match w.a.step w.fs w.cwd with
    | (fs1, c1, s1) => { w with fs := fs1, cwd := c1, a := s1 }

def runCStagers (fs : Fs) (cwd dA dB : Path) (msA msB : List Member) (sched : List Bool) : CWorld :=
  sched.foldl CWorld.step { fs := fs, cwd := cwd, a := CStager.init dA msA, b := CStager.init dB msB }

end St4sd.Confine
