import St4sd.Model.Str
/-!
# Configuration trees (shared by C04, C08; importable by C07/C19/C17)

`Val` is the value domain of a FlowIR document after YAML loading: `None`, booleans, integers,
floats (kept as their Python `repr` text, never computed with), strings, lists and dictionaries
(association lists; the code never relies on key order and neither do the theorems: everything is
stated through `get` / `lookupPath`).

* `override`  = `FlowIR.override_object` (flowir.py 3620-3681) including "None never overrides",
  "a falsy new value is treated as `{}` when the old one is a dictionary" and "a non-dictionary old
  value is replaced wholesale".  The one input class on which the Python raises (`old` a dictionary,
  `new` a *truthy non-dictionary*: `new.keys()` -> `AttributeError`) is flagged by `clash`;
  `override` itself is total (keeps `old` there).
* `update`    = `dict.update` (here `None` DOES override: used for the variable layers).
* `lookupPath`, `get`, `set`, `erase`.

Import-free apart from `Model/Str`.  Definitions are stable: other properties import this file.
-/
namespace St4sd.Tree
open St4sd.Str

inductive Val where
  | null : Val
  | bool (b : Bool) : Val
  | int (n : Int) : Val
  | flt (repr : S) : Val
  | str (s : S) : Val
  | list (xs : List Val) : Val
  | dict (kvs : List (S × Val)) : Val
  deriving Repr, Inhabited

abbrev Fields := List (S × Val)

/-- `d.get(k)` on an association list (first binding) -/
def get : Fields → S → Option Val
  | [], _ => none
  | (k', v) :: r, k => if k' = k then some v else get r k

/-- `del d[k]` (all bindings of `k`) -/
def erase : Fields → S → Fields
  | [], _ => []
  | (k', v) :: r, k => if k' = k then erase r k else (k', v) :: erase r k

/-- `d[k] = v` -/
def set (d : Fields) (k : S) (v : Val) : Fields := erase d k ++ [(k, v)]

/-- `a.update(b)` (key order is not preserved; nothing depends on it) -/
def update (a b : Fields) : Fields := a.filter (fun kv => (get b kv.1).isNone) ++ b

def isDict : Val → Bool
  | .dict _ => true
  | _ => false

/-- Python truthiness, negated: `not v` -/
def falsy : Val → Bool
  | .null => true
  | .bool b => !b
  | .int n => n == 0
  | .flt r => r.all (fun c => c == '0' || c == '.' || c == '-' || c == '+')
  | .str s => s.isEmpty
  | .list xs => xs.isEmpty
  | .dict kvs => kvs.isEmpty

mutual
/-- `FlowIR.override_object(old, new)` -/
def override : Val → Val → Val
  | .dict a, .dict b => .dict (overrideFields a b ++ b.filter (fun kv => (get a kv.1).isNone))
  | .dict a, _ => .dict a
  | old, .null => old
  | _, new => new
/-- the keys of `old`, common ones overridden recursively -/
def overrideFields : Fields → Fields → Fields
  | [], _ => []
  | (k, x) :: rest, b =>
    (k, match get b k with | some y => override x y | none => x) :: overrideFields rest b
end

mutual
/-- the inputs on which `override_object` raises `AttributeError` (`old` dict, `new` truthy non-dict) -/
def clash : Val → Val → Bool
  | .dict a, .dict b => clashFields a b
  | .dict _, new => !falsy new
  | _, _ => false
def clashFields : Fields → Fields → Bool
  | [], _ => false
  | (k, x) :: rest, b =>
    (match get b k with | some y => clash x y | none => false) || clashFields rest b
end

/-- value at a route of keys; `none` when a key is missing or an inner node is not a dictionary -/
def lookupPath : List S → Val → Option Val
  | [], v => some v
  | k :: ks, .dict kvs => match get kvs k with
    | some v => lookupPath ks v
    | none => none
  | _ :: _, _ => none

/-- `str(n)` / `repr(n)` of an integer -/
def intRepr (n : Int) : S :=
  if n < 0 then '-' :: natToDigits n.natAbs else natToDigits n.natAbs

/-- `repr(b)` -/
def boolRepr (b : Bool) : S := if b then "True".toList else "False".toList

end St4sd.Tree
