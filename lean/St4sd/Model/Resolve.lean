import St4sd.Model.Convert
/-!
# `FlowIRConcrete.get_component_variables` / `get_component_configuration` (C04)

Model of flowir.py 5626-5671 and 5883-5977 for the observed call
`get_component_configuration(comp, raw=False, include_default=True, platform=P, is_primitive=prim)`
(`resolveComp` / `resolve`) and for every other combination of the keyword arguments `raw`,
`include_default`, `is_primitive`, `inject_missing_fields` (`Flags`, `resolveCompF` / `resolveF`; e.g.
`instance()` asks `raw=True, include_default=False` with or without the built-in defaults).

The description (`Desc`) is the part of `FlowIRConcrete._flowir` the resolver reads: the platform list,
the blueprints `blueprint[P].global / .stages[i]`, the variables `variables[P].global / .stages[i]` and the
components (the dictionary key `(stage, name)` of `_component_dictionary` plus the component's body).

Not modelled: the interpreter digestion (a non-null `command.interpreter` after layering makes the model
answer `unsupported`), `$import` components, DoWhile documents.
-/
namespace St4sd.Tree
open St4sd.Str

structure PlatVars where
  global : Fields
  stages : List (Nat × Fields)
  deriving Repr, Inhabited

structure Comp where
  stage : Nat
  name : S
  body : Fields
  deriving Repr, Inhabited

structure Desc where
  platforms : List S
  blueprint : List (S × (Val × List (Nat × Val)))
  variables : List (S × PlatVars)
  comps : List Comp
  deriving Repr, Inhabited

def defaultName : S := "default".toList

def lookupS {α : Type} : List (S × α) → S → Option α
  | [], _ => none
  | (k, v) :: r, x => if k = x then some v else lookupS r x

def lookupN {α : Type} : List (Nat × α) → Nat → Option α
  | [], _ => none
  | (k, v) :: r, x => if k = x then some v else lookupN r x

def bpGlobal (d : Desc) (P : S) : Val :=
  match lookupS d.blueprint P with
  | some (g, _) => g
  | none => .dict []

def bpStage (d : Desc) (P : S) (i : Nat) : Val :=
  match lookupS d.blueprint P with
  | some (_, st) => (lookupN st i).getD (.dict [])
  | none => .dict []

def platVars (d : Desc) (P : S) : PlatVars := (lookupS d.variables P).getD ⟨[], []⟩
def globalVars (d : Desc) (P : S) : Fields := (platVars d P).global
def stageVars (d : Desc) (P : S) (i : Nat) : Fields := (lookupN (platVars d P).stages i).getD []

def dictOr (v : Option Val) : Fields :=
  match v with
  | some (.dict kvs) => kvs
  | _ => []

def compVars (c : Comp) : Fields := dictOr (get c.body "variables".toList)

/-- `component.get('override', {}).get(P)` -/
def ovrOf (c : Comp) (P : S) : Option Val := get (dictOr (get c.body "override".toList)) P

def ovrVars (c : Comp) (P : S) : Fields := dictOr (get (dictOr (ovrOf c P)) "variables".toList)

/-- `get_component_variables`: `dict.update` in the order default-global, default-stage,
platform-global, platform-stage (both skipped for the default platform), component, component
override for the platform -/
def varsOf (d : Desc) (P : S) (c : Comp) : Fields :=
  let v0 := update (globalVars d defaultName) (stageVars d defaultName c.stage)
  let v1 := if P = defaultName then v0
            else update (update v0 (globalVars d P)) (stageVars d P c.stage)
  update (update v1 (compVars c)) (ovrVars c P)

/-- the blueprint inheritance sequence, lowest priority first -/
def layers (d : Desc) (P : S) (c : Comp) : List Val :=
  [St4sd.Gen.C04.defaultComponent,
   bpGlobal d defaultName, bpStage d defaultName c.stage,
   bpGlobal d P, bpStage d P c.stage,
   .dict c.body] ++
  (match ovrOf c P with
   | some o => if falsy o then [] else [o]
   | none => [])

/-- fold `override_object` over the sequence; `typeClash` where the Python raises `AttributeError` -/
def layerAll : Val → List Val → Except Err Val
  | acc, [] => .ok acc
  | acc, l :: r => if clash acc l then .error .typeClash else layerAll (override acc l) r

/-- `ret[k1][k2]… = v` along existing dictionaries (creates the last key only) -/
def setPath : List S → Val → Val → Option Val
  | [], _, v => some v
  | [k], .dict kvs, v => some (.dict (set kvs k v))
  | k :: ks, .dict kvs, v =>
    match get kvs k with
    | some sub => match setPath ks sub v with
      | some sub' => some (.dict (set kvs k sub'))
      | none => none
    | none => none
  | _ :: _, _, _ => none

/-- `x in [None, 0]` -/
def noneOrZero : Val → Bool
  | .null => true
  | .int n => n == 0
  | .bool b => !b
  | .flt r => falsy (.flt r)
  | _ => false

def waName : S := "workflowAttributes".toList

/-- second `inject_default_values_to_component(ret, True)`: defaults below `ret` once more (a no-op on
trees that were layered on top of the defaults) and `isRepeat` recomputed from `repeatInterval` -/
def injectDefaults (ret : Val) : Except Err Val :=
  let dflt := St4sd.Gen.C04.defaultComponent
  if clash dflt ret then .error .typeClash else
  let r := override dflt ret
  match lookupPath [waName, "repeatInterval".toList] r with
  | some ri =>
    match setPath [waName, "isRepeat".toList] r (.bool (!noneOrZero ri)) with
    | some r' => .ok r'
    | none => .ok r
  | none => .ok r

def interpreterSet (ret : Val) : Bool :=
  match lookupPath ["command".toList, "interpreter".toList] ret with
  | some .null => false
  | none => false
  | some _ => true

/-- the keyword arguments of `get_component_configuration` that select what is computed:
`raw`, `include_default`, `is_primitive`, `inject_missing_fields` -/
structure Flags where
  raw : Bool
  incl : Bool
  prim : Bool
  inject : Bool
  deriving Repr, Inhabited, DecidableEq

/-- the observed call of the property: `raw=False, include_default=True, inject_missing_fields=True` -/
def Flags.std (prim : Bool) : Flags := ⟨false, true, prim, true⟩

/-- `need_fully_resolved_flowir` (the only variant that goes through the cache) -/
def Flags.full (f : Flags) : Bool := !f.raw && f.inject && f.incl && !f.prim

/-- `get_component_variables(..., include_default_* = include_platform_* = incl)`: without the default /
platform scopes only the component's own variables and its override for the platform remain -/
def varsOfF (d : Desc) (P : S) (c : Comp) (incl : Bool) : Fields :=
  if incl then varsOf d P c else update (compVars c) (ovrVars c P)

/-- the inheritance sequence; `inject_missing_fields=False` drops the built-in defaults -/
def layersF (d : Desc) (P : S) (c : Comp) (inject : Bool) : List Val :=
  if inject then layers d P c else (layers d P c).drop 1

/-- everything after the component has been found, for every combination of the keyword arguments:
layer, (`inject`: interpreter digestion, not modelled) insert the variables, and unless `raw`:
(`full` only) defaults once more + `isRepeat`, interpolate with the selected variables, convert types -/
def resolveCompF (d : Desc) (P : S) (c : Comp) (f : Flags) (fuel : Nat) : Except Err Val :=
  if !d.platforms.contains P then .error .platformUnknown else
  let vars := varsOfF d P c f.incl
  match layerAll (.dict []) (layersF d P c f.inject) with
  | .error e => .error e
  | .ok ret =>
    if interpreterSet ret then .error .unsupported else
    match ret with
    | .dict kvs =>
      let ret1 := Val.dict (set kvs "variables".toList (.dict vars))
      if f.raw then .ok ret1 else
      match (if f.full then injectDefaults ret1 else .ok ret1) with
      | .error e => .error e
      | .ok ret2 =>
        match fillIn fuel vars f.prim ret2 with
        | .error e => .error e
        | .ok ret3 => convert f.prim St4sd.Gen.C04.typeTable ret3
    | _ => .error .inconsistent

/-- the observed call (`raw=False, include_default=True, inject_missing_fields=True`) -/
def resolveComp (d : Desc) (P : S) (c : Comp) (prim : Bool) (fuel : Nat) : Except Err Val :=
  resolveCompF d P c (Flags.std prim) fuel

def findComp : List Comp → Nat → S → Option Comp
  | [], _, _ => none
  | c :: r, i, n => if c.stage = i ∧ c.name = n then some c else findComp r i n

/-- `FlowIRConcrete.get_component_configuration((i, n), raw=False, include_default=True, platform=P,
is_primitive=prim)` without the cache -/
def resolve (d : Desc) (P : S) (i : Nat) (n : S) (prim : Bool) (fuel : Nat) : Except Err Val :=
  match findComp d.comps i n with
  | none => .error .componentUnknown
  | some c => resolveComp d P c prim fuel

/-- `get_component_configuration((i, n), raw, include_default, platform=P, is_primitive,
inject_missing_fields)` without the cache, for every combination of the keyword arguments -/
def resolveF (d : Desc) (P : S) (i : Nat) (n : S) (f : Flags) (fuel : Nat) : Except Err Val :=
  match findComp d.comps i n with
  | none => .error .componentUnknown
  | some c => resolveCompF d P c f fuel

/-! ### user variables (conf.py 951-971, `_patch_in_variable_files`) -/

structure UserVars where
  global : Fields
  stages : List (Nat × Fields)
  deriving Repr, Inhabited

def userFor (uv : UserVars) (i : Nat) : Fields := update uv.global ((lookupN uv.stages i).getD [])

def setN {α : Type} : List (Nat × α) → Nat → α → List (Nat × α)
  | [], i, v => [(i, v)]
  | (k, w) :: r, i, v => if k = i then (i, v) :: r else (k, w) :: setN r i v

/-- stages `0 .. n-1` of one platform receive the user variables on top of their own -/
def patchStages (uv : UserVars) (st : List (Nat × Fields)) : Nat → List (Nat × Fields)
  | 0 => st
  | n + 1 =>
    let st' := patchStages uv st n
    setN st' n (update ((lookupN st' n).getD []) (userFor uv n))

/-- user variables enter as platform-stage variables of every platform, for every stage -/
def patchUser (d : Desc) (uv : UserVars) (nStages : Nat) : Desc :=
  { d with variables := d.platforms.map (fun P =>
      (P, { global := (platVars d P).global, stages := patchStages uv (platVars d P).stages nStages })) }

/-! ### several variable files (conf.py `layer_many_variable_files`)

`agg = {}; for path in variable_files: FlowIR.override_object(agg, read_user_variables(path))`: the
files are layered from the first to the last with the recursive `override_object`, i.e. scope by scope
(`global`, `stages[i]` for every `i`) and inside a scope name by name. -/

/-- `override_object` on two `name: value` collections (the dictionary-on-dictionary branch of `override`) -/
def mergeVars (a b : Fields) : Fields :=
  overrideFields a b ++ b.filter (fun kv => (get a kv.1).isNone)

/-- a stage section that both dictionaries hold is merged, one that only the old one holds is kept -/
def mergeOpt (f : Fields) : Option Fields → Fields
  | some g => mergeVars f g
  | none => f

/-- `override_object` on two `stage index: {name: value}` dictionaries -/
def mergeStages (a b : List (Nat × Fields)) : List (Nat × Fields) :=
  a.map (fun e => (e.1, mergeOpt e.2 (lookupN b e.1))) ++ b.filter (fun e => (lookupN a e.1).isNone)

def mergeUser (a b : UserVars) : UserVars := ⟨mergeVars a.global b.global, mergeStages a.stages b.stages⟩

/-- `FlowIRExperimentConfiguration.layer_many_variable_files(variable_files)` -/
def layerUserFiles (fs : List UserVars) : UserVars := fs.foldl mergeUser ⟨[], []⟩

end St4sd.Tree
