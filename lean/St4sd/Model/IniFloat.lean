import St4sd.Model.Str
import St4sd.Model.Ini
import St4sd.Model.IniNames
/-!
# C19 — numbers inside the legacy sectioned-file (DOSINI) syntax: the status section

`Dosini._dump_status` writes every value of a `STAGE<i>` section of `status.conf` as text:

    if isinstance(value, list):                 value = ' '.join(value)
    elif isinstance(value, (float, int, bool)): value = str(value)
    cfg.set('STAGE%d' % stage_index, key, str(value))

and `Dosini.parse_status` reads `stage-weight` back with `float(text)`, `executable` / `arguments` as they
are and `references` with `text.split()` (the last two only next to a non-empty `executable`).

A float is modelled as its *literal*: the decimal text that `str(x)` (= `repr(x)`) produces for a finite
Python float (`0.005`, `1.0`, `0.30000000000000004`, `1e-05`, `1.5e+300`, `-0.0`) or int (`3`), cut into its
sign, the digits before the point, the digits after the point (if there is a point) and the exponent (if
there is one).  `printWeight` is `str(value)` on that literal, `parseWeight` is the decimal-literal grammar
of `float(text)`:  `[+-] (digits [. digits*] | . digits+) [(e|E) [+-] digits]`  (no `inf`/`nan`, no
surrounding white space, no `_`).  CPython's `float(repr(x)) == x` is the trusted step from "the same
literal" to "the same float".

`fixed2` / `fixed2Round` are printers with a fixed precision of two fraction digits (what `'%.2f' % x`
looks like on a decimal literal); they are used by the witnesses only.
-/
namespace St4sd.IniFloat
open St4sd.Str
open St4sd.Ini (digitsOk)

/-- a decimal literal -/
structure Lit where
  /-- a leading `-` -/
  neg : Bool
  /-- digits before the point -/
  int : S
  /-- digits after the point; `none`: the literal has no point -/
  frac : Option S
  /-- exponent: (`true` = `-`, `false` = `+`), digits; `none`: no exponent -/
  exp : Option (Bool × S)
  deriving DecidableEq, Repr

def fracText : Option S → S
  | none => []
  | some f => '.' :: f

def expText : Option (Bool × S) → S
  | none => []
  | some (true, d) => 'e' :: '-' :: d
  | some (false, d) => 'e' :: '+' :: d

def unsignedText (w : Lit) : S := w.int ++ (fracText w.frac ++ expText w.exp)

/-- `str(value)` of the float / int whose literal is `w` -/
def printWeight (w : Lit) : S := if w.neg then '-' :: unsignedText w else unsignedText w

/-- what follows mantissa: nothing, or `e`/`E`, an optional sign and at least one digit -/
def parseExp : S → Option (Option (Bool × S))
  | [] => some none
  | c :: r =>
    if c == 'e' || c == 'E' then
      match r with
      | '-' :: d => if digitsOk d then some (some (true, d)) else none
      | '+' :: d => if digitsOk d then some (some (false, d)) else none
      | d => if digitsOk d then some (some (false, d)) else none
    else none

def parseUnsigned (neg : Bool) (s : S) : Option Lit :=
  let i := s.takeWhile isDigit
  match s.dropWhile isDigit with
  | '.' :: t =>
    let f := t.takeWhile isDigit
    if i.isEmpty && f.isEmpty then none
    else (parseExp (t.dropWhile isDigit)).map fun e => ⟨neg, i, some f, e⟩
  | r => if i.isEmpty then none else (parseExp r).map fun e => ⟨neg, i, none, e⟩

/-- `float(text)` on decimal literals; `none` = `ValueError` -/
def parseWeight : S → Option Lit
  | '-' :: r => parseUnsigned true r
  | '+' :: r => parseUnsigned false r
  | r => parseUnsigned false r

/-! ## the literals that `str()` produces -/

def noLeadingZero (d : S) : Bool :=
  match d with
  | ['0'] => true
  | c :: _ => c != '0'
  | [] => false

def noTrailingZero (d : S) : Bool :=
  match d.reverse with
  | ['0'] => true
  | c :: _ => c != '0'
  | [] => false

/-- well-formed: the parts are digit strings and the ones that must not be empty are not -/
def wf (w : Lit) : Bool :=
  digitsOk w.int &&
  (match w.frac with
   | none => true
   | some f => f.all isDigit) &&
  (match w.exp with
   | none => true
   | some (_, d) => digitsOk d)

/-- canonical: the shape of `repr(x)` for a finite float (`d+.d+` without superfluous zeros, or
`d[.d+]e±dd+`) or of `str(n)` for an int -/
def canonical (w : Lit) : Bool :=
  digitsOk w.int && noLeadingZero w.int &&
  (match w.frac with
   | none => true
   | some f => digitsOk f && noTrailingZero f) &&
  (match w.exp with
   | none => true
   | some (_, d) => digitsOk d && 2 ≤ d.length && (d.length == 2 || noLeadingZero d) &&
       w.int.length == 1 && w.int != ['0'] && w.frac != some ['0'])

/-! ## fixed-precision printers (witnesses only) -/

/-- two fraction digits, the others cut off (`0.005 -> 0.00`, `0.125 -> 0.12`, `0.5 -> 0.50`); meant for literals
without exponent -/
def fixed2 (w : Lit) : Lit :=
  { w with frac := some (((w.frac.getD []) ++ ['0', '0']).take 2) }

def printFixed2 (w : Lit) : S := printWeight (fixed2 w)

def padLeft3 (d : S) : S := List.replicate (3 - d.length) '0' ++ d

/-- two fraction digits, rounded half-up at the third (`0.005 -> 0.01`, `0.125 -> 0.13`, `0.995 -> 1.00`);
literals without exponent -/
def fixed2Round (w : Lit) : Lit :=
  let f := (w.frac.getD []) ++ ['0', '0', '0']
  let n := (digitsToNat? (w.int ++ f.take 2)).getD 0
  let up := match f.drop 2 with
    | c :: _ => decide ('5' ≤ c)
    | [] => false
  let ds := padLeft3 (natToDigits (if up then n + 1 else n))
  { w with int := ds.take (ds.length - 2), frac := some (ds.drop (ds.length - 2)) }

def printFixed2Round (w : Lit) : S := printWeight (fixed2Round w)

/-! ## one `STAGE<i>` section of `status.conf` -/

structure Exe where
  executable : S
  arguments : S
  references : List S
  deriving DecidableEq, Repr

structure Stage where
  index : Nat
  /-- `stage-weight`, if the section has one -/
  weight : Option Lit
  /-- `executable` / `arguments` / `references` of the status script, if there is one -/
  exe : Option Exe
  deriving DecidableEq, Repr

def kWeight : S := ['s', 't', 'a', 'g', 'e', '-', 'w', 'e', 'i', 'g', 'h', 't']
def kExecutable : S := ['e', 'x', 'e', 'c', 'u', 't', 'a', 'b', 'l', 'e']
def kArguments : S := ['a', 'r', 'g', 'u', 'm', 'e', 'n', 't', 's']
def kReferences : S := ['r', 'e', 'f', 'e', 'r', 'e', 'n', 'c', 'e', 's']

def weightLines : Option Lit → List (S × S)
  | none => []
  | some w => [(kWeight, printWeight w)]

def exeLines : Option Exe → List (S × S)
  | none => []
  | some e => [(kExecutable, e.executable), (kArguments, e.arguments), (kReferences, join [' '] e.references)]

/-- `_dump_status` for one stage: section name and its `key = text` lines -/
def dumpStage (st : Stage) : S × List (S × S) :=
  (St4sd.IniNames.stageSection st.index, weightLines st.weight ++ exeLines st.exe)

def dumpStatus (l : List Stage) : List (S × List (S × S)) := l.map dumpStage

def get (k : S) : List (S × S) → Option S
  | [] => none
  | (k', t) :: r => if k' = k then some t else get k r

/-- `float(stage_weight)` if the key is there; outer `none` = `ExperimentInvalidConfigurationError` -/
def readWeight : Option S → Option (Option Lit)
  | none => some none
  | some t => (parseWeight t).map some

/-- `if executable: {…, arguments or '', (references or '').split()}` -/
def readExe (kv : List (S × S)) : Option Exe :=
  match get kExecutable kv with
  | none => none
  | some e =>
    if e.isEmpty then none
    else some ⟨e, (get kArguments kv).getD [], St4sd.Ini.splitWords ((get kReferences kv).getD [])⟩

/-- `parse_status` for one section; `none` = an exception -/
def parseStage (sec : S × List (S × S)) : Option Stage :=
  match St4sd.IniNames.stageIndex sec.1, readWeight (get kWeight sec.2) with
  | some i, some w => some ⟨i, w, readExe sec.2⟩
  | _, _ => none

def parseStatus : List (S × List (S × S)) → Option (List Stage)
  | [] => some []
  | sec :: r =>
    match parseStage sec, parseStatus r with
    | some st, some t => some (st :: t)
    | _, _ => none

/-- the stage sections the harness may send: canonical weight, a status script has a non-empty
executable and references that are words -/
def stageOk (st : Stage) : Bool :=
  (match st.weight with
   | none => true
   | some w => canonical w) &&
  (match st.exe with
   | none => true
   | some e => !e.executable.isEmpty && e.references.all St4sd.Ini.wordOk)

end St4sd.IniFloat
