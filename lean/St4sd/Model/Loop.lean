import St4sd.Model.Str
/-!
# DoWhile unrolling (property C05) — executable model, import-free

Modelled code (st4sd-runtime-core):

* `flowir.py` 131-425: `rewrite_reference`, `rewrite_all_references`, `rewrite_components`,
  `rewrite_loopbindings_for_stage_offset`, `instantiate_dowhile`, `expand_bindings` (459-468);
* `graph.py` 2804-2843 `compute_dowhile_state`, 2845-2857 `_get_all_looped_ids`,
  2873-2951 `_discover_dowhile_placeholders`, 2988-3103 `instantiate_dowhile_next_iteration`,
  3132-3232 `_createCompleteGraph` (edges only), 805-923 `DataReference.resolve` (choice of the
  producer for `:ref`-like methods of a placeholder, order of the instances for `:loopref/:loopoutput`).

This file models ONE DoWhile document; `Model/LoopMulti.lean` models a workflow with several documents (shared discovery
of placeholders, per-document iteration counters, the Controller's readers) and is what the driver runs; for one
document the two coincide (`St4sd.C05.runM_single`).

References are modelled *parsed* (`Ref`): the text-level parse/compile of reference strings
(`ParseDataReferenceFull`, `compile_reference`, the regular expression substitution inside argument
strings) is not part of this model; the harness parses the real strings into `Ref`s.

Three defects of the code as it is are repaired in this model (the unrepaired algorithms are kept as `…Old` /
`num = false` for `Witness/C05.lean`): string sort keys, sequential first-occurrence substitution in argument strings
(`rewriteArgsOld`), condition instances matched by name only (`condInstancesOld`).

Sort keys.  `compute_dowhile_state` sorts on `int(iteration)`.  `_discover_dowhile_placeholders`
(`latest`) and `looped_reference_to_paths` sort on the iteration *string* in the code as it is; the
model takes a flag `num`: `num = true` is the repaired behaviour (`int(...)` keys, the proposed fix
`fixes/C05-numeric-iteration-order.diff`), `num = false` is the code as it is (`…Old` definitions, used by
`Witness/C05.lean` only).
-/
namespace St4sd.Loop
open St4sd.Str

/-- a parsed data reference `[stage<stage>.]<producer>[/<file>]:<method>`; `direct` marks references to
files/folders (producer is a special folder, an application dependency, or contains `/`), for which
`ParseDataReferenceFull` returns no stage index: they are never rewritten. -/
structure Ref where
  direct : Bool
  stage : Option Nat
  producer : S
  file : S
  method : S
deriving DecidableEq, Repr, Inhabited

/-- component identifier `(stage index, name)` -/
abbrev CId := Nat × S

/-- a component: `refs` is its `references` list, `args` the reference occurrences of its command line
(`command.arguments`) in textual order — the literal text between them is never touched and not modelled -/
structure Comp where
  stage : Nat
  name : S
  refs : List Ref
  args : List Ref := []
deriving DecidableEq, Repr, Inhabited

def Comp.id (c : Comp) : CId := (c.stage, c.name)

/-- The DoWhile document as stored in `WorkflowGraph._documents['DoWhile'][id]['document']`:
template components (template-relative stages), the bindings given by the importing component, the
loopBindings (template-relative), the condition (`cond_stage or 0`, name, file) and the stage of the
importing component. -/
structure Doc where
  comps : List Comp
  bindings : List (S × Ref)
  loopBindings : List (S × Ref)
  condStage : Nat
  condName : S
  condFile : S
  importStage : Nat
deriving Repr, Inhabited

def isAggregate (m : S) : Bool := m == "loopref".toList || m == "loopoutput".toList

/-- `'%d#%s' % (i, name)` -/
def instName (i : Nat) (n : S) : S := natToDigits i ++ '#' :: n

/-- `name.split('#', 1)[0]` -/
def iterStr (n : S) : S :=
  match splitFirst '#' n with
  | some (d, _) => d
  | none => n

/-- `name.split('#', 1)[1]` (IndexError when there is no `#`: never evaluated for such names, the model
returns the empty string) -/
def baseName (n : S) : S :=
  match splitFirst '#' n with
  | some (_, b) => b
  | none => []

/-- `int(name.split('#', 1)[0])`; Python raises for a non-number, the model returns 0 (never reached when
only names produced by `instName` contain `#`) -/
def iterNum (n : S) : Nat := (digitsToNat? (iterStr n)).getD 0

/-- `'#' in name` (`_get_all_looped_ids`) -/
def isLooped (n : S) : Bool := n.contains '#'

/-- strict order of the sort key on the iteration of an instance name: numeric (`int`) or the string
order of Python (`num = false`: the code as it is) -/
def iterLt (num : Bool) (a b : CId) : Bool :=
  if num then iterNum a.2 < iterNum b.2 else lexLt (iterStr a.2) (iterStr b.2)

/-- `sorted(l, key=…, reverse=True)[0]`: Python's sort is stable also with `reverse=True`, so this is the
first element (in list order) among those with a maximal key; `none` for the empty list (IndexError). -/
def firstMaxBy {α : Type} (lt : α → α → Bool) : List α → Option α
  | [] => none
  | a :: l =>
    match firstMaxBy lt l with
    | none => some a
    | some b => if lt a b then some b else some a

def insertBy {α : Type} (lt : α → α → Bool) (a : α) : List α → List α
  | [] => [a]
  | b :: l => if lt b a then b :: insertBy lt a l else a :: b :: l

/-- `sorted(l, key=…)` (stable): insertion sort from the right -/
def sortBy {α : Type} (lt : α → α → Bool) : List α → List α
  | [] => []
  | a :: l => insertBy lt a (sortBy lt l)

def lookup (k : S) : List (S × Ref) → Option Ref
  | [] => none
  | (k', r) :: l => if k' == k then some r else lookup k l

/-- ids of the placeholders = template ids projected to the import stage (`inloop_ids`) -/
def loopIds (d : Doc) : List CId := d.comps.map fun c => (c.stage + d.importStage, c.name)

/-- a binding value made absolute in the import stage -/
def expandRef (imp : Nat) (r : Ref) : Ref := { r with stage := some (r.stage.getD imp) }

/-- `expand_bindings(bindings, stage)`: binding values made absolute in the import stage -/
def expandBindings (d : Doc) : List (S × Ref) :=
  d.bindings.map fun kv => (kv.1, expandRef d.importStage kv.2)

/-- a loopBinding value offset by the import stage and projected to iteration `i-1` -/
def projectRef (imp i : Nat) (r : Ref) : Ref :=
  { r with stage := some (r.stage.getD 0 + imp),
           producer := if isAggregate r.method then r.producer else instName (i - 1) r.producer }

/-- loopBindings offset by the import stage (`rewrite_loopbindings_for_stage_offset`, always computed from
the template, never stored back) and projected to iteration `i-1` (`instantiate_dowhile` 373-382) -/
def projectedLoopBindings (d : Doc) (i : Nat) : List (S × Ref) :=
  d.loopBindings.map fun kv => (kv.1, projectRef d.importStage i kv.2)

/-- the bindings in effect when iteration `i` is instantiated (`instantiate_dowhile` 364-384) -/
def effBindings (d : Doc) (i : Nat) : List (S × Ref) :=
  if i == 0 || d.loopBindings.isEmpty then expandBindings d
  else projectedLoopBindings d i ++
       (expandBindings d).filter (fun kv => !(d.loopBindings.any (fun lb => lb.1 == kv.1)))

/-- `rewrite_reference` followed by the renaming step of `rewrite_all_references` for one reference `r` of a
template component of stage `owner`, when iteration `i` is generated and `known` are the component ids of
the workflow so far.  (A binding whose method differs from the method of the use site, or which modifies
a file name, makes Python raise ValueError: not modelled, excluded by the generator.) -/
def rewriteRef (d : Doc) (known : List CId) (i : Nat) (owner : Nat) (r : Ref) : Ref :=
  if r.direct then r else
  let r1 : Ref :=
    match lookup r.producer (effBindings d i) with
    | some b => { direct := false, stage := b.stage, producer := b.producer,
                  file := if r.file.isEmpty then b.file else r.file, method := b.method }
    | none => { r with stage := some (r.stage.getD owner + d.importStage) }
  let tgt : CId := (r1.stage.getD d.importStage, r1.producer)
  if !(known.contains tgt || (loopIds d).contains tgt) then r     -- "Skip rewriting … unknown component"
  else if (loopIds d).contains tgt && !isAggregate r1.method then { r1 with producer := instName i r1.producer }
  else r1

/-- `rewrite_components`: the components of iteration `i` -/
def instantiate (d : Doc) (known : List CId) (i : Nat) : List Comp :=
  d.comps.map fun c =>
    { stage := c.stage + d.importStage, name := instName i c.name,
      refs := c.refs.map (rewriteRef d known i c.stage),
      args := c.args.map (rewriteRef d known i c.stage) }

/-- substitute the first occurrence only (`re.sub(pattern, rewrite, value, 1)`) -/
def replaceFirst (r r' : Ref) : List Ref → List Ref
  | [] => []
  | t :: ts => if t == r then r' :: ts else t :: replaceFirst r r' ts

/-- distinct elements in order of first occurrence (the keys of `out_map`) -/
def distinct : List Ref → List Ref
  | [] => []
  | r :: rs => r :: (distinct rs).filter (fun t => t != r)

/-- The argument rewriting of the code as it is (flowir.py 178-204: one `re.sub(…, count=1)` per *distinct*
reference, applied one after the other to the whole string), abstracted to reference occurrences: only the first
occurrence of every distinct reference is rewritten.  (The second defect of the sequential substitution — a later,
relative spelling matching inside an already substituted reference — needs the text and is replayed by the
harness only.)  The repaired code (`fixes/C05-rewrite-references-single-pass.diff`) rewrites every occurrence in one
pass: `instantiate` above.  Used by `Witness/C05.lean` only. -/
def rewriteArgsOld (d : Doc) (known : List CId) (i : Nat) (owner : Nat) (args : List Ref) : List Ref :=
  (distinct args).foldl (fun acc r => replaceFirst r (rewriteRef d known i owner r) acc) args

def ids (cs : List Comp) : List CId := cs.map Comp.id

/-- `_get_all_looped_ids` -/
def loopedIds (cs : List Comp) : List CId := (ids cs).filter fun x => isLooped x.2

/-- instances of the condition component (`compute_dowhile_state`), matched on the stage and the name — the repaired
behaviour (`fixes/C05-condition-matched-by-stage.diff`) -/
def condInstances (d : Doc) (cs : List Comp) : List CId :=
  (loopedIds cs).filter fun x => x.1 == d.condStage + d.importStage && baseName x.2 == d.condName

/-- the code as it is matches on the name only (looped components of different stages may share a name; which of
them comes first is then the iteration order of a Python set).  Used by `Witness/C05.lean` only. -/
def condInstancesOld (d : Doc) (cs : List Comp) : List CId :=
  (loopedIds cs).filter fun x => baseName x.2 == d.condName

def latestCondOld (d : Doc) (cs : List Comp) : Option CId := firstMaxBy (iterLt true) (condInstancesOld d cs)

/-- `latest` of `compute_dowhile_state` (always sorted with `int`) -/
def latestCond (d : Doc) (cs : List Comp) : Option CId := firstMaxBy (iterLt true) (condInstances d cs)

/-- `state['currentIteration']` -/
def curIter (d : Doc) (cs : List Comp) : Nat :=
  match latestCond d cs with
  | some x => iterNum x.2
  | none => 0

structure Placeholder where
  id : CId
  represents : List CId
  latest : Option CId
deriving Repr

/-- instances matched by placeholder `p` (`looped_id_match_placeholder_id`) -/
def matched (cs : List Comp) (p : CId) : List CId :=
  (loopedIds cs).filter fun x => x.1 == p.1 && baseName x.2 == p.2

/-- `_discover_dowhile_placeholders` (no replication; every placeholder still running) -/
def placeholders (num : Bool) (d : Doc) (cs : List Comp) : List Placeholder :=
  (loopIds d).map fun p => { id := p, represents := matched cs p, latest := firstMaxBy (iterLt num) (matched cs p) }

def findPlaceholder (num : Bool) (d : Doc) (cs : List Comp) (p : CId) : Option Placeholder :=
  (placeholders num d cs).find? fun q => q.id == p

/-- producer used by `DataReference.resolve` for a non-aggregating method: `latest` of the placeholder, the
component itself otherwise (graph.py 917-923) -/
def resolveProducer (num : Bool) (d : Doc) (cs : List Comp) (p : CId) : Option CId :=
  match findPlaceholder num d cs p with
  | some q => q.latest
  | none => some p

/-- `map_placeholder_id_to_iteration(comp_id, …, known ids)` (flowir.py 4713-4739, matched on the name only) -/
def mapPlaceholderLatest (num : Bool) (cs : List Comp) (p : CId) : Option CId :=
  firstMaxBy (iterLt num) ((loopedIds cs).filter fun x => baseName x.2 == p.2)

/-- order in which `:loopref` / `:loopoutput` list the instances (`looped_reference_to_paths`) -/
def loopRefOrder (num : Bool) (d : Doc) (cs : List Comp) (p : CId) : List CId :=
  match findPlaceholder num d cs p with
  | some q => sortBy (iterLt num) q.represents
  | none => []

/-- edges of `_createCompleteGraph` -/
def edgesOf (d : Doc) (cs : List Comp) : List (CId × CId) :=
  cs.flatMap fun c =>
    (c.refs.filter fun r => !r.direct).flatMap fun r =>
      let pid : CId := (r.stage.getD c.stage, r.producer)
      let preds : List CId :=
        match findPlaceholder true d cs pid with
        | some q =>
          match latestCond d cs with
          | some cond => if cond != c.id then q.represents ++ [cond] else q.represents
          | none => []
        | none => [pid]
      (preds.filter fun p => (ids cs).contains p).map fun p => (p, c.id)

/-- the workflow: the components of the concrete FlowIR and the edges accumulated in `WorkflowGraph.graph`
(`instantiate_dowhile_next_iteration` only ever adds edges) -/
structure Wf where
  comps : List Comp
  edges : List (CId × CId)
deriving Repr

/-- the package as loaded: the components outside the loop and iteration 0 -/
def init (d : Doc) (out : List Comp) : Wf :=
  let cs := out ++ instantiate d (ids out) 0
  { comps := cs, edges := edgesOf d cs }

/-- `Controller._instantiate_next_dowhile_iteration` + `WorkflowGraph.instantiate_dowhile_next_iteration`:
next iteration number = `currentIteration + 1`, foreign components = all component ids known so far. -/
def step (d : Doc) (w : Wf) : Wf :=
  let cs := w.comps ++ instantiate d (ids w.comps) (curIter d w.comps + 1)
  { comps := cs, edges := w.edges ++ edgesOf d cs }

/-- the workflow after `k` further iterations -/
def run (d : Doc) (out : List Comp) : Nat → Wf
  | 0 => init d out
  | k + 1 => step d (run d out k)

/-- `state['currentCondition']` as (component id, file) -/
def currentCondition (d : Doc) (cs : List Comp) : Option (CId × S) :=
  (latestCond d cs).map fun x => (x, d.condFile)

end St4sd.Loop
