import St4sd.Model.Hash
import St4sd.Model.HashFs
/-!
# Where the executable of the memoization hash comes from (C16)

An experiment holds every component twice:

* `configuration._unreplicated` — the components **as the author wrote them** (`Conf.unrep`, the `Blueprints`
  table of `Model/Hash.lean`); nothing rewrites it;
* the live (replicated, concrete) configuration (`Conf.live`) — what `commandDetails['executable']` answers.
  `ComponentSpecification.checkExecutable(updateSpecification=True)` — run on every node by
  `Experiment.validateExperiment(checkExecutables=True)`, i.e. by `elaunch` before anything executes — looks the
  executable up (`which` in the PATH of the component environment, which may name directories *inside the
  instance*: `$INSTANCE_DIR/bin`), resolves links (`/bin/ls` → `/usr/bin/ls`), checks that the result can be
  executed and writes it **into the live configuration** (`setOption('#command.executable', …)`) when it
  differs from what the `Command` object started with.  Errors are ignored (`ignoreTestExecutablesError`).

`_compute_memoization_info` reads the executable from the first (`hashesC` = `hashesD` on `Conf.unrep`);
`Source.liveConfiguration` / `hashOneFrom` is the variant that reads the live configuration for a component
that is its own blueprint (not the code: kept for `Witness.C16`).
-/
namespace St4sd.Hash
open St4sd.Str

/-- live configuration: `(stage, node name) ↦ executable` (replicas are nodes of their own) -/
abbrev Live := List ((Nat × S) × S)

structure Conf where
  /-- `configuration._unreplicated`: `(stage, component name) ↦ executable` as written by the author -/
  unrep : Blueprints
  /-- the live configuration -/
  live : Live
deriving DecidableEq, Repr

/-- what the operating system answers to the questions `checkExecutable` asks about ONE node: at the location
of the instance, in the environment of the component -/
structure Probe where
  /-- `which <executable>` with the PATH of the component environment (asked for pathless executables) -/
  which : Option S
  /-- `os.path.realpath` as a table (identity elsewhere) -/
  real : List (S × S)
  /-- the paths that exist and can be executed -/
  ok : List S
deriving DecidableEq, Repr

/-- `os.path.split(e)[0] == ""` -/
def pathless (e : S) : Bool := !e.contains '/'

def isAbs (e : S) : Bool := e.head? == some '/'

def Probe.realpath (p : Probe) (x : S) : S :=
  match p.real.find? (fun e => e.1 == x) with
  | some e => e.2
  | none => x

/-- the executable the `Command` object starts with (`preCheck`): a relative path is joined to the instance
location `base` -/
def preCheck (base e : S) : S := if pathless e || isAbs e then e else base ++ '/' :: e

/-- what is written once the look-up has answered `found` (`none`: not found, the error is ignored): the real path,
if it can be executed and differs from what the `Command` object started with -/
def checkFound (pre : S) (p : Probe) (e : S) : Option S → S
  | none => e
  | some f => if p.ok.contains (p.realpath f) && p.realpath f != pre then p.realpath f else e

/-- `checkExecutable(updateSpecification=True, ignoreTestExecutablesError=True)` on one node of the `local` / `lsf`
backends: the new value of `command.executable` in the live configuration -/
def checkExe (base : S) (p : Probe) (e : S) : S :=
  checkFound (preCheck base e) p e (if pathless e then p.which else some (preCheck base e))

/-- … on every node (`probes` in the order of the live configuration) -/
def validateLive (base : S) : List Probe → Live → Live
  | p :: ps, (k, e) :: l => (k, checkExe base p e) :: validateLive base ps l
  | _, l => l

/-- `Experiment.validateExperiment(checkExecutables=True)` of an instance that lives at `base` -/
def Conf.validate (base : S) (probes : List Probe) (c : Conf) : Conf :=
  { c with live := validateLive base probes c.live }

/-- hashes of the nodes of a graph under a configuration -/
def hashesC (md5 : S → S) (fuzzy : Bool) (c : Conf) (cs : List Comp) : List (Option S) :=
  hashesD md5 fuzzy c.unrep cs

def sersC (md5 : S → S) (fuzzy : Bool) (c : Conf) (cs : List Comp) : List (Option S) :=
  sersD md5 fuzzy c.unrep cs

def hashOneC (md5 : S → S) (fuzzy : Bool) (c : Conf) (hs : List (Option S)) (x : Comp) : Option S :=
  hashOne md5 fuzzy c.unrep hs x

/-! ## the other source (not the code) -/

inductive Source where
  /-- the author's specification for every node (the code) -/
  | specification
  /-- the live configuration for a node that is its own blueprint, the specification for replicas -/
  | liveConfiguration
deriving DecidableEq, Repr

def mkInfoFrom (src : Source) (md5 : S → S) (fuzzy : Bool) (c : Conf) (ph : Nat → Option S) (x : Comp) :
    Option Info :=
  match src with
  | .specification => mkInfo md5 fuzzy c.unrep ph x
  | .liveConfiguration =>
    if blueprintName c.unrep x == x.name then
      match lookupBp c.live (x.stage, x.name) with
      | none => none
      | some exe => infoCore md5 fuzzy ph (imageOf x.backend) exe x.args x.refs
    else mkInfo md5 fuzzy c.unrep ph x

def hashOneFrom (src : Source) (md5 : S → S) (fuzzy : Bool) (c : Conf) (hs : List (Option S)) (x : Comp) :
    Option S :=
  (mkInfoFrom src md5 fuzzy c (getH hs) x).map (hashInfo md5)

/-! ## histories with validations -/

inductive COp where
  | fs (op : Op)
  | validate (base : S) (probes : List Probe)
deriving DecidableEq, Repr

/-- the state of an instance: its files and its live configuration (the specification never changes) -/
structure CState where
  fs : Fs
  live : Live
  /-- the configuration the instance directory holds: a new `Experiment` object over the instance (`Op.reload`)
  starts from it — validation is not written back to the disk -/
  stored : Live
deriving DecidableEq, Repr

def cstep (s : CState) : COp → CState
  | .fs op => { s with fs := step s.fs op, live := if op = .reload then s.stored else s.live }
  | .validate b ps => { s with live := validateLive b ps s.live }

def crun (s : CState) (ops : List COp) : CState := ops.foldl cstep s

def cstates (s : CState) : List COp → List CState
  | [] => [s]
  | op :: ops => s :: cstates (cstep s op) ops

/-- the file-system operations of a history (validations erased) -/
def fsOps : List COp → List Op
  | [] => []
  | .fs op :: ops => op :: fsOps ops
  | .validate _ _ :: ops => fsOps ops

/-- hashes of every node computed now: on the files of the state, under the specification `unrep` and the live
configuration of the state -/
def hashesCFs (md5 : S → S) (fuzzy : Bool) (unrep : Blueprints) (s : CState) (cs : List SComp) : List (Option S) :=
  hashesFs md5 fuzzy (Conf.mk unrep s.live).unrep s.fs cs

def sersCFs (md5 : S → S) (fuzzy : Bool) (unrep : Blueprints) (s : CState) (cs : List SComp) : List (Option S) :=
  sersFs md5 fuzzy (Conf.mk unrep s.live).unrep s.fs cs

end St4sd.Hash
