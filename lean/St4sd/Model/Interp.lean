import St4sd.Model.Tree
/-!
# Variable interpolation (C04): `FlowIR.interpolate` / `FlowIR.fill_in`

Model of flowir.py 4509-4710 (`interpolate`) and 3871-3936 (`fill_in`) as they are used by
`get_component_configuration`:

* the `while True` loop "find the first `%(name)s`, resolve `name`, splice the value in, search
  again from `search_from`" is modelled literally (`interp`, argument `done` = the text before
  `search_from`); the value of a string variable is itself interpolated first (Python: recursion,
  here: the same fuel);  integers / booleans / floats are spliced as their `repr`;
  `None`, lists and dictionaries as variable values are `FlowIRVariableInvalid`;
* an unknown variable is `FlowIRVariableUnknown` - except `replica` when `is_primitive` (left in
  place, search continues behind it);
* finally the "incomplete reference" check (`%(name)` not followed by `s`).

Not modelled (the model answers `unsupported`, the harness does not generate such strings except in
its malformed stream, where only the implementation-side oracle is evaluated): array accesses
(any string that still contains `[` when the loop ends) and dotted variable names (`%(a.b)s`).

Fuel: every loop iteration and every descent into a variable's value consumes one unit; running
out of fuel is `Err.fuel`, the image of Python's `RecursionError` (cyclic definitions).
-/
namespace St4sd.Tree
open St4sd.Str

inductive Err where
  | unknownVariable (x : S)
  | invalidVariable
  | incomplete
  | fuel
  | unsupported
  | typeClash
  | invalidType
  | platformUnknown
  | componentUnknown
  | componentExists
  | inconsistent
  | keyError
  deriving Repr, DecidableEq, Inhabited

/-- `[a-zA-Z0-9_.-]` -/
def isNameChar (c : Char) : Bool := c.isAlphanum || c == '_' || c == '.' || c == '-'

/-- maximal run of name characters, and the rest -/
def spanName : S → S × S
  | [] => ([], [])
  | c :: t => if isNameChar c then ((spanName t).1.cons c, (spanName t).2) else ([], c :: t)

/-- regex `%\([a-zA-Z0-9_.-]+\)s` anchored at the head: the name and the text after the match -/
def matchRef : S → Option (S × S)
  | '%' :: '(' :: t =>
    match spanName t with
    | ([], _) => none
    | (name, ')' :: 's' :: rest) => some (name, rest)
    | _ => none
  | _ => none

/-- first match of the reference pattern: (text before, name, text after) -/
def findRef : S → Option (S × S × S)
  | [] => none
  | c :: t =>
    match matchRef (c :: t) with
    | some (n, r) => some ([], n, r)
    | none => match findRef t with
      | some (p, n, r) => some (c :: p, n, r)
      | none => none

/-- `%(name)` anchored at the head, not followed by `s` (regex `VariablePatternIncomplete` + the filter) -/
def matchIncomplete : S → Bool
  | '%' :: '(' :: t =>
    match spanName t with
    | ([], _) => false
    | (_, ')' :: 's' :: _) => false
    | (_, ')' :: _) => true
    | _ => false
  | _ => false

def hasIncomplete : S → Bool
  | [] => false
  | c :: t => matchIncomplete (c :: t) || hasIncomplete t

/-- the text of a reference -/
def refText (x : S) : S := '%' :: '(' :: (x ++ [')', 's'])

def replicaName : S := "replica".toList

/-- end of `interpolate`: array accesses are outside the model, then the incomplete-reference check -/
def finish (s : S) : Except Err S :=
  if s.contains '[' then .error .unsupported
  else if hasIncomplete s then .error .incomplete
  else .ok s

/-- `FlowIR.interpolate(s, ctx, is_primitive=prim)`; `done` is the text before `search_from` -/
def interp : Nat → Fields → Bool → S → S → Except Err S
  | 0, _, _, _, _ => .error .fuel
  | f + 1, ctx, prim, done, s =>
    match findRef s with
    | none => finish (done ++ s)
    | some (pre, x, post) =>
      if x.contains '.' then .error .unsupported else
      match get ctx x with
      | none =>
        if prim && x == replicaName then interp f ctx prim (done ++ pre ++ refText x) post
        else .error (.unknownVariable x)
      | some (.str v) =>
        match interp f ctx prim [] v with
        | .ok v' => interp f ctx prim done (pre ++ v' ++ post)
        | .error e => .error e
      | some (.int n) => interp f ctx prim done (pre ++ intRepr n ++ post)
      | some (.bool b) => interp f ctx prim done (pre ++ boolRepr b ++ post)
      | some (.flt r) => interp f ctx prim done (pre ++ r ++ post)
      | some _ => .error .invalidVariable

mutual
/-- `FlowIR.fill_in(obj, ctx, is_primitive=prim)` -/
def fillIn (f : Nat) (ctx : Fields) (prim : Bool) : Val → Except Err Val
  | .str s => match interp f ctx prim [] s with
    | .ok s' => .ok (.str s')
    | .error e => .error e
  | .list xs => match fillList f ctx prim xs with
    | .ok xs' => .ok (.list xs')
    | .error e => .error e
  | .dict kvs => match fillFields f ctx prim kvs with
    | .ok kvs' => .ok (.dict kvs')
    | .error e => .error e
  | v => .ok v
def fillList (f : Nat) (ctx : Fields) (prim : Bool) : List Val → Except Err (List Val)
  | [] => .ok []
  | v :: r => match fillIn f ctx prim v with
    | .error e => .error e
    | .ok v' => match fillList f ctx prim r with
      | .error e => .error e
      | .ok r' => .ok (v' :: r')
def fillFields (f : Nat) (ctx : Fields) (prim : Bool) : Fields → Except Err Fields
  | [] => .ok []
  | (k, v) :: r => match fillIn f ctx prim v with
    | .error e => .error e
    | .ok v' => match fillFields f ctx prim r with
      | .error e => .error e
      | .ok r' => .ok ((k, v') :: r')
end

end St4sd.Tree
