import St4sd.Model.Repeat
/-!
# Model of the producers-finished subscription of a repeating component (property C13)

Source: `python/experiment/runtime/workflow.py`, `ComponentState.stageIn` (the part after the data staging,
"If the engine is repeating subscribe to state updates of all producers"), `ComponentState.producers`,
`ComponentState.notifyFinished`, `ComponentState._notifyProducersFinished`.

What the code does: at stage-in the observer takes the list of its producer components (`self.producers`:
one entry per data reference, so a producer referenced twice occurs twice; entries are `ComponentState`
objects, i.e. a producer is identified by its component reference `stage<i>.<name>`, not by its bare name),
drops those that are not alive any more (state finished / failed / shutdown), and subscribes to the merge of
the `notifyFinished` observables of the remaining entries.  Each `notifyFinished` emits once and completes when
its component stops being alive; the merge completes when all of them completed and `on_completed` calls
`_notifyProducersFinished`, which calls `engine.notify_all_producers_finished()`.  If no entry is left after
the filter `_notifyProducersFinished()` is called at once, during stage-in.

`Pid` is the identity of a component (its reference); the harness numbers the components of the workflow.
`waiting` is the multiset (list) of subscriptions that have not completed.  A component leaving the running
state of its engine without being finished by the controller (`pexit`: postmortem, it may be restarted) is
not a finish.

Assumption: `stageIn` runs once per component (the Controller keeps `comp_staged_in`); a second `stageIn`
is a no-op here.

The second half composes this with the poll protocol of `St4sd.Repeat`: in the composed system nobody but the
subscription calls `notify_all_producers_finished` (`Ev.fin` is not an operation of the environment any more,
it is the output of the subscription).  `refs` of the subscription is the list of the components of
`Repeat.Cfg.prods` (`ComponentState.producers` and `Job.producerInstances` both have one entry per data
reference, in order); `XEv.out c` is output of component `c`.
No Mathlib import (this file is linked into `drv-c13`).
-/
namespace St4sd.RepeatSub
open St4sd.Repeat

abbrev Pid := Nat

inductive SubOp
  | stageIn            -- the observer's `stageIn()` reaches the subscription
  | pfin (p : Pid)     -- component `p` stops being alive (finished / failed / shutdown)
  | pexit (p : Pid)    -- the engine of `p` exits or is restarted; `p` stays alive (running / postmortem)
  deriving DecidableEq, Repr

structure Sub where
  refs : List Pid          -- `self.producers`: one entry per data reference, repetitions included
  finished : List Pid      -- components that are not alive any more
  stagedIn : Bool
  waiting : List Pid       -- subscribed `notifyFinished` observables that have not completed
  notified : Bool          -- `engine.notify_all_producers_finished()` was called
  count : Nat              -- ghost: how often it was called
  deriving DecidableEq, Repr

def Sub.init (refs : List Pid) : Sub :=
  { refs := refs, finished := [], stagedIn := false, waiting := [], notified := false, count := 0 }

/-- does this operation make the subscription call `notify_all_producers_finished()` -/
def fires (s : Sub) : SubOp → Bool
  | .stageIn => !s.stagedIn && (s.refs.filter (fun p => !s.finished.contains p)).isEmpty
  | .pfin p =>
    !s.finished.contains p && !s.waiting.isEmpty && (s.waiting.filter (fun q => q != p)).isEmpty
  | .pexit _ => false

def subStep (s : Sub) (o : SubOp) : Sub :=
  let f := fires s o
  let s := { s with notified := s.notified || f, count := s.count + b2n f }
  match o with
  | .stageIn =>
    if s.stagedIn then s
    else { s with stagedIn := true, waiting := s.refs.filter (fun p => !s.finished.contains p) }
  | .pfin p =>
    if s.finished.contains p then s
    else { s with finished := p :: s.finished, waiting := s.waiting.filter (fun q => q != p) }
  | .pexit _ => s

def subRun (s : Sub) : List SubOp → Sub
  | [] => s
  | o :: os => subRun (subStep s o) os

def subExec (refs : List Pid) (h : List SubOp) : Sub := subRun (Sub.init refs) h

/-! ## Composition with the poll protocol -/

/-- operations of the environment of the composed system: everything of `Repeat.Ev` but `fin` -/
inductive XEv | out (c : Nat) | kill | die | adv
  deriving DecidableEq, Repr

def XEv.toEv : XEv → Ev
  | .out c => .out c | .kill => .kill | .die => .die | .adv => .adv

inductive CEv
  | sub (o : SubOp)
  | x (e : XEv)
  deriving DecidableEq, Repr

inductive COp
  | ev (e : CEv)
  | eng (o : Outcome)
  deriving DecidableEq, Repr

structure CSt where
  sub : Sub
  eng : St
  deriving DecidableEq, Repr

def cstep (cfg : Cfg) (c : CSt) : COp → CSt
  | .ev (.sub o) =>
    { sub := subStep c.sub o, eng := if fires c.sub o then step cfg c.eng (.env .fin) else c.eng }
  | .ev (.x e) => { c with eng := step cfg c.eng (.env e.toEv) }
  | .eng o => { c with eng := step cfg c.eng (.eng o) }

def crun (cfg : Cfg) (c : CSt) : List COp → CSt
  | [] => c
  | op :: ops => crun cfg (cstep cfg c op) ops

def cexec (cfg : Cfg) (refs : List Pid) (h : List COp) : CSt :=
  crun cfg { sub := Sub.init refs, eng := init cfg } h

/-- the history of the engine alone that a composed history amounts to -/
def project : Sub → List COp → List Op
  | _, [] => []
  | s, .ev (.sub o) :: r => (if fires s o then [Op.env .fin] else []) ++ project (subStep s o) r
  | s, .ev (.x e) :: r => Op.env e.toEv :: project s r
  | s, .eng o :: r => Op.eng o :: project s r

/-- the subscription operations of a composed history -/
def subOps : List COp → List SubOp
  | [] => []
  | .ev (.sub o) :: r => o :: subOps r
  | _ :: r => subOps r

/-! ## Structured scripts (what the harness generates)

The events of a composed script are translated to events of the engine alone by threading the subscription
state through the slots in the order of time (the order of the slots does not depend on the path the poll
takes: events of unused slots are delivered after the poll, in the same order). -/

def transEvs : Sub → List CEv → Sub × List Ev
  | s, [] => (s, [])
  | s, .sub o :: r =>
    let (s', es) := transEvs (subStep s o) r
    (s', if fires s o then Ev.fin :: es else es)
  | s, .x e :: r =>
    let (s', es) := transEvs s r
    (s', e.toEv :: es)

structure CIter where
  gap : List CEv
  s0 : List CEv
  s1 : List CEv
  s2 : List CEv
  s3 : List CEv
  s4 : List CEv
  out : Outcome
  deriving Repr

def transIter (s : Sub) (it : CIter) : Sub × Iter :=
  let (s, gap) := transEvs s it.gap
  let (s, s0) := transEvs s it.s0
  let (s, s1) := transEvs s it.s1
  let (s, s2) := transEvs s it.s2
  let (s, s3) := transEvs s it.s3
  let (s, s4) := transEvs s it.s4
  (s, { gap := gap, s0 := s0, s1 := s1, s2 := s2, s3 := s3, s4 := s4, out := it.out })

def transIters : Sub → List CIter → Sub × List Iter
  | s, [] => (s, [])
  | s, it :: its =>
    let (s', i) := transIter s it
    let (s'', is) := transIters s' its
    (s'', i :: is)

def CIter.events (it : CIter) : List CEv := it.gap ++ it.s0 ++ it.s1 ++ it.s2 ++ it.s3 ++ it.s4

end St4sd.RepeatSub
