import St4sd.Model.Restart
/-!
# kill() and the exit reason a plain `Engine` reports (property C12, "never after a killed task")

`St4sd.Restart` takes the exit reason the engine reports as an input.  This file models where it comes from when
`kill()` reaches the engine *before a launch* (engine.py): the `self.process` / `self._exitReason` ivars,

* `Engine._setExitReason` (1092-1113): the exit reason of the Task object in `self.process` is preferred to the
  reason handed in;
* `Engine.run` (431-801): `LaunchTask` primes `self.process = None` and stores the new Task object,
  `HandleTaskExit` hands the task's reason (or the launch failure) to `_setExitReason`; a termination that arrives
  after `run()` and before the start observable emits (the launch delay) ends in
  `HandleTaskObservableException` -> `_setExitReason('Killed')`;
* the subscription made in `Engine.__init__` (291-295): a termination before `run()` was ever called ->
  `_setExitReason('Killed')`; `Engine.kill` (1140-1157) does nothing on a dead engine;
* `Engine.restart` (991-1000): `self.process = None`, `self._exitReason = None`, `run()` — `keep = true` is the
  variant that leaves the previous Task object in `self.process` (kept for `St4sd.Witness.C12` only).
-/
namespace St4sd.RestartKill
open St4sd.Restart

structure Eng where
  /-- `self.process`: the exit reason of the (finished) Task object; `none` = no Task object -/
  proc : Option Reason
  /-- `self._exitReason` (`none` = the engine is alive) -/
  exitReason : Option Reason
  /-- `run()` was called and its start observable has not emitted yet (the launch delay) -/
  pending : Bool
  /-- `self._runCalled` -/
  runCalled : Bool
  deriving DecidableEq, Repr

def Eng.init : Eng := ⟨none, none, false, false⟩

/-- `Engine.run()` as far as these ivars go -/
def run (e : Eng) : Eng := { e with pending := true, runCalled := true }

/-- `Engine._setExitReason` -/
def setExitReason (e : Eng) (r : Reason) : Eng := { e with exitReason := some (e.proc.getD r) }

/-- what happens to the engine between two restart decisions -/
inductive Arrival where
  /-- the launch happens (or, `Launch.none`, an exit is reported without a launch) and ends with reason `r` -/
  | exits (l : Launch) (r : Reason)
  /-- `kill()` is delivered to the engine -/
  | kill
  deriving DecidableEq, Repr

/-- `kill()` finds the engine alive and not launched: waiting in the launch delay, or `run()` never called -/
def Eng.killable (e : Eng) : Bool := e.pending || (!e.runCalled && e.exitReason.isNone)

def arriveEng (e : Eng) : Arrival → Eng
  | .exits .task r => setExitReason { e with proc := some r, pending := false, runCalled := true } r
  | .exits .none r => { e with proc := e.proc.map (fun _ => r), exitReason := some r, pending := false }
  | .exits _ r => setExitReason { e with proc := none, pending := false, runCalled := true } r
  | .kill =>
    if e.pending then setExitReason { e with pending := false } .killed
    else if !e.runCalled && e.exitReason.isNone then setExitReason e .killed
    else e

/-- `Engine.restart` reached `run()` (the number of `run()` calls went up): the ivars are reset; the launch is
pending when `run()` did not raise -/
def afterDecision (keep : Bool) (e : Eng) (s s' : St) (code : Code) : Eng :=
  if s.runs < s'.runs then
    { proc := if keep then e.proc else none, exitReason := none, pending := decide (code = .initiated),
      runCalled := true }
  else e

/-- the arrival and what the environment decides around the restart attempt (of `inp` the fields `reason` and
`launch` are not read) -/
structure KInp where
  arrival : Arrival
  inp : Inp
  deriving Repr

structure KEv where
  arrival : Arrival
  /-- the kill found the engine alive and not launched -/
  killable : Bool
  /-- `Engine.exitReason()` when the controller decides (an engine without exit reason is never restarted:
  treated like `Killed`) -/
  reported : Reason
  code : Code
  runsBefore : Nat
  st : St
  deriving Repr

def kstep (keep fin : Bool) (c : Cfg) (se : St × Eng) (k : KInp) : (St × Eng) × KEv :=
  let e1 := arriveEng se.2 k.arrival
  let rep := e1.exitReason.getD .killed
  let i : Inp := { k.inp with reason := rep, launch := match k.arrival with | .exits l _ => l | .kill => .none }
  let r := step fin c se.1 i
  ((r.1, afterDecision keep e1 se.1 r.1 r.2), ⟨k.arrival, se.2.killable, rep, r.2, se.1.runs, r.1⟩)

def kexec (keep fin : Bool) (c : Cfg) : St × Eng → List KInp → List KEv
  | _, [] => []
  | se, k :: ks => (kstep keep fin c se k).2 :: kexec keep fin c (kstep keep fin c se k).1 ks

end St4sd.RestartKill
