import St4sd.Model.Repl
import St4sd.Model.ReplVars
/-!
# Replication (C03) on a non-default platform: platform scopes and the component-level `override` block

A FlowIR document may list several platforms.  `FlowIRConcrete.instance(platform)` — what
`FlowIRConcrete.replicate(platform)` replicates — builds, for the selected platform,

* the **scopes** handed to `apply_replicate`:
  `global = default.global` updated with `<platform>.global`, and for every stage
  `stage = (default.stages[i] without the names <platform>.global defines)` updated with `<platform>.stages[i]`
  (`platGlobal`, `platStage`), so that the scope chain of a component is
  own > platform stage > platform global > default stage > default global (`Props.C03.platform_chain`);
* every **component** as `get_component_configuration(platform)` layers it: the block
  `override.<platform>` of the component over the component itself (`FlowIR.override_object`: dictionaries are
  merged key by key, lists and strings are replaced) — `layerRaw` at the structured level, `layerT` on the
  string-bearing fields — AND keeps the block `override.<platform>` inside the component.

`compile_component_replica` / `compile_component_aggregate` rewrite every string of the component
(`FlowIR.replace_strings` walks the whole dictionary), i.e. the (already effective) fields of the component AND
the strings of the kept override block.  When the replicated FlowIR is read back for the platform
(`FlowIRConcrete.get_component_configuration`, `get_component_variables`) the block is layered over the
component once more: `readBack`.

Modelled for the **repaired** code (`fixes/C03-override-block-replication.diff`): the aggregator re-splits the
rewritten `references` of the override block like those of the component, and a `replica` variable defined by
the override block is set to the index of the copy like the one of the component.  The unrepaired treatment
of the block (`pieceOverOld`) is kept for the `Witness` theorems.
-/
namespace St4sd.Repl
open St4sd.Str

/-! ## platform scopes -/

/-- `global_variables` of `instance(platform)`: default global updated with the platform's global section -/
def platGlobal (dg pg : Vars) : Vars := override dg pg

/-- `stage_variables[i]` of `instance(platform)`: the default stage section without the names the platform's
global section defines, updated with the platform's section of the stage -/
def platStage (ds ps pg : Vars) : Vars :=
  override (ds.filter fun kv => (lookup pg kv.1).isNone) ps

/-! ## the override block, structured level -/

/-- what `override.<platform>` of a component restates (absent fields are not restated) -/
structure Over where
  refs : Option (List Ref)
  vars : Vars
  replicate : Spec
  aggregate : Spec
deriving DecidableEq, Repr

/-- `override_object` on an attribute: the value of the block when it gives one -/
def layerSpec (base over : Spec) : Spec :=
  match over with
  | .absent => base
  | o => o

/-- the component `instance(platform)` hands to `apply_replicate` -/
def layerRaw (r : Raw) : Option Over → Raw
  | none => r
  | some o => { r with refs := o.refs.getD r.refs, vars := override r.vars o.vars,
                       replicate := layerSpec r.replicate o.replicate,
                       aggregate := layerSpec r.aggregate o.aggregate }

/-! ## the string-bearing fields of a component dictionary / of an override block -/

structure TBlock where
  refs : Option (List S)
  args : Option S
  vars : Vars
deriving DecidableEq, Repr

/-- `FlowIR.replace_strings(block, f)`: every string VALUE is rewritten, keys are not -/
def TBlock.map (f : S → S) (b : TBlock) : TBlock :=
  { refs := b.refs.map (List.map f), args := b.args.map f, vars := b.vars.map fun kv => (kv.1, f kv.2) }

/-- `override_object(base, over)` on these fields -/
def layerT (base over : TBlock) : TBlock :=
  { refs := over.refs.or base.refs, args := over.args.or base.args, vars := override base.vars over.vars }

/-- what a reader of the (replicated) FlowIR sees for the platform: the kept block over the component -/
def readBack (p : TBlock × TBlock) : TBlock := layerT p.1 p.2

/-- `variables['replica'] = i` (component level) -/
def setReplica (i : Nat) (b : TBlock) : TBlock := { b with vars := copyVars b.vars i }

/-- repaired: a `replica` the override block defines is set to the index as well -/
def fixReplica (i : Nat) (b : TBlock) : TBlock :=
  { b with vars := b.vars.map fun kv => if kv.1 == replicaKey then (kv.1, natToDigits i) else kv }

/-- `references` re-split on white space (`compile_component_aggregate`) -/
def splitRefs (b : TBlock) : TBlock := { b with refs := b.refs.map fun l => l.flatMap words }

/-- the component fields of what component `c` (effective fields `eff`, propagated count `p`) expands to;
aligned with `piece` / `pieceText` / `pieceVars` (same case analysis, same order) -/
def pieceBase (d : Done) (c : Comp) (eff : TBlock) (p : Option Nat) : List TBlock :=
  if c.agg then [splitRefs (eff.map (aggText d c (p.getD 0)))]
  else if 0 < p.getD 0 then
    (List.range (p.getD 0)).map fun i => setReplica i (eff.map (replicaText d c i))
  else [eff]

/-- the kept override block of every emitted component (repaired code) -/
def pieceOver (d : Done) (c : Comp) (over : TBlock) (p : Option Nat) : List TBlock :=
  if c.agg then [splitRefs (over.map (aggText d c (p.getD 0)))]
  else if 0 < p.getD 0 then
    (List.range (p.getD 0)).map fun i => fixReplica i (over.map (replicaText d c i))
  else [over]

/-- the unrepaired code: the block is rewritten like every other string, nothing else -/
def pieceOverOld (d : Done) (c : Comp) (over : TBlock) (p : Option Nat) : List TBlock :=
  if c.agg then [over.map (aggText d c (p.getD 0))]
  else if 0 < p.getD 0 then (List.range (p.getD 0)).map fun i => over.map (replicaText d c i)
  else [over]

/-- the pass of `go` / `goText`, emitting (component fields, kept override block) of every emitted component;
input: the resolved component, its effective fields and its override block for the platform -/
def goBlocks : Done → List (TBlock × TBlock) → List (Comp × TBlock × TBlock) → Option (List (TBlock × TBlock))
  | _, out, [] => some out
  | d, out, (c, eff, over) :: cs =>
    match decide1 (vals d c) with
    | some p => goBlocks ((c, p) :: d) (out ++ (pieceBase d c eff p).zip (pieceOver d c over p)) cs
    | none => none

/-- the empty block (a component without `override.<platform>`) -/
def noOver : TBlock := { refs := none, args := none, vars := [] }

end St4sd.Repl
