import St4sd.Model.FsAtomic
/-!
# Several writers on one file system (property C14, concurrent updates)

`St4sd.FsAtomic` sees the file system as `Path → Content`: enough for one writer, but it cannot say
what happens when a file that one writer still holds open is renamed (or truncated) by another one.
This model keeps the POSIX distinction between a *name* and the *file* (inode) it refers to:

* `names : Path → Option Ino` — directory entries,
* `data  : Ino → Content`     — file contents,
* `fds   : Wid → Option (Ino × Nat)` — the file each writer holds open and its file position.

`open(p,'w')` creates a new file or truncates the existing one and positions the writer at 0;
`write` writes at the writer's own position (zero-filling a hole when the file is shorter: another
writer truncated it) and advances the position; `rename a b` moves the *file* under the name `b` —
a writer that holds it open keeps writing into it, now under the new name.

A trace is a list of events tagged with the writer that performs them: the events of several
concurrent updates interleaved in the order in which the kernel served them.  Every prefix of the
trace is a crash point.

`chkStep`/`concSafe` is the protocol condition under which interleaved updates are safe:
every update (session) stages its data in a path that is different from the target and from the
staging path of every other update in flight, writes only through its own handle, closes, and only
then is the staging file renamed over the target (one rename).  `Props/C14.lean` proves that under
this condition the target holds, after every prefix of every interleaving, the previous content or
the complete text of one installed update; `Witness/C14.lean` shows an interleaving of two updates
that share one staging path and leave a mixed file.
-/
namespace St4sd.FsConc
open St4sd.FsAtomic (Path Content)

local notation "Ino" => Nat
local notation "Wid" => Nat

def upd {α β : Type} [DecidableEq α] (f : α → β) (k : α) (v : β) : α → β := fun x => if x = k then v else f x

structure St where
  names : Path → Option Ino
  data : Ino → Content
  fds : Wid → Option (Ino × Nat)
  next : Ino

inductive Ev where
  | openW (w : Wid) (p : Path)
  | write (w : Wid) (b : Content)
  | close (w : Wid)
  | rename (a b : Path)
  | remove (p : Path)
  deriving DecidableEq, Repr

/-- `pwrite`: `b` written at offset `pos` of `d` (hole filled with NUL); writing nothing changes nothing
(POSIX: a `write` of 0 bytes to a regular file has no effect, in particular it does not extend the file) -/
def writeAt (d : Content) (pos : Nat) (b : Content) : Content :=
  match b with
  | [] => d
  | _ :: _ => d.take pos ++ List.replicate (pos - d.length) '\x00' ++ b ++ d.drop (pos + b.length)

def step (s : St) : Ev → St
  | .openW w p =>
    match s.names p with
    | some i => { s with data := upd s.data i [], fds := upd s.fds w (some (i, 0)) }
    | none => { names := upd s.names p (some s.next), data := upd s.data s.next [],
                fds := upd s.fds w (some (s.next, 0)), next := s.next + 1 }
  | .write w b =>
    match s.fds w with
    | some (i, pos) => { s with data := upd s.data i (writeAt (s.data i) pos b),
                                fds := upd s.fds w (some (i, pos + b.length)) }
    | none => s
  | .close w => { s with fds := upd s.fds w none }
  | .rename a b =>
    match s.names a with
    | some i => if a = b then s else { s with names := upd (upd s.names b (some i)) a none }
    | none => s
  | .remove p => { s with names := upd s.names p none }

def crun (evs : List Ev) (s : St) : St := evs.foldl step s

/-- content of the file named `t` -/
def content (s : St) (t : Path) : Option Content := (s.names t).map s.data

/-- initial state: the given files, nobody holds a file open -/
def mkSt (files : List (Path × Content)) : St where
  names := fun p => files.findIdx? (fun f => f.1 == p)
  data := fun i => match files[i]? with
    | some f => f.2
    | none => []
  fds := fun _ => none
  next := files.length

/-- well-formed file system state in which nobody holds a file open: no two names for one file
(no hard links), file numbers below the allocation counter -/
structure WF (s : St) : Prop where
  inj : ∀ (p q : Path) (i : Nat), s.names p = some i → s.names q = some i → p = q
  fresh : ∀ (p : Path) (i : Nat), s.names p = some i → i < s.next
  nofd : ∀ w, s.fds w = none

/-! ## The protocol condition -/

/-- one update in flight: who, staging path, still open?, text written so far -/
structure Sess where
  w : Wid
  p : Path
  isOpen : Bool
  buf : Content
  deriving DecidableEq, Repr

structure Chk where
  sess : List Sess
  installed : List Content
  deriving Repr

def chkStep (t : Path) (c : Chk) : Ev → Option Chk
  | .openW w p =>
    if p != t && c.sess.all (fun x => x.w != w && x.p != p) then
      some { c with sess := ⟨w, p, true, []⟩ :: c.sess }
    else none
  | .write w b =>
    if c.sess.any (fun x => x.w == w && x.isOpen) then
      some { c with sess := c.sess.map fun x => if x.w = w then { x with buf := x.buf ++ b } else x }
    else none
  | .close w =>
    if c.sess.any (fun x => x.w == w && x.isOpen) then
      some { c with sess := c.sess.map fun x => if x.w = w then { x with isOpen := false } else x }
    else none
  | .rename a b =>
    if a != t && c.sess.all (fun x => (x.p != a || !x.isOpen) && (x.p != b || a == b)) then
      if b = t then
        match c.sess.find? (fun x => x.p == a) with
        | some x => some { sess := c.sess.filter (fun y => y.p != a), installed := x.buf :: c.installed }
        | none => none
      else some { c with sess := c.sess.filter (fun y => y.p != a || a == b) }
    else none
  | .remove p =>
    if p != t && c.sess.all (fun x => x.p != p || !x.isOpen) then
      some { c with sess := c.sess.filter (fun y => y.p != p) }
    else none

def chkRun (t : Path) : Chk → List Ev → Option Chk
  | c, [] => some c
  | c, e :: evs =>
    match chkStep t c e with
    | some c' => chkRun t c' evs
    | none => none

def chk0 : Chk := ⟨[], []⟩

/-- the interleaved trace follows the protocol (see the module comment) -/
def concSafe (t : Path) (evs : List Ev) : Bool := (chkRun t chk0 evs).isSome

/-- the complete texts installed over the target by the trace (newest first) -/
def installedBy (t : Path) (evs : List Ev) : List Content :=
  match chkRun t chk0 evs with
  | some c => c.installed
  | none => []

/-- all crash states of the target: its content after every prefix of the trace (`Props.C14.crashStates_get`) -/
def crashStates (evs : List Ev) (s : St) (t : Path) : List (Option Content) :=
  content s t :: match evs with
    | [] => []
    | e :: es => crashStates es (step s e) t

/-- first crash point at which the target holds neither the initial content nor one of `vs` -/
def firstMixed (evs : List Ev) (s : St) (t : Path) (vs : List Content) : Option Nat :=
  (crashStates evs s t).findIdx? fun c => !(c == content s t || vs.any fun v => c == some v)

/-! ## n protocol-following updates under an arbitrary schedule -/

structure Upd where
  tmp : Path
  chunks : List Content
  deriving Repr

/-- what update number `w` does: stage `chunks` in `tmp`, close, rename over the target -/
def prog (t : Path) (w : Wid) (u : Upd) : List Ev :=
  [.openW w u.tmp] ++ u.chunks.map (.write w) ++ [.close w, .rename u.tmp t]

/-- the updates stage their data in pairwise different paths, all different from the target -/
structure DistinctTmps (t : Path) (us : List Upd) : Prop where
  ne : ∀ (i j : Nat) (ui uj : Upd), us[i]? = some ui → us[j]? = some uj → ui.tmp = uj.tmp → i = j
  notT : ∀ (i : Nat) (ui : Upd), us[i]? = some ui → ui.tmp ≠ t

/-- the trace produced by a schedule: each element names the update that performs its next event
(nothing happens when that update has finished or does not exist) -/
def interleave (t : Path) (us : List Upd) (pc : Wid → Nat) : List Wid → List Ev
  | [] => []
  | w :: s =>
    match us[w]? with
    | none => interleave t us pc s
    | some u =>
      match (prog t w u)[pc w]? with
      | none => interleave t us pc s
      | some e => e :: interleave t us (upd pc w (pc w + 1)) s

end St4sd.FsConc
