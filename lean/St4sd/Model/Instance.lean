/-!
# C07 — instance description: flattening (`FlowIRConcrete.instance`) and reload

Hand-written model of
* `FlowIRConcrete.instance(platform, ignore_errors=True, fill_in_all=False, is_primitive=True,
  inject_missing_fields=False)` (flowir.py 5138-5420) as used by
  `FlowIRExperimentConfiguration.store_unreplicated_flowir_to_disk` (conf.py 675-688);
* the reload `FlowIRConcrete(flat, platform, documents)` of the stored description
  (`package_document_load(is_instance=True)`: iteration 0 of a DoWhile is *not* re-created, the
  `i#name` components already are ordinary components of the stored list);
* the running experiment, which holds `FlowIRConcrete(replicate(unreplicated))` where `replicate`
  itself starts with the same `instance(...)` flattening (flowir.py 4934-4959) and on which
  `setOptionForNode` patches act (conf.py 1129-1133) — they never reach `_unreplicated`.

Abstractions (stated in the manifest):
* names (variables, option paths, platforms, components) are natural numbers, platform `0` is `default`;
* a string is a template `List Seg`: literal characters and `%(name)s` references; integer/bool values are
  their `repr` (type conversion of options is not modelled);
* a Python dict is an association list (lookups see the first entry of a key; the harness sends no
  duplicate keys); nested option dictionaries are flattened to `path ↦ value`
  (`FlowIR.override_object` on dictionaries whose conflicts are at leaves only);
* `FlowIR.interpolate` = `interp` with explicit fuel; unknown variables are left untouched
  (`ignore_errors=True`); array accesses and file reads are not modelled;
* the order of dictionary keys and of the component list is not part of the model (the code takes the
  latter from a Python `set`).
Import-free; structural recursion only.
-/
namespace St4sd.Instance

abbrev Name := Nat

/-- one piece of a string: a literal character (by code point) or a reference `%(v)s` -/
inductive Seg where
  | ch (c : Nat)
  | ref (v : Name)
  deriving DecidableEq, Repr

abbrev Tmpl := List Seg
abbrev Dict := List (Name × Tmpl)

def hasKey (d : Dict) (k : Name) : Bool := d.any (fun e => e.1 == k)

def get? : Dict → Name → Option Tmpl
  | [], _ => none
  | (k', v) :: r, k => if k' == k then some v else get? r k

/-- `a.update(b)` / `override_object(a, b)` on flat dictionaries: entries of `b` win -/
def update (a b : Dict) : Dict := a.filter (fun e => !hasKey b e.1) ++ b

def mapVals (f : Tmpl → Tmpl) (d : Dict) : Dict := d.map (fun e => (e.1, f e.2))

/-- `FlowIR.interpolate(t, ctx, ignore_errors=True)`: every reference to a variable of `ctx` is replaced by
the interpolated value of that variable; references to unknown variables stay. `fuel` bounds the nesting
depth (Python recursion). -/
def interp : Nat → Dict → Tmpl → Tmpl
  | 0, _, t => t
  | n + 1, ctx, t => t.flatMap fun s =>
      match s with
      | .ch c => [.ch c]
      | .ref v =>
        match get? ctx v with
        | some r => interp n ctx r
        | none => [.ref v]

/-- no reference to a variable that `ctx` defines is left in `t` -/
def closedIn (ctx : Dict) (t : Tmpl) : Bool :=
  t.all fun s => match s with
    | .ch _ => true
    | .ref v => !hasKey ctx v

def dictClosed (ctx d : Dict) : Bool := d.all fun e => closedIn ctx e.2

/-- variables (or blueprint options) of one platform: global scope and per-stage scopes -/
structure Layer where
  glob : Dict
  stages : List (Nat × Dict)
  deriving DecidableEq, Repr

def Layer.empty : Layer := ⟨[], []⟩

def layerOf (ls : List (Name × Layer)) (p : Name) : Layer :=
  match ls.find? (fun e => e.1 == p) with
  | some e => e.2
  | none => Layer.empty

def Layer.stage (l : Layer) (s : Nat) : Dict :=
  match l.stages.find? (fun e => e.1 == s) with
  | some e => e.2
  | none => []

/-- `override: {plat: {<options>, variables: {...}}}` of a component -/
structure Ovr where
  plat : Name
  opts : Dict
  vars : Dict
  deriving DecidableEq, Repr

structure Comp where
  stage : Nat
  name : Name
  /-- a `$import` entry (DoWhile document): copied verbatim by `instance()` -/
  isDoc : Bool
  opts : Dict
  vars : Dict
  ovr : List Ovr
  deriving DecidableEq, Repr

structure Doc where
  vars : List (Name × Layer)
  bps : List (Name × Layer)
  comps : List Comp
  deriving DecidableEq, Repr

def ovrOpts (c : Comp) (P : Name) : Dict :=
  match c.ovr.find? (fun o => o.plat == P) with
  | some o => o.opts
  | none => []

def ovrVars (c : Comp) (P : Name) : Dict :=
  match c.ovr.find? (fun o => o.plat == P) with
  | some o => o.vars
  | none => []

/-! ## `instance()` -/

/-- global variables before interpolation: default layer (dropped when the platform *is* default,
flowir.py 5164) updated with the platform layer -/
def gv0 (L : Doc) (P : Name) : Dict :=
  update (if P == 0 then [] else (layerOf L.vars 0).glob) (layerOf L.vars P).glob

def gvars (N : Nat) (L : Doc) (P : Name) : Dict := mapVals (interp N (gv0 L P)) (gv0 L P)

/-- stage variables before interpolation: default-stage variables that a platform-global variable shadows
are removed (5212-5215), then the platform-stage variables are layered on top -/
def sv0 (L : Doc) (P : Name) (s : Nat) : Dict :=
  let d := (layerOf L.vars 0).stage s
  let d' := if P == 0 then d else d.filter (fun e => !hasKey (layerOf L.vars P).glob e.1)
  update d' ((layerOf L.vars P).stage s)

def sctx (N : Nat) (L : Doc) (P : Name) (s : Nat) : Dict := update (gvars N L P) (sv0 L P s)

def svars (N : Nat) (L : Doc) (P : Name) (s : Nat) : Dict := mapVals (interp N (sctx N L P s)) (sv0 L P s)

/-- component variables before interpolation: own variables + override of the platform (5666-5669) -/
def cv0 (c : Comp) (P : Name) : Dict := update c.vars (ovrVars c P)

def cctx (N : Nat) (L : Doc) (P : Name) (c : Comp) : Dict :=
  update (update (gvars N L P) (svars N L P c.stage)) (cv0 c P)

/-- the layered raw option dictionary of a component (`get_component_configuration(raw=True)`, 5924-5946) -/
def layeredOpts (L : Doc) (P : Name) (c : Comp) : Dict :=
  update (update (update (update (update (layerOf L.bps 0).glob ((layerOf L.bps 0).stage c.stage))
    (layerOf L.bps P).glob) ((layerOf L.bps P).stage c.stage)) c.opts) (ovrOpts c P)

def flatComp (N : Nat) (L : Doc) (P : Name) (c : Comp) : Comp :=
  if c.isDoc then c else
  { c with
    opts := layeredOpts L P c
    vars := mapVals (interp N (cctx N L P c)) (cv0 c P)
    ovr := c.ovr.filter (fun o => o.plat == P) }

def bpg0 (L : Doc) (P : Name) : Dict := update (layerOf L.bps 0).glob (layerOf L.bps P).glob
def bpg (N : Nat) (L : Doc) (P : Name) : Dict := mapVals (interp N (gvars N L P)) (bpg0 L P)
/-- the default blueprint of stage `s`, with the global blueprint of the selected platform repeated on top of it when
the stage blueprint is not empty and the platform is not `default` (flowir.py, fix 1b655bb: the stored description has
only two blueprint layers, and the platform-global blueprint outranks the default-stage one) -/
def bpsBase (L : Doc) (P : Name) (s : Nat) : Dict :=
  let d := (layerOf L.bps 0).stage s
  if d.isEmpty || P == 0 then d else update d (layerOf L.bps P).glob
def bps0 (L : Doc) (P : Name) (s : Nat) : Dict := update (bpsBase L P s) ((layerOf L.bps P).stage s)
def bpsCtx (N : Nat) (L : Doc) (P : Name) (s : Nat) : Dict := update (gvars N L P) (svars N L P s)
def bpsv (N : Nat) (L : Doc) (P : Name) (s : Nat) : Dict := mapVals (interp N (bpsCtx N L P s)) (bps0 L P s)

/-- `FlowIRConcrete.instance(P, fill_in_all=False, is_primitive=True)`: everything ends up under `default` -/
def flatten (N : Nat) (L : Doc) (P : Name) : Doc :=
  let ss := L.comps.map (·.stage)
  { vars := [(0, ⟨gvars N L P, ss.map fun s => (s, svars N L P s)⟩)]
    bps := [(0, ⟨bpg N L P, ss.map fun s => (s, bpsv N L P s)⟩)]
    comps := L.comps.map (flatComp N L P) }

/-- the decidable precondition of the round-trip theorems: with fuel `N` the flattening resolved every
reference to a *defined* variable (true of every description whose variables are not cyclic when `N` exceeds
the nesting depth; cyclic descriptions make the real `interpolate` hit the recursion limit and never load) -/
def resolves (N : Nat) (L : Doc) (P : Name) : Bool :=
  dictClosed (gv0 L P) (gvars N L P)
  && L.comps.all (fun c =>
      dictClosed (sctx N L P c.stage) (svars N L P c.stage)
      && dictClosed (bpsCtx N L P c.stage) (bpsv N L P c.stage)
      && (c.isDoc || dictClosed (cctx N L P c) (mapVals (interp N (cctx N L P c)) (cv0 c P))))
  && dictClosed (gvars N L P) (bpg N L P)

/-! ## resolution of a component on a loaded description (`get_component_configuration(raw=False,
include_default=True)`, 5883-5977 + 5626-5671) -/

def allVars (L : Doc) (P : Name) (c : Comp) : Dict :=
  let v := update (layerOf L.vars 0).glob ((layerOf L.vars 0).stage c.stage)
  let v := if P == 0 then v else update (update v (layerOf L.vars P).glob) ((layerOf L.vars P).stage c.stage)
  update v (cv0 c P)

structure Resolved where
  stage : Nat
  name : Name
  opts : Dict
  vars : Dict
  deriving DecidableEq, Repr

def resolveComp (N : Nat) (L : Doc) (P : Name) (c : Comp) : Resolved :=
  let ctx := allVars L P c
  { stage := c.stage, name := c.name
    opts := mapVals (interp N ctx) (layeredOpts L P c)
    vars := mapVals (interp N ctx) ctx }

def findComp (L : Doc) (stage : Nat) (name : Name) : Option Comp :=
  L.comps.find? (fun c => c.stage == stage && c.name == name)

/-- resolved configuration of every (non-document) component of a loaded description -/
def resolveAll (N : Nat) (L : Doc) (P : Name) : List Resolved :=
  (L.comps.filter (fun c => !c.isDoc)).map (resolveComp N L P)

/-! ## the experiment: unreplicated description + patches applied to the running (replicated) copy -/

/-- `setOptionForNode(node, key, value)`: `isVar = true` for a plain variable name, `false` for `#path` -/
structure Patch where
  stage : Nat
  name : Name
  isVar : Bool
  key : Name
  value : Tmpl
  deriving DecidableEq, Repr

structure Exp where
  /-- `FlowIRExperimentConfiguration._unreplicated` -/
  doc : Doc
  plat : Name
  /-- modifications made through `setOptionForNode` on `_concrete` since the experiment was loaded -/
  patches : List Patch
  deriving DecidableEq, Repr

def setKey (d : Dict) (k : Name) (v : Tmpl) : Dict := update d [(k, v)]

def applyPatch (cs : List Comp) (p : Patch) : List Comp :=
  cs.map fun c =>
    if c.stage == p.stage && c.name == p.name then
      (if p.isVar then { c with vars := setKey c.vars p.key p.value } else { c with opts := setKey c.opts p.key p.value })
    else c

/-- `_concrete`: the flattened description (replication is a function of it and is not modelled) with the
patches applied -/
def running (N : Nat) (E : Exp) : Doc :=
  let F := flatten N E.doc E.plat
  { F with comps := E.patches.foldl applyPatch F.comps }

/-- what `configurationForNode` answers for every node of the running experiment -/
def runningConfig (N : Nat) (E : Exp) : List Resolved := resolveAll N (running N E) E.plat

/-- `store_unreplicated_flowir_to_disk`: dumps `_unreplicated` (the patches are not in it) -/
def store (N : Nat) (E : Exp) : Doc := flatten N E.doc E.plat

/-- `Experiment.experimentFromInstance(dir, platform)`: the stored description becomes `_unreplicated` -/
def reload (N : Nat) (E : Exp) : Exp := { doc := store N E, plat := E.plat, patches := [] }

/-! ## loop iterations and repeated store/load cycles -/

/-- `instantiate_dowhile_next_iteration` (graph.py 3035-3051): the components of the new iteration are
appended to the unreplicated description -/
def addIteration (E : Exp) (newComps : List Comp) : Exp :=
  { E with doc := { E.doc with comps := E.doc.comps ++ newComps } }

/-- the description on disk after `k` further load+store cycles -/
def storeAfterCycles (N : Nat) (E : Exp) : Nat → Doc
  | 0 => store N E
  | k + 1 => flatten N (storeAfterCycles N E k) E.plat

def compIds (L : Doc) : List (Nat × Name × Bool) := L.comps.map fun c => (c.stage, c.name, c.isDoc)

/-! ## reload that does not name the platform

`Experiment.experimentFromInstance(dir)` (what ewrap/etest/ememo/einspect call) loads the stored description
for platform `default` (= `0`); the platform the instance was created for is expected to be folded into the
`default` sections by `instance()`. -/

/-- `experimentFromInstance(dir, platform=Q)` of the instance written by `E` -/
def reloadAs (N : Nat) (E : Exp) (Q : Name) : Exp := { doc := store N E, plat := Q, patches := [] }

/-- the stored description without the raw `override` blocks of its (non-document) components: what
`instance()` writes when the description is stored for a platform no override block is about
(`del comp['override']`, flowir.py 5336-5345) -/
def dropOvr (L : Doc) : Doc :=
  { L with comps := L.comps.map fun c => if c.isDoc then c else { c with ovr := [] } }

/-- stronger decidable precondition of the platform-less reload theorem: in the context of every component the
fuel also resolved the visible global/stage variables and the layered options (their values may mention
undefined names such as `%(replica)s`, but no defined one is left) -/
def resolvesFully (N : Nat) (L : Doc) (P : Name) : Bool :=
  L.comps.all fun c => c.isDoc ||
    (dictClosed (cctx N L P c) (mapVals (interp N (cctx N L P c)) (update (gvars N L P) (svars N L P c.stage)))
      && dictClosed (cctx N L P c) (mapVals (interp N (cctx N L P c)) (layeredOpts L P c)))

/-- the `platforms` field of the stored description: `sorted(set([default, platform]))` (flowir.py 5430) -/
def storedPlatforms (P : Name) : List Name := if P == 0 then [0] else [0, P]

/-- a description can be loaded for platform `Q` only if it lists `Q` (`FlowIRPlatformUnknown` otherwise) -/
def loadable (plats : List Name) (Q : Name) : Bool := plats.contains Q

/-- the description on disk after `k` load+store cycles that name the platform followed by `m` cycles that do not -/
def storeAfterMixed (N : Nat) (E : Exp) (k : Nat) : Nat → Doc
  | 0 => storeAfterCycles N E k
  | m + 1 => flatten N (storeAfterMixed N E k m) 0

/-! ## explicitly empty collections

A list-valued option (`workflowAttributes.restartHookOn`, `shutdownOn`, `executors.pre` …) is a LEAF of the flattened
option dictionary: `override_object` replaces a list as a whole by the narrower layer.  An explicitly empty list
(`restartHookOn: []`, "never call the restart hook") is therefore an entry like any other, `path ↦ "[]"`, and it
shadows whatever a blueprint (or the built-in default) gives for that path; *absent* (`get? = none`) and
*present and empty* are different descriptions.  `store_unreplicated_flowir_to_disk` dumps the flattened
description as it is.  `compress` is `FlowIR.compress_flowir` on the option leaves (drop every entry whose value is
an empty collection) — NOT what the store does (the call is commented out in conf.py); it is modelled only to
state in `Witness.C07` that a store which drops empty collections breaks both clauses of the property. -/

def dropEmpty (isEmpty : Tmpl → Bool) (d : Dict) : Dict := d.filter fun e => !isEmpty e.2

def Layer.dropEmpty (isEmpty : Tmpl → Bool) (l : Layer) : Layer :=
  ⟨St4sd.Instance.dropEmpty isEmpty l.glob, l.stages.map fun e => (e.1, St4sd.Instance.dropEmpty isEmpty e.2)⟩

/-- `FlowIR.compress_flowir` restricted to what the model holds: option entries (blueprints, components, override
blocks) whose value is an empty collection disappear -/
def compress (isEmpty : Tmpl → Bool) (L : Doc) : Doc :=
  { L with
    bps := L.bps.map fun e => (e.1, e.2.dropEmpty isEmpty)
    comps := L.comps.map fun c =>
      if c.isDoc then c else
      { c with opts := dropEmpty isEmpty c.opts
               ovr := c.ovr.map fun o => { o with opts := dropEmpty isEmpty o.opts } } }

/-- a store that compresses, and the experiment loaded from what it wrote -/
def storeCompressed (isEmpty : Tmpl → Bool) (N : Nat) (E : Exp) : Doc := compress isEmpty (store N E)

def reloadCompressed (isEmpty : Tmpl → Bool) (N : Nat) (E : Exp) : Exp :=
  { doc := storeCompressed isEmpty N E, plat := E.plat, patches := [] }

/-! ## sessions: the instance directory over the lifetime of an experiment

The description on disk is written by more than one experiment object: the one that created the instance, and every
object that loaded the directory later.  A load either updates the instance files (`Experiment.experimentFromInstance`,
default `updateInstanceConfiguration=True`: what ewrap/etest/ememo/einspect call) or leaves them alone
(`Experiment(dir, platform, is_instance=True, updateInstanceConfiguration=False)`: what `elaunch --restart` on the same
platform and the database front-end do).  Whichever way the object was obtained, the controller that runs it
instantiates further DoWhile iterations through `instantiate_dowhile_next_iteration(do_while, k, True)`, which stores the
description unconditionally (graph.py 3123-3124: `if store_flowir_to_disk: store_unreplicated_flowir_to_disk()`), and an
explicit `store_unreplicated_flowir_to_disk()` is unconditional too.  The flag of the configuration object
(`update_instance_files`) is consulted only while the object is constructed (conf.py `_generate_instance_files`). -/

inductive Step where
  /-- `instantiate_dowhile_next_iteration(…, store_flowir_to_disk=True)` by the current experiment object; the
  argument is the list of components `instantiate_dowhile` produced for the new iteration -/
  | iterate (newComps : List Comp)
  /-- the directory is loaded for platform `Q` (`0` = none named); `update` = `updateInstanceConfiguration` -/
  | load (Q : Name) (update : Bool)
  /-- explicit `store_unreplicated_flowir_to_disk()` of the current experiment object -/
  | store
  deriving Repr

structure Session where
  /-- the experiment object that currently drives the instance -/
  exp : Exp
  /-- `update_instance_files` of its configuration object -/
  writable : Bool
  /-- conf/flowir_instance.yaml -/
  disk : Doc
  /-- its `platforms` field -/
  plats : List Name
  deriving Repr

/-- `Experiment.experimentFromPackage`: the creating object stores the description -/
def Session.create (N : Nat) (E : Exp) : Session :=
  { exp := E, writable := true, disk := store N E, plats := storedPlatforms E.plat }

def step (N : Nat) (S : Session) : Step → Session
  | .iterate cs =>
    let E := addIteration S.exp cs
    { S with exp := E, disk := store N E, plats := storedPlatforms E.plat }
  | .load Q upd =>
    if loadable S.plats Q then
      let E : Exp := { doc := S.disk, plat := Q, patches := [] }
      if upd then { exp := E, writable := true, disk := store N E, plats := storedPlatforms Q }
      else { exp := E, writable := false, disk := S.disk, plats := S.plats }
    else S  -- `FlowIRPlatformUnknown`: no object is created, nothing is written
  | .store => { S with disk := store N S.exp, plats := storedPlatforms S.exp.plat }

def runSteps (N : Nat) (S : Session) (steps : List Step) : Session := steps.foldl (step N) S

/-- identifiers of the components instantiated by the `iterate` steps of a history, in order -/
def iterIds : List Step → List (Nat × Name × Bool)
  | [] => []
  | .iterate cs :: r => cs.map (fun c => (c.stage, c.name, c.isDoc)) ++ iterIds r
  | _ :: r => iterIds r

/-- every load of the history names platform `P` -/
def loadsName (P : Name) : List Step → Bool
  | [] => true
  | .load Q _ :: r => Q == P && loadsName P r
  | _ :: r => loadsName P r

/-- the decidable hypothesis of the session theorems: the description every `iterate` step produces resolves (the
components of a new iteration bring their own variables; the other steps keep `resolves`) -/
def stepsResolve (N : Nat) (S : Session) : List Step → Bool
  | [] => true
  | .iterate cs :: r =>
    resolves N (addIteration S.exp cs).doc S.exp.plat && stepsResolve N (step N S (.iterate cs)) r
  | st :: r => stepsResolve N (step N S st) r

/-- NOT the code that exists: an `iterate` step that stores only when the configuration object was created with
`updateInstanceFiles=True` (modelled for `Witness.C07`: such a gate loses the iterations of a restarted experiment) -/
def stepGated (N : Nat) (S : Session) : Step → Session
  | .iterate cs =>
    let E := addIteration S.exp cs
    if S.writable then { S with exp := E, disk := store N E, plats := storedPlatforms E.plat }
    else { S with exp := E }
  | st => step N S st

/-! ## components instantiated AFTER a reload (the next DoWhile iterations of a restarted experiment)

The experiment that created the instance keeps the *package* description in memory (`_unreplicated` with the raw
blueprints of every platform); an experiment loaded from the instance directory holds the *stored* description
(`flatten`: blueprints of the default and the selected platform folded into `default`, interpolated in the global /
stage scope).  Both instantiate the next iteration the same way (`addIteration`) and store `flatComp` of the new
components.  The stored description is equivalent to the package for NEW components only as far as the folded
blueprints are: `bpClosed` is the (decidable) condition under which they are. -/

/-- the blueprint values that a component of stage `s` inherits mention no variable that is defined in the scope in
which `instance()` interpolates them (literal settings: environment names, resource requests, …) -/
def bpClosed (N : Nat) (L : Doc) (P : Name) (s : Nat) : Bool :=
  dictClosed (gvars N L P) (bpg0 L P) && dictClosed (bpsCtx N L P s) (bps0 L P s)

/-- (what the OLD folding additionally needed, `Witness.C07`) no option path is set BOTH by the default blueprint of
stage `s` and by the global blueprint of the selected platform `P ≠ default` -/
def bpOrderFree (L : Doc) (P : Name) (s : Nat) : Bool :=
  P == 0 || ((layerOf L.bps 0).stage s).all (fun e => !hasKey (layerOf L.bps P).glob e.1)

/-- two option dictionaries answer every lookup alike (association lists: the order of the entries is not part of
the description) -/
def sameLookups (a b : Dict) : Bool := (a ++ b).all fun e => get? a e.1 == get? b e.1

/-- two stored components are the same component: identity, variables, override blocks, and every option lookup -/
def sameComp (a b : Comp) : Bool :=
  a.stage == b.stage && a.name == b.name && a.isDoc == b.isDoc && a.vars == b.vars && a.ovr == b.ovr
    && sameLookups a.opts b.opts

/-- the hypotheses of `C07.iteration_after_reload_like_control` for a list of new components -/
def newCompsOk (N : Nat) (L : Doc) (P : Name) (cs : List Comp) : Bool :=
  cs.all fun c => !c.isDoc && (L.comps.map (·.stage)).contains c.stage && bpClosed N L P c.stage

/-! ### the folding of the stage blueprints before fix 1b655bb (`…Old`, used by `Witness.C07` only) -/

def bps0Old (L : Doc) (P : Name) (s : Nat) : Dict := update ((layerOf L.bps 0).stage s) ((layerOf L.bps P).stage s)
def bpsvOld (N : Nat) (L : Doc) (P : Name) (s : Nat) : Dict := mapVals (interp N (bpsCtx N L P s)) (bps0Old L P s)

/-- `instance()` before the fix: (default+platform global) < (default+platform stage) -/
def flattenOld (N : Nat) (L : Doc) (P : Name) : Doc :=
  let ss := L.comps.map (·.stage)
  { vars := [(0, ⟨gvars N L P, ss.map fun s => (s, svars N L P s)⟩)]
    bps := [(0, ⟨bpg N L P, ss.map fun s => (s, bpsvOld N L P s)⟩)]
    comps := L.comps.map (flatComp N L P) }

def reloadOld (N : Nat) (E : Exp) : Exp := { doc := flattenOld N E.doc E.plat, plat := E.plat, patches := [] }

/-- NOT the code that exists: a store that leaves the blueprints out of the stored description ("the components
already have them folded in") — modelled for `Witness.C07` -/
def storeNoBlueprints (N : Nat) (E : Exp) : Doc := { store N E with bps := [] }

/-! ## the identity of a component is (stage, name)

Two components of different stages may carry the same name (`stage0.simulate` / `stage1.simulate`; migrated components
of consecutive stages are required to): every consumer of a description looks a component up by its stage AND its name
(`findComp`, `get_component((stage, name))`).  The store writes one list entry per component of `instance()`
(`FlowIR.pretty_flowir_sort` reorders the keys of every entry and keeps the list as it is), so `flatten` maps the list
entry by entry. -/

/-- NOT the code that exists: a writer that files the components of the description it writes under their NAME alone
(a dictionary keyed by `name`: the last component of a name replaces the earlier ones of that name, whatever their
stage) — modelled for `Witness.C07` and `C07.name_keyed_writer_*` -/
def keepLastByName : List Comp → List Comp
  | [] => []
  | c :: r => if r.any (fun d => d.name == c.name) then keepLastByName r else c :: keepLastByName r

/-- the description such a writer stores, and the experiment loaded from it -/
def storeByName (N : Nat) (E : Exp) : Doc := { store N E with comps := keepLastByName (store N E).comps }

def reloadByName (N : Nat) (E : Exp) : Exp := { doc := storeByName N E, plat := E.plat, patches := [] }

end St4sd.Instance
