import St4sd.Model.Interp
/-!
# Array accesses inside interpolated texts (C04): `%(v)s[3]`, `%(v)s[%(i)s]`

Model of the part of `FlowIR.interpolate` (flowir.py, the two `while True` loops and `_expand_array_access`
on `'%s[%s]' % (value, index)`) that `Model/Interp.lean` leaves out: a text whose references may carry an
array index.  The text is read as a sequence of *occurrences* (`Seg`): constant text, a plain reference
`%(x)s`, a reference with a literal index `%(x)s[n]`, a reference whose index is the value of another
variable `%(x)s[%(y)s]`.  The code resolves the index variables first (pass 1: `[%(y)s]` -> `[value]`),
then, left to right, splices the value of ONE matched occurrence into the span of that occurrence
(pass 2): a plain occurrence is replaced by the (interpolated) value of the variable, an indexed one by the
`n`-th blank-separated word of that value.  `resolveSegs` is that law: every occurrence is replaced by its
own value, whatever stands before or behind it.

Restrictions (the model answers `unsupported`): the values of the variables are array-free (they are
resolved by `interp`), `[` occurs only as the index of a reference, no dotted names, the index variable
resolves to decimal digits, the spliced result contains neither `[` nor a new reference; `is_primitive`
is not modelled here (strict resolution).  An index beyond the last word is `keyError` (Python: IndexError).
-/
namespace St4sd.Tree
open St4sd.Str

inductive Idx where
  | lit (n : Nat)
  | var (y : S)
  deriving Repr, DecidableEq

inductive Seg where
  | text (t : S)
  | ref (x : S) (i : Option Idx)
  deriving Repr, DecidableEq

/-- `str.split()`: `cur` is the word being read (reversed) -/
def wordsAux : S → S → List S
  | cur, [] => if cur.isEmpty then [] else [cur.reverse]
  | cur, c :: t =>
    if isSpace c then (if cur.isEmpty then wordsAux [] t else cur.reverse :: wordsAux [] t)
    else wordsAux (c :: cur) t

def splitWords (s : S) : List S := wordsAux [] s

/-- the (interpolated) value of variable `x` as `interpolate` splices it -/
def varValue (f : Nat) (ctx : Fields) (x : S) : Except Err S :=
  match get ctx x with
  | none => .error (.unknownVariable x)
  | some (.str v) => interp f ctx false [] v
  | some (.int n) => .ok (intRepr n)
  | some (.bool b) => .ok (boolRepr b)
  | some (.flt r) => .ok r
  | some _ => .error .invalidVariable

def idxValue (f : Nat) (ctx : Fields) : Idx → Except Err Nat
  | .lit n => .ok n
  | .var y => match varValue f ctx y with
    | .error e => .error e
    | .ok v => match digitsToNat? v with
      | some n => .ok n
      | none => .error .unsupported

/-- what ONE occurrence is replaced by -/
def segValue (f : Nat) (ctx : Fields) : Seg → Except Err S
  | .text t => .ok t
  | .ref x none => varValue f ctx x
  | .ref x (some i) =>
    match idxValue f ctx i with
    | .error e => .error e
    | .ok n => match varValue f ctx x with
      | .error e => .error e
      | .ok v => match (splitWords v)[n]? with
        | some w => .ok w
        | none => .error .keyError

/-- the resolved text: the occurrences' own values, in order -/
def resolveSegs (f : Nat) (ctx : Fields) : List Seg → Except Err S
  | [] => .ok []
  | s :: r => match segValue f ctx s with
    | .error e => .error e
    | .ok a => match resolveSegs f ctx r with
      | .error e => .error e
      | .ok b => .ok (a ++ b)

def spanDigits : S → S × S
  | [] => ([], [])
  | c :: t => if isDigit c then ((spanDigits t).1.cons c, (spanDigits t).2) else ([], c :: t)

/-- `\[(\d+|%\(name\)s)\]` anchored at the head -/
def parseIdx : S → Option (Idx × S)
  | '[' :: t =>
    match matchRef t with
    | some (y, ']' :: rest) => some (.var y, rest)
    | some _ => none
    | none =>
      match spanDigits t with
      | ([], _) => none
      | (ds, ']' :: rest) => (digitsToNat? ds).map fun n => (.lit n, rest)
      | _ => none
  | _ => none

/-- the occurrences of a text (fuel: its length + 1); `none`: a shape outside the model -/
def parseSegs : Nat → S → Option (List Seg)
  | 0, _ => none
  | f + 1, s =>
    match findRef s with
    | none => if s.contains '[' then none else some [.text s]
    | some (pre, x, post) =>
      if pre.contains '[' || x.contains '.' then none else
      match post with
      | '[' :: _ =>
        match parseIdx post with
        | some (i, rest) => (parseSegs f rest).map fun r => .text pre :: .ref x (some i) :: r
        | none => none
      | _ => (parseSegs f post).map fun r => .text pre :: .ref x none :: r

/-- `FlowIR.interpolate(s, ctx)` for texts with array-indexed references -/
def interpA (f : Nat) (ctx : Fields) (s : S) : Except Err S :=
  match parseSegs (s.length + 1) s with
  | none => .error .unsupported
  | some segs =>
    match resolveSegs f ctx segs with
    | .error e => .error e
    | .ok r =>
      if r.contains '[' || (findRef r).isSome then .error .unsupported
      else if hasIncomplete r then .error .incomplete
      else .ok r

end St4sd.Tree
