import St4sd.Lemmas.C02e
/-! The stage loop (`Op.next`): what `run()` reported for the stages left behind (`runR`), and the
invariant `SInv` tying those reports to the FAILED components of earlier stages. -/
namespace St4sd.C02L
open St4sd.Ctrl

theorem foldR_fst (wf : Wf) (ops : List Op) :
    ∀ a : St × Reports, (ops.foldl (stepR wf) a).1 = ops.foldl (step wf) a.1 := by
  induction ops with
  | nil => intro a; rfl
  | cons op ops ih => intro a; simp only [List.foldl_cons]; rw [ih]; rfl

theorem runR_fst (wf : Wf) (ops : List Op) : (runR wf ops).1 = run wf ops := foldR_fst wf ops _

theorem verdict_jobFailure {wf : Wf} {s : St} {c : Nat} (hc : c < wf.n)
    (hst : (wf.cdef c).stage = s.cur) (hf : (s.comp c).ctrl = some .failed) :
    verdict wf s = .jobFailure := by
  have : ((comps wf).filter fun c => (wf.cdef c).stage == s.cur).any
      (fun c => (s.comp c).ctrl == some .failed) = true := by
    rw [List.any_eq_true]
    exact ⟨c, List.mem_filter.2 ⟨by simp [comps, hc], by simp [hst]⟩, by simp [hf]⟩
  simp only [verdict, this, if_true]

theorem failed_of_verdict {wf : Wf} {s : St} (h : verdict wf s = .jobFailure) :
    ∃ c, c < wf.n ∧ (wf.cdef c).stage = s.cur ∧ (s.comp c).ctrl = some .failed := by
  unfold verdict at h
  dsimp only at h
  split at h
  · rename_i hany
    rw [List.any_eq_true] at hany
    obtain ⟨c, hc, hf⟩ := hany
    obtain ⟨hc1, hc2⟩ := List.mem_filter.1 hc
    exact ⟨c, by simpa [comps] using hc1, by simpa using hc2, by simpa using hf⟩
  · split at h <;> cases h

theorem cur_of_noFinishedLeaf {wf : Wf} {s : St} (h : verdict wf s = .noFinishedLeaf) :
    s.cur = wf.lastStage := by
  unfold verdict at h
  dsimp only at h
  split at h
  · cases h
  · split at h
    · rename_i hc
      simp only [Bool.and_eq_true, beq_iff_eq] at hc
      exact hc.1
    · cases h

/-- invariant of the stage loop; `a = (state, reports)` -/
structure SInv (wf : Wf) (a : St × Reports) : Prop where
  /-- the stages left behind are complete: every component of theirs is in a final state -/
  before : ∀ c, c < wf.n → (wf.cdef c).stage < a.1.cur → (a.1.comp c).ctrl.isSome = true
  /-- a FAILED component of a stage left behind: that stage was reported as failed -/
  rep : ∀ c, c < wf.n → (wf.cdef c).stage < a.1.cur → (a.1.comp c).ctrl = some .failed →
      ((wf.cdef c).stage, Verdict.jobFailure) ∈ a.2
  /-- reports are about stages left behind -/
  lt : ∀ e ∈ a.2, e.1 < a.1.cur
  /-- a stage is reported as failed only if one of its components is FAILED -/
  sound : ∀ e ∈ a.2, e.2 = Verdict.jobFailure →
      ∃ c, c < wf.n ∧ (wf.cdef c).stage = e.1 ∧ (a.1.comp c).ctrl = some .failed
  /-- a stage without `continue-on-error` is left behind only after `run()` returned normally -/
  cont : ∀ e ∈ a.2, e.2 = Verdict.ok ∨ wf.contOnErr e.1 = true

theorem sinv_init (wf : Wf) : SInv wf (init, []) := by
  refine ⟨fun c _ h => ?_, fun c _ h => ?_, ?_, ?_, ?_⟩
  · simp [init] at h
  · simp [init] at h
  · intro e he; cases he
  · intro e he; cases he
  · intro e he; cases he

theorem stepR_sinv {wf : Wf} {a : St × Reports} (op : Op) (hI : Inv wf none a.1) (hS : SInv wf a) :
    SInv wf (stepR wf a op) := by
  by_cases hop : op = .next
  · subst hop
    by_cases hca : canAdvance wf a.1 = true
    · have hst : stepR wf a .next =
          ({ a.1 with cur := a.1.cur + 1, stop := false }, a.2 ++ [(a.1.cur, verdict wf a.1)]) := by
        simp [stepR, step, advance, hca]
      rw [hst]
      have hca' := hca
      simp only [canAdvance, Bool.and_eq_true, decide_eq_true_eq, Bool.or_eq_true, beq_iff_eq] at hca'
      obtain ⟨⟨hdone, _⟩, hv⟩ := hca'
      simp only [stageDone, comps, List.all_eq_true, List.mem_range, Bool.or_eq_true, bne_iff_ne, ne_eq] at hdone
      refine ⟨fun c hc h => ?_, fun c hc h hf => ?_, fun e he => ?_, fun e he hj => ?_, fun e he => ?_⟩
      · show (a.1.comp c).ctrl.isSome = true
        have h : (wf.cdef c).stage < a.1.cur + 1 := h
        by_cases e : (wf.cdef c).stage = a.1.cur
        · rcases hdone c hc with h1 | h1
          · exact absurd e h1
          · exact (hI.ci c).k8 h1
        · exact hS.before c hc (by omega)
      · have h : (wf.cdef c).stage < a.1.cur + 1 := h
        have hf : (a.1.comp c).ctrl = some .failed := hf
        show ((wf.cdef c).stage, Verdict.jobFailure) ∈ a.2 ++ [(a.1.cur, verdict wf a.1)]
        by_cases e : (wf.cdef c).stage = a.1.cur
        · rw [verdict_jobFailure hc e hf, e]
          exact List.mem_append_right _ (List.mem_singleton.2 rfl)
        · exact List.mem_append_left _ (hS.rep c hc (by omega) hf)
      · show e.1 < a.1.cur + 1
        rcases List.mem_append.1 he with he | he
        · exact Nat.lt_succ_of_lt (hS.lt e he)
        · simp only [List.mem_singleton] at he; subst he; exact Nat.lt_succ_self _
      · show ∃ c, c < wf.n ∧ (wf.cdef c).stage = e.1 ∧ (a.1.comp c).ctrl = some .failed
        rcases List.mem_append.1 he with he | he
        · exact hS.sound e he hj
        · simp only [List.mem_singleton] at he; subst he
          exact failed_of_verdict hj
      · rcases List.mem_append.1 he with he | he
        · exact hS.cont e he
        · simp only [List.mem_singleton] at he; subst he
          exact hv
    · have hst : stepR wf a .next = a := by
        have : canAdvance wf a.1 = false := by simpa using hca
        simp [stepR, step, advance, this]
      rw [hst]; exact hS
  · have hst : stepR wf a op = (step wf a.1 op, a.2) := by simp [stepR, hop]
    rw [hst]
    obtain ⟨_, hM⟩ := step_inv' op hop hI
    have hcur : (step wf a.1 op).cur = a.1.cur := hM.cur
    refine ⟨fun c hc h => ?_, fun c hc h hf => ?_, fun e he => ?_, fun e he hj => ?_, hS.cont⟩
    · have h : (wf.cdef c).stage < (step wf a.1 op).cur := h
      rw [hcur] at h
      have := hS.before c hc h
      cases hct : (a.1.comp c).ctrl with
      | none => simp [hct] at this
      | some f => show ((step wf a.1 op).comp c).ctrl.isSome = true; rw [hM.ctrl c f hct]; rfl
    · have h : (wf.cdef c).stage < (step wf a.1 op).cur := h
      rw [hcur] at h
      have hf : ((step wf a.1 op).comp c).ctrl = some .failed := hf
      have := hS.before c hc h
      cases hct : (a.1.comp c).ctrl with
      | none => simp [hct] at this
      | some f =>
        rw [hM.ctrl c f hct] at hf
        simp only [Option.some.injEq] at hf
        subst hf
        exact hS.rep c hc h hct
    · show e.1 < (step wf a.1 op).cur
      rw [hcur]; exact hS.lt e he
    · obtain ⟨c, hc, h1, h2⟩ := hS.sound e he hj
      exact ⟨c, hc, h1, hM.ctrl c _ h2⟩

theorem foldR_sinv {wf : Wf} (ops : List Op) :
    ∀ a : St × Reports, Inv wf none a.1 → SInv wf a → SInv wf (ops.foldl (stepR wf) a) := by
  induction ops with
  | nil => intro a _ h; exact h
  | cons op ops ih =>
    intro a hI hS
    exact ih _ (step_inv op hI).1 (stepR_sinv op hI hS)

theorem runR_sinv (wf : Wf) (ops : List Op) : SInv wf (runR wf ops) :=
  foldR_sinv ops _ (inv_init wf) (sinv_init wf)

end St4sd.C02L
