import St4sd.Model.ReplOver
/-!
# C03: helper lemmas about platform scopes and the `override.<platform>` block (`Model/ReplOver.lean`)
-/
namespace St4sd.C03
open St4sd.Repl St4sd.Str

theorem lookup_append (a b : Vars) (k : S) : lookup (a ++ b) k = (lookup a k).or (lookup b k) := by
  induction a with
  | nil => simp [lookup]
  | cons e a ih =>
    obtain ⟨k', v⟩ := e
    simp only [List.cons_append, lookup]
    split <;> simp [ih]

/-- a scope without the names another scope defines -/
theorem lookup_filter_undefined (ds pg : Vars) (k : S) :
    lookup (ds.filter fun kv => (lookup pg kv.1).isNone) k = if (lookup pg k).isNone then lookup ds k else none := by
  induction ds with
  | nil => simp [lookup]
  | cons e ds ih =>
    obtain ⟨k', v⟩ := e
    simp only [List.filter_cons]
    by_cases hk : (k' == k) = true
    · have hkk : k' = k := by simpa using hk
      subst hkk
      by_cases hp : (lookup pg k').isNone = true
      · simp [hp, lookup]
      · simp only [hp, lookup]
        simp only [Bool.false_eq_true, if_false] at *
        rw [ih]
        simp [hp]
    · by_cases hp : (lookup pg k').isNone = true
      · simp only [hp, if_true, lookup, hk, Bool.false_eq_true, if_false]
        exact ih
      · simp only [hp, Bool.false_eq_true, if_false, lookup, hk]
        exact ih

/-- `replace_strings` rewrites the values of a scope, never its keys -/
theorem lookup_mapvals (f : S → S) (v : Vars) (k : S) :
    lookup (v.map fun kv => (kv.1, f kv.2)) k = (lookup v k).map f := by
  induction v with
  | nil => simp [lookup]
  | cons e v ih =>
    obtain ⟨k', x⟩ := e
    simp only [List.map_cons, lookup]
    split <;> simp [ih]

/-- the repaired treatment of a `replica` the override block defines -/
theorem lookup_fixReplica (i : Nat) (v : Vars) (k : S) :
    lookup (v.map fun kv => if kv.1 == replicaKey then (kv.1, natToDigits i) else kv) k =
      if k == replicaKey then (lookup v k).map (fun _ => natToDigits i) else lookup v k := by
  induction v with
  | nil => simp [lookup]
  | cons e v ih =>
    obtain ⟨k', x⟩ := e
    simp only [List.map_cons]
    by_cases hr : (k' == replicaKey) = true
    · simp only [hr, if_true, lookup]
      by_cases hk : (k' == k) = true
      · have hkk : k' = k := by simpa using hk
        subst hkk
        simp [hr]
      · simp only [hk, Bool.false_eq_true, if_false]
        exact ih
    · simp only [hr, Bool.false_eq_true, if_false, lookup]
      by_cases hk : (k' == k) = true
      · have hkk : k' = k := by simpa using hk
        subst hkk
        simp [hr]
      · simp only [hk, Bool.false_eq_true, if_false]
        exact ih

/-- two blocks a reader cannot tell apart: same `references`, same command line, every variable name
resolves to the same value -/
def BlockEq (a b : TBlock) : Prop :=
  a.refs = b.refs ∧ a.args = b.args ∧ ∀ k, lookup a.vars k = lookup b.vars k

theorem BlockEq.rfl' (a : TBlock) : BlockEq a a := ⟨rfl, rfl, fun _ => rfl⟩

private theorem or_self_or {α : Type} (a b : Option α) : a.or (a.or b) = a.or b := by
  cases a <;> simp

/-- the block layered over (the rewriting of) what it was already layered into changes nothing -/
theorem readBack_layer (g : S → S) (base over : TBlock) :
    BlockEq (layerT ((layerT base over).map g) (over.map g)) ((layerT base over).map g) := by
  refine ⟨?_, ?_, ?_⟩
  · cases h : over.refs <;> simp [layerT, TBlock.map, h]
  · cases h : over.args <;> simp [layerT, TBlock.map, h]
  · intro k
    simp only [layerT, TBlock.map, override, lookup_append, lookup_mapvals, List.map_append]
    cases lookup over.vars k <;> simp

theorem readBack_layer_split (g : S → S) (base over : TBlock) :
    BlockEq (layerT (splitRefs ((layerT base over).map g)) (splitRefs (over.map g)))
      (splitRefs ((layerT base over).map g)) := by
  refine ⟨?_, ?_, ?_⟩
  · cases h : over.refs <;> simp [layerT, TBlock.map, splitRefs, h]
  · cases h : over.args <;> simp [layerT, TBlock.map, splitRefs, h]
  · exact (readBack_layer g base over).2.2

theorem readBack_layer_replica (g : S → S) (i : Nat) (base over : TBlock) :
    BlockEq (layerT (setReplica i ((layerT base over).map g)) (fixReplica i (over.map g)))
      (setReplica i ((layerT base over).map g)) := by
  refine ⟨?_, ?_, ?_⟩
  · cases h : over.refs <;> simp [layerT, TBlock.map, setReplica, fixReplica, h]
  · cases h : over.args <;> simp [layerT, TBlock.map, setReplica, fixReplica, h]
  · intro k
    simp only [layerT, TBlock.map, setReplica, fixReplica, copyVars, override, lookup_append, lookup_fixReplica,
      lookup_mapvals, List.map_append]
    by_cases hk : (k == replicaKey) = true
    · have hkk : k = replicaKey := by simpa using hk
      subst hkk
      simp only [BEq.rfl, if_true, lookup]
      cases lookup over.vars replicaKey <;> simp
    · have hk' : (replicaKey == k) = false := by
        cases h : (replicaKey == k)
        · rfl
        · exfalso
          apply hk
          have : replicaKey = k := by simpa using h
          simp [this]
      simp only [hk, Bool.false_eq_true, if_false, lookup, hk']
      cases lookup over.vars k <;> simp

theorem layerT_idem (base over : TBlock) : BlockEq (layerT (layerT base over) over) (layerT base over) := by
  refine ⟨?_, ?_, ?_⟩
  · cases h : over.refs <;> simp [layerT, h]
  · cases h : over.args <;> simp [layerT, h]
  · intro k
    simp only [layerT, override, lookup_append]
    cases lookup over.vars k <;> simp

end St4sd.C03
