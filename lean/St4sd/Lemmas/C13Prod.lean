import St4sd.Lemmas.C13
/-! Lemmas about the list of producers of the repeating-engine model (C13): which components have output
(`St.outs`) is exactly what the history says, a launch needs `canConsume`, the first launch sets `consume`. -/
namespace St4sd.Repeat

theorem run_append (cfg : Cfg) : ∀ (h1 h2 : List Op) (s : St),
    run cfg s (h1 ++ h2) = run cfg (run cfg s h1) h2 := by
  intro h1
  induction h1 with
  | nil => intro h2 s; rfl
  | cons op ops ih => intro h2 s; simp only [List.cons_append, run]; exact ih h2 _

theorem exec_snoc (cfg : Cfg) (h : List Op) (op : Op) : exec cfg (h ++ [op]) = step cfg (exec cfg h) op := by
  simp only [exec, run_append, run]

/-- one step changes the set of components with output only by the component of an `out` operation -/
theorem step_outs (cfg : Cfg) (s : St) (op : Op) :
    (step cfg s op).outs = s.outs ∨ ∃ c, op = .env (.out c) ∧ (step cfg s op).outs = c :: s.outs := by
  obtain ⟨clock, prodDone, finTime, suicide, armed, consume, retries, cancel, kc, hasProc, procKilled,
    lastLaunched, aged, hasOutput, lastOutput, outs, execLog, pc, cause, pollsFin, books, started⟩ := s
  rcases op with e | o
  · cases e <;> simp only [step, envStep, doKill] <;> (repeat' split) <;> simp
  · cases pc <;> simp only [step, engStep, post, doKill] <;> (repeat' split) <;> simp

/-- a component is recorded as having output only if the history contains its `out` (or it had before) -/
theorem outs_sound (cfg : Cfg) (c : Nat) : ∀ (h : List Op) (s : St),
    c ∈ (run cfg s h).outs → c ∈ s.outs ∨ Op.env (.out c) ∈ h := by
  intro h
  induction h with
  | nil => intro s hc; exact Or.inl hc
  | cons op ops ih =>
    intro s hc
    rcases ih _ hc with h1 | h1
    · rcases step_outs cfg s op with h2 | ⟨d, hd, h2⟩
      · rw [h2] at h1; exact Or.inl h1
      · rw [h2] at h1
        rcases List.mem_cons.mp h1 with h3 | h3
        · subst h3; subst hd; exact Or.inr (by simp)
        · exact Or.inl h3
    · exact Or.inr (List.mem_cons_of_mem _ h1)

/-- the step that launches (the execution log grows) is the `decide` sub-step of a poll with the `consume`
flag set or `canConsume` true at that moment -/
theorem launch_step (cfg : Cfg) (s : St) (op : Op) (hl : (step cfg s op).execLog ≠ s.execLog) :
    (s.consume || canConsume cfg s.outs) = true := by
  obtain ⟨clock, prodDone, finTime, suicide, armed, consume, retries, cancel, kc, hasProc, procKilled,
    lastLaunched, aged, hasOutput, lastOutput, outs, execLog, pc, cause, pollsFin, books, started⟩ := s
  rcases op with e | o
  · exfalso; revert hl
    cases e <;> simp only [step, envStep, doKill] <;> (repeat' split) <;> simp
  · revert hl
    cases pc <;> simp only [step, engStep, post, doKill] <;> (repeat' split) <;> simp_all

/-- E: there is no launch before the `consume` flag is set -/
def InvE (s : St) : Prop := s.execLog ≠ [] → s.consume = true

theorem invE_init (cfg : Cfg) : InvE (init cfg) := by simp [InvE, init]

theorem invE_step (cfg : Cfg) (s : St) (op : Op) (h : InvE s) : InvE (step cfg s op) := by
  obtain ⟨clock, prodDone, finTime, suicide, armed, consume, retries, cancel, kc, hasProc, procKilled,
    lastLaunched, aged, hasOutput, lastOutput, outs, execLog, pc, cause, pollsFin, books, started⟩ := s
  simp only [InvE] at h ⊢
  rcases op with e | o
  · cases e <;> simp only [step, envStep, doKill] <;> (repeat' split) <;> grind
  · cases pc <;> simp only [step, engStep, post, doKill] <;> (repeat' split) <;> grind

/-- `canConsume` spelled out -/
theorem canConsume_iff (cfg : Cfg) (outs : List Nat) :
    canConsume cfg outs = true ↔ ∀ p ∈ cfg.prods, p.same = true → p.id ∈ outs := by
  simp only [canConsume, List.all_eq_true, Bool.or_eq_true, Bool.not_eq_true', List.contains_iff_mem]
  constructor
  · intro h p hp hs
    rcases h p hp with h1 | h1
    · rw [hs] at h1; exact absurd h1 (by decide)
    · exact h1
  · intro h p hp
    cases hs : p.same
    · exact Or.inl rfl
    · exact Or.inr (h p hp hs)

/-- producers of other stages never block, nor does the order of the list matter: only the set of same-stage
components counts -/
theorem canConsume_no_same (cfg : Cfg) (outs : List Nat) (h : ∀ p ∈ cfg.prods, p.same = false) :
    canConsume cfg outs = true := by
  rw [canConsume_iff]
  intro p hp hs
  rw [h p hp] at hs
  exact absurd hs (by decide)

end St4sd.Repeat
