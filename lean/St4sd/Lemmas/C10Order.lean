import St4sd.Model.ArgSubst
import St4sd.Lemmas.C10Spell
/-!
# C10 — lemmas about the order of the loop instances of a placeholder (`looped_reference_to_paths`)

`iterOfId` reads the iteration number back from an instance id; `orderInstances` is a stable sort on it: its result is
a permutation of the input, sorted, and — the iteration numbers of the instances of one placeholder being distinct —
the SAME list whatever the order of the input.
-/
namespace St4sd.C10.Order
open St4sd.Str St4sd.ArgSubst St4sd.C10.Spell

private theorem not_mem_of_all_digits {c : Char} (hc : isDigit c = false) {s : S} (hs : s.all isDigit = true) : c ∉ s := by
  intro hm
  have := List.all_eq_true.mp hs c hm
  rw [hc] at this
  cases this

private theorem dot_not_in_stage (s : Nat) : '.' ∉ "stage".toList ++ natToDigits s := by
  intro hm
  rcases List.mem_append.mp hm with h | h
  · revert h; decide
  · exact not_mem_of_all_digits (by decide) (natToDigits_all s) h

/-- `int(id.split('.', 1)[1].split('#', 1)[0])` of the id of instance `i` is `i` (for every `i`: `int(str(i)) = i`) -/
theorem iterOfId_instId (s i : Nat) (name : S) : iterOfId (instId s i name) = i := by
  have h1 : splitFirst '.' (instId s i name) = some ("stage".toList ++ natToDigits s, natToDigits i ++ '#' :: name) := by
    have : instId s i name = ("stage".toList ++ natToDigits s) ++ '.' :: (natToDigits i ++ '#' :: name) := by
      simp [instId, stageText]
    rw [this]
    exact splitFirst_append '.' _ _ (dot_not_in_stage s)
  have h2 : splitFirst '#' (natToDigits i ++ '#' :: name) = some (natToDigits i, name) :=
    splitFirst_append '#' _ _ (not_mem_of_all_digits (by decide) (natToDigits_all i))
  simp [iterOfId, h1, h2, digitsToNat_natToDigits]

/-! ## the stable sort -/

abbrev LeIter {α : Type} (a b : S × α) : Prop := iterOfId a.1 ≤ iterOfId b.1

theorem insertInst_perm {α : Type} (a : S × α) : ∀ l : List (S × α), (insertInst a l).Perm (a :: l) := by
  intro l
  induction l with
  | nil => simp [insertInst]
  | cons b l ih =>
    simp only [insertInst]
    by_cases h : iterOfId b.1 < iterOfId a.1
    · simp only [h, if_true]
      exact (List.Perm.cons b ih).trans (List.Perm.swap a b l)
    · simp only [h, if_false]
      exact List.Perm.refl _

theorem orderInstances_perm {α : Type} : ∀ l : List (S × α), (orderInstances l).Perm l := by
  intro l
  induction l with
  | nil => simp [orderInstances]
  | cons a l ih => exact (insertInst_perm a _).trans (List.Perm.cons a ih)

theorem insertInst_sorted {α : Type} (a : S × α) : ∀ l : List (S × α), l.Pairwise LeIter →
    (insertInst a l).Pairwise LeIter := by
  intro l
  induction l with
  | nil => intro _; simp [insertInst]
  | cons b l ih =>
    intro h
    rw [List.pairwise_cons] at h
    simp only [insertInst]
    by_cases hlt : iterOfId b.1 < iterOfId a.1
    · simp only [hlt, if_true]
      refine List.pairwise_cons.mpr ⟨?_, ih h.2⟩
      intro x hx
      rcases List.mem_cons.mp ((insertInst_perm a l).subset hx) with e | e
      · subst e; exact Nat.le_of_lt hlt
      · exact h.1 x e
    · simp only [hlt, if_false]
      have hge : iterOfId a.1 ≤ iterOfId b.1 := Nat.le_of_not_lt hlt
      refine List.pairwise_cons.mpr ⟨?_, List.pairwise_cons.mpr h⟩
      intro x hx
      rcases List.mem_cons.mp hx with e | e
      · subst e; exact hge
      · exact Nat.le_trans hge (h.1 x e)

theorem orderInstances_sorted {α : Type} : ∀ l : List (S × α), (orderInstances l).Pairwise LeIter := by
  intro l
  induction l with
  | nil => simp [orderInstances]
  | cons a l ih => exact insertInst_sorted a _ ih

/-- the instances `0 … n-1` of one placeholder with their payloads, in iteration order -/
def instancesOf {α : Type} (s : Nat) (name : S) (f : Nat → α) (n : Nat) : List (S × α) :=
  (List.range n).map fun i => (instId s i name, f i)

theorem instancesOf_sorted {α : Type} (s : Nat) (name : S) (f : Nat → α) (n : Nat) :
    (instancesOf s name f n).Pairwise LeIter := by
  unfold instancesOf
  rw [List.pairwise_map]
  refine List.Pairwise.imp ?_ (List.pairwise_lt_range (n := n))
  intro a b hab
  simp only [LeIter, iterOfId_instId]
  omega

/-- sorted on the iteration number + a permutation of the instances `0 … n-1` = the instances in iteration order -/
theorem orderInstances_of_perm {α : Type} (s : Nat) (name : S) (f : Nat → α) (n : Nat) (l : List (S × α))
    (hp : l.Perm (instancesOf s name f n)) : orderInstances l = instancesOf s name f n := by
  have hperm : (orderInstances l).Perm (instancesOf s name f n) := (orderInstances_perm l).trans hp
  refine List.Perm.eq_of_pairwise (le := LeIter) ?_ (orderInstances_sorted l) (instancesOf_sorted s name f n) hperm
  intro a b ha hb hab hba
  have ha' := hperm.subset ha
  simp only [instancesOf, List.mem_map, List.mem_range] at ha' hb
  obtain ⟨i, _, ei⟩ := ha'
  obtain ⟨j, _, ej⟩ := hb
  subst ei; subst ej
  simp only [LeIter, iterOfId_instId] at hab hba
  have : i = j := by omega
  subst this
  rfl

end St4sd.C10.Order
