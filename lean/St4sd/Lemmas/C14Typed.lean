import St4sd.Model.FsAtomic
/-! Lemmas about typed stored values (`St4sd.TypedStore`): structural equality test, Python equality,
stores with and without a write-skipping optimisation. -/
namespace St4sd.TypedStore

mutual
theorem YVal.beq_refl : ∀ v : YVal, YVal.beq v v = true
  | .null => by simp [YVal.beq]
  | .bool _ => by simp [YVal.beq]
  | .int _ => by simp [YVal.beq]
  | .float _ _ => by simp [YVal.beq]
  | .fspec _ => by simp [YVal.beq]
  | .str _ => by simp [YVal.beq]
  | .seq l => by simp [YVal.beq, YList.beq_refl l]
  | .map l => by simp [YVal.beq, YList.beq_refl l]
theorem YList.beq_refl : ∀ l : YList, YList.beq l l = true
  | .nil => by simp [YList.beq]
  | .cons v t => by simp [YList.beq, YVal.beq_refl v, YList.beq_refl t]
end

mutual
theorem YVal.eq_of_beq : ∀ a b : YVal, YVal.beq a b = true → a = b
  | .null, b => by cases b <;> simp [YVal.beq]
  | .bool _, b => by cases b <;> simp [YVal.beq]
  | .int _, b => by cases b <;> simp [YVal.beq]
  | .float _ _, b => by cases b <;> simp [YVal.beq]
  | .fspec _, b => by cases b <;> simp [YVal.beq]
  | .str _, b => by cases b <;> simp [YVal.beq]
  | .seq l, b => by
    cases b <;> simp [YVal.beq]
    exact YList.eq_of_beq l _
  | .map l, b => by
    cases b <;> simp [YVal.beq]
    exact YList.eq_of_beq l _
theorem YList.eq_of_beq : ∀ a b : YList, YList.beq a b = true → a = b
  | .nil, b => by cases b <;> simp [YList.beq]
  | .cons v t, b => by
    cases b with
    | nil => simp [YList.beq]
    | cons w u =>
      simp [YList.beq]
      intro h1 h2
      exact ⟨YVal.eq_of_beq v w h1, YList.eq_of_beq t u h2⟩
end

theorem YVal.beq_iff (a b : YVal) : YVal.beq a b = true ↔ a = b :=
  ⟨YVal.eq_of_beq a b, fun h => h ▸ YVal.beq_refl a⟩

instance : DecidableEq YVal := fun a b =>
  if h : YVal.beq a b = true then isTrue ((YVal.beq_iff a b).1 h)
  else isFalse (fun e => h ((YVal.beq_iff a b).2 e))

theorem numEq_refl (x : Sum (Int × Nat) Bool) : numEq x x = true := by
  rcases x with ⟨m, e⟩ | b <;> simp [numEq]

mutual
theorem pyEq_refl : ∀ v : YVal, pyEq v v = true
  | .null => by simp [pyEq]
  | .bool b => by cases b <;> simp [pyEq, numOf, numEq]
  | .int _ => by simp [pyEq, numOf, numEq]
  | .float _ _ => by simp [pyEq, numOf, numEq]
  | .fspec 0 => by simp [pyEq, numOf, numEq]
  | .fspec 1 => by simp [pyEq, numOf, numEq]
  | .fspec (_ + 2) => by simp [pyEq, numOf, numEq]
  | .str _ => by simp [pyEq]
  | .seq l => by simp [pyEq, pyEqL_refl l]
  | .map l => by simp [pyEq, pyEqL_refl l]
theorem pyEqL_refl : ∀ l : YList, pyEqL l l = true
  | .nil => by simp [pyEqL]
  | .cons v t => by simp [pyEqL, pyEq_refl v, pyEqL_refl t]
end

theorem runStore_append (w : Stored → YVal → Stored) (init : Stored) (h : List YVal) (v : YVal) :
    runStore w init (h ++ [v]) = w (runStore w init h) v := by
  simp [runStore, List.foldl_append]

end St4sd.TypedStore
