import St4sd.Model.Ctrl
/-!
# C01 — invariants of the stage-controller model and their preservation

Helper lemmas for `St4sd/Props/C01.lean`.  The state invariant is `Inv`:

* `Core`  — per-component facts (`ctrl.isSome → finishCalled ∧ exit.isSome`,
            `pendingFinal.isSome → finishCalled`), `done c → ctrl.isSome`, `fin c` queued → `ctrl.isSome`;
* every log entry is `EntryOk` (the launch rules);
* every component with `ran = true` has a log entry.

`Ext s s'` is the two-state relation "final states are kept, staged only grows, log and `ran`
untouched", which every operation except the launches of a scheduler pass satisfies.
-/
namespace St4sd.C01L
open St4sd.Ctrl

/-! ## projections of `upd` / `push` -/

@[simp] theorem upd_comp (s : St) (c : Nat) (f : CompS → CompS) (j : Nat) :
    (s.upd c f).comp j = if j = c then f (s.comp j) else s.comp j := rfl
@[simp] theorem upd_done (s : St) (c : Nat) (f : CompS → CompS) : (s.upd c f).done = s.done := rfl
@[simp] theorem upd_pending (s : St) (c : Nat) (f : CompS → CompS) : (s.upd c f).pending = s.pending := rfl
@[simp] theorem upd_log (s : St) (c : Nat) (f : CompS → CompS) : (s.upd c f).log = s.log := rfl
@[simp] theorem upd_stop (s : St) (c : Nat) (f : CompS → CompS) : (s.upd c f).stop = s.stop := rfl
@[simp] theorem upd_cur (s : St) (c : Nat) (f : CompS → CompS) : (s.upd c f).cur = s.cur := rfl
@[simp] theorem push_comp (s : St) (n : Notif) : (s.push n).comp = s.comp := rfl
@[simp] theorem push_done (s : St) (n : Notif) : (s.push n).done = s.done := rfl
@[simp] theorem push_pending (s : St) (n : Notif) : (s.push n).pending = s.pending ++ [n] := rfl
@[simp] theorem push_log (s : St) (n : Notif) : (s.push n).log = s.log := rfl
@[simp] theorem push_stop (s : St) (n : Notif) : (s.push n).stop = s.stop := rfl
@[simp] theorem push_cur (s : St) (n : Notif) : (s.push n).cur = s.cur := rfl

/-! ## the invariants -/

structure Good (cs : CompS) : Prop where
  fc : cs.ctrl.isSome = true → cs.finishCalled = true
  ex : cs.ctrl.isSome = true → cs.exit.isSome = true
  pf : cs.pendingFinal.isSome = true → cs.finishCalled = true

structure Core (s : St) : Prop where
  good : ∀ c, Good (s.comp c)
  done : ∀ c, s.done c = true → (s.comp c).ctrl.isSome = true
  pend : ∀ c, Notif.fin c ∈ s.pending → (s.comp c).ctrl.isSome = true

structure Ext (s s' : St) : Prop where
  ctrl : ∀ c f, (s.comp c).ctrl = some f → (s'.comp c).ctrl = some f
  staged : ∀ c, (s.comp c).staged = true → (s'.comp c).staged = true
  log : s'.log = s.log
  ran : ∀ c, (s'.comp c).ran = (s.comp c).ran

theorem Ext.refl (s : St) : Ext s s := ⟨fun _ _ h => h, fun _ h => h, rfl, fun _ => rfl⟩

theorem Ext.trans {a b c : St} (h1 : Ext a b) (h2 : Ext b c) : Ext a c :=
  ⟨fun j f h => h2.ctrl j f (h1.ctrl j f h), fun j h => h2.staged j (h1.staged j h),
   h2.log.trans h1.log, fun j => (h2.ran j).trans (h1.ran j)⟩

theorem Ext.isSome {s s' : St} (h : Ext s s') (c : Nat) (hs : (s.comp c).ctrl.isSome = true) :
    (s'.comp c).ctrl.isSome = true := by
  cases hc : (s.comp c).ctrl with
  | none => simp [hc] at hs
  | some f => simp [h.ctrl c f hc]

theorem Core.ctrl_none_of_not_fc {s : St} (h : Core s) (c : Nat) (hf : (s.comp c).finishCalled = false) :
    (s.comp c).ctrl = none := by
  cases hc : (s.comp c).ctrl with
  | none => rfl
  | some f => have := (h.good c).fc (by simp [hc]); simp [hf] at this

/-- update of one component -/
theorem upd_spec {s : St} (hc : Core s) (c : Nat) (f : CompS → CompS)
    (hg : Good (f (s.comp c)))
    (h1 : ∀ f', (s.comp c).ctrl = some f' → (f (s.comp c)).ctrl = some f')
    (h2 : (s.comp c).staged = true → (f (s.comp c)).staged = true)
    (h3 : (f (s.comp c)).ran = (s.comp c).ran) :
    Core (s.upd c f) ∧ Ext s (s.upd c f) := by
  have hE : Ext s (s.upd c f) := by
    refine ⟨fun j f' hj => ?_, fun j hj => ?_, rfl, fun j => ?_⟩
    · simp only [upd_comp]; split
      · next e => subst e; exact h1 f' hj
      · exact hj
    · simp only [upd_comp]; split
      · next e => subst e; exact h2 hj
      · exact hj
    · simp only [upd_comp]; split
      · next e => subst e; exact h3
      · rfl
  refine ⟨⟨fun j => ?_, fun j hj => ?_, fun j hj => ?_⟩, hE⟩
  · simp only [upd_comp]; split
    · next e => subst e; exact hg
    · exact hc.good j
  · exact hE.isSome j (hc.done j hj)
  · exact hE.isSome j (hc.pend j hj)

theorem push_fin_spec {s s' : St} (h : Core s' ∧ Ext s s') (c : Nat)
    (hs : (s'.comp c).ctrl.isSome = true) :
    Core (s'.push (.fin c)) ∧ Ext s (s'.push (.fin c)) := by
  refine ⟨⟨h.1.good, h.1.done, fun j hj => ?_⟩, ⟨h.2.ctrl, h.2.staged, h.2.log, h.2.ran⟩⟩
  simp only [push_pending, List.mem_append, List.mem_singleton] at hj
  rcases hj with hj | hj
  · exact h.1.pend j hj
  · cases hj; exact hs

theorem push_pm_spec {s s' : St} (h : Core s' ∧ Ext s s') (c : Nat) :
    Core (s'.push (.pm c)) ∧ Ext s (s'.push (.pm c)) := by
  refine ⟨⟨h.1.good, h.1.done, fun j hj => ?_⟩, ⟨h.2.ctrl, h.2.staged, h.2.log, h.2.ran⟩⟩
  simp only [push_pending, List.mem_append, List.mem_singleton] at hj
  rcases hj with hj | hj
  · exact h.1.pend j hj
  · cases hj

theorem foldl_pres {α : Type} (f : St → α → St)
    (hf : ∀ s x, Core s → Core (f s x) ∧ Ext s (f s x)) :
    ∀ (l : List α) (s : St), Core s → Core (l.foldl f s) ∧ Ext s (l.foldl f s) := by
  intro l
  induction l with
  | nil => intro s h; exact ⟨h, Ext.refl s⟩
  | cons x xs ih =>
    intro s h
    have h1 := hf s x h
    have h2 := ih (f s x) h1.1
    exact ⟨h2.1, h1.2.trans h2.2⟩

/-! ## `finish`, `fakeFinish` -/

theorem finish_spec {s : St} (hc : Core s) (c : Nat) (st : Fin3) (hn : (s.comp c).ctrl = none) :
    Core (finish s c st) ∧ Ext s (finish s c st) := by
  have hg := hc.good c
  simp only [finish, hn, Option.isSome_none, Bool.false_eq_true, if_false]
  by_cases he : (s.comp c).exit.isSome = true
  · simp only [he, if_true]
    have h := upd_spec hc c (fun x => { x with finishCalled := true, ctrl := some st })
      ⟨by simp, by simp [he], by simp⟩ (by simp [hn]) (by simp) (by simp)
    by_cases hs : (s.comp c).staged = true
    · simp only [hs, if_true]; exact push_fin_spec h c (by simp)
    · simp only [hs]; exact h
  · simp only [he]
    by_cases hr : (s.comp c).ran = true
    · simp only [hr, if_true]
      exact upd_spec hc c (fun x => { x with finishCalled := true, pendingFinal := some st })
        ⟨by simp [hn], by simp [hn], by simp⟩ (by simp [hn]) (by simp) (by simp)
    · simp only [hr]
      have h := upd_spec hc c (fun x => { x with finishCalled := true, ctrl := some st, exit := some .killed })
        ⟨by simp, by simp, by simp⟩ (by simp [hn]) (by simp) (by simp)
      by_cases hs : (s.comp c).staged = true
      · simp only [hs, if_true]; exact push_fin_spec h c (by simp)
      · simp only [hs]; exact h

theorem finish_other (s : St) (c : Nat) (st : Fin3) (j : Nat) (hj : j ≠ c) :
    ((finish s c st).comp j) = s.comp j := by
  simp only [finish]
  split
  · simp [hj]
  · split
    · split <;> simp [hj]
    · split
      · simp [hj]
      · split <;> simp [hj]

theorem finish_done (s : St) (c : Nat) (st : Fin3) : (finish s c st).done = s.done := by
  simp only [finish]
  split
  · simp
  · split
    · split <;> simp
    · split
      · simp
      · split <;> simp

theorem finish_staged (s : St) (c : Nat) (st : Fin3) (j : Nat) :
    ((finish s c st).comp j).staged = (s.comp j).staged := by
  simp only [finish]
  split
  · simp only [upd_comp]; split <;> rfl
  · split
    · split <;> (simp only [upd_comp, push_comp]; split <;> rfl)
    · split
      · simp only [upd_comp]; split <;> rfl
      · split <;> (simp only [upd_comp, push_comp]; split <;> rfl)

theorem stageIn_spec (wf : Wf) {s : St} (hc : Core s) (c : Nat) :
    Core (stageIn wf s c) ∧ Ext s (stageIn wf s c) :=
  upd_spec hc c _ ⟨(hc.good c).fc, (hc.good c).ex, (hc.good c).pf⟩ (fun _ h => h) (fun _ => rfl) rfl

/-- `comp_staged_in.add(component)` of `_fake_finish_with_state` -/
theorem markStaged_spec {s : St} (hc : Core s) (c : Nat) :
    Core (s.upd c fun x => { x with staged := true }) ∧ Ext s (s.upd c fun x => { x with staged := true }) :=
  upd_spec hc c _ ⟨(hc.good c).fc, (hc.good c).ex, (hc.good c).pf⟩ (fun _ h => h) (fun _ => rfl) rfl

theorem fakeFinish_spec {s : St} (hc : Core s) (c : Nat) (st : Fin3) (hn : (s.comp c).ctrl = none) :
    Core (fakeFinish s c st) ∧ Ext s (fakeFinish s c st) := by
  have h1 := markStaged_spec hc c
  have h2 := finish_spec h1.1 c st (by simp [hn])
  exact ⟨h2.1, h1.2.trans h2.2⟩

theorem fakeFinish_other (s : St) (c : Nat) (st : Fin3) (j : Nat) (hj : j ≠ c) :
    ((fakeFinish s c st).comp j) = s.comp j := by
  unfold fakeFinish
  rw [finish_other _ _ _ _ hj]; simp [hj]

theorem fakeFinish_done (s : St) (c : Nat) (st : Fin3) : (fakeFinish s c st).done = s.done := by
  unfold fakeFinish; rw [finish_done]; rfl

/-! ## `killAll`, `stopStage`, `taskExit`, `deliverPM`, `deliverFin` -/

theorem killAll_spec (wf : Wf) {s : St} (hc : Core s) :
    Core (killAll wf s) ∧ Ext s (killAll wf s) := by
  unfold killAll
  have h0 : Core { s with stop := true } := ⟨hc.good, hc.done, hc.pend⟩
  have h1 : Ext s { s with stop := true } := ⟨fun _ _ h => h, fun _ h => h, rfl, fun _ => rfl⟩
  have h2 := foldl_pres _ (fun s c (hs : Core s) => by
    show Core (if !(s.comp c).finishCalled && (s.comp c).ctrl.isNone then
        if (s.comp c).staged then finish s c .shutdown else fakeFinish s c .shutdown
      else s) ∧ Ext s _
    split
    · next h =>
      simp only [Bool.and_eq_true, Option.isNone_iff_eq_none] at h
      split
      · exact finish_spec hs c _ h.2
      · exact fakeFinish_spec hs c _ h.2
    · exact ⟨hs, Ext.refl s⟩) wf.order _ h0
  exact ⟨h2.1, h1.trans h2.2⟩

theorem stopComponents_spec (wf : Wf) {s : St} (hc : Core s) (k : Nat) :
    Core (stopComponents wf s k) ∧ Ext s (stopComponents wf s k) := by
  unfold stopComponents
  exact foldl_pres _ (fun s c (hs : Core s) => by
    show Core (if (s.comp c).ctrl.isNone && !(s.comp c).finishCalled then finish s c .shutdown else s) ∧ Ext s _
    split
    · next h =>
      simp only [Bool.and_eq_true, Option.isNone_iff_eq_none] at h
      exact finish_spec hs c _ h.1
    · exact ⟨hs, Ext.refl s⟩) (inStage wf k) s hc

theorem stopStage_spec (wf : Wf) {s : St} (hc : Core s) (k : Nat) :
    Core (stopStage wf s k) ∧ Ext s (stopStage wf s k) := by
  unfold stopStage
  have h1 := foldl_pres _ (fun s c (hs : Core s) => by
    show Core (if !(s.comp c).staged && !(s.comp c).finishCalled then fakeFinish s c .shutdown else s) ∧ Ext s _
    split
    · next h =>
      simp only [Bool.and_eq_true, Bool.not_eq_true'] at h
      exact fakeFinish_spec hs c _ (hs.ctrl_none_of_not_fc c h.2)
    · exact ⟨hs, Ext.refl s⟩) (inStage wf k) s hc
  have h2 := foldl_pres _ (fun s c (hs : Core s) => by
    show Core (if (s.comp c).ctrl.isNone && !(s.comp c).finishCalled then finish s c .shutdown else s) ∧ Ext s _
    split
    · next h =>
      simp only [Bool.and_eq_true, Option.isNone_iff_eq_none] at h
      exact finish_spec hs c _ h.1
    · exact ⟨hs, Ext.refl s⟩) (inStage wf k) _ h1.1
  exact ⟨h2.1, h1.2.trans h2.2⟩

theorem taskExitCore_spec (wf : Wf) {s : St} (hc : Core s) (c : Nat) :
    Core (taskExitCore wf s c) ∧ Ext s (taskExitCore wf s c) := by
  have hg := hc.good c
  simp only [taskExitCore]
  split
  · next hre =>
    simp only [Bool.and_eq_true, Option.isNone_iff_eq_none] at hre
    have hcn : (s.comp c).ctrl = none := by
      cases hx : (s.comp c).ctrl with
      | none => rfl
      | some f => have := hg.ex (by simp [hx]); simp [hre.2] at this
    split
    · next st hpf =>
      have h := upd_spec hc c (fun _ => { (s.comp c) with
          exit := some ((wf.cdef c).script.getD (s.comp c).execs .success),
          execs := (s.comp c).execs + 1,
          resub := if (wf.cdef c).script.getD (s.comp c).execs .success = .success then 0 else (s.comp c).resub,
          ctrl := some st, pendingFinal := none })
        ⟨fun _ => hg.pf (by simp [hpf]), by simp, by simp⟩ (by simp [hcn]) (by simp) (by simp)
      split
      · exact push_fin_spec h c (by simp)
      · exact h
    · next hpf =>
      have h := upd_spec hc c (fun _ => { (s.comp c) with
          exit := some ((wf.cdef c).script.getD (s.comp c).execs .success),
          execs := (s.comp c).execs + 1,
          resub := if (wf.cdef c).script.getD (s.comp c).execs .success = .success then 0 else (s.comp c).resub })
        ⟨hg.fc, by simp, hg.pf⟩ (by simp) (by simp) (by simp)
      split
      · exact h
      · exact push_pm_spec h c
  · exact ⟨hc, Ext.refl s⟩

theorem taskExit_spec (wf : Wf) {s : St} (hc : Core s) (c : Nat) :
    Core (taskExit wf s c) ∧ Ext s (taskExit wf s c) := by
  unfold taskExit
  split
  · exact taskExitCore_spec wf hc c
  · exact ⟨hc, Ext.refl s⟩

theorem erase_spec {s : St} (hc : Core s) (n : Notif) :
    Core { s with pending := s.pending.erase n } ∧ Ext s { s with pending := s.pending.erase n } :=
  ⟨⟨hc.good, hc.done, fun c h => hc.pend c (List.mem_of_mem_erase h)⟩,
   ⟨fun _ _ h => h, fun _ h => h, rfl, fun _ => rfl⟩⟩

theorem deliverPM_spec (wf : Wf) {s : St} (hc : Core s) (c : Nat) :
    Core (deliverPM wf s c) ∧ Ext s (deliverPM wf s c) := by
  have h0 := erase_spec hc (Notif.pm c)
  simp only [deliverPM]
  split
  · split
    · exact h0
    · next hfc =>
      simp only [Bool.not_eq_true] at hfc
      have hcn : (s.comp c).ctrl = none := hc.ctrl_none_of_not_fc c hfc
      have hg := hc.good c
      split
      · exact h0
      · next r hr =>
        split
        · have h := upd_spec h0.1 c (fun x => { x with
              exit := none, launches := x.launches + 1,
              restarts := if r = .submissionFailed then x.restarts else x.restarts + 1,
              resub := if r = .submissionFailed then x.resub + 1 else x.resub })
            ⟨by simp [hcn], by simp [hcn], hg.pf⟩ (by simp) (by simp) (by simp)
          exact ⟨h.1, h0.2.trans h.2⟩
        · have h := finish_spec h0.1 c (finalOf (wf.cdef c) r) hcn
          exact ⟨h.1, h0.2.trans h.2⟩
  · exact ⟨hc, Ext.refl s⟩

theorem setDone_spec {s : St} (hc : Core s) (c : Nat) (hs : (s.comp c).ctrl.isSome = true) :
    Core { s with done := fun j => decide (j = c) || s.done j } ∧
    Ext s { s with done := fun j => decide (j = c) || s.done j } := by
  refine ⟨⟨hc.good, fun j hj => ?_, hc.pend⟩, ⟨fun _ _ h => h, fun _ h => h, rfl, fun _ => rfl⟩⟩
  simp only [Bool.or_eq_true, decide_eq_true_eq] at hj
  rcases hj with hj | hj
  · subst hj; exact hs
  · exact hc.done j hj

theorem deliverFin_mid (wf : Wf) {s : St} (hc : Core s) (c : Nat) :
    Core (if (s.comp c).ctrl = some .failed then
        if (wf.cdef c).stage > s.cur then killAll wf s else stopStage wf s (wf.cdef c).stage
      else s) ∧
    Ext s (if (s.comp c).ctrl = some .failed then
        if (wf.cdef c).stage > s.cur then killAll wf s else stopStage wf s (wf.cdef c).stage
      else s) := by
  split
  · split
    · exact killAll_spec wf hc
    · exact stopStage_spec wf hc _
  · exact ⟨hc, Ext.refl s⟩

theorem deliverFin_spec (wf : Wf) {s : St} (hc : Core s) (c : Nat) :
    Core (deliverFin wf s c) ∧ Ext s (deliverFin wf s c) := by
  unfold deliverFin
  split
  · next hm =>
    have h0 := erase_spec hc (Notif.fin c)
    have h1 := deliverFin_mid wf h0.1 c
    have h2 := setDone_spec h1.1 c (h1.2.isSome c (h0.2.isSome c (hc.pend c hm)))
    exact ⟨h2.1, h0.2.trans (h1.2.trans h2.2)⟩
  · exact ⟨hc, Ext.refl s⟩

/-! ## the scheduler pass -/

structure EntryOk (wf : Wf) (e : Nat × List (Nat × View)) : Prop where
  preds : e.2.map Prod.fst = (wf.cdef e.1).preds
  final : ∀ pv ∈ e.2, pv.2.state.isSome = true ∨
      ((wf.cdef e.1).isRepeat = true ∧ (wf.cdef pv.1).stage = (wf.cdef e.1).stage ∧ pv.2.staged = true)
  nofail : ∀ pv ∈ e.2, pv.2.state ≠ some .failed
  nonagg : (wf.cdef e.1).isAgg = false → ∀ pv ∈ e.2, pv.2.state ≠ some .shutdown
  agg1 : (wf.cdef e.1).isAgg = true → ∀ pv ∈ e.2, (wf.cdef pv.1).isRepl = false → pv.2.state ≠ some .shutdown
  agg2 : (wf.cdef e.1).isAgg = true → (∃ pv ∈ e.2, (wf.cdef pv.1).isRepl = true) →
      ∃ pv ∈ e.2, (wf.cdef pv.1).isRepl = true ∧ pv.2.state ≠ some .shutdown

structure Inv (wf : Wf) (s : St) : Prop where
  core : Core s
  log : ∀ e ∈ s.log, EntryOk wf e
  ran : ∀ c, (s.comp c).ran = true → ∃ e ∈ s.log, e.1 = c

theorem Inv.of_ext {wf : Wf} {s s' : St} (h : Inv wf s) (hc : Core s') (he : Ext s s') : Inv wf s' :=
  ⟨hc, by rw [he.log]; exact h.log, fun c hr => by rw [he.log]; exact h.ran c (by rw [← he.ran c]; exact hr)⟩

/-- what the scheduler established about a component it put on the ready list -/
structure ReadyP (wf : Wf) (s : St) (c : Nat) : Prop where
  deps : ∀ p ∈ (wf.cdef c).preds, s.done p = true ∨
      ((wf.cdef c).isRepeat = true ∧ (wf.cdef p).stage = (wf.cdef c).stage ∧ (s.comp p).staged = true)
  nofail : ∀ p ∈ (wf.cdef c).preds, (s.comp p).ctrl ≠ some .failed
  nonagg : (wf.cdef c).isAgg = false → ∀ p ∈ (wf.cdef c).preds, (s.comp p).ctrl ≠ some .shutdown
  agg1 : (wf.cdef c).isAgg = true → ∀ p ∈ (wf.cdef c).preds, (wf.cdef p).isRepl = false →
      (s.comp p).ctrl ≠ some .shutdown
  agg2 : (wf.cdef c).isAgg = true → (∃ p ∈ (wf.cdef c).preds, (wf.cdef p).isRepl = true) →
      ∃ p ∈ (wf.cdef c).preds, (wf.cdef p).isRepl = true ∧ (s.comp p).ctrl ≠ some .shutdown

/-- the part of the state a ready component depends on is untouched -/
structure Frame (s s' : St) : Prop where
  done : s'.done = s.done
  ctrl : ∀ p, (s.done p = true ∨ (s.comp p).staged = true) → (s'.comp p).ctrl = (s.comp p).ctrl
  staged : ∀ p, (s.comp p).staged = true → (s'.comp p).staged = true

theorem Frame.refl (s : St) : Frame s s := ⟨rfl, fun _ _ => rfl, fun _ h => h⟩

theorem Frame.trans {a b c : St} (h1 : Frame a b) (h2 : Frame b c) : Frame a c := by
  refine ⟨h2.done.trans h1.done, fun p hp => ?_, fun p hp => h2.staged p (h1.staged p hp)⟩
  rw [h2.ctrl p, h1.ctrl p hp]
  rcases hp with hp | hp
  · left; rw [h1.done]; exact hp
  · right; exact h1.staged p hp

theorem ReadyP.frame {wf : Wf} {s s' : St} {c : Nat} (h : ReadyP wf s c) (hf : Frame s s') :
    ReadyP wf s' c := by
  have key : ∀ p ∈ (wf.cdef c).preds, (s'.comp p).ctrl = (s.comp p).ctrl := by
    intro p hp
    apply hf.ctrl
    rcases h.deps p hp with h1 | h1
    · exact Or.inl h1
    · exact Or.inr h1.2.2
  refine ⟨fun p hp => ?_, fun p hp => ?_, fun ha p hp => ?_, fun ha p hp hr => ?_, fun ha hex => ?_⟩
  · rcases h.deps p hp with h1 | h1
    · left; rw [hf.done]; exact h1
    · right; exact ⟨h1.1, h1.2.1, hf.staged p h1.2.2⟩
  · rw [key p hp]; exact h.nofail p hp
  · rw [key p hp]; exact h.nonagg ha p hp
  · rw [key p hp]; exact h.agg1 ha p hp hr
  · obtain ⟨p, hp, hr, hn⟩ := h.agg2 ha hex
    exact ⟨p, hp, hr, by rw [key p hp]; exact hn⟩

theorem readyP_of (wf : Wf) (s : St) (c : Nat) (hd : depsSatisfied wf s c = true)
    (hm : mustShutdown wf s c = false) : ReadyP wf s c := by
  simp only [depsSatisfied, List.all_eq_true, Bool.or_eq_true, Bool.and_eq_true, beq_iff_eq] at hd
  simp [mustShutdown, predState] at hm
  obtain ⟨h1, h2⟩ := hm
  refine ⟨fun p hp => ?_, h1, fun ha => ?_, fun ha => ?_, fun ha hex => ?_⟩
  · rcases hd p hp with h | h
    · exact Or.inl h
    · exact Or.inr ⟨h.1.1, h.1.2, h.2⟩
  · rw [if_neg (by simp [ha])] at h2; exact h2
  · rw [if_pos ha] at h2; exact h2.1
  · rw [if_pos ha] at h2
    obtain ⟨p, hp, hr⟩ := hex
    exact h2.2 p hp hr

theorem entryOk_of (wf : Wf) {s : St} (hc : Core s) (c : Nat) (h : ReadyP wf s c) :
    EntryOk wf (c, (wf.cdef c).preds.map (viewOf s)) := by
  refine ⟨?_, ?_, ?_, ?_, ?_, ?_⟩
  · simp only [List.map_map]
    exact List.map_id'' (fun _ => rfl) _
  · intro pv hpv
    obtain ⟨p, hp, rfl⟩ := List.mem_map.mp hpv
    rcases h.deps p hp with h1 | h1
    · exact Or.inl (hc.done p h1)
    · exact Or.inr h1
  · intro pv hpv
    obtain ⟨p, hp, rfl⟩ := List.mem_map.mp hpv
    exact h.nofail p hp
  · intro ha pv hpv
    obtain ⟨p, hp, rfl⟩ := List.mem_map.mp hpv
    exact h.nonagg ha p hp
  · intro ha pv hpv hr
    obtain ⟨p, hp, rfl⟩ := List.mem_map.mp hpv
    exact h.agg1 ha p hp hr
  · intro ha hex
    obtain ⟨pv, hpv, hr⟩ := hex
    obtain ⟨p, hp, rfl⟩ := List.mem_map.mp hpv
    obtain ⟨q, hq, hqr, hqn⟩ := h.agg2 ha ⟨p, hp, hr⟩
    exact ⟨viewOf s q, List.mem_map.mpr ⟨q, hq, rfl⟩, hqr, hqn⟩

/-! ### first phase: the `visit` fold -/

theorem fakeFinish_frame (s : St) (c : Nat) (st : Fin3) (hd : s.done c = false)
    (hs : (s.comp c).staged = false) : Frame s (fakeFinish s c st) := by
  refine ⟨fakeFinish_done s c st, fun p hp => ?_, fun p hp => ?_⟩
  · have hne : p ≠ c := by
      rintro rfl
      rcases hp with hp | hp
      · rw [hd] at hp; cases hp
      · rw [hs] at hp; cases hp
    rw [fakeFinish_other s c st p hne]
  · have hne : p ≠ c := by
      rintro rfl
      rw [hs] at hp; cases hp
    rw [fakeFinish_other s c st p hne]; exact hp

structure VInv (wf : Wf) (s0 : St) (acc : St × List Nat) : Prop where
  core : Core acc.1
  ext : Ext s0 acc.1
  ready : ∀ c ∈ acc.2, ReadyP wf acc.1 c

theorem visit_vinv (wf : Wf) (s0 : St) (acc : St × List Nat) (c : Nat) (h : VInv wf s0 acc) :
    VInv wf s0 (visit wf acc c) := by
  unfold visit
  split
  · next he =>
    simp only [eligible, Bool.and_eq_true, Bool.not_eq_true', Option.isNone_iff_eq_none] at he
    obtain ⟨⟨⟨hd, hcn⟩, hs⟩, hdeps⟩ := he
    split
    · have h1 := fakeFinish_spec h.core c .shutdown hcn
      have hf := fakeFinish_frame acc.1 c .shutdown hd hs
      exact ⟨h1.1, h.ext.trans h1.2, fun c' hc' => (h.ready c' hc').frame hf⟩
    · next hm =>
      simp only [Bool.not_eq_true] at hm
      refine ⟨h.core, h.ext, fun c' hc' => ?_⟩
      simp only [List.mem_append, List.mem_singleton] at hc'
      rcases hc' with hc' | hc'
      · exact h.ready c' hc'
      · subst hc'; exact readyP_of wf acc.1 c' hdeps hm
  · exact h

theorem visit_fold (wf : Wf) (s0 : St) :
    ∀ (l : List Nat) (acc : St × List Nat), VInv wf s0 acc → VInv wf s0 (l.foldl (visit wf) acc) := by
  intro l
  induction l with
  | nil => intro acc h; exact h
  | cons x xs ih => intro acc h; exact ih _ (visit_vinv wf s0 acc x h)

/-! ### second phase: stage-in and launch of the ready list -/

theorem stageIn_frame (wf : Wf) (s : St) (c : Nat) : Frame s (stageIn wf s c) := by
  refine ⟨rfl, fun p _ => ?_, fun p hp => ?_⟩
  · simp only [stageIn, upd_comp]; split <;> rfl
  · simp only [stageIn, upd_comp]; split
    · rfl
    · exact hp

theorem stageIn_fold (wf : Wf) (l : List Nat) : ∀ (s : St), Core s →
    Core (l.foldl (stageIn wf) s) ∧ Ext s (l.foldl (stageIn wf) s) ∧ Frame s (l.foldl (stageIn wf) s) := by
  induction l with
  | nil => intro s h; exact ⟨h, Ext.refl s, Frame.refl s⟩
  | cons x xs ih =>
    intro s h
    have h1 := stageIn_spec wf h x
    have h2 := ih _ h1.1
    exact ⟨h2.1, h1.2.trans h2.2.1, (stageIn_frame wf s x).trans h2.2.2⟩

theorem runComp_comp (wf : Wf) (s : St) (c j : Nat) :
    ((runComp wf s c).comp j) =
      if j = c then { (s.comp j) with ran := true, launches := (s.comp j).launches + 1 } else s.comp j := rfl

theorem runComp_ctrl (wf : Wf) (s : St) (c j : Nat) :
    ((runComp wf s c).comp j).ctrl = (s.comp j).ctrl := by
  rw [runComp_comp]; split <;> rfl

theorem runComp_frame (wf : Wf) (s : St) (c : Nat) : Frame s (runComp wf s c) := by
  refine ⟨rfl, fun p _ => runComp_ctrl wf s c p, fun p hp => ?_⟩
  rw [runComp_comp]; split
  · exact hp
  · exact hp

theorem runComp_inv (wf : Wf) {s : St} (c : Nat) (h : Inv wf s) (hr : ReadyP wf s c) :
    Inv wf (runComp wf s c) := by
  have hlog : (runComp wf s c).log = s.log ++ [(c, (wf.cdef c).preds.map (viewOf s))] := rfl
  refine ⟨⟨fun j => ?_, fun j hj => ?_, fun j hj => ?_⟩, fun e he => ?_, fun j hj => ?_⟩
  · have hg := h.core.good j
    rw [runComp_comp]; split
    · exact ⟨hg.fc, hg.ex, hg.pf⟩
    · exact hg
  · rw [runComp_ctrl]; exact h.core.done j hj
  · rw [runComp_ctrl]; exact h.core.pend j hj
  · rw [hlog] at he
    simp only [List.mem_append, List.mem_singleton] at he
    rcases he with he | he
    · exact h.log e he
    · subst he; exact entryOk_of wf h.core c hr
  · rw [hlog]
    by_cases hjc : j = c
    · exact ⟨_, List.mem_append_right _ (List.mem_singleton.mpr rfl), hjc.symm⟩
    · rw [runComp_comp, if_neg hjc] at hj
      obtain ⟨e, he, hec⟩ := h.ran j hj
      exact ⟨e, List.mem_append_left _ he, hec⟩

theorem runComp_fold (wf : Wf) (l : List Nat) : ∀ (s : St), Inv wf s → (∀ c ∈ l, ReadyP wf s c) →
    Inv wf (l.foldl (runComp wf) s) ∧ ∀ j, ((l.foldl (runComp wf) s).comp j).ctrl = (s.comp j).ctrl := by
  induction l with
  | nil => intro s h _; exact ⟨h, fun _ => rfl⟩
  | cons x xs ih =>
    intro s h hr
    have h1 := runComp_inv wf x h (hr x (List.mem_cons_self ..))
    have h2 := ih _ h1 (fun c hc => (hr c (List.mem_cons_of_mem _ hc)).frame (runComp_frame wf s x))
    exact ⟨h2.1, fun j => (h2.2 j).trans (runComp_ctrl wf s x j)⟩

theorem schedPass_spec (wf : Wf) {s : St} (h : Inv wf s) :
    Inv wf (schedPass wf s) ∧
      ∀ c f, (s.comp c).ctrl = some f → ((schedPass wf s).comp c).ctrl = some f := by
  have hv := visit_fold wf s wf.order (s, []) ⟨h.core, Ext.refl s, fun _ hc => by cases hc⟩
  unfold schedPass
  generalize wf.order.foldl (visit wf) (s, []) = r at hv
  obtain ⟨t, ready⟩ := r
  dsimp only
  split
  · exact ⟨h.of_ext hv.core hv.ext, hv.ext.ctrl⟩
  · have h1 := stageIn_fold wf ready t hv.core
    have hi : Inv wf (ready.foldl (stageIn wf) t) := h.of_ext h1.1 (hv.ext.trans h1.2.1)
    have h2 := runComp_fold wf ready _ hi (fun c hc => (hv.ready c hc).frame h1.2.2)
    refine ⟨h2.1, fun c f hc => ?_⟩
    rw [h2.2 c]
    exact h1.2.1.ctrl c f (hv.ext.ctrl c f hc)

/-! ## the stage transition: nothing that the launch rules read is touched -/

theorem advance_spec (wf : Wf) {s : St} (hc : Core s) :
    Core (advance wf s) ∧ Ext s (advance wf s) := by
  unfold advance
  split
  · exact ⟨⟨hc.good, hc.done, hc.pend⟩, ⟨fun _ _ h => h, fun _ h => h, rfl, fun _ => rfl⟩⟩
  · exact ⟨hc, Ext.refl s⟩

/-! ## the whole transition system -/

theorem init_inv (wf : Wf) : Inv wf init := by
  refine ⟨⟨fun c => ⟨?_, ?_, ?_⟩, ?_, ?_⟩, ?_, ?_⟩ <;> simp [init]

theorem step_spec (wf : Wf) {s : St} (h : Inv wf s) (op : Op) :
    Inv wf (step wf s op) ∧ ∀ c f, (s.comp c).ctrl = some f → ((step wf s op).comp c).ctrl = some f := by
  cases op with
  | sched => exact schedPass_spec wf h
  | exit c => have := taskExit_spec wf h.core c; exact ⟨h.of_ext this.1 this.2, this.2.ctrl⟩
  | fin c => have := deliverFin_spec wf h.core c; exact ⟨h.of_ext this.1 this.2, this.2.ctrl⟩
  | pm c => have := deliverPM_spec wf h.core c; exact ⟨h.of_ext this.1 this.2, this.2.ctrl⟩
  | kill => have := killAll_spec wf h.core; exact ⟨h.of_ext this.1 this.2, this.2.ctrl⟩
  | tick c => exact ⟨h, fun _ _ hc => hc⟩
  | next => have := advance_spec wf h.core; exact ⟨h.of_ext this.1 this.2, this.2.ctrl⟩

theorem foldl_inv (wf : Wf) (ops : List Op) : ∀ (s : St), Inv wf s →
    Inv wf (ops.foldl (step wf) s) ∧
      ∀ c f, (s.comp c).ctrl = some f → ((ops.foldl (step wf) s).comp c).ctrl = some f := by
  induction ops with
  | nil => intro s h; exact ⟨h, fun _ _ hc => hc⟩
  | cons op ops ih =>
    intro s h
    have h1 := step_spec wf h op
    have h2 := ih _ h1.1
    exact ⟨h2.1, fun c f hc => h2.2 c f (h1.2 c f hc)⟩

theorem run_inv (wf : Wf) (ops : List Op) : Inv wf (run wf ops) :=
  (foldl_inv wf ops init (init_inv wf)).1

end St4sd.C01L
