import St4sd.Model.C15Stages
/-! Lemmas about `St4sd.C15Stages` (stage discovery of DOSINI packages). -/
namespace St4sd.C15Stages

theorem getLast?_perm_of_all_eq {α : Type} (F F' : List α) (hp : F'.Perm F)
    (hall : ∀ a ∈ F, ∀ b ∈ F, a = b) : F'.getLast? = F.getLast? := by
  cases hF' : F'.getLast? with
  | none =>
    have : F' = [] := List.getLast?_eq_none_iff.mp hF'
    subst this
    have : F = [] := hp.nil_eq.symm
    subst this
    rfl
  | some a =>
    have ha' : a ∈ F' := List.mem_of_getLast? hF'
    have ha : a ∈ F := hp.mem_iff.mp ha'
    cases hF : F.getLast? with
    | none =>
      have : F = [] := List.getLast?_eq_none_iff.mp hF
      subst this
      cases ha
    | some b =>
      have hb : b ∈ F := List.mem_of_getLast? hF
      rw [hall a ha b hb]

theorem discover_perm (isInst : Bool) (l l' : List Entry) (hp : l'.Perm l)
    (hd : ∀ a ∈ l, ∀ b ∈ l, a.idx = b.idx → a.inst = b.inst → a = b) (i : Nat) :
    discover isInst l' i = discover isInst l i := by
  unfold discover assign select
  have hperm : ((l'.filter (fun e => e.inst == isInst)).filter (fun e => e.idx == i)).Perm
      ((l.filter (fun e => e.inst == isInst)).filter (fun e => e.idx == i)) := (hp.filter _).filter _
  have hall : ∀ a ∈ (l.filter (fun e => e.inst == isInst)).filter (fun e => e.idx == i),
      ∀ b ∈ (l.filter (fun e => e.inst == isInst)).filter (fun e => e.idx == i), a = b := by
    intro a ha b hb
    simp only [List.mem_filter, beq_iff_eq] at ha hb
    exact hd a ha.1.1 b hb.1.1 (by rw [ha.2, hb.2]) (by rw [ha.1.2, hb.1.2])
  rw [getLast?_perm_of_all_eq _ _ hperm hall]

theorem discover_append_other (isInst : Bool) (l extra : List Entry)
    (he : ∀ e ∈ extra, e.inst = !isInst) (i : Nat) :
    discover isInst (l ++ extra) i = discover isInst l i ∧ discover isInst (extra ++ l) i = discover isInst l i := by
  have h0 : extra.filter (fun e => e.inst == isInst) = [] := by
    apply List.filter_eq_nil_iff.mpr
    intro e hm
    have := he e hm
    cases isInst <;> simp_all
  unfold discover assign select
  simp [List.filter_append, h0]

end St4sd.C15Stages
