import St4sd.Lemmas.C02c
import St4sd.Model.CtrlSplit
/-!
# The subscription of a repeating component to its producers (`CompS.watch`)

`ComponentState.stageIn` of a repeating component subscribes to the finished-notifications of the producers
that are alive at that moment; its engine is told `notify_all_producers_finished` when all of them have
ended, and only then (or after `kill()`) does the engine end (`Ctrl.canExit`).

* `FrameW s s'` — `watch` and `ran` of every component untouched, `finishCalled` only grows: every operation
  except the launches of a scheduler pass;
* `WInv` — a launched repeating component that was not asked to finish HAS a subscription (`sub`), the
  subscription list lies within its producers (`within`) and covers every producer that is not final
  (`cover`).
-/
namespace St4sd.C02L
open St4sd.Ctrl

structure FrameW (s s' : St) : Prop where
  watch : ∀ j, (s'.comp j).watch = (s.comp j).watch
  ran : ∀ j, (s'.comp j).ran = (s.comp j).ran
  fc : ∀ j, (s.comp j).finishCalled = true → (s'.comp j).finishCalled = true

theorem FrameW.refl (s : St) : FrameW s s := ⟨fun _ => rfl, fun _ => rfl, fun _ h => h⟩

theorem FrameW.trans {a b c : St} (h1 : FrameW a b) (h2 : FrameW b c) : FrameW a c :=
  ⟨fun j => (h2.watch j).trans (h1.watch j), fun j => (h2.ran j).trans (h1.ran j),
   fun j h => h2.fc j (h1.fc j h)⟩

theorem FrameW.of_comp {s s' : St} (h : s'.comp = s.comp) : FrameW s s' :=
  ⟨fun j => by rw [h], fun j => by rw [h], fun j hj => by rw [h]; exact hj⟩

theorem upd_frameW (s : St) (c : Nat) (f : CompS → CompS)
    (h1 : (f (s.comp c)).watch = (s.comp c).watch) (h2 : (f (s.comp c)).ran = (s.comp c).ran)
    (h3 : (s.comp c).finishCalled = true → (f (s.comp c)).finishCalled = true) : FrameW s (s.upd c f) := by
  refine ⟨fun j => ?_, fun j => ?_, fun j hj => ?_⟩
  · simp only [upd_comp]; split
    · next e => subst e; exact h1
    · rfl
  · simp only [upd_comp]; split
    · next e => subst e; exact h2
    · rfl
  · simp only [upd_comp]; split
    · next e => subst e; exact h3 hj
    · exact hj

theorem push_frameW {s t : St} (h : FrameW s t) (n : Notif) : FrameW s (t.push n) :=
  ⟨h.watch, h.ran, h.fc⟩

theorem finish_frameW (s : St) (c : Nat) (st : Fin3) : FrameW s (finish s c st) := by
  unfold finish
  dsimp only
  split
  · exact upd_frameW s c _ rfl rfl (fun _ => rfl)
  · split
    · split
      · exact push_frameW (upd_frameW s c _ rfl rfl (fun _ => rfl)) _
      · exact upd_frameW s c _ rfl rfl (fun _ => rfl)
    · split
      · exact upd_frameW s c _ rfl rfl (fun _ => rfl)
      · split
        · exact push_frameW (upd_frameW s c _ rfl rfl (fun _ => rfl)) _
        · exact upd_frameW s c _ rfl rfl (fun _ => rfl)

theorem fakeFinish_frameW (s : St) (c : Nat) (st : Fin3) : FrameW s (fakeFinish s c st) := by
  unfold fakeFinish
  exact (upd_frameW s c _ rfl rfl (fun h => h)).trans (finish_frameW _ c st)

theorem foldl_frameW {α : Type} (f : St → α → St) (hf : ∀ s x, FrameW s (f s x)) :
    ∀ (l : List α) (s : St), FrameW s (l.foldl f s) := by
  intro l
  induction l with
  | nil => intro s; exact FrameW.refl s
  | cons x xs ih => intro s; exact (hf s x).trans (ih (f s x))

theorem stopStage_frameW (wf : Wf) (s : St) (k : Nat) : FrameW s (stopStage wf s k) := by
  unfold stopStage
  refine (foldl_frameW _ (fun s c => ?_) _ s).trans (foldl_frameW _ (fun s c => ?_) _ _)
  · show FrameW s (if _ then _ else _)
    split
    · exact fakeFinish_frameW s c _
    · exact FrameW.refl s
  · show FrameW s (if _ then _ else _)
    split
    · exact finish_frameW s c _
    · exact FrameW.refl s

theorem killAll_frameW (wf : Wf) (s : St) : FrameW s (killAll wf s) := by
  unfold killAll
  refine (FrameW.of_comp (s := s) (s' := { s with stop := true }) rfl).trans (foldl_frameW _ (fun s c => ?_) _ _)
  show FrameW s (if _ then _ else _)
  split
  · split
    · exact finish_frameW s c _
    · exact fakeFinish_frameW s c _
  · exact FrameW.refl s

theorem taskExit_frameW (wf : Wf) (s : St) (c : Nat) : FrameW s (taskExit wf s c) := by
  unfold taskExit
  split
  · unfold taskExitCore
    dsimp only
    split
    · split
      · split
        · exact push_frameW (upd_frameW s c _ rfl rfl (fun h => h)) _
        · exact upd_frameW s c _ rfl rfl (fun h => h)
      · split
        · exact upd_frameW s c _ rfl rfl (fun h => h)
        · exact push_frameW (upd_frameW s c _ rfl rfl (fun h => h)) _
    · exact FrameW.refl s
  · exact FrameW.refl s

theorem deliverPM_frameW (wf : Wf) (s : St) (c : Nat) : FrameW s (deliverPM wf s c) := by
  unfold deliverPM
  split
  · have h0 : FrameW s { s with pending := s.pending.erase (.pm c) } := FrameW.of_comp rfl
    dsimp only
    split
    · exact h0
    · split
      · exact h0
      · split
        · exact h0.trans (upd_frameW _ c _ rfl rfl (fun h => h))
        · exact h0.trans (finish_frameW _ c _)
  · exact FrameW.refl s

theorem deliverFin_frameW (wf : Wf) (s : St) (c : Nat) : FrameW s (deliverFin wf s c) := by
  rw [deliverFin_eq]
  split
  · have h0 : FrameW s { s with pending := s.pending.erase (.fin c) } := FrameW.of_comp rfl
    have h1 : FrameW { s with pending := s.pending.erase (.fin c) }
        (finCritical wf { s with pending := s.pending.erase (.fin c) } c) := by
      unfold finCritical
      split
      · split
        · exact killAll_frameW wf _
        · exact stopStage_frameW wf _ _
      · exact FrameW.refl _
    exact (h0.trans h1).trans (FrameW.of_comp (s' := finRecord _ c) rfl)
  · exact FrameW.refl s

theorem advance_frameW (wf : Wf) (s : St) : FrameW s (advance wf s) := by
  unfold advance
  split
  · exact FrameW.of_comp rfl
  · exact FrameW.refl s

/-! ## the invariant -/

structure WInv (wf : Wf) (s : St) : Prop where
  sub : ∀ c, (s.comp c).ran = true → (wf.cdef c).isRepeat = true → (s.comp c).finishCalled = false →
    ∃ l, (s.comp c).watch = some l
  within : ∀ c l, (s.comp c).watch = some l → ∀ p ∈ l, p ∈ (wf.cdef c).preds
  cover : ∀ c l, (s.comp c).watch = some l → ∀ p ∈ (wf.cdef c).preds,
    p ∈ l ∨ (s.comp p).ctrl.isSome = true

theorem winv_init (wf : Wf) : WInv wf init := by
  refine ⟨?_, ?_, ?_⟩ <;> simp [init]

theorem WInv.frame {wf : Wf} {s s' : St} (h : WInv wf s) (hf : FrameW s s') (hm : MonoC s s') : WInv wf s' := by
  have hsome : ∀ p, (s.comp p).ctrl.isSome = true → (s'.comp p).ctrl.isSome = true := by
    intro p hp
    cases hc : (s.comp p).ctrl with
    | none => simp [hc] at hp
    | some f => simp [hm.ctrl p f hc]
  refine ⟨fun c hr hrep hfc => ?_, fun c l hw => ?_, fun c l hw p hp => ?_⟩
  · rw [hf.watch c]
    refine h.sub c (by rw [← hf.ran c]; exact hr) hrep ?_
    cases hx : (s.comp c).finishCalled with
    | false => rfl
    | true => have := hf.fc c hx; simp [hfc] at this
  · rw [hf.watch c] at hw; exact h.within c l hw
  · rw [hf.watch c] at hw
    rcases h.cover c l hw p hp with h1 | h1
    · exact Or.inl h1
    · exact Or.inr (hsome p h1)

/-! ## the scheduler pass -/

theorem visit_frameW (wf : Wf) (acc : St × List Nat) (c : Nat) : FrameW acc.1 (visit wf acc c).1 := by
  unfold visit
  split
  · split
    · exact fakeFinish_frameW acc.1 c _
    · exact FrameW.refl _
  · exact FrameW.refl _

theorem visit_fold_frameW (wf : Wf) : ∀ (l : List Nat) (acc : St × List Nat),
    FrameW acc.1 (l.foldl (visit wf) acc).1 := by
  intro l
  induction l with
  | nil => intro acc; exact FrameW.refl _
  | cons x xs ih => intro acc; exact (visit_frameW wf acc x).trans (ih _)

theorem stageIn_comp_other (wf : Wf) (s : St) (a j : Nat) (h : j ≠ a) :
    (stageIn wf s a).comp j = s.comp j := by
  simp [stageIn, h]

theorem stageIn_ctrl (wf : Wf) (s : St) (a j : Nat) : ((stageIn wf s a).comp j).ctrl = (s.comp j).ctrl := by
  simp only [stageIn, upd_comp]; split <;> rfl

theorem stageIn_fc (wf : Wf) (s : St) (a j : Nat) :
    ((stageIn wf s a).comp j).finishCalled = (s.comp j).finishCalled := by
  simp only [stageIn, upd_comp]; split <;> rfl

theorem stageIn_ran (wf : Wf) (s : St) (a j : Nat) : ((stageIn wf s a).comp j).ran = (s.comp j).ran := by
  simp only [stageIn, upd_comp]; split <;> rfl

/-- the list a repeating component subscribes to in state `s` -/
def aliveProducers (wf : Wf) (s : St) (c : Nat) : List Nat :=
  (wf.cdef c).preds.filter fun p => (s.comp p).ctrl.isNone

theorem aliveProducers_stageIn (wf : Wf) (s : St) (a c : Nat) :
    aliveProducers wf (stageIn wf s a) c = aliveProducers wf s c := by
  unfold aliveProducers
  congr 1
  funext p
  rw [stageIn_ctrl]

theorem stageIn_watch (wf : Wf) (s : St) (a j : Nat) :
    ((stageIn wf s a).comp j).watch =
      if j = a ∧ (wf.cdef a).isRepeat = true ∧ (s.comp a).finishCalled = false then
        some (aliveProducers wf s a) else (s.comp j).watch := by
  simp only [stageIn, upd_comp, aliveProducers]
  by_cases h : j = a
  · subst h
    by_cases h1 : (wf.cdef j).isRepeat = true <;> by_cases h2 : (s.comp j).finishCalled = true <;> simp [h1, h2]
  · simp [h]

theorem foldl_stageIn_ctrl (wf : Wf) : ∀ (l : List Nat) (s : St) (j : Nat),
    ((l.foldl (stageIn wf) s).comp j).ctrl = (s.comp j).ctrl := by
  intro l
  induction l with
  | nil => intro s j; rfl
  | cons a l ih => intro s j; simp only [List.foldl_cons]; rw [ih, stageIn_ctrl]

theorem foldl_stageIn_fc (wf : Wf) : ∀ (l : List Nat) (s : St) (j : Nat),
    ((l.foldl (stageIn wf) s).comp j).finishCalled = (s.comp j).finishCalled := by
  intro l
  induction l with
  | nil => intro s j; rfl
  | cons a l ih => intro s j; simp only [List.foldl_cons]; rw [ih, stageIn_fc]

theorem foldl_stageIn_ran (wf : Wf) : ∀ (l : List Nat) (s : St) (j : Nat),
    ((l.foldl (stageIn wf) s).comp j).ran = (s.comp j).ran := by
  intro l
  induction l with
  | nil => intro s j; rfl
  | cons a l ih => intro s j; simp only [List.foldl_cons]; rw [ih, stageIn_ran]

/-- after the stage-in fold the subscription of a component is the old one or the producers alive now -/
theorem foldl_stageIn_watch (wf : Wf) : ∀ (l : List Nat) (s : St) (j : Nat),
    ((l.foldl (stageIn wf) s).comp j).watch = (s.comp j).watch ∨
    ((l.foldl (stageIn wf) s).comp j).watch = some (aliveProducers wf s j) := by
  intro l
  induction l with
  | nil => intro s j; exact Or.inl rfl
  | cons a l ih =>
    intro s j
    simp only [List.foldl_cons]
    rcases ih (stageIn wf s a) j with h | h
    · rw [h, stageIn_watch]
      split
      · next hc => obtain ⟨rfl, _, _⟩ := hc; exact Or.inr rfl
      · exact Or.inl rfl
    · rw [h, aliveProducers_stageIn]; exact Or.inr rfl

/-- a repeating component of the list that was not asked to finish has a subscription afterwards -/
theorem foldl_stageIn_sub (wf : Wf) : ∀ (l : List Nat) (s : St) (c : Nat), c ∈ l →
    (wf.cdef c).isRepeat = true → (s.comp c).finishCalled = false →
    ∃ l', ((l.foldl (stageIn wf) s).comp c).watch = some l' := by
  intro l
  induction l with
  | nil => intro s c hc; cases hc
  | cons a l ih =>
    intro s c hc hrep hfc
    simp only [List.foldl_cons]
    by_cases hca : c = a
    · subst hca
      have h1 : ((stageIn wf s c).comp c).watch = some (aliveProducers wf s c) := by
        rw [stageIn_watch]; simp [hrep, hfc]
      rcases foldl_stageIn_watch wf l (stageIn wf s c) c with h | h
      · exact ⟨_, h.trans h1⟩
      · exact ⟨_, h⟩
    · rcases List.mem_cons.1 hc with e | hc'
      · exact absurd e hca
      · exact ih (stageIn wf s a) c hc' hrep (by rw [stageIn_fc]; exact hfc)

theorem runComp_watch (wf : Wf) (s : St) (c j : Nat) : ((runComp wf s c).comp j).watch = (s.comp j).watch := by
  simp only [runComp, upd_comp]; split <;> rfl

theorem runComp_fc (wf : Wf) (s : St) (c j : Nat) :
    ((runComp wf s c).comp j).finishCalled = (s.comp j).finishCalled := by
  simp only [runComp, upd_comp]; split <;> rfl

theorem runComp_ctrl' (wf : Wf) (s : St) (c j : Nat) : ((runComp wf s c).comp j).ctrl = (s.comp j).ctrl := by
  simp only [runComp, upd_comp]; split <;> rfl

theorem foldl_runComp_keep (wf : Wf) : ∀ (l : List Nat) (s : St) (j : Nat),
    ((l.foldl (runComp wf) s).comp j).watch = (s.comp j).watch ∧
    ((l.foldl (runComp wf) s).comp j).finishCalled = (s.comp j).finishCalled ∧
    ((l.foldl (runComp wf) s).comp j).ctrl = (s.comp j).ctrl := by
  intro l
  induction l with
  | nil => intro s j; exact ⟨rfl, rfl, rfl⟩
  | cons a l ih =>
    intro s j
    simp only [List.foldl_cons]
    obtain ⟨h1, h2, h3⟩ := ih (runComp wf s a) j
    exact ⟨h1.trans (runComp_watch ..), h2.trans (runComp_fc ..), h3.trans (runComp_ctrl' ..)⟩

theorem foldl_runComp_ran (wf : Wf) : ∀ (l : List Nat) (s : St) (j : Nat),
    ((l.foldl (runComp wf) s).comp j).ran = true → j ∈ l ∨ (s.comp j).ran = true := by
  intro l
  induction l with
  | nil => intro s j h; exact Or.inr h
  | cons a l ih =>
    intro s j h
    simp only [List.foldl_cons] at h
    rcases ih (runComp wf s a) j h with h1 | h1
    · exact Or.inl (List.mem_cons_of_mem _ h1)
    · by_cases hja : j = a
      · exact Or.inl (hja ▸ List.mem_cons_self ..)
      · right; simpa [runComp, hja] using h1

/-- stage-in and launch of a ready list -/
theorem launch_winv {wf : Wf} {t : St} (hW : WInv wf t) (l : List Nat) :
    WInv wf (l.foldl (runComp wf) (l.foldl (stageIn wf) t)) := by
  refine ⟨fun c hr hrep hfc => ?_, fun c w hw => ?_, fun c w hw p hp => ?_⟩
  · obtain ⟨k1, k2, _⟩ := foldl_runComp_keep wf l (l.foldl (stageIn wf) t) c
    rw [k1]
    rw [k2, foldl_stageIn_fc] at hfc
    rcases foldl_runComp_ran wf l _ c hr with hm | hr'
    · exact foldl_stageIn_sub wf l t c hm hrep hfc
    · rw [foldl_stageIn_ran] at hr'
      obtain ⟨l', hl'⟩ := hW.sub c hr' hrep hfc
      rcases foldl_stageIn_watch wf l t c with h | h
      · exact ⟨l', h.trans hl'⟩
      · exact ⟨_, h⟩
  · rw [(foldl_runComp_keep wf l _ c).1] at hw
    rcases foldl_stageIn_watch wf l t c with h | h
    · rw [h] at hw; exact hW.within c w hw
    · rw [h] at hw
      cases hw
      intro p hp
      exact (List.mem_filter.1 hp).1
  · rw [(foldl_runComp_keep wf l _ c).1] at hw
    rw [(foldl_runComp_keep wf l _ p).2.2, foldl_stageIn_ctrl]
    rcases foldl_stageIn_watch wf l t c with h | h
    · rw [h] at hw; exact hW.cover c w hw p hp
    · rw [h] at hw
      cases hw
      cases hc : (t.comp p).ctrl with
      | some f => exact Or.inr rfl
      | none => exact Or.inl (List.mem_filter.2 ⟨hp, by simp [hc]⟩)

theorem schedPass_winv {wf : Wf} {s : St} (hI : Inv wf none s) (hW : WInv wf s) : WInv wf (schedPass wf s) := by
  have hf := visit_fold_frameW wf wf.order (s, [])
  obtain ⟨_, hm, _⟩ := visit_fold_inv hI wf.order (fun _ h => h) [] (by simp)
  have hWt := hW.frame hf hm.toC
  unfold schedPass
  dsimp only
  split
  · exact hWt
  · exact launch_winv hWt _

theorem step_winv {wf : Wf} {s : St} (hI : Inv wf none s) (hW : WInv wf s) (op : Op) :
    WInv wf (step wf s op) := by
  have hm := (step_inv op hI).2
  cases op with
  | sched => exact schedPass_winv hI hW
  | exit c => exact hW.frame (taskExit_frameW wf s c) hm
  | fin c => exact hW.frame (deliverFin_frameW wf s c) hm
  | pm c => exact hW.frame (deliverPM_frameW wf s c) hm
  | kill => exact hW.frame (killAll_frameW wf s) hm
  | tick c => exact hW
  | next => exact hW.frame (advance_frameW wf s) hm

theorem run_from_winv {wf : Wf} (ops : List Op) : ∀ s, Inv wf none s → WInv wf s →
    WInv wf (ops.foldl (step wf) s) := by
  induction ops with
  | nil => intro s _ h; exact h
  | cons op ops ih => intro s hI hW; exact ih _ (step_inv op hI).1 (step_winv hI hW op)

theorem run_winv (wf : Wf) (ops : List Op) : WInv wf (run wf ops) :=
  run_from_winv ops init (inv_init wf) (winv_init wf)

/-! ## histories with the repaired completion hook (`hrun`) -/

theorem hstep_inv {wf : Wf} {s : St} (hI : Inv wf none s) (hW : WInv wf s) (op : HOp) :
    Inv wf none (hstep wf s op) ∧ WInv wf (hstep wf s op) ∧ MonoC s (hstep wf s op) := by
  cases op with
  | op o => exact ⟨(step_inv o hI).1, step_winv hI hW o, (step_inv o hI).2⟩
  | hook k =>
    obtain ⟨h1, h2⟩ := stopStage_inv k hI
    exact ⟨h1, hW.frame (stopStage_frameW wf s k) h2.toC, h2.toC⟩

theorem hrun_from_inv {wf : Wf} (ops : List HOp) : ∀ s, Inv wf none s → WInv wf s →
    Inv wf none (ops.foldl (hstep wf) s) ∧ WInv wf (ops.foldl (hstep wf) s) ∧
      MonoC s (ops.foldl (hstep wf) s) := by
  induction ops with
  | nil => intro s hI hW; exact ⟨hI, hW, MonoC.refl s⟩
  | cons op ops ih =>
    intro s hI hW
    obtain ⟨h1, h2, h3⟩ := hstep_inv hI hW op
    obtain ⟨k1, k2, k3⟩ := ih _ h1 h2
    exact ⟨k1, k2, h3.trans k3⟩

theorem hrun_inv (wf : Wf) (ops : List HOp) : Inv wf none (hrun wf ops) ∧ WInv wf (hrun wf ops) :=
  ⟨(hrun_from_inv ops init (inv_init wf) (winv_init wf)).1, (hrun_from_inv ops init (inv_init wf) (winv_init wf)).2.1⟩

/-! ## consequences -/

/-- all producers final ⇒ the engine has been told -/
theorem notified_of_final {wf : Wf} {s : St} (hW : WInv wf s) (c : Nat) (hr : (s.comp c).ran = true)
    (hrep : (wf.cdef c).isRepeat = true) (hfc : (s.comp c).finishCalled = false)
    (hp : ∀ p ∈ (wf.cdef c).preds, (s.comp p).ctrl.isSome = true) : notified s c = true := by
  obtain ⟨l, hl⟩ := hW.sub c hr hrep hfc
  simp only [notified, hl, List.all_eq_true]
  intro p hpl
  exact hp p (hW.within c l hl p hpl)

/-- the engine has been told ⇒ all producers are final (it is not told early) -/
theorem final_of_notified {wf : Wf} {s : St} (hW : WInv wf s) (c : Nat) (hn : notified s c = true) :
    ∀ p ∈ (wf.cdef c).preds, (s.comp p).ctrl.isSome = true := by
  intro p hp
  unfold notified at hn
  cases hl : (s.comp c).watch with
  | none => simp [hl] at hn
  | some l =>
    simp only [hl, List.all_eq_true] at hn
    rcases hW.cover c l hl p hp with h | h
    · exact hn p h
    · exact h

/-- a live task whose producers are all final can exit -/
theorem canExit_of_final {wf : Wf} {s : St} (hI : Inv wf none s) (hW : WInv wf s) (c : Nat)
    (hr : (s.comp c).ran = true) (hex : (s.comp c).exit = none)
    (hp : ∀ p ∈ (wf.cdef c).preds, (s.comp p).ctrl.isSome = true) : canExit wf s c = true := by
  have hcI := hI.ci c
  have hct : (s.comp c).ctrl = none := by
    cases h : (s.comp c).ctrl with
    | none => rfl
    | some f => have := hcI.k10 (by simp [h]); simp [hex] at this
  simp only [canExit, hr, hex, Option.isNone_none, Bool.and_self, Bool.true_and, Bool.or_eq_true,
    Bool.not_eq_true']
  cases hrep : (wf.cdef c).isRepeat with
  | false => exact Or.inl (Or.inl rfl)
  | true =>
    cases hfc : (s.comp c).finishCalled with
    | true => exact Or.inr (hcI.k3' hfc hr hex hct)
    | false => exact Or.inl (Or.inr (notified_of_final hW c hr hrep hfc hp))

/-- no task can exit, nothing queued, nothing to schedule ⇒ every component is recorded and final -/
theorem quiescentR_all_final' {wf : Wf} {s : St} (h : wf.WF) (hI : Inv wf none s) (hW : WInv wf s)
    (hq : quiescentR wf s = true) :
    ∀ c, c < wf.n → s.done c = true ∧ (s.comp c).ctrl.isSome = true := by
  simp only [quiescentR, comps, Bool.and_eq_true, List.isEmpty_iff, List.all_eq_true, List.mem_range,
    Bool.not_eq_true'] at hq
  obtain ⟨⟨hpend, hlive⟩, hel⟩ := hq
  have hdone : ∀ c, c < wf.n → s.done c = true := by
    intro c
    induction c using Nat.strongRecOn with
    | _ c ih =>
      intro hc
      cases hd : s.done c with
      | true => rfl
      | false =>
        exfalso
        have hcI := hI.ci c
        have hk6 : (s.comp c).ctrl.isSome = true → False := by
          intro a
          rcases hcI.k6 a with h1 | h1 | h1
          · simp [hd] at h1
          · simp [hpend] at h1
          · simp at h1
        have hpd : ∀ p ∈ (wf.cdef c).preds, s.done p = true := fun p hp =>
          ih p (h.topo c p hp) (Nat.lt_trans (h.topo c p hp) hc)
        cases hs : (s.comp c).staged with
        | false =>
          obtain ⟨_, hct, _, _, _⟩ := unstaged_facts hcI hs
          have hdeps : depsSatisfied wf s c = true := by
            simp only [depsSatisfied, List.all_eq_true, Bool.or_eq_true]
            intro p hp
            exact Or.inl (hpd p hp)
          have := hel c hc
          simp [eligible, hd, hct, hs, hdeps] at this
        | true =>
          cases hr : (s.comp c).ran with
          | false => exact hk6 (hcI.k4 hs hr)
          | true =>
            cases hex : (s.comp c).exit with
            | none =>
              have h1 := canExit_of_final hI hW c hr hex (fun p hp => (hI.ci p).k8 (hpd p hp))
              have h2 := hlive c hc
              rw [h1] at h2; cases h2
            | some r =>
              cases hct : (s.comp c).ctrl with
              | none =>
                have := (hcI.k5 hr (by simp [hex]) hct).1
                simp [hpend] at this
              | some f => exact hk6 (by simp [hct])
  intro c hc
  exact ⟨hdone c hc, (hI.ci c).k8 (hdone c hc)⟩

end St4sd.C02L
