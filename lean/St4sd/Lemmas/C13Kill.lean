import St4sd.Lemmas.C13
import St4sd.Lemmas.C13Prod
/-! The kill-after-producers-done delay of the repeating-engine model (C13): the timer is pending from the
notification on (whether or not `run()` was called), its expiry makes the engine stop within two further sub-steps of
the engine thread - never-ending tasks included, they are killed - unless the expiry falls between the `_suicide`
check of a poll and its launch (`Pc.window`). -/
namespace St4sd.Repeat

/-- a task object was returned by the launch of the poll in progress and the engine waits for it -/
def Pc.runningStarted : Pc → Bool
  | .running _ _ _ o => o != .raised
  | _ => false

/-- between the `_suicide` check at the start of a poll and the launch -/
def Pc.window : Pc → Bool
  | .checked _ _ => true
  | .sampled _ _ _ => true
  | _ => false

/-- K: with a kill delay configured, from the producers-finished notification on the delay timer is pending
(`armed`), has expired (`suicide`) or the engine had been cancelled; the task the engine waits for is `self.process` -/
def InvK (cfg : Cfg) (s : St) : Prop :=
  (cfg.dieAfter = true → s.prodDone = true → s.armed = true ∨ s.suicide = true ∨ s.cancel = true) ∧
  (s.pc.runningStarted = true → s.hasProc = true)

theorem invK_init (cfg : Cfg) : InvK cfg (init cfg) := by
  simp [InvK, init, Pc.runningStarted]

theorem invK_step (cfg : Cfg) (s : St) (op : Op) (h : InvK cfg s) : InvK cfg (step cfg s op) := by
  obtain ⟨clock, prodDone, finTime, suicide, armed, consume, retries, cancel, kc, hasProc, procKilled,
    lastLaunched, aged, hasOutput, lastOutput, outs, execLog, pc, cause, pollsFin, books, started⟩ := s
  simp only [InvK] at h ⊢
  rcases op with e | o
  · cases e <;> simp only [step, envStep, doKill, alive] <;> (repeat' split) <;> grind [Pc.runningStarted]
  · cases pc <;> simp only [step, engStep, post, doKill] <;> (repeat' split) <;> grind [Pc.runningStarted]

/-- how many sub-steps of the engine thread are left until the cancel event is set, once the delay has expired -/
def rank (s : St) : Nat :=
  if s.cancel then 0 else
  match s.pc with
  | .stopped => 0
  | .polled _ => 1
  | .ready _ _ _ _ _ _ => 1
  | .idle => 2
  | .running _ _ _ _ => 2
  | .sampled _ _ _ => 3
  | .checked _ _ => 4

/-- the delay has expired and the engine thread is not waiting for a never-ending task that nobody killed -/
def Expired (s : St) : Prop := s.suicide = true ∧ blocked s = false

def engCount : List Op → Nat
  | [] => 0
  | .eng _ :: r => engCount r + 1
  | .env _ :: r => engCount r

theorem rank_zero (s : St) (h : rank s = 0) : s.cancel = true ∨ s.pc = .stopped := by
  unfold rank at h
  cases hc : s.cancel with
  | true => exact Or.inl rfl
  | false =>
    simp only [hc] at h
    cases hp : s.pc <;> simp_all

/-- operations of the environment leave the program counter alone and never take back the cancel event, the
expiry flag or a kill signal sent to the running task -/
theorem env_facts (cfg : Cfg) (s : St) (e : Ev) :
    (envStep cfg s e).pc = s.pc ∧ (s.cancel = true → (envStep cfg s e).cancel = true) ∧
    (s.suicide = true → (envStep cfg s e).suicide = true) ∧
    (s.procKilled = true → (envStep cfg s e).procKilled = true) := by
  cases e <;> simp only [envStep, doKill] <;> (repeat' split) <;> simp_all

theorem rank_mono_of (s s' : St) (hpc : s'.pc = s.pc) (hc : s.cancel = true → s'.cancel = true) :
    rank s' ≤ rank s := by
  unfold rank
  rw [hpc]
  cases h1 : s.cancel <;> cases h2 : s'.cancel <;> simp_all

theorem blocked_mono_of (s s' : St) (hpc : s'.pc = s.pc) (hk : s.procKilled = true → s'.procKilled = true)
    (hb : blocked s = false) : blocked s' = false := by
  unfold blocked at hb ⊢
  rw [hpc]
  cases hp : s.pc <;> simp_all

theorem rank_clock (s : St) (n : Nat) : rank { s with clock := n } = rank s := rfl
theorem blocked_clock (s : St) (n : Nat) : blocked { s with clock := n } = blocked s := rfl

theorem expired_env (cfg : Cfg) (s : St) (e : Ev) (h : Expired s) :
    Expired (step cfg s (.env e)) ∧ (step cfg s (.env e)).pc = s.pc ∧ rank (step cfg s (.env e)) ≤ rank s := by
  obtain ⟨h1, h2, h3, h4⟩ := env_facts cfg s e
  exact ⟨⟨h3 h.1, blocked_mono_of s (step cfg s (.env e)) h1 h4 h.2⟩, h1,
    rank_mono_of s (step cfg s (.env e)) h1 h2⟩

theorem expired_eng (cfg : Cfg) (hf : Fixed cfg) (s : St) (o : Outcome) (h : Expired s)
    (hw : s.pc.window = false) :
    Expired (step cfg s (.eng o)) ∧ (step cfg s (.eng o)).pc.window = false ∧
    (rank (step cfg s (.eng o)) < rank s ∨ rank (step cfg s (.eng o)) = 0) := by
  obtain ⟨g1, g2⟩ := hf
  obtain ⟨clock, prodDone, finTime, suicide, armed, consume, retries, cancel, kc, hasProc, procKilled,
    lastLaunched, aged, hasOutput, lastOutput, outs, execLog, pc, cause, pollsFin, books, started⟩ := s
  obtain ⟨hs, hb⟩ := h
  simp only at hs
  subst hs
  cases cancel <;> cases pc <;>
    simp_all [Expired, step, engStep, post, doKill, blocked, rank, Pc.window] <;>
    (repeat' split) <;> simp_all

/-- outside the window: no launch can follow the expiry, every sub-step brings the stop nearer -/
theorem expired_step (cfg : Cfg) (hf : Fixed cfg) (s : St) (op : Op) (h : Expired s) (hw : s.pc.window = false) :
    Expired (step cfg s op) ∧ (step cfg s op).pc.window = false ∧ rank (step cfg s op) ≤ rank s ∧
    (∀ o, op = .eng o → rank (step cfg s op) < rank s ∨ rank (step cfg s op) = 0) := by
  cases op with
  | env e =>
    obtain ⟨h1, h2, h3⟩ := expired_env cfg s e h
    exact ⟨h1, by rw [h2]; exact hw, h3, fun o ho => by cases ho⟩
  | eng o =>
    obtain ⟨h1, h2, h3⟩ := expired_eng cfg hf s o h hw
    refine ⟨h1, h2, ?_, fun o' _ => h3⟩
    rcases h3 with h3 | h3 <;> omega

theorem expired_run (cfg : Cfg) (hf : Fixed cfg) : ∀ (h : List Op) (s : St), Expired s → s.pc.window = false →
    rank (run cfg s h) ≤ rank s - engCount h := by
  intro h
  induction h with
  | nil => intro s _ _; simp [run, engCount]
  | cons op ops ih =>
    intro s hs hw
    obtain ⟨h1, h2, h3, h4⟩ := expired_step cfg hf s op hs hw
    have := ih _ h1 h2
    simp only [run]
    cases op with
    | env e => simp only [engCount]; omega
    | eng o =>
      simp only [engCount]
      rcases h4 o rfl with h5 | h5 <;> omega

theorem rank_le_two (s : St) (hw : s.pc.window = false) : rank s ≤ 2 := by
  unfold rank
  split
  · omega
  · cases hp : s.pc <;> simp_all [Pc.window]

/-- the expiry of the pending timer outside the window: the flag is set, a running task has been signalled -/
theorem die_expired (cfg : Cfg) (s : St) (ha : s.armed = true) (hk : s.pc.runningStarted = true → s.hasProc = true) :
    Expired (step cfg s (.env .die)) ∧ (step cfg s (.env .die)).pc = s.pc := by
  obtain ⟨clock, prodDone, finTime, suicide, armed, consume, retries, cancel, kc, hasProc, procKilled,
    lastLaunched, aged, hasOutput, lastOutput, outs, execLog, pc, cause, pollsFin, books, started⟩ := s
  simp only at ha
  subst ha
  cases pc <;> simp only [Expired, step, envStep, doKill, blocked, Pc.runningStarted] at hk ⊢ <;>
    (repeat' split) <;> grind

theorem expired_eng_ending (cfg : Cfg) (hf : Fixed cfg) (s : St) (o : Outcome) (h : Expired s) (ho : o ≠ .hang) :
    Expired (step cfg s (.eng o)) ∧
    (rank (step cfg s (.eng o)) < rank s ∨ rank (step cfg s (.eng o)) = 0) := by
  obtain ⟨g1, g2⟩ := hf
  obtain ⟨clock, prodDone, finTime, suicide, armed, consume, retries, cancel, kc, hasProc, procKilled,
    lastLaunched, aged, hasOutput, lastOutput, outs, execLog, pc, cause, pollsFin, books, started⟩ := s
  obtain ⟨hs, hb⟩ := h
  simp only at hs
  subst hs
  cases cancel <;> cases pc <;>
    simp_all [Expired, step, engStep, post, doKill, blocked, rank] <;>
    (repeat' split) <;> simp_all

/-- when every task launched from now on ends by itself, the window does not matter either -/
theorem expired_step_ending (cfg : Cfg) (hf : Fixed cfg) (s : St) (op : Op) (h : Expired s)
    (hop : op ≠ .eng .hang) :
    Expired (step cfg s op) ∧ rank (step cfg s op) ≤ rank s ∧
    (∀ o, op = .eng o → rank (step cfg s op) < rank s ∨ rank (step cfg s op) = 0) := by
  cases op with
  | env e =>
    obtain ⟨h1, _, h3⟩ := expired_env cfg s e h
    exact ⟨h1, h3, fun o ho => by cases ho⟩
  | eng o =>
    obtain ⟨h1, h3⟩ := expired_eng_ending cfg hf s o h (fun ho => hop (by rw [ho]))
    refine ⟨h1, ?_, fun o' _ => h3⟩
    rcases h3 with h3 | h3 <;> omega

theorem expired_run_ending (cfg : Cfg) (hf : Fixed cfg) : ∀ (h : List Op) (s : St), Expired s →
    (∀ op ∈ h, op ≠ .eng .hang) → rank (run cfg s h) ≤ rank s - engCount h := by
  intro h
  induction h with
  | nil => intro s _ _; simp [run, engCount]
  | cons op ops ih =>
    intro s hs hh
    obtain ⟨h1, h3, h4⟩ := expired_step_ending cfg hf s op hs (hh op (by simp))
    have := ih _ h1 (fun o ho => hh o (by simp [ho]))
    simp only [run]
    cases op with
    | env e => simp only [engCount]; omega
    | eng o =>
      simp only [engCount]
      rcases h4 o rfl with h5 | h5 <;> omega

/-- the three repairs -/
def Fixed3 (cfg : Cfg) : Prop := Fixed cfg ∧ cfg.killAfterLaunch = true

theorem hang_is_killed (o : Outcome) : (o == Outcome.hang && !(o != Outcome.raised)) = false := by
  cases o <;> rfl

/-- with the third repair the window is gone: a task launched after the expiry is killed at once -/
theorem expired_eng3 (cfg : Cfg) (hf : Fixed3 cfg) (s : St) (o : Outcome) (h : Expired s) :
    Expired (step cfg s (.eng o)) ∧
    (rank (step cfg s (.eng o)) < rank s ∨ rank (step cfg s (.eng o)) = 0) := by
  obtain ⟨⟨g1, g2⟩, g3⟩ := hf
  obtain ⟨clock, prodDone, finTime, suicide, armed, consume, retries, cancel, kc, hasProc, procKilled,
    lastLaunched, aged, hasOutput, lastOutput, outs, execLog, pc, cause, pollsFin, books, started⟩ := s
  obtain ⟨hs, hb⟩ := h
  simp only at hs
  subst hs
  have hk := hang_is_killed o
  cases cancel <;> cases pc <;>
    simp_all [Expired, step, engStep, post, doKill, blocked, rank] <;>
    (repeat' split) <;> simp_all

theorem expired_step3 (cfg : Cfg) (hf : Fixed3 cfg) (s : St) (op : Op) (h : Expired s) :
    Expired (step cfg s op) ∧ rank (step cfg s op) ≤ rank s ∧
    (∀ o, op = .eng o → rank (step cfg s op) < rank s ∨ rank (step cfg s op) = 0) := by
  cases op with
  | env e =>
    obtain ⟨h1, _, h3⟩ := expired_env cfg s e h
    exact ⟨h1, h3, fun o ho => by cases ho⟩
  | eng o =>
    obtain ⟨h1, h3⟩ := expired_eng3 cfg hf s o h
    refine ⟨h1, ?_, fun o' _ => h3⟩
    rcases h3 with h3 | h3 <;> omega

theorem expired_run3 (cfg : Cfg) (hf : Fixed3 cfg) : ∀ (h : List Op) (s : St), Expired s →
    rank (run cfg s h) ≤ rank s - engCount h := by
  intro h
  induction h with
  | nil => intro s _; simp [run, engCount]
  | cons op ops ih =>
    intro s hs
    obtain ⟨h1, h3, h4⟩ := expired_step3 cfg hf s op hs
    have := ih _ h1
    simp only [run]
    cases op with
    | env e => simp only [engCount]; omega
    | eng o =>
      simp only [engCount]
      rcases h4 o rfl with h5 | h5 <;> omega

theorem rank_le_four (s : St) : rank s ≤ 4 := by
  unfold rank
  split
  · omega
  · cases hp : s.pc <;> simp

/-- a blocked engine thread: its sub-step is a stutter -/
theorem blocked_step (cfg : Cfg) (s : St) (o : Outcome) (hb : blocked s = true) :
    step cfg s (.eng o) = { s with clock := s.clock + 1 } := by
  obtain ⟨clock, prodDone, finTime, suicide, armed, consume, retries, cancel, kc, hasProc, procKilled,
    lastLaunched, aged, hasOutput, lastOutput, outs, execLog, pc, cause, pollsFin, books, started⟩ := s
  cases pc <;> simp_all [blocked, step, engStep]

theorem blocked_forever (cfg : Cfg) (o : Outcome) : ∀ (n : Nat) (s : St), blocked s = true →
    blocked (run cfg s (List.replicate n (.eng o))) = true ∧
    (run cfg s (List.replicate n (.eng o))).cancel = s.cancel ∧
    (run cfg s (List.replicate n (.eng o))).pc = s.pc := by
  intro n
  induction n with
  | zero => intro s hb; simp [run, hb]
  | succ k ih =>
    intro s hb
    simp only [List.replicate_succ, run, blocked_step cfg s o hb]
    have hb' : blocked { s with clock := s.clock + 1 } = true := by simpa [blocked] using hb
    simpa using ih _ hb'

/-- operations of the environment do not start the engine -/
theorem env_started (cfg : Cfg) (s : St) (e : Ev) : (step cfg s (.env e)).started = s.started := by
  cases e <;> simp only [step, envStep, doKill] <;> (repeat' split) <;> simp_all

theorem run_envs_started (cfg : Cfg) : ∀ (es : List Ev) (s : St), (run cfg s (envs es)).started = s.started := by
  intro es
  induction es with
  | nil => intro s; rfl
  | cons e r ih => intro s; simp only [envs, List.map_cons, run] at ih ⊢; rw [ih, env_started]

end St4sd.Repeat
