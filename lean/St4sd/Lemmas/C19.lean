import St4sd.Model.Ini
/-!
# C19 — per-type round-trip lemmas of the printers/parsers of the legacy format

`int(str(n)) = n`, `' '.join(ws).split() = ws`, bool lower-casing, memory texts, variable references:
for every printer/parser pair that `Ini.good` accepts, parsing the printed text gives the value back.
-/
namespace St4sd.Ini
open St4sd.Str

/-! ## decimal digits -/

private def g (acc : Nat) (c : Char) : Nat := acc * 10 + (c.toNat - 48)

private theorem digit_toNat : ∀ d : Nat, d < 10 → (Char.ofNat (48 + d)).toNat - 48 = d
  | 0, _ => rfl | 1, _ => rfl | 2, _ => rfl | 3, _ => rfl | 4, _ => rfl
  | 5, _ => rfl | 6, _ => rfl | 7, _ => rfl | 8, _ => rfl | 9, _ => rfl
  | n + 10, h => absurd h (by omega)

private theorem digit_isDigit : ∀ d : Nat, d < 10 → isDigit (Char.ofNat (48 + d)) = true
  | 0, _ => by decide | 1, _ => by decide | 2, _ => by decide | 3, _ => by decide | 4, _ => by decide
  | 5, _ => by decide | 6, _ => by decide | 7, _ => by decide | 8, _ => by decide | 9, _ => by decide
  | n + 10, h => absurd h (by omega)

private theorem aux_foldl : ∀ (fuel n : Nat) (acc : S), n < fuel →
    (natToDigitsAux fuel n acc).foldl g 0 = acc.foldl g n := by
  intro fuel
  induction fuel with
  | zero => intro n acc h; omega
  | succ fuel ih =>
    intro n acc h
    unfold natToDigitsAux
    by_cases h10 : n < 10
    · simp only [h10, if_true, List.foldl_cons]
      have : g 0 (Char.ofNat (48 + n % 10)) = n := by
        unfold g; rw [digit_toNat _ (by omega)]; omega
      rw [this]
    · simp only [h10, if_false]
      rw [ih (n / 10) _ (by omega)]
      simp only [List.foldl_cons]
      have : g (n / 10) (Char.ofNat (48 + n % 10)) = n := by
        unfold g; rw [digit_toNat _ (by omega)]; omega
      rw [this]

private theorem aux_all : ∀ (fuel n : Nat) (acc : S), acc.all isDigit = true →
    (natToDigitsAux fuel n acc).all isDigit = true := by
  intro fuel
  induction fuel with
  | zero => intro n acc h; simpa [natToDigitsAux] using h
  | succ fuel ih =>
    intro n acc h
    unfold natToDigitsAux
    have hd : isDigit (Char.ofNat (48 + n % 10)) = true := digit_isDigit _ (by omega)
    by_cases h10 : n < 10
    · simp only [h10, if_true, List.all_cons, hd, h, Bool.and_self]
    · simp only [h10, if_false]
      exact ih _ _ (by simp only [List.all_cons, hd, h, Bool.and_self])

private theorem aux_ne : ∀ (fuel n : Nat) (acc : S), acc ≠ [] → natToDigitsAux fuel n acc ≠ [] := by
  intro fuel
  induction fuel with
  | zero => intro n acc h; simpa [natToDigitsAux] using h
  | succ fuel ih =>
    intro n acc _
    unfold natToDigitsAux
    by_cases h10 : n < 10
    · simp [h10]
    · simp only [h10, if_false]
      exact ih _ _ (by simp)

theorem natToDigits_all (n : Nat) : (natToDigits n).all isDigit = true :=
  aux_all _ _ _ (by simp)

theorem natToDigits_ne (n : Nat) : natToDigits n ≠ [] := by
  unfold natToDigits natToDigitsAux
  by_cases h10 : n < 10
  · simp [h10]
  · simp only [h10, if_false]
    exact aux_ne _ _ _ (by simp)

/-- `int(str(n)) = n` on naturals -/
theorem digitsToNat_natToDigits (n : Nat) : digitsToNat? (natToDigits n) = some n := by
  unfold digitsToNat?
  have h1 := natToDigits_all n
  have h2 := natToDigits_ne n
  have h3 : (natToDigits n).isEmpty = false := by
    cases h : natToDigits n with
    | nil => exact absurd h h2
    | cons _ _ => rfl
  simp only [h3, h1, Bool.not_true, Bool.or_self, Bool.false_eq_true, if_false]
  have := aux_foldl (n + 1) n [] (by omega)
  simp only [List.foldl_nil] at this
  unfold natToDigits
  exact congrArg some this

private theorem parseInt_digits (s : S) (hne : s ≠ []) (hall : s.all isDigit = true) :
    parseInt? s = (digitsToNat? s).map fun n => (n : Int) := by
  cases s with
  | nil => exact absurd rfl hne
  | cons c r =>
    have hc : isDigit c = true := by
      simp only [List.all_cons, Bool.and_eq_true] at hall; exact hall.1
    unfold parseInt?
    split
    · rename_i d heq
      have : c = '-' := by injection heq
      subst this; exact absurd hc (by decide)
    · rename_i d heq
      have : c = '+' := by injection heq
      subst this; exact absurd hc (by decide)
    · rfl

/-- `int(str(n)) = n` on integers -/
theorem parseInt_intToStr (n : Int) : parseInt? (intToStr n) = some n := by
  cases n with
  | ofNat k =>
    simp only [intToStr]
    rw [parseInt_digits _ (natToDigits_ne k) (natToDigits_all k), digitsToNat_natToDigits]
    rfl
  | negSucc k =>
    simp only [intToStr, parseInt?]
    rw [digitsToNat_natToDigits]
    rfl

/-! ## `' '.join(ws).split() = ws` -/

private theorem split_word (w : S) (hw : w.all (fun c => !isSpace c) = true) :
    ∀ (cur rest : S), splitWordsAux cur (w ++ rest) = splitWordsAux (w.reverse ++ cur) rest := by
  induction w with
  | nil => intro cur rest; rfl
  | cons c w ih =>
    intro cur rest
    simp only [List.all_cons, Bool.and_eq_true, Bool.not_eq_true'] at hw
    have hrest : w.all (fun c => !isSpace c) = true := by
      simpa using hw.2
    simp only [List.cons_append, splitWordsAux, hw.1, Bool.false_eq_true, if_false]
    rw [ih hrest]
    simp

theorem splitWords_join (ws : List S) (h : ws.all wordOk = true) : splitWords (join [' '] ws) = ws := by
  unfold splitWords
  induction ws with
  | nil => rfl
  | cons p r ih =>
    simp only [List.all_cons, Bool.and_eq_true] at h
    obtain ⟨hp, hr⟩ := h
    unfold wordOk at hp
    simp only [Bool.and_eq_true, Bool.not_eq_true'] at hp
    obtain ⟨hpne, hpall⟩ := hp
    have hrev : p.reverse.isEmpty = false := by
      cases p with
      | nil => simp at hpne
      | cons _ _ => simp
    cases r with
    | nil =>
      have := split_word p hpall [] []
      simp only [List.append_nil] at this
      simp only [join, this, splitWordsAux, hrev, Bool.false_eq_true, if_false, List.reverse_reverse]
    | cons q r' =>
      simp only [join, List.append_assoc]
      rw [split_word p hpall]
      have hsp : isSpace ' ' = true := by decide
      simp only [List.append_nil, List.singleton_append, splitWordsAux, hsp, if_true, hrev, Bool.false_eq_true,
        if_false, List.reverse_reverse]
      rw [ih hr]

/-! ## every accepted printer/parser pair is a round trip on the parser's domain -/

theorem print_parse (pr : Printer) (pa : Parser) (v : Val) (hg : good pr pa = true) (hd : inDom pa v = true) :
    ∃ w, parse pa (print pr v) = some w ∧ norm pa w = norm pa v := by
  cases pa <;> cases pr <;> simp only [good, Bool.false_eq_true] at hg <;> cases v <;>
    simp only [inDom, Bool.false_eq_true] at hd
  -- raw
  · exact ⟨_, rfl, rfl⟩
  · exact ⟨_, rfl, rfl⟩
  -- toBool, lowerIfBool
  · rename_i s
    simp only [Bool.and_eq_true, Option.isNone_iff_eq_none] at hd
    refine ⟨.str s, ?_, rfl⟩
    simp only [print, pyStr, parse, hd.2, orVarRef, hd.1, if_true]
  · rename_i b
    cases b
    · exact ⟨.bool false, by decide, rfl⟩
    · exact ⟨.bool true, by decide, rfl⟩
  -- toInt: ident, strOf
  · rename_i s
    simp only [Bool.and_eq_true, Option.isNone_iff_eq_none] at hd
    refine ⟨.str s, ?_, rfl⟩
    simp only [print, pyStr, parse, hd.2, orVarRef, hd.1, if_true]
  · rename_i n
    exact ⟨.int n, by simp only [print, pyStr, parse, parseInt_intToStr], rfl⟩
  · rename_i s
    simp only [Bool.and_eq_true, Option.isNone_iff_eq_none] at hd
    refine ⟨.str s, ?_, rfl⟩
    simp only [print, pyStr, parse, hd.2, orVarRef, hd.1, if_true]
  · rename_i n
    exact ⟨.int n, by simp only [print, pyStr, parse, parseInt_intToStr], rfl⟩
  -- toFloat: ident, strOf
  · rename_i s
    simp only [Bool.and_eq_true, Bool.not_eq_true'] at hd
    refine ⟨.str s, ?_, rfl⟩
    simp only [print, pyStr, parse, hd.2, Bool.false_eq_true, if_false, orVarRef, hd.1, if_true]
  · rename_i l
    exact ⟨.float l, by simp only [print, pyStr, parse, hd, if_true], rfl⟩
  · rename_i s
    simp only [Bool.and_eq_true, Bool.not_eq_true'] at hd
    refine ⟨.str s, ?_, rfl⟩
    simp only [print, pyStr, parse, hd.2, Bool.false_eq_true, if_false, orVarRef, hd.1, if_true]
  · rename_i l
    exact ⟨.float l, by simp only [print, pyStr, parse, hd, if_true], rfl⟩
  -- toMem: ident, strOf
  · rename_i s
    refine ⟨.str s, ?_, rfl⟩
    simp only [print, pyStr, parse]
    cases hm : memBytes? s with
    | some n => rfl
    | none =>
      simp only [hm, Option.isSome_none, Bool.false_or] at hd
      simp only [orVarRef, hd, if_true]
  · rename_i n
    have hm : memBytes? (intToStr n) = some n := by
      simp only [memBytes?, parseInt_intToStr]
    refine ⟨.str (intToStr n), ?_, ?_⟩
    · simp only [print, pyStr, parse, hm]
    · simp only [norm, hm]
  · rename_i s
    refine ⟨.str s, ?_, rfl⟩
    simp only [print, pyStr, parse]
    cases hm : memBytes? s with
    | some n => rfl
    | none =>
      simp only [hm, Option.isSome_none, Bool.false_or] at hd
      simp only [orVarRef, hd, if_true]
  · rename_i n
    have hm : memBytes? (intToStr n) = some n := by
      simp only [memBytes?, parseInt_intToStr]
    refine ⟨.str (intToStr n), ?_, ?_⟩
    · simp only [print, pyStr, parse, hm]
    · simp only [norm, hm]
  -- split
  · rename_i ws
    exact ⟨.words ws, by simp only [print, parse, splitWords_join ws hd], rfl⟩

end St4sd.Ini
