import St4sd.Model.HashFs
import St4sd.Lemmas.C16Decode
/-!
C16: lemmas about the file-system layer of the hash model (`Model/HashFs.lean`):
what each operation does to `view`, resolving commutes with the sort of the references, and the counting
argument behind "different contents ⇒ different file entries".
-/
namespace St4sd.C16
open St4sd.Str St4sd.Hash

/-! ### `view` after each operation -/

theorem lookupFs_cons (k : S) (n : Node) (rest : Fs) (q : S) :
    lookupFs ((k, n) :: rest) q = if k = q then some n else lookupFs rest q := by
  simp [lookupFs]

theorem removeFs_cons (k : S) (n : Node) (rest : Fs) (p : S) :
    removeFs ((k, n) :: rest) p = if k = p then removeFs rest p else (k, n) :: removeFs rest p := by
  simp [removeFs]

theorem lookup_removeFs (fs : Fs) (p q : S) :
    lookupFs (removeFs fs p) q = if q = p then none else lookupFs fs q := by
  induction fs with
  | nil => simp [removeFs, lookupFs]
  | cons e rest ih =>
    obtain ⟨k, n⟩ := e
    rw [removeFs_cons, lookupFs_cons]
    by_cases hk : k = p
    · rw [if_pos hk, ih]
      by_cases hq : q = p
      · simp [hq]
      · have : ¬ k = q := fun e => hq (e ▸ hk)
        simp [hq, this]
    · rw [if_neg hk, lookupFs_cons, ih]
      by_cases hkq : k = q
      · have : ¬ q = p := fun e => hk (hkq ▸ e)
        simp [hkq, this]
      · simp [hkq]

theorem view_remove (fs : Fs) (p q : S) : view (removeFs fs p) q = if q = p then none else view fs q := by
  unfold view
  rw [lookup_removeFs]
  split <;> simp

theorem view_write (fs : Fs) (p c : S) (t i : Nat) (q : S) :
    view (step fs (.write p c t i)) q = if q = p then some (some c) else view fs q := by
  by_cases h : q = p
  · subst h; simp [step, view, lookupFs, Node.view]
  · have : (p == q) = false := by simpa using fun e => h e.symm
    simp only [step, view, lookupFs, this, if_neg h]
    rw [lookup_removeFs, if_neg h]
    rfl

theorem view_touch (fs : Fs) (p : S) (t : Nat) (q : S) : view (step fs (.touch p t)) q = view fs q := by
  cases hl : lookupFs fs p with
  | none => simp only [step, hl]
  | some n =>
    cases n with
    | dir => simp only [step, hl]
    | file c t0 i =>
      simp only [step, hl]
      by_cases h : q = p
      · subst h; simp [view, lookupFs, hl, Node.view]
      · have : (p == q) = false := by simpa using fun e => h e.symm
        simp only [view, lookupFs, this]
        rw [lookup_removeFs, if_neg h]
        rfl

theorem view_reload (fs : Fs) (q : S) : view (step fs .reload) q = view fs q := rfl

theorem view_rename (fs : Fs) (a b c : S) (t i : Nat) (ha : lookupFs fs a = some (.file c t i)) (hab : a ≠ b)
    (q : S) :
    view (step fs (.rename a b)) q = if q = b then some (some c) else if q = a then none else view fs q := by
  have hab' : (a == b) = false := by simpa using hab
  have hs : step fs (.rename a b) = (b, .file c t i) :: removeFs (removeFs fs a) b := by
    simp [step, ha, hab']
  rw [hs]
  by_cases h : q = b
  · subst h; simp [view, lookupFs, Node.view]
  · have : (b == q) = false := by simpa using fun e => h e.symm
    simp only [view, lookupFs, this, if_neg h]
    rw [lookup_removeFs, if_neg h, lookup_removeFs]
    by_cases h2 : q = a
    · simp [h2]
    · simp [h2]

/-! ### resolving -/

theorem resolveTarget_congr (fs₁ fs₂ : Fs) (l : Loc) (h : view fs₁ l.path = view fs₂ l.path) :
    resolveTarget fs₁ l = resolveTarget fs₂ l := by
  simp [resolveTarget, h]

theorem resolve_congr (fs₁ fs₂ : Fs) (r : SRef) (h : view fs₁ r.loc.path = view fs₂ r.loc.path) :
    r.resolve fs₁ = r.resolve fs₂ := by
  simp [SRef.resolve, resolveTarget_congr fs₁ fs₂ r.loc h]

theorem insertLen_resolve (fs : Fs) (x : SRef) (l : List SRef) :
    insertLen (x.resolve fs) (l.map (SRef.resolve fs)) = (insertLenS x l).map (SRef.resolve fs) := by
  induction l with
  | nil => simp [insertLen, insertLenS]
  | cons y ys ih =>
    simp only [List.map_cons, insertLen, insertLenS]
    have e1 : (y.resolve fs).abs = y.abs := rfl
    have e2 : (x.resolve fs).abs = x.abs := rfl
    rw [e1, e2]
    split
    · simp
    · simp [ih]

/-- resolving the references against a file system commutes with the sort by spelling length -/
theorem sortRefs_resolve (fs : Fs) (l : List SRef) :
    sortRefs (l.map (SRef.resolve fs)) = (sortSRefs l).map (SRef.resolve fs) := by
  induction l with
  | nil => simp [sortRefs, sortSRefs]
  | cons x xs ih => simp [sortRefs, sortSRefs, ih, insertLen_resolve]

theorem mem_insertLenS (x r : SRef) (l : List SRef) : r ∈ insertLenS x l ↔ r = x ∨ r ∈ l := by
  induction l with
  | nil => simp [insertLenS]
  | cons y ys ih =>
    simp only [insertLenS]
    split
    · simp
    · simp only [List.mem_cons, ih]; constructor <;> (intro h; rcases h with h | h | h <;> simp [h])

theorem mem_sortSRefs (r : SRef) (l : List SRef) : r ∈ sortSRefs l ↔ r ∈ l := by
  induction l with
  | nil => simp [sortSRefs]
  | cons x xs ih => simp [sortSRefs, mem_insertLenS, ih]

/-! ### counting file entries -/

/-- the `hash:method` text of an entry (what `infoCore` stores in `files`) -/
def es (e : FileEntry) : S := e.hash ++ ':' :: e.method

/-- how many times the text `k` one reference contributes to `files` -/
def contrib (k : S) : EntryRes → Nat
  | .entry e => if es e = k then 1 else 0
  | _ => 0

theorem count_fileEntries (md5 : S → S) (fuzzy : Bool) (ph : Nat → Option S) (k : S) (l : List Ref)
    (E : List FileEntry) (h : fileEntries md5 fuzzy ph l = some E) :
    (E.map es).count k = (l.map (fun r => contrib k (entryOf md5 fuzzy ph r))).sum := by
  induction l generalizing E with
  | nil =>
    simp only [fileEntries, Option.some.injEq] at h
    subst h; rfl
  | cons x xs ih =>
    simp only [fileEntries] at h
    cases he : entryOf md5 fuzzy ph x with
    | fail => simp [he] at h
    | skip =>
      simp only [he] at h
      simp [he, contrib, ih E h]
    | entry e =>
      simp only [he] at h
      cases h1 : fileEntries md5 fuzzy ph xs with
      | none => simp [h1] at h
      | some E1 =>
        simp only [h1, Option.map_some, Option.some.injEq] at h
        subst h
        simp only [List.map_cons, List.count_cons, ih E1 h1, he, contrib, List.sum_cons]
        by_cases hk : es e = k
        · simp [hk]; omega
        · have : (es e == k) = false := by simpa using hk
          simp [hk, this]

theorem fileEntries_no_fail (md5 : S → S) (fuzzy : Bool) (ph : Nat → Option S) (l : List Ref)
    (E : List FileEntry) (h : fileEntries md5 fuzzy ph l = some E) (r : Ref) (hr : r ∈ l) :
    entryOf md5 fuzzy ph r ≠ .fail := by
  induction l generalizing E with
  | nil => cases hr
  | cons x xs ih =>
    simp only [fileEntries] at h
    rcases List.mem_cons.mp hr with rfl | hx
    · intro hf; simp [hf] at h
    · cases he : entryOf md5 fuzzy ph x with
      | fail => simp [he] at h
      | skip => simp only [he] at h; exact ih E h hx
      | entry e =>
        simp only [he] at h
        cases h1 : fileEntries md5 fuzzy ph xs with
        | none => simp [h1] at h
        | some E1 => exact ih E1 h1 hx

theorem sum_map_le {α : Type} (l : List α) (f g : α → Nat) (h : ∀ a ∈ l, f a ≤ g a) :
    (l.map f).sum ≤ (l.map g).sum := by
  induction l with
  | nil => simp
  | cons x xs ih =>
    have h1 := h x (by simp)
    have h2 := ih (fun a ha => h a (List.mem_cons_of_mem _ ha))
    simp only [List.map_cons, List.sum_cons]; omega

theorem sum_map_lt {α : Type} (l : List α) (f g : α → Nat) (h : ∀ a ∈ l, f a ≤ g a) (a : α) (ha : a ∈ l)
    (hlt : f a < g a) : (l.map f).sum < (l.map g).sum := by
  induction l with
  | nil => cases ha
  | cons x xs ih =>
    have h1 := h x (by simp)
    have hle := sum_map_le xs f g (fun b hb => h b (List.mem_cons_of_mem _ hb))
    simp only [List.map_cons, List.sum_cons]
    rcases List.mem_cons.mp ha with rfl | hx
    · omega
    · have := ih (fun b hb => h b (List.mem_cons_of_mem _ hb)) hx
      omega

/-- in strong mode the producer hashes do not enter the file entries -/
theorem entryOf_strong_ph (md5 : S → S) (ph ph' : Nat → Option S) (r : Ref) :
    entryOf md5 false ph r = entryOf md5 false ph' r := by
  unfold entryOf
  cases r.target with
  | file c => rfl
  | dir => rfl
  | prodDir p => rfl
  | prodFile p c => cases c <;> simp

theorem fileEntries_strong_ph (md5 : S → S) (ph ph' : Nat → Option S) (l : List Ref) :
    fileEntries md5 false ph l = fileEntries md5 false ph' l := by
  induction l with
  | nil => rfl
  | cons x xs ih => simp only [fileEntries, entryOf_strong_ph md5 ph ph' x, ih]

/-- the reference reads the contents of its file when the hash is strong, or when the file is not produced by
a component of the graph -/
def Sensitive (fuzzy : Bool) (r : SRef) : Prop := fuzzy = false ∨ ∃ q, r.loc = .direct q

theorem entryOf_sensitive (md5 : S → S) (fuzzy : Bool) (ph : Nat → Option S) (fs : Fs) (r : SRef) (x : S)
    (hx : view fs r.loc.path = some (some x)) (hs : Sensitive fuzzy r) :
    entryOf md5 fuzzy ph (r.resolve fs) =
      if (md5 x).isEmpty then .fail else .entry ⟨r.abs, md5 x, r.method⟩ := by
  cases hl : r.loc with
  | direct q =>
    simp only [hl, Loc.path] at hx
    simp [entryOf, SRef.resolve, resolveTarget, hl, Loc.path, hx, targetOf]
  | produced p q =>
    rcases hs with hf | ⟨q', hq'⟩
    · subst hf
      simp only [hl, Loc.path] at hx
      simp [entryOf, SRef.resolve, resolveTarget, hl, Loc.path, hx, targetOf]
    · rw [hl] at hq'; cases hq'

theorem entryOf_insensitive (md5 : S → S) (ph : Nat → Option S) (fs fs' : Fs) (r : SRef) (x y : S)
    (hx : view fs r.loc.path = some (some x)) (hy : view fs' r.loc.path = some (some y))
    (hs : ¬ Sensitive true r) :
    entryOf md5 true ph (r.resolve fs) = entryOf md5 true ph (r.resolve fs') := by
  cases hl : r.loc with
  | direct q => exact absurd (Or.inr ⟨q, hl⟩) hs
  | produced p q =>
    simp only [hl, Loc.path] at hx hy
    simp [entryOf, SRef.resolve, resolveTarget, hl, Loc.path, hx, hy, targetOf]

theorem es_ne (md5 : S → S) (hinj : Function.Injective md5) (x y m m' : S) (hcx : ':' ∉ md5 x)
    (hcy : ':' ∉ md5 y) (hxy : x ≠ y) : md5 y ++ ':' :: m' ≠ md5 x ++ ':' :: m := by
  intro e
  have := (colon_cancel _ _ _ _ hcy hcx e).1
  exact hxy (hinj this).symm

/-- one reference contributes the text `md5 x:m` at most as often after the file at `p` changed from `x` to
`y ≠ x` as before -/
theorem contrib_le (md5 : S → S) (hinj : Function.Injective md5) (fuzzy : Bool)
    (ph : Nat → Option S) (fs fs' : Fs) (p x y m : S) (hcx : ':' ∉ md5 x) (hcy : ':' ∉ md5 y) (hx : view fs p = some (some x))
    (hy : view fs' p = some (some y)) (hxy : x ≠ y) (r : SRef)
    (hag : r.loc.path ≠ p → view fs r.loc.path = view fs' r.loc.path) :
    contrib (md5 x ++ ':' :: m) (entryOf md5 fuzzy ph (r.resolve fs')) ≤
      contrib (md5 x ++ ':' :: m) (entryOf md5 fuzzy ph (r.resolve fs)) := by
  by_cases hp : r.loc.path = p
  · subst hp
    by_cases hs : Sensitive fuzzy r
    · rw [entryOf_sensitive md5 fuzzy ph fs' r y hy hs]
      split
      · simp [contrib]
      · simp [contrib, es, es_ne md5 hinj x y m r.method hcx hcy hxy]
    · have hf : fuzzy = true := by
        cases fuzzy with
        | false => exact absurd (Or.inl rfl) hs
        | true => rfl
      subst hf
      rw [entryOf_insensitive md5 ph fs fs' r x y hx hy hs]
      exact Nat.le_refl _
  · rw [resolve_congr fs fs' r (hag hp)]
    exact Nat.le_refl _

/-- … and strictly less often when it consumed that file through method `m` and reads its contents -/
theorem contrib_lt (md5 : S → S) (hinj : Function.Injective md5) (fuzzy : Bool)
    (ph : Nat → Option S) (fs fs' : Fs) (x y : S) (hcx : ':' ∉ md5 x) (hcy : ':' ∉ md5 y) (r : SRef) (hx : view fs r.loc.path = some (some x))
    (hy : view fs' r.loc.path = some (some y)) (hxy : x ≠ y) (hs : Sensitive fuzzy r)
    (hnf : entryOf md5 fuzzy ph (r.resolve fs) ≠ .fail) :
    contrib (md5 x ++ ':' :: r.method) (entryOf md5 fuzzy ph (r.resolve fs')) <
      contrib (md5 x ++ ':' :: r.method) (entryOf md5 fuzzy ph (r.resolve fs)) := by
  rw [entryOf_sensitive md5 fuzzy ph fs r x hx hs] at hnf ⊢
  rw [entryOf_sensitive md5 fuzzy ph fs' r y hy hs]
  have h1 : (md5 x).isEmpty = false := by
    cases h : (md5 x).isEmpty with
    | true => simp [h] at hnf
    | false => rfl
  have h2 : ∀ z, contrib (md5 x ++ ':' :: r.method)
      (if (md5 y).isEmpty then EntryRes.fail else .entry ⟨z, md5 y, r.method⟩) = 0 := by
    intro z
    split
    · simp [contrib]
    · simp [contrib, es, es_ne md5 hinj x y r.method r.method hcx hcy hxy]
  rw [h2]
  simp [h1, contrib, es]

/-! ### `sortStr` keeps the multiset -/

theorem count_insertStr (a x : S) (l : List S) : (insertStr x l).count a = (x :: l).count a := by
  induction l with
  | nil => simp [insertStr]
  | cons y ys ih =>
    simp only [insertStr]
    split
    · rfl
    · simp only [List.count_cons, ih]; omega

theorem count_sortStr (a : S) (l : List S) : (sortStr l).count a = l.count a := by
  induction l with
  | nil => simp [sortStr]
  | cons x xs ih => simp only [sortStr, count_insertStr, List.count_cons, ih]

end St4sd.C16
