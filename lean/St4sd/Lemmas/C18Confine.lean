import St4sd.Model.Confine
/-!
# C18 — invariants of the confinement model and the lemmas that carry them through every operation

`Good dest fs0 st` is the invariant threaded through extraction / deployment:

* `Safe dest st.fs`   — every symbolic link located under `dest` has a relative text without `..`
  ("descending"), and every regular file under `dest` is a name of an inode whose first name is under
  `dest` (no hard link from inside to outside);
* `LogUnder dest st.log` — everything created or modified so far lies under `dest`;
* `Frame dest fs0 st.fs` — no location outside `dest` has changed with respect to the initial state `fs0`.
-/
namespace St4sd.Confine
open St4sd.Str

/-- what a node placed under `dest` must satisfy -/
def NodeOk (dest : Path) : Node → Prop
  | Node.dir => True
  | Node.file ino => dest <:+ ino
  | Node.link a t => a = false ∧ allNames t = true

def Safe (dest : Path) (fs : Fs) : Prop :=
  ∀ p n, dest <:+ p → fs.get p = some n → NodeOk dest n

def LogUnder (dest : Path) (log : List Path) : Prop := ∀ p ∈ log, dest <:+ p

def Frame (dest : Path) (fs0 fs : Fs) : Prop := ∀ q, ¬ dest <:+ q → fs.get q = fs0.get q

structure Good (dest : Path) (fs0 : Fs) (st : St) : Prop where
  safe : Safe dest st.fs
  log : LogUnder dest st.log
  frame : Frame dest fs0 st.fs

theorem get_put (fs : Fs) (q p : Path) (n : Node) :
    (fs.put q n).get p = if q = p then some n else fs.get p := by
  simp [Fs.put, Fs.get]

theorem good_init {dest : Path} {fs : Fs} (h : Safe dest fs) : Good dest fs ⟨fs, []⟩ :=
  ⟨h, (by intro p hp; cases hp), (by intro q _; rfl)⟩

theorem good_put {dest : Path} {fs0 : Fs} {st : St} (h : Good dest fs0 st) {q : Path} {n : Node}
    (hq : dest <:+ q) (hn : NodeOk dest n) :
    Good dest fs0 { fs := st.fs.put q n, log := q :: st.log } := by
  refine ⟨?_, ?_, ?_⟩
  · intro p m hp hget
    rw [get_put] at hget
    split at hget
    · cases hget; exact hn
    · exact h.safe p m hp hget
  · intro p hp
    rcases List.mem_cons.mp hp with rfl | hp
    · exact hq
    · exact h.log p hp
  · intro p hp
    show (st.fs.put q n).get p = fs0.get p
    rw [get_put]
    split
    · rename_i heq; subst heq; exact absurd hq hp
    · exact h.frame p hp

theorem good_log {dest : Path} {fs0 : Fs} {st : St} (h : Good dest fs0 st) {q : Path} (hq : dest <:+ q) :
    Good dest fs0 { st with log := q :: st.log } := by
  refine ⟨h.safe, ?_, h.frame⟩
  intro p hp
  rcases List.mem_cons.mp hp with rfl | hp
  · exact hq
  · exact h.log p hp

theorem under_cons {dest cur : Path} (s : S) (h : dest <:+ cur) : dest <:+ s :: cur :=
  List.IsSuffix.trans h (List.suffix_cons s cur)

theorem allNames_cons {x : Seg} {r : List Seg} : allNames (x :: r) = true ↔ isName x = true ∧ allNames r = true := by
  simp [allNames]

theorem allNames_append {a b : List Seg} : allNames (a ++ b) = true ↔ allNames a = true ∧ allNames b = true := by
  simp [allNames, List.all_append]

theorem splitLastSeg_eq {l parents : List Seg} {x : Seg} (h : splitLastSeg l = some (parents, x)) :
    l = parents ++ [x] := by
  induction l generalizing parents x with
  | nil => simp [splitLastSeg] at h
  | cons a r ih =>
    cases r with
    | nil =>
      simp [splitLastSeg] at h
      obtain ⟨rfl, rfl⟩ := h
      rfl
    | cons b r' =>
      simp only [splitLastSeg] at h
      cases hs : splitLastSeg (b :: r') with
      | none => simp [hs] at h
      | some pr =>
        obtain ⟨i, l⟩ := pr
        simp [hs] at h
        obtain ⟨rfl, rfl⟩ := h
        rw [ih hs]
        rfl

/-- The kernel walk along components without `..`, started under `dest`, in a state whose links under `dest`
are all descending, ends under `dest`. -/
theorem resolve_under {dest : Path} {fs : Fs} (hs : Safe dest fs) :
    ∀ (f : Nat) (cur : Path) (segs : List Seg) (p : Path), dest <:+ cur → allNames segs = true →
      resolve fs f cur segs = some p → dest <:+ p := by
  intro f
  induction f with
  | zero => intro cur segs p _ _ h; simp [resolve] at h
  | succ f ih =>
    intro cur segs p hc hn h
    cases segs with
    | nil => simp [resolve] at h; subst h; exact hc
    | cons x r =>
      obtain ⟨hx, hr⟩ := allNames_cons.mp hn
      cases x with
      | up => simp [isName] at hx
      | name s =>
        have hsc : dest <:+ s :: cur := under_cons s hc
        simp only [resolve] at h
        cases hget : fs.get (s :: cur) with
        | none =>
          simp only [hget] at h
          split at h
          · cases h; exact hsc
          · cases h
        | some n =>
          simp only [hget] at h
          cases n with
          | dir => exact ih _ _ _ hsc hr h
          | file ino =>
            simp only at h
            split at h
            · cases h; exact hsc
            · cases h
          | link a t =>
            have hok := hs _ _ hsc hget
            obtain ⟨ha, ht⟩ := hok
            subst ha
            simp only at h
            exact ih _ _ _ hc (allNames_append.mpr ⟨ht, hr⟩) h

/-- `descend` (makedirs + walk) keeps the invariant and ends under `dest`. -/
theorem descend_good {dest : Path} {fs0 : Fs} :
    ∀ (f : Nat) (st : St) (cur : Path) (segs : List Seg) (st' : St) (o : Option Path),
      Good dest fs0 st → dest <:+ cur → allNames segs = true →
      descend f st cur segs = (st', o) → Good dest fs0 st' ∧ ∀ p, o = some p → dest <:+ p := by
  intro f
  induction f with
  | zero =>
    intro st cur segs st' o hg _ _ h
    simp [descend] at h
    obtain ⟨rfl, rfl⟩ := h
    exact ⟨hg, by intro p hp; cases hp⟩
  | succ f ih =>
    intro st cur segs st' o hg hc hn h
    cases segs with
    | nil =>
      simp [descend] at h
      obtain ⟨rfl, rfl⟩ := h
      exact ⟨hg, by intro p hp; cases hp; exact hc⟩
    | cons x r =>
      obtain ⟨hx, hr⟩ := allNames_cons.mp hn
      cases x with
      | up => simp [isName] at hx
      | name s =>
        have hsc : dest <:+ s :: cur := under_cons s hc
        simp only [descend] at h
        cases hget : st.fs.get (s :: cur) with
        | none =>
          simp only [hget] at h
          exact ih _ _ _ _ _ (good_put hg hsc (n := Node.dir) trivial) hsc hr h
        | some n =>
          simp only [hget] at h
          cases n with
          | dir => exact ih _ _ _ _ _ hg hsc hr h
          | file ino =>
            simp only at h
            cases h
            exact ⟨hg, by intro p hp; cases hp⟩
          | link a t =>
            obtain ⟨ha, ht⟩ := hg.safe _ _ hsc hget
            subst ha
            simp only at h
            cases hres : resolve st.fs fuel0 cur t with
            | none =>
              simp [hres] at h
              obtain ⟨rfl, rfl⟩ := h
              exact ⟨hg, by intro p hp; cases hp⟩
            | some q =>
              have hq : dest <:+ q := resolve_under hg.safe _ _ _ _ hc ht hres
              simp [hres] at h
              split at h
              · exact ih _ _ _ _ _ hg hq hr h
              · cases h
                exact ⟨hg, by intro p hp; cases hp⟩

/-- `open(…, "wb")` below a directory under `dest` keeps the invariant. -/
theorem writeFile_good {dest : Path} {fs0 : Fs} {st st' : St} {par : Path} {s : S} {e : Option Err}
    (hg : Good dest fs0 st) (hp : dest <:+ par) (h : writeFile st par s = (st', e)) : Good dest fs0 st' := by
  unfold writeFile at h
  cases hres : resolve st.fs fuel0 par [Seg.name s] with
  | none => simp [hres] at h; obtain ⟨rfl, _⟩ := h; exact hg
  | some p =>
    have hpu : dest <:+ p := resolve_under hg.safe _ _ _ _ hp (by simp [allNames, isName]) hres
    simp only [hres] at h
    split at h
    · cases h; exact hg
    · cases hget : st.fs.get p with
      | none =>
        simp only [hget] at h
        cases h
        exact good_put hg hpu hpu
      | some n =>
        simp only [hget] at h
        cases n with
        | dir => cases h; exact hg
        | link a t => cases h; exact hg
        | file ino =>
          cases h
          have hino : dest <:+ ino := hg.safe _ _ hpu hget
          exact good_log (good_log hg hino) hpu

/-- a member whose name is relative without `..` and whose link target (if any) is descending -/
def MemberRel (m : Member) : Prop :=
  m.name.abs = false ∧ allNames m.name.segs = true ∧
  match m with
  | Member.sym _ t => t.abs = false ∧ allNames t.segs = true
  | Member.hard _ t => t.abs = false ∧ allNames t.segs = true
  | _ => True

theorem memberRel_of_ok {dest : Path} {m : Member} (h : memberOk dest m = true) : MemberRel (relativize dest m) := by
  cases m <;> simp [memberOk, descending] at h <;> simp [MemberRel, relativize, Member.name, h]

/-- one member keeps the invariant -/
theorem extractOne_good {dest : Path} {fs0 : Fs} {st st' : St} {m : Member} {e : Option Err}
    (hg : Good dest fs0 st) (hm : MemberRel m) (h : extractOne dest st m = (st', e)) : Good dest fs0 st' := by
  obtain ⟨habs, hnames, hlink⟩ := hm
  unfold extractOne at h
  simp only at h
  cases hsplit : splitLastSeg m.name.segs with
  | none =>
    simp only [hsplit] at h
    cases m <;> simp at h <;> (obtain ⟨rfl, _⟩ := h; exact hg)
  | some pr =>
    obtain ⟨parents, l⟩ := pr
    have hsegs := splitLastSeg_eq hsplit
    rw [hsegs] at hnames
    obtain ⟨hpar, hl⟩ := allNames_append.mp hnames
    cases l with
    | up => simp [allNames, isName] at hl
    | name s =>
      simp only [hsplit] at h
      have hstart : start dest m.name = dest := by simp [start, habs]
      rw [hstart] at h
      cases hd : descend fuel0 st dest parents with
      | mk st1 o =>
        obtain ⟨hg1, ho⟩ := descend_good _ _ _ _ _ _ hg (List.suffix_refl dest) hpar hd
        simp only [hd] at h
        cases o with
        | none => simp at h; obtain ⟨rfl, _⟩ := h; exact hg1
        | some par =>
          have hparu : dest <:+ par := ho par rfl
          have hsp : dest <:+ s :: par := under_cons s hparu
          simp only at h
          cases m with
          | file n => exact writeFile_good hg1 hparu h
          | dir n =>
            simp only at h
            cases hget : st1.fs.get (s :: par) with
            | none => simp only [hget] at h; cases h; exact good_put hg1 hsp (n := Node.dir) trivial
            | some nd =>
              simp only [hget] at h
              cases hres : resolve st1.fs fuel0 par [Seg.name s] with
              | none => simp only [hres] at h; cases h; exact hg1
              | some p =>
                simp only [hres] at h
                cases h
                exact good_log hg1 (resolve_under hg1.safe _ _ _ _ hparu (by simp [allNames, isName]) hres)
          | sym n t =>
            simp only at h hlink
            split at h
            · cases h; exact hg1
            · cases h
              exact good_put hg1 hsp ⟨hlink.1, hlink.2⟩
          | hard n t =>
            simp only at h hlink
            obtain ⟨htabs, htn⟩ := hlink
            cases hts : splitLastSeg t.segs with
            | none => simp only [hts] at h; cases h; exact hg1
            | some tpr =>
              obtain ⟨tparents, tl⟩ := tpr
              have htsegs := splitLastSeg_eq hts
              rw [htsegs] at htn
              obtain ⟨htpar, _⟩ := allNames_append.mp htn
              cases tl with
              | up => simp only [hts] at h; cases h; exact hg1
              | name ts =>
                simp only [hts] at h
                have hst : start dest t = dest := by simp [start, htabs]
                rw [hst] at h
                cases hres : resolve st1.fs fuel0 dest tparents with
                | none => simp only [hres] at h; cases h; exact hg1
                | some tp =>
                  have htp : dest <:+ tp := resolve_under hg1.safe _ _ _ _ (List.suffix_refl dest) htpar hres
                  simp only [hres] at h
                  cases hget : st1.fs.get (ts :: tp) with
                  | none => simp only [hget] at h; cases h; exact hg1
                  | some nd =>
                    have hok := hg1.safe _ _ (under_cons ts htp) hget
                    simp only [hget] at h
                    cases nd with
                    | dir => simp only at h; cases h; exact hg1
                    | file ino =>
                      simp only at h
                      split at h
                      · cases h; exact hg1
                      · cases h; exact good_put hg1 hsp hok
                    | link a lt =>
                      simp only at h
                      split at h
                      · cases h; exact hg1
                      · split at h
                        · cases h; exact hg1
                        · cases h; exact good_put hg1 hsp hok

theorem extractAll_good {dest : Path} {fs0 : Fs} :
    ∀ (ms : List Member) (st st' : St) (e : Option Err), Good dest fs0 st → (∀ m ∈ ms, MemberRel m) →
      extractAll dest st ms = (st', e) → Good dest fs0 st' := by
  intro ms
  induction ms with
  | nil => intro st st' e hg _ h; simp [extractAll] at h; obtain ⟨rfl, _⟩ := h; exact hg
  | cons m ms ih =>
    intro st st' e hg hm h
    simp only [extractAll] at h
    cases h1 : extractOne dest st m with
    | mk st1 e1 =>
      have hg1 := extractOne_good hg (hm m (List.mem_cons_self ..)) h1
      simp only [h1] at h
      cases e1 with
      | none => exact ih _ _ _ hg1 (fun m' hm' => hm m' (List.mem_cons_of_mem _ hm')) h
      | some x => simp at h; obtain ⟨rfl, _⟩ := h; exact hg1

end St4sd.Confine

namespace St4sd.Confine
open St4sd.Str

/-! ## manifest deployment -/

theorem under_iff {dest p : Path} : under dest p = true ↔ dest <:+ p := by
  simp [under]

/-- invariant of deployment into `target`: log and frame as above; `target` and its ancestors exist;
regular files under `target` have no name outside it -/
structure DGood (target : Path) (fs0 : Fs) (st : St) : Prop where
  log : LogUnder target st.log
  frame : Frame target fs0 st.fs
  anc : ∀ q, q <:+ target → q ≠ [] → st.fs.get q ≠ none
  files : ∀ p ino, target <:+ p → st.fs.get p = some (Node.file ino) → target <:+ ino

theorem dgood_put {target : Path} {fs0 : Fs} {st : St} (h : DGood target fs0 st) {q : Path} {n : Node}
    (hq : target <:+ q) (hn : ∀ ino, n = Node.file ino → target <:+ ino) :
    DGood target fs0 { fs := st.fs.put q n, log := q :: st.log } := by
  refine ⟨?_, ?_, ?_, ?_⟩
  · intro p hp
    rcases List.mem_cons.mp hp with rfl | hp
    · exact hq
    · exact h.log p hp
  · intro p hp
    show (st.fs.put q n).get p = fs0.get p
    rw [get_put]
    split
    · rename_i heq; subst heq; exact absurd hq hp
    · exact h.frame p hp
  · intro p hp hne
    show (st.fs.put q n).get p ≠ none
    rw [get_put]
    split
    · simp
    · exact h.anc p hp hne
  · intro p ino hp hget
    change (st.fs.put q n).get p = _ at hget
    rw [get_put] at hget
    split at hget
    · cases hget; exact hn ino rfl
    · exact h.files p ino hp hget

theorem dgood_log {target : Path} {fs0 : Fs} {st : St} (h : DGood target fs0 st) {q : Path} (hq : target <:+ q) :
    DGood target fs0 { st with log := q :: st.log } := by
  refine ⟨?_, h.frame, h.anc, h.files⟩
  intro p hp
  rcases List.mem_cons.mp hp with rfl | hp
  · exact hq
  · exact h.log p hp

theorem walk_spec {fs : Fs} :
    ∀ (f : Nat) (cur : Path) (segs : List Seg) (base : Path) (rest : List Seg) (b : Bool),
      allNames segs = true → walk fs f cur segs = some (base, rest, b) →
      allNames rest = true ∧ (b = false → ∀ s r, rest = Seg.name s :: r → fs.get (s :: base) = none) := by
  intro f
  induction f with
  | zero => intro cur segs base rest b _ h; simp [walk] at h
  | succ f ih =>
    intro cur segs base rest b hn h
    cases segs with
    | nil =>
      simp [walk] at h
      obtain ⟨rfl, rfl, rfl⟩ := h
      exact ⟨rfl, by intro _ s r hr; cases hr⟩
    | cons x r =>
      obtain ⟨hx, hr⟩ := allNames_cons.mp hn
      cases x with
      | up => simp [isName] at hx
      | name s =>
        simp only [walk] at h
        cases hget : fs.get (s :: cur) with
        | none =>
          simp only [hget] at h
          cases h
          refine ⟨hn, ?_⟩
          intro _ s' r' heq
          cases heq
          exact hget
        | some n =>
          simp only [hget] at h
          cases n with
          | dir => exact ih _ _ _ _ _ hr h
          | file ino =>
            simp only at h
            cases h
            exact ⟨hr, by intro hb; cases hb⟩
          | link a t =>
            simp only at h
            cases hres : resolve fs fuel0 (if a = true then [] else cur) t with
            | none => simp [hres] at h
            | some q =>
              simp only [hres] at h
              split at h
              · exact ih _ _ _ _ _ hr h
              · cases h
                exact ⟨hr, by intro hb; cases hb⟩

theorem extend_suffix : ∀ (r : List Seg) (cur : Path), allNames r = true → cur <:+ extend cur r := by
  intro r
  induction r with
  | nil => intro cur _; exact List.suffix_refl cur
  | cons x r ih =>
    intro cur hn
    obtain ⟨hx, hr⟩ := allNames_cons.mp hn
    cases x with
    | up => simp [isName] at hx
    | name s =>
      simp only [extend]
      exact List.IsSuffix.trans (List.suffix_cons s cur) (ih (s :: cur) hr)

theorem mkChain_good {target : Path} {fs0 : Fs} :
    ∀ (rest : List Seg) (st : St) (cur : Path) (st' : St) (par : Path), allNames rest = true →
      DGood target fs0 st → target <:+ cur → mkChain st cur rest = (st', par) →
      DGood target fs0 st' ∧ target <:+ par := by
  intro rest
  induction rest with
  | nil => intro st cur st' par _ hg hc h; simp [mkChain] at h; obtain ⟨rfl, rfl⟩ := h; exact ⟨hg, hc⟩
  | cons x r ih =>
    intro st cur st' par hn hg hc h
    obtain ⟨hx, hr⟩ := allNames_cons.mp hn
    cases x with
    | up => simp [isName] at hx
    | name s =>
      have hsc := under_cons s hc
      simp only [mkChain] at h
      split at h
      · exact ih _ _ _ _ hr hg hsc h
      · exact ih _ _ _ _ hr (dgood_put hg hsc (by intro ino hi; cases hi)) hsc h

/-- the heart of the deployment guard: if the real parent `extend base rest` is under `target`, `target` and
its ancestors exist and the first component of `rest` is missing in `base`, then already that first missing
component lies under `target` -/
theorem first_missing_under {target base : Path} {fs : Fs} {s : S} {r : List Seg}
    (hanc : ∀ q, q <:+ target → q ≠ [] → fs.get q ≠ none) (hr : allNames r = true)
    (hmiss : fs.get (s :: base) = none) (hu : target <:+ extend (s :: base) r) : target <:+ s :: base := by
  have h2 : (s :: base) <:+ extend (s :: base) r := extend_suffix r _ hr
  rcases List.suffix_or_suffix_of_suffix hu h2 with h | h
  · exact h
  · exact absurd hmiss (hanc _ h (by simp))

theorem deployOne_good {target : Path} {fs0 : Fs} {st st' : St} {e : Entry} {x : Option Err}
    (hg : DGood target fs0 st) (h : deployOne true target st e = (st', x)) : DGood target fs0 st' := by
  unfold deployOne at h
  split at h
  · cases h; exact hg
  · split at h
    · cases h; exact hg
    · rename_i hnames
      simp only [Bool.true_and, Bool.not_eq_true', Bool.not_eq_false] at hnames
      have hnames' : allNames e.key.segs = true := by
        cases hh : allNames e.key.segs <;> simp_all
      cases hsplit : splitLastSeg e.key.segs with
      | none => simp only [hsplit] at h; cases h; exact hg
      | some pr =>
        obtain ⟨parents, l⟩ := pr
        have hsegs := splitLastSeg_eq hsplit
        rw [hsegs] at hnames'
        obtain ⟨hpar, _⟩ := allNames_append.mp hnames'
        cases l with
        | up => simp only [hsplit] at h; cases h; exact hg
        | name s =>
          simp only [hsplit] at h
          cases hw : walk st.fs fuel0 target parents with
          | none => simp only [hw] at h; cases h; exact hg
          | some w =>
            obtain ⟨base, rest, blocked⟩ := w
            obtain ⟨hrest, hfirst⟩ := walk_spec _ _ _ _ _ _ hpar hw
            simp only [hw] at h
            split at h
            · cases h; exact hg
            · rename_i hguard
              have hu : target <:+ extend base rest := by
                cases hh : under target (extend base rest)
                · simp [hh] at hguard
                · exact under_iff.mp hh
              split at h
              · cases h; exact hg
              · rename_i hb
                have hb' : blocked = false := by cases blocked <;> simp_all
                cases hmeth : e.method with
                | copy =>
                  simp only [hmeth] at h
                  cases hmk : mkChain st base rest with
                  | mk st1 par =>
                    simp only [hmk] at h
                    have hres : DGood target fs0 st1 ∧ target <:+ par := by
                      cases rest with
                      | nil =>
                        simp [mkChain] at hmk
                        obtain ⟨rfl, rfl⟩ := hmk
                        exact ⟨hg, hu⟩
                      | cons y r =>
                        obtain ⟨hy, hr⟩ := allNames_cons.mp hrest
                        cases y with
                        | up => simp [isName] at hy
                        | name s1 =>
                          have hmiss := hfirst hb' s1 r rfl
                          have hs1 : target <:+ s1 :: base := first_missing_under hg.anc hr hmiss hu
                          simp only [mkChain, hmiss, Option.isSome_none] at hmk
                          exact mkChain_good _ _ _ _ _ hr (dgood_put hg hs1 (by intro ino hi; cases hi)) hs1 hmk
                    obtain ⟨hg1, hparu⟩ := hres
                    have hsp := under_cons s hparu
                    split at h
                    · cases h; exact hg1
                    · cases h
                      have h1 := dgood_put hg1 hsp (n := Node.dir) (by intro ino hi; cases hi)
                      exact dgood_put h1 (under_cons ['f'] hsp) (by intro ino hi; cases hi; exact under_cons ['f'] hsp)
                | link =>
                  simp only [hmeth] at h
                  split at h
                  · cases h; exact hg
                  · rename_i hre
                    have hre' : rest = [] := by cases rest <;> simp_all
                    subst hre'
                    split at h
                    · cases h; exact hg
                    · cases h
                      exact dgood_put hg (under_cons s hu) (by intro ino hi; cases hi)

theorem deployAll_good {target : Path} {fs0 : Fs} :
    ∀ (es : List Entry) (st st' : St) (x : Option Err), DGood target fs0 st →
      deployAll true target st es = (st', x) → DGood target fs0 st' := by
  intro es
  induction es with
  | nil => intro st st' x hg h; simp [deployAll] at h; obtain ⟨rfl, _⟩ := h; exact hg
  | cons e es ih =>
    intro st st' x hg h
    simp only [deployAll] at h
    cases h1 : deployOne true target st e with
    | mk st1 e1 =>
      have hg1 := deployOne_good hg h1
      simp only [h1] at h
      cases e1 with
      | none => exact ih _ _ _ hg1 h
      | some y => simp at h; obtain ⟨rfl, _⟩ := h; exact hg1

theorem writeAt_good {target : Path} {fs0 : Fs} {st st' : St} {p : Path} {x : Option Err}
    (hg : DGood target fs0 st) (hp : target <:+ p) (h : writeAt st p = (st', x)) : DGood target fs0 st' := by
  unfold writeAt at h
  split at h
  · cases h; exact hg
  · cases hget : st.fs.get p with
    | none => simp only [hget] at h; cases h; exact dgood_put hg hp (by intro ino hi; cases hi; exact hp)
    | some n =>
      simp only [hget] at h
      cases n with
      | dir => cases h; exact hg
      | link a t => cases h; exact hg
      | file ino => cases h; exact dgood_log (dgood_log hg (hg.files p ino hp hget)) hp

theorem confDir_good {target : Path} {fs0 : Fs} {st st' : St} {k : Bool} {x : Option Err}
    (hg : DGood target fs0 st) (h : confDir target st k = (st', x)) : DGood target fs0 st' := by
  unfold confDir at h
  split at h
  · cases h; exact hg
  · split at h
    · cases h; exact hg
    · cases h
      exact dgood_put hg (under_cons confName (List.suffix_refl target)) (n := Node.dir) (by intro ino hi; cases hi)

theorem confFile_good {target : Path} {fs0 : Fs} {st st' : St} {x : Option Err}
    (hg : DGood target fs0 st) (h : confFile true target st = (st', x)) : DGood target fs0 st' := by
  unfold confFile at h
  cases hw : walk st.fs fuel0 target [Seg.name confName, Seg.name pkgName] with
  | none => simp only [hw] at h; cases h; exact hg
  | some w =>
    obtain ⟨base, rest, blocked⟩ := w
    simp only [hw] at h
    split at h
    · cases h; exact hg
    · rename_i hguard
      have hu : target <:+ extend base rest := by
        cases hh : under target (extend base rest)
        · simp [hh] at hguard
        · exact under_iff.mp hh
      split at h
      · rename_i hre
        have hre' : rest = [] := by cases rest <;> simp_all
        subst hre'
        exact writeAt_good hg hu h
      · split at h
        · exact writeAt_good hg hu h
        · cases h; exact hg

theorem deployConf_good {target : Path} {fs0 : Fs} {st st' : St} {k : Bool} {x : Option Err}
    (hg : DGood target fs0 st) (h : deployConf true target st k = (st', x)) : DGood target fs0 st' := by
  unfold deployConf at h
  cases h1 : confDir target st k with
  | mk st1 e1 =>
    have hg1 := confDir_good hg h1
    simp only [h1] at h
    cases e1 with
    | none => exact confFile_good hg1 h
    | some y => simp at h; obtain ⟨rfl, _⟩ := h; exact hg1

/-! ### the textual-normalisation rule for link targets (`checkNormpath`) against the repaired rule -/

/-- `os.path.normpath` leaves a path without `..` alone -/
theorem normalize_names (abs : Bool) : ∀ (l acc : List Seg), allNames l = true →
    normalize abs acc l = acc.reverse ++ l := by
  intro l
  induction l with
  | nil => intro acc _; cases acc <;> simp [normalize]
  | cons x r ih =>
    intro acc h
    obtain ⟨hx, hr⟩ := allNames_cons.mp h
    cases x with
    | up => simp [isName] at hx
    | name s =>
      have : normalize abs acc (Seg.name s :: r) = normalize abs (Seg.name s :: acc) r := by
        cases acc <;> simp [normalize]
      rw [this, ih _ hr]
      simp

theorem normConfined_of_names {l : List Seg} (h : allNames l = true) : normConfined l = true := by
  unfold normConfined
  rw [normalize_names false l [] h]
  simpa using h

theorem allNames_dirSegs {l : List Seg} (h : allNames l = true) : allNames (dirSegs l) = true := by
  unfold dirSegs
  cases hs : splitLastSeg l with
  | none => rfl
  | some pr =>
    obtain ⟨i, x⟩ := pr
    have := splitLastSeg_eq hs
    rw [this] at h
    exact (allNames_append.mp h).1

/-- member by member: the repaired rule = the textual rule and "the link target is descending" -/
theorem memberOk_eq (dest : Path) (m : Member) :
    memberOk dest m = (memberOkNormpath dest m && linkTargetDescending m) := by
  cases m with
  | file n => simp [memberOk, memberOkNormpath, linkTargetDescending]
  | dir n => simp [memberOk, memberOkNormpath, linkTargetDescending]
  | sym n t =>
    simp only [memberOk, memberOkNormpath, linkTargetDescending]
    cases hd : descending t with
    | false => simp
    | true =>
      have hd' := hd
      simp only [descending, Bool.and_eq_true, Bool.not_eq_true'] at hd'
      cases hb : allNames (below dest n) with
      | false => simp
      | true =>
        have := normConfined_of_names (allNames_append.mpr ⟨allNames_dirSegs hb, hd'.2⟩)
        simp [this, hd'.1]
  | hard n t =>
    simp only [memberOk, memberOkNormpath, linkTargetDescending]
    cases hd : descending t with
    | false => simp
    | true =>
      have hd' := hd
      simp only [descending, Bool.and_eq_true, Bool.not_eq_true'] at hd'
      simp [normConfined_of_names hd'.2, hd'.1]

end St4sd.Confine
