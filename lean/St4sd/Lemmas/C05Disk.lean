import St4sd.Model.LoopDisk
/-!
Helper lemmas for C05, resolution of aggregate references against the state of the disk: the read loop of
`:loopoutput` (`readAll`) as `filterMap` / `filter`, and when a list of optional contents is complete.
-/
namespace St4sd.C05L
open St4sd.Str St4sd.Loop

/-- the file of instance `x` cannot be read -/
def missing (disk : Disk) (x : CId) : Bool := (disk x).content?.isNone

theorem readAll_fst (disk : Disk) (l : List CId) :
    (readAll disk l).1 = l.filterMap fun x => (disk x).content? := by
  induction l with
  | nil => rfl
  | cons x xs ih =>
    cases h : (disk x).content? with
    | none => simp [readAll, h, ih]
    | some v => simp [readAll, h, ih]

theorem readAll_snd (disk : Disk) (l : List CId) : (readAll disk l).2 = l.filter (missing disk) := by
  induction l with
  | nil => rfl
  | cons x xs ih =>
    cases h : (disk x).content? with
    | none => simp [readAll, missing, h, ih]
    | some v => simp [readAll, missing, h, ih]

/-- a list of optional values is complete (`= vs.map some`) iff nothing is filtered out as missing and the values
that are there are `vs` -/
theorem map_eq_map_some_iff {α β : Type} (f : α → Option β) (l : List α) (vs : List β) :
    l.map f = vs.map some ↔ (l.filter fun x => (f x).isNone) = [] ∧ l.filterMap f = vs := by
  induction l generalizing vs with
  | nil => cases vs <;> simp
  | cons x xs ih =>
    cases hx : f x with
    | none => cases vs <;> simp [hx]
    | some v =>
      cases vs with
      | nil => simp [hx]
      | cons w ws =>
        simp only [List.map_cons, hx, List.cons.injEq, Option.some.injEq, List.filterMap_cons]
        rw [ih ws]
        simp [hx, and_left_comm]

theorem resolveLoopOutput_ok_iff (disk : Disk) (l : List CId) (vs : List S) :
    resolveLoopOutput disk l = .ok vs ↔ (l.map fun x => (disk x).content?) = vs.map some := by
  rw [map_eq_map_some_iff]
  unfold resolveLoopOutput
  rw [readAll_fst, readAll_snd]
  by_cases h : (l.filter (missing disk)) = []
  · have h' : (l.filter fun x => (disk x).content?.isNone) = [] := h
    simp [h, h']
  · have h' : ¬ (l.filter fun x => (disk x).content?.isNone) = [] := h
    simp [h, h']

theorem resolveLoopOutput_error_iff (disk : Disk) (l : List CId) (nf : List CId) :
    resolveLoopOutput disk l = .error nf ↔ nf ≠ [] ∧ nf = l.filter (missing disk) := by
  unfold resolveLoopOutput
  rw [readAll_fst, readAll_snd]
  by_cases h : (l.filter (missing disk)) = []
  · simp only [h, List.isEmpty_nil, if_true]
    constructor
    · intro e; cases e
    · rintro ⟨h1, h2⟩; exact absurd h2 h1
  · have hne : (l.filter (missing disk)).isEmpty = false := by
      cases hl : l.filter (missing disk) with
      | nil => exact absurd hl h
      | cons a t => rfl
    simp only [hne, Bool.false_eq_true, if_false, Except.error.injEq]
    constructor
    · intro e; subst e; exact ⟨h, rfl⟩
    · rintro ⟨_, h2⟩; exact h2.symm

/-- `resolve()` of `:loopoutput` either yields a value or raises: there is no third outcome, and which of the two is
decided by whether some file is missing -/
theorem resolveLoopOutput_ok_or_error (disk : Disk) (l : List CId) :
    (∃ vs, resolveLoopOutput disk l = .ok vs ∧ l.filter (missing disk) = []) ∨
    (resolveLoopOutput disk l = .error (l.filter (missing disk)) ∧ l.filter (missing disk) ≠ []) := by
  unfold resolveLoopOutput
  rw [readAll_fst, readAll_snd]
  cases hl : l.filter (missing disk) with
  | nil => exact Or.inl ⟨l.filterMap fun x => (disk x).content?, by simp, rfl⟩
  | cons a t => exact Or.inr ⟨by simp, by simp⟩

theorem stageLoopRef_ok_iff (ex : CId → Bool) (l r : List CId) :
    stageLoopRef ex l = .ok r ↔ r = l ∧ ∀ x ∈ l, ex x = true := by
  unfold stageLoopRef
  cases hl : l.filter (fun x => !ex x) with
  | nil =>
    simp only [List.isEmpty_nil, if_true, Except.ok.injEq]
    have hall : ∀ x ∈ l, ex x = true := by
      intro x hx
      cases hex : ex x with
      | true => rfl
      | false =>
        have : x ∈ l.filter (fun x => !ex x) := List.mem_filter.mpr ⟨hx, by simp [hex]⟩
        rw [hl] at this
        cases this
    constructor
    · intro e; exact ⟨e.symm, hall⟩
    · rintro ⟨e, _⟩; exact e.symm
  | cons a t =>
    simp only [List.isEmpty_cons, Bool.false_eq_true, if_false]
    constructor
    · intro e; cases e
    · rintro ⟨_, hall⟩
      have ha : a ∈ l.filter (fun x => !ex x) := by rw [hl]; exact List.mem_cons_self
      have := List.mem_filter.mp ha
      simp [hall a this.1] at this

end St4sd.C05L
