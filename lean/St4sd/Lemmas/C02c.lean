import St4sd.Lemmas.C02b
/-! `stopStage`, `killAll`, `deliverFin`, `schedPass`, `step`, `run`. -/
namespace St4sd.C02L
open St4sd.Ctrl

theorem foldl_inv {α σ : Type} (P : σ → Prop) (f : σ → α → σ) (l : List α)
    (hP : ∀ s a, a ∈ l → P s → P (f s a)) : ∀ s, P s → P (l.foldl f s) := by
  induction l with
  | nil => intro s h; exact h
  | cons a l ih =>
    intro s h
    exact ih (fun s b hb => hP s b (List.mem_cons_of_mem _ hb)) _ (hP s a (List.mem_cons_self ..) h)

theorem foldl_inv_all {α σ : Type} (P : σ → Prop) (Q : α → σ → Prop) (f : σ → α → σ) (l : List α)
    (hP : ∀ s a, a ∈ l → P s → P (f s a)) (hself : ∀ s a, P s → Q a (f s a))
    (hst : ∀ s a b, P s → Q b s → Q b (f s a)) :
    ∀ s, P s → P (l.foldl f s) ∧ ∀ a ∈ l, Q a (l.foldl f s) := by
  induction l with
  | nil => intro s h; exact ⟨h, by simp⟩
  | cons a l ih =>
    intro s h
    have hP' : ∀ s b, b ∈ l → P s → P (f s b) := fun s b hb => hP s b (List.mem_cons_of_mem _ hb)
    have h1 := hP s a (List.mem_cons_self ..) h
    obtain ⟨h2, h3⟩ := ih hP' _ h1
    refine ⟨h2, fun b hb => ?_⟩
    rcases List.mem_cons.1 hb with e | hb
    · subst e
      have := foldl_inv (fun t => P t ∧ Q b t) f l (fun t x hx ht => ⟨hP' t x hx ht.1, hst t x b ht.1 ht.2⟩)
        (f s b) ⟨h1, hself s b h⟩
      exact this.2
    · exact h3 b hb

theorem ctrl_none_of {cs : CompS} (h : cs.ctrl.isNone = true) : cs.ctrl = none := by
  simpa using h

theorem mem_inStage {wf : Wf} {k c : Nat} (h : c ∈ inStage wf k) : c ∈ wf.order := by
  unfold inStage at h; exact (List.mem_filter.1 h).1

theorem stopStage_inv {wf exc s} (k : Nat) (hI : Inv wf exc s) :
    Inv wf exc (stopStage wf s k) ∧ Mono s (stopStage wf s k) := by
  unfold stopStage
  dsimp only
  have h1 := foldl_inv_all (fun t => Inv wf exc t ∧ Mono s t) (fun c t => (t.comp c).staged = true)
    (fun s c => if !(s.comp c).staged && !(s.comp c).finishCalled then fakeFinish s c .shutdown else s)
    (inStage wf k) ?_ ?_ ?_ s ⟨hI, Mono.refl s⟩
  · obtain ⟨⟨hI1, hM1⟩, hall⟩ := h1
    have h2 := foldl_inv (fun t => Inv wf exc t ∧ Mono s t ∧ ∀ c ∈ inStage wf k, (t.comp c).staged = true)
      (fun s c => if (s.comp c).ctrl.isNone && !(s.comp c).finishCalled then finish s c .shutdown else s)
      (inStage wf k) ?_ _ ⟨hI1, hM1, hall⟩
    · exact ⟨h2.1, h2.2.1⟩
    · intro t c hc ⟨hIt, hMt, hallt⟩
      try dsimp only
      split
      · rename_i hcond
        simp only [Bool.and_eq_true, Bool.not_eq_true'] at hcond
        have hct := ctrl_none_of hcond.1
        have hm := finish_mono (st := .shutdown) hct
        exact ⟨finish_inv hIt (hallt c hc) hct (Or.inl rfl), hMt.trans hm,
          fun d hd => hm.staged d (hallt d hd)⟩
      · exact ⟨hIt, hMt, hallt⟩
  · intro t c hc ⟨hIt, hMt⟩
    try dsimp only
    split
    · rename_i hcond
      simp only [Bool.and_eq_true, Bool.not_eq_true'] at hcond
      have hct := (unstaged_facts (hIt.ci c) hcond.1).2.1
      exact ⟨fakeFinish_inv hIt hcond.1 (mem_inStage hc) (Or.inl rfl), hMt.trans (fakeFinish_mono hct)⟩
    · exact ⟨hIt, hMt⟩
  · intro t c ⟨hIt, hMt⟩
    try dsimp only
    split
    · exact fakeFinish_staged ..
    · rename_i hcond
      simp only [Bool.and_eq_true, Bool.not_eq_true', not_and, Bool.not_eq_false] at hcond
      cases hs : (t.comp c).staged with
      | true => rfl
      | false => rw [← hs]; exact (hIt.ci c).k1 (hcond hs)
  · intro t c b ⟨hIt, hMt⟩ hb
    try dsimp only
    split
    · rename_i hcond
      simp only [Bool.and_eq_true, Bool.not_eq_true'] at hcond
      have hct := (unstaged_facts (hIt.ci c) hcond.1).2.1
      exact (fakeFinish_mono hct).staged b hb
    · exact hb

theorem killAll_inv {wf exc s} (hI : Inv wf exc s) :
    Inv wf exc (killAll wf s) ∧ Mono s (killAll wf s) := by
  unfold killAll
  have h0 : Inv wf exc { s with stop := true } := ⟨hI.ci, hI.curLe⟩
  have hm0 : Mono s { s with stop := true } := ⟨fun _ h => h, fun _ _ h => h, rfl⟩
  refine foldl_inv (fun t => Inv wf exc t ∧ Mono s t) _ wf.order ?_ _ ⟨h0, hm0⟩
  intro t c hc ⟨hIt, hMt⟩
  try dsimp only
  split
  · rename_i hcond
    simp only [Bool.and_eq_true, Bool.not_eq_true'] at hcond
    have hct := ctrl_none_of hcond.2
    split
    · rename_i hs
      exact ⟨finish_inv hIt hs hct (Or.inl rfl), hMt.trans (finish_mono hct)⟩
    · rename_i hs
      have hs : (t.comp c).staged = false := by simpa using hs
      exact ⟨fakeFinish_inv hIt hs hc (Or.inl rfl), hMt.trans (fakeFinish_mono hct)⟩
  · exact ⟨hIt, hMt⟩

theorem deliverFin_inv {wf s} (c : Nat) (hI : Inv wf none s) :
    Inv wf none (deliverFin wf s c) ∧ Mono s (deliverFin wf s c) := by
  unfold deliverFin
  by_cases hp : Notif.fin c ∈ s.pending
  · simp only [hp, if_true]
    have I0 := erase_inv hI (.fin c)
    have hm0 : Mono s { s with pending := s.pending.erase (.fin c) } := ⟨fun _ h => h, fun _ _ h => h, rfl⟩
    have hsome := (hI.ci c).k8' hp
    have key : ∀ t : St, Inv wf (some (.fin c)) t → Mono s t →
        Inv wf none { t with done := fun j => decide (j = c) || t.done j } ∧
        Mono s { t with done := fun j => decide (j = c) || t.done j } := by
      intro t hIt hMt
      refine ⟨⟨fun j => ?_, hIt.curLe⟩, ⟨hMt.staged, hMt.ctrl, hMt.cur⟩⟩
      have h := hIt.ci j
      show CI wf none j (t.comp j) (decide (j = c) || t.done j) t.pending
      refine { h with k5 := ?_, k6 := ?_, k8 := ?_ }
      · intro a b d
        obtain ⟨h1, h2⟩ := h.k5 a b d
        refine ⟨?_, h2⟩
        rcases h1 with h1 | h1
        · left; exact h1
        · simp at h1
      · intro a
        rcases h.k6 a with h1 | h1 | h1
        · left; simp [h1]
        · right; left; exact h1
        · simp only [Option.some.injEq, Notif.fin.injEq] at h1
          left; simp [h1]
      · intro a
        simp only [Bool.or_eq_true, decide_eq_true_eq] at a
        rcases a with a | a
        · subst a
          cases hct : (s.comp j).ctrl with
          | none => simp [hct] at hsome
          | some f => rw [hMt.ctrl j f hct]; rfl
        · exact h.k8 a
    try dsimp only
    split
    · split
      · obtain ⟨h1, h2⟩ := killAll_inv I0
        exact key _ h1 (hm0.trans h2)
      · obtain ⟨h1, h2⟩ := stopStage_inv (wf.cdef c).stage I0
        exact key _ h1 (hm0.trans h2)
    · exact key _ I0 hm0
  · simp only [hp, if_false]; exact ⟨hI, Mono.refl s⟩

theorem visit_fold_inv {wf exc s} (hI : Inv wf exc s) (l : List Nat) (hl : ∀ c ∈ l, c ∈ wf.order)
    (acc0 : List Nat) (h0 : ∀ c ∈ acc0, c ∈ wf.order) :
    Inv wf exc (l.foldl (visit wf) (s, acc0)).1 ∧ Mono s (l.foldl (visit wf) (s, acc0)).1 ∧
      ∀ c ∈ (l.foldl (visit wf) (s, acc0)).2, c ∈ wf.order := by
  refine foldl_inv (fun a : St × List Nat => Inv wf exc a.1 ∧ Mono s a.1 ∧ ∀ c ∈ a.2, c ∈ wf.order)
    (visit wf) l ?_ (s, acc0) ⟨hI, Mono.refl s, h0⟩
  intro a c hc ⟨hIa, hMa, hla⟩
  unfold visit
  split
  · rename_i hel
    simp only [eligible, Bool.and_eq_true, Bool.not_eq_true'] at hel
    split
    · have hct := ctrl_none_of hel.1.1.2
      exact ⟨fakeFinish_inv hIa hel.1.2 (hl c hc) (Or.inl rfl), hMa.trans (fakeFinish_mono hct), hla⟩
    · refine ⟨hIa, hMa, fun d hd => ?_⟩
      rcases List.mem_append.1 hd with hd | hd
      · exact hla d hd
      · simp only [List.mem_singleton] at hd; subst hd; exact hl _ hc
  · exact ⟨hIa, hMa, hla⟩

theorem schedPass_inv {wf exc s} (hI : Inv wf exc s) :
    Inv wf exc (schedPass wf s) ∧ Mono s (schedPass wf s) := by
  unfold schedPass
  obtain ⟨h1, h2, h3⟩ := visit_fold_inv hI wf.order (fun _ h => h) [] (by simp)
  dsimp only
  split
  · exact ⟨h1, h2⟩
  · exact ⟨launch_inv _ h1 h3, h2.trans (launch_mono ..)⟩

/-- every operation except the stage transition -/
theorem step_inv' {wf s} (op : Op) (hop : op ≠ .next) (hI : Inv wf none s) :
    Inv wf none (step wf s op) ∧ Mono s (step wf s op) := by
  cases op with
  | sched => exact schedPass_inv hI
  | exit c => exact ⟨taskExit_inv c hI, taskExit_mono c hI⟩
  | fin c => exact deliverFin_inv c hI
  | pm c => exact ⟨deliverPM_inv c hI, deliverPM_mono c hI⟩
  | kill => exact killAll_inv hI
  | tick c => exact ⟨hI, Mono.refl s⟩
  | next => exact absurd rfl hop

theorem advance_comp (wf : Wf) (s : St) :
    (advance wf s).comp = s.comp ∧ (advance wf s).done = s.done ∧ (advance wf s).pending = s.pending := by
  unfold advance; split <;> exact ⟨rfl, rfl, rfl⟩

/-- the stage transition touches no component, `comp_done` or the queue, and does not run past the
last stage -/
theorem advance_inv {wf exc s} (hI : Inv wf exc s) : Inv wf exc (advance wf s) ∧ MonoC s (advance wf s) := by
  unfold advance
  split
  · rename_i hca
    simp only [canAdvance, Bool.and_eq_true, decide_eq_true_eq] at hca
    exact ⟨⟨hI.ci, Nat.succ_le_of_lt hca.1.2⟩, ⟨fun _ h => h, fun _ _ h => h⟩⟩
  · exact ⟨hI, MonoC.refl s⟩

theorem step_inv {wf s} (op : Op) (hI : Inv wf none s) :
    Inv wf none (step wf s op) ∧ MonoC s (step wf s op) := by
  by_cases hop : op = .next
  · subst hop; exact advance_inv hI
  · exact ⟨(step_inv' op hop hI).1, (step_inv' op hop hI).2.toC⟩

theorem run_from_inv {wf} (ops : List Op) : ∀ s, Inv wf none s → Inv wf none (ops.foldl (step wf) s) := by
  induction ops with
  | nil => intro s h; exact h
  | cons op ops ih => intro s h; exact ih _ (step_inv op h).1

theorem run_inv (wf : Wf) (ops : List Op) : Inv wf none (run wf ops) :=
  run_from_inv ops init (inv_init wf)

theorem run_from_monoC {wf} (ops : List Op) : ∀ s, Inv wf none s → MonoC s (ops.foldl (step wf) s) := by
  induction ops with
  | nil => intro s _; exact MonoC.refl s
  | cons op ops ih => intro s h; exact (step_inv op h).2.trans (ih _ (step_inv op h).1)

end St4sd.C02L
