import St4sd.Model.Restart
/-!
Helper lemmas for C12: what one restart attempt may do to the counters (`Sound`), established for
`Engine.restart`, `RepeatingEngine.restart`, `ComponentState.restart` and lifted to the controller step.
-/
namespace St4sd.Restart
open St4sd.Gen

/-- Relation between the state before (`s`) and after (`s'`) one restart attempt with answer `code`
(`none` = the attempt raised). -/
structure Sound (c : Cfg) (s : St) (i : Inp) (s' : St) (code : Option Code) : Prop where
  restarts_mono : s.restarts ≤ s'.restarts
  restarts_step : s'.restarts ≤ s.restarts + 1
  budget : effMax c ≠ C12.unlimited → (s.restarts : Int) ≤ effMax c → (s'.restarts : Int) ≤ effMax c
  listed : s.runs < s'.runs → i.reason = .submissionFailed ∨ i.reason ∈ c.hookOn
  consumed : s.runs < s'.runs → i.reason ≠ .submissionFailed → s'.restarts = s.restarts + 1
  runs_mono : s.runs ≤ s'.runs
  runs_step : s'.runs ≤ s.runs + 1
  init_runs : code = some .initiated → s'.runs = s.runs + 1
  resub_init : code = some .initiated → i.reason = .submissionFailed → s'.resub = s.resub + 1
  resub_else : ¬ (code = some .initiated ∧ i.reason = .submissionFailed) → s'.resub = s.resub
  shutdown_eq : s'.shutdown = s.shutdown

theorem Sound.refl (c : Cfg) (s : St) (i : Inp) (code : Option Code) (h : code ≠ some .initiated) :
    Sound c s i s code := by
  constructor <;> simp_all

/-- exact description of the tail of `Engine.restart` -/
theorem launch_spec (s : St) (i : Inp) (x : RCtx) :
    (launch s i x).1.restarts = s.restarts ∧ (launch s i x).1.shutdown = s.shutdown ∧
    s.runs ≤ (launch s i x).1.runs ∧ (launch s i x).1.runs ≤ s.runs + 1 ∧
    ((launch s i x).2 = some .initiated → (launch s i x).1.runs = s.runs + 1) ∧
    ((launch s i x).2 = some .initiated → i.reason = .submissionFailed → (launch s i x).1.resub = s.resub + 1) ∧
    (¬ ((launch s i x).2 = some .initiated ∧ i.reason = .submissionFailed) → (launch s i x).1.resub = s.resub) := by
  unfold launch
  split
  · split
    · simp
    · split <;> simp_all
  · rename_i h; simp_all


theorem launch_notMet (s : St) (i : Inp) : launch s i .conditionsNotMet = (s, some .couldNotInitiate) := by
  simp [launch, ctxToCode]

theorem sound_of_launch (c : Cfg) (s : St) (i : Inp) (s1 : St) (x : RCtx)
    (hr : s1.restarts = s.restarts ∨ s1.restarts = s.restarts + 1)
    (hruns : s1.runs = s.runs) (hresub : s1.resub = s.resub) (hsh : s1.shutdown = s.shutdown)
    (hb : effMax c ≠ C12.unlimited → (s.restarts : Int) ≤ effMax c → (s1.restarts : Int) ≤ effMax c)
    (hl : i.reason = .submissionFailed ∨ i.reason ∈ c.hookOn)
    (hc : i.reason ≠ .submissionFailed → s1.restarts = s.restarts + 1) :
    Sound c s i (launch s1 i x).1 (launch s1 i x).2 := by
  obtain ⟨h1, h2, h3, h4, h5, h6, h7⟩ := launch_spec s1 i x
  constructor
  · omega
  · omega
  · intro a b; rw [h1]; exact hb a b
  · intro _; exact hl
  · intro _ hne; rw [h1]; exact hc hne
  · omega
  · omega
  · intro h; rw [h5 h]; omega
  · intro h hr'; rw [h6 h hr']; omega
  · intro h; rw [h7 h]; omega
  · rw [h2]; exact hsh

theorem budgetLeft_spec (c : Cfg) (s : St) (h : budgetLeft c s = true) :
    effMax c ≠ C12.unlimited → (s.restarts : Int) + 1 ≤ effMax c := by
  intro hne
  simp only [budgetLeft, Bool.or_eq_true, beq_iff_eq, decide_eq_true_eq] at h
  rcases h with h | h
  · exact absurd h hne
  · exact h

/-- `Engine.restart` -/
theorem engineRestart_sound (c : Cfg) (s : St) (i : Inp) :
    Sound c s i (engineRestart c s i).1 (engineRestart c s i).2 := by
  unfold engineRestart
  split
  · exact Sound.refl c s i _ (by simp)
  · rename_i hb
    have hb' : budgetLeft c s = true := by simpa using hb
    have hbud := budgetLeft_spec c s hb'
    split
    · rename_i hsim
      simp only [Bool.and_eq_true, decide_eq_true_eq] at hsim
      apply sound_of_launch
      · split <;> simp
      · split <;> simp
      · split <;> simp
      · split <;> simp
      · intro a b; split
        · exact b
        · have := hbud a; simp only [Int.natCast_add, Int.natCast_one]; exact this
      · exact Or.inr hsim.2
      · intro hne; simp [hne]
    · split
      · rename_i hsf
        exact sound_of_launch c s i s _ (Or.inl rfl) rfl rfl rfl (fun _ b => b) (Or.inl hsf) (fun h => absurd hsf h)
      · split
        · rename_i hsf hon
          have key : ∀ x, Sound c s i (launch { s with restarts := s.restarts + 1 } i x).1
              (launch { s with restarts := s.restarts + 1 } i x).2 := fun x =>
            sound_of_launch c s i _ x (Or.inr rfl) rfl rfl rfl
              (fun a _ => by have := hbud a; simp only [Int.natCast_add, Int.natCast_one]; exact this)
              (Or.inr hon) (fun _ => rfl)
          split
          · constructor <;> simp_all
          · exact key _
          · exact key _
        · rw [launch_notMet]
          exact Sound.refl c s i _ (by simp)

/-- the default maxima leave room for the single restart of a RepeatingEngine (uses the generated values) -/
theorem default_room (c : Cfg) (h : c.maxRestarts = none) (hne : effMax c ≠ C12.unlimited) : 1 ≤ effMax c := by
  unfold effMax at *
  rw [h] at hne ⊢
  simp only at hne ⊢
  split at hne <;> simp_all [C12.defaultMaxRestarts, C12.defaultMaxRestartsWithHookFile, C12.unlimited]

/-- repaired `RepeatingEngine.restart` -/
theorem repeatingRestart_sound (c : Cfg) (s : St) (i : Inp) :
    Sound c s i (repeatingRestart c s i).1 (repeatingRestart c s i).2 := by
  unfold repeatingRestart
  split
  · exact Sound.refl c s i _ (by simp)
  · rename_i hb
    have hb' : repeatingBudgetLeft c s = true := by simpa using hb
    split
    · rename_i hc
      obtain ⟨hre, h0, hon⟩ := hc
      have hne : i.reason ≠ .submissionFailed := by rw [hre]; decide
      have hbud : effMax c ≠ C12.unlimited → ((s.restarts + 1 : Nat) : Int) ≤ effMax c := by
        intro hne'
        cases hm : c.maxRestarts with
        | none => have := default_room c hm hne'; rw [h0]; simpa using this
        | some m =>
          have he : effMax c = m := by simp [effMax, hm]
          simp only [repeatingBudgetLeft, hm, Bool.or_eq_true, beq_iff_eq, decide_eq_true_eq] at hb'
          rcases hb' with hb' | hb'
          · exact absurd (he.trans hb') hne'
          · rw [he]; simpa using hb'
      split
      · constructor <;> simp_all
      · constructor <;> simp_all
    · exact Sound.refl c s i _ (by simp)

/-- `ComponentState.restart` in front of the (repaired) engines -/
theorem compRestart_sound (c : Cfg) (s : St) (i : Inp) :
    Sound c s i (compRestart false c s i).1 (compRestart false c s i).2 := by
  unfold compRestart
  split
  · exact Sound.refl c s i _ (by simp)
  · split
    · simpa using repeatingRestart_sound c s i
    · exact engineRestart_sound c s i

theorem compRestart_shutdown (old : Bool) (c : Cfg) (s : St) (i : Inp) (h : s.shutdown = true) :
    compRestart old c s i = (s, none) := by
  simp [compRestart, h]

theorem guarded_sound (c : Cfg) (s : St) (i : Inp) (r : St × Option Code) (h : Sound c s i r.1 r.2) :
    Sound c s i (guarded r).1 (some (guarded r).2) := by
  obtain ⟨s', code⟩ := r
  cases code with
  | none =>
    exact { restarts_mono := h.restarts_mono, restarts_step := h.restarts_step, budget := h.budget,
            listed := h.listed, consumed := h.consumed, runs_mono := h.runs_mono, runs_step := h.runs_step,
            init_runs := by intro hh; simp [guarded] at hh,
            resub_init := by intro hh; simp [guarded] at hh,
            resub_else := fun _ => h.resub_else (by simp),
            shutdown_eq := h.shutdown_eq }
  | some cd => simpa [guarded] using h

/-- repaired `Controller._restartComponent` -/
theorem ctrlRestart_sound (c : Cfg) (s : St) (i : Inp) :
    Sound c s i (ctrlRestart c s i).1 (some (ctrlRestart c s i).2) := by
  unfold ctrlRestart
  split
  · split
    · exact guarded_sound c s i _ (compRestart_sound c s i)
    · exact Sound.refl c s i _ (by simp)
  · split
    · exact guarded_sound c s i _ (compRestart_sound c s i)
    · split
      · split
        · exact Sound.refl c s i _ (by simp)
        · exact guarded_sound c s i _ (compRestart_sound c s i)
      · exact Sound.refl c s i _ (by simp)

/-- the cap is consulted before every re-submission -/
theorem ctrlRestart_cap (c : Cfg) (s : St) (i : Inp) (hr : i.reason = .submissionFailed)
    (hi : (ctrlRestart c s i).2 = .initiated) : s.resub < cap := by
  unfold ctrlRestart at hi
  rw [if_pos hr] at hi
  split at hi
  · assumption
  · simp at hi

/-- after the final state nothing is started and nothing is counted -/
theorem ctrlRestart_shutdown (c : Cfg) (s : St) (i : Inp) (h : s.shutdown = true) :
    (ctrlRestart c s i).1 = s ∧ (ctrlRestart c s i).2 ≠ .initiated := by
  unfold ctrlRestart
  simp only [compRestart_shutdown _ c s i h, guarded, Option.getD]
  repeat' split
  all_goals simp

theorem exit_fields (c : Cfg) (s : St) (r : Reason) :
    (exit c s r).restarts = s.restarts ∧ (exit c s r).runs = s.runs ∧ (exit c s r).shutdown = s.shutdown ∧
    (exit c s r).resub ≤ s.resub ∧ (r ≠ .success → (exit c s r).resub = s.resub) := by
  unfold exit
  split <;> simp_all

theorem taskCreated_eq (c : Cfg) (s : St) : taskCreated c s = s := rfl

theorem arrive_fields (c : Cfg) (s : St) (i : Inp) :
    (arrive c s i).restarts = s.restarts ∧ (arrive c s i).runs = s.runs ∧ (arrive c s i).shutdown = s.shutdown ∧
    (arrive c s i).resub ≤ s.resub ∧ (i.reason ≠ .success → (arrive c s i).resub = s.resub) := by
  have h : arrive c s i = exit c s i.reason := by
    unfold arrive; cases i.launch <;> rfl
  rw [h]; exact exit_fields c s i.reason

/-- What one step (task exit + controller decision [+ final state]) guarantees. -/
structure StepOK (fin : Bool) (c : Cfg) (s : St) (i : Inp) (s' : St) (code : Code) : Prop where
  restarts_mono : s.restarts ≤ s'.restarts
  budget : effMax c ≠ C12.unlimited → (s.restarts : Int) ≤ effMax c → (s'.restarts : Int) ≤ effMax c
  listed : s.runs < s'.runs ∨ code = .initiated → i.reason = .submissionFailed ∨ i.reason ∈ c.hookOn
  consumed : code = .initiated → i.reason ≠ .submissionFailed → s'.restarts = s.restarts + 1
  runs_mono : s.runs ≤ s'.runs
  init_runs : code = .initiated → s'.runs = s.runs + 1
  resub_inv : s.resub ≤ cap → s'.resub ≤ cap
  resub_window : code = .initiated → i.reason = .submissionFailed → s.resub < cap ∧ s'.resub = s.resub + 1
  resub_keep : i.reason ≠ .success → s.resub ≤ s'.resub
  absorbing : s.shutdown = true → code ≠ .initiated ∧ s'.runs = s.runs ∧ s'.restarts = s.restarts ∧ s'.shutdown = true
  refused_final : fin = true → code ≠ .initiated → s'.shutdown = true
  repeating_once : c.repeating = true → s.restarts ≤ 1 → s'.restarts ≤ 1

theorem repeating_le_one (c : Cfg) (s : St) (i : Inp) (hc : c.repeating = true) (h : s.restarts ≤ 1) :
    (ctrlRestart c s i).1.restarts ≤ 1 := by
  have key : (compRestart false c s i).1.restarts ≤ 1 := by
    unfold compRestart
    split
    · exact h
    · simp only [Bool.false_eq_true, if_false]
      unfold repeatingRestart
      repeat' split
      all_goals simp_all
  unfold ctrlRestart
  repeat' split
  all_goals first | exact key | exact h

theorem step_ok (fin : Bool) (c : Cfg) (s : St) (i : Inp) :
    StepOK fin c s i (step fin c s i).1 (step fin c s i).2 := by
  have hs := ctrlRestart_sound c (arrive c s i) i
  have hcap := ctrlRestart_cap c (arrive c s i) i
  have hsh := ctrlRestart_shutdown c (arrive c s i) i
  have hrep := repeating_le_one c (arrive c s i) i
  obtain ⟨e1, e2, e3, e4, e5⟩ := arrive_fields c s i
  have hfst : (step fin c s i).1.restarts = (ctrlRestart c (arrive c s i) i).1.restarts ∧
      (step fin c s i).1.runs = (ctrlRestart c (arrive c s i) i).1.runs ∧
      (step fin c s i).1.resub = (ctrlRestart c (arrive c s i) i).1.resub ∧
      (step fin c s i).2 = (ctrlRestart c (arrive c s i) i).2 ∧
      ((ctrlRestart c (arrive c s i) i).1.shutdown = true → (step fin c s i).1.shutdown = true) ∧
      (fin = true → (step fin c s i).2 ≠ .initiated → (step fin c s i).1.shutdown = true) := by
    unfold step stepWith stepGen
    simp only []
    split <;> simp_all
  obtain ⟨f1, f2, f3, f4, f5, f6⟩ := hfst
  generalize step fin c s i = r at *
  generalize ctrlRestart c (arrive c s i) i = q at *
  have hcode : some q.2 = some Code.initiated ↔ r.2 = .initiated := by rw [f4]; simp
  constructor
  · rw [f1, ← e1]; exact hs.restarts_mono
  · intro a b; rw [f1]; exact hs.budget a (by rw [e1]; exact b)
  · intro h
    apply hs.listed
    rcases h with h | h
    · rw [e2, ← f2]; exact h
    · have := hs.init_runs (hcode.mpr h); omega
  · intro h hne
    have h1 := hs.init_runs (hcode.mpr h)
    have := hs.consumed (by omega) hne
    rw [f1, this, e1]
  · rw [f2, ← e2]; exact hs.runs_mono
  · intro h; rw [f2, hs.init_runs (hcode.mpr h), e2]
  · intro h
    rw [f3]
    by_cases hh : some q.2 = some Code.initiated ∧ i.reason = .submissionFailed
    · have := hs.resub_init hh.1 hh.2
      have := hcap hh.2 (by simpa using hh.1)
      omega
    · have := hs.resub_else hh; omega
  · intro h hr
    have hne : i.reason ≠ .success := by rw [hr]; decide
    have h1 := hcap hr (by rw [← f4]; exact h)
    have h2 := hs.resub_init (hcode.mpr h) hr
    rw [e5 hne] at h1 h2
    exact ⟨h1, by rw [f3, h2]⟩
  · intro hne
    rw [f3]
    by_cases hh : some q.2 = some Code.initiated ∧ i.reason = .submissionFailed
    · have := hs.resub_init hh.1 hh.2
      have := e5 hne
      omega
    · have := hs.resub_else hh
      have := e5 hne
      omega
  · intro h
    have := hsh (by rw [e3]; exact h)
    refine ⟨by rw [f4]; exact this.2, by rw [f2, this.1, e2], by rw [f1, this.1, e1], f5 (by rw [this.1, e3]; exact h)⟩
  · exact f6
  · intro hc h; rw [f1]; exact hrep hc (by rw [e1]; exact h)

/-! ## Restart-hook outcomes that refuse the restart -/

theorem refuses_not_initiated (a : HookAns) (h : a.refuses = true) : ctxToCode (answerCtx a) ≠ .initiated := by
  cases a with
  | ctx x => cases x <;> simp_all [HookAns.refuses, answerCtx, ctxToCode]
  | _ => simp_all [HookAns.refuses, answerCtx, ctxToCode]

/-- a context that does not allow a restart: `run()` is not called, nothing is counted -/
theorem launch_refused (s : St) (i : Inp) (x : RCtx) (h : ctxToCode x ≠ .initiated) :
    (launch s i x).1 = s ∧ (launch s i x).2 ≠ some .initiated := by
  unfold launch
  split
  · rename_i he; exact absurd he h
  · rename_i code hne; simp only [ne_eq, Option.some.injEq, true_and]
    intro hc
    cases hx : ctxToCode x <;> simp_all

/-- `Engine.restart` with a scripted hook module that refuses, no simulated restart, exit other than a failed
submission: nothing is started, whatever the budget, whether or not the reason is listed -/
theorem engineRestart_refusing (c : Cfg) (s : St) (i : Inp) (hsim : c.simulator = false)
    (hm : c.hookModule = .scripted) (hsf : i.reason ≠ .submissionFailed) (hr : i.hook.refuses = true) :
    (engineRestart c s i).2 ≠ some .initiated ∧ (engineRestart c s i).1.runs = s.runs := by
  have h1 := launch_refused { s with restarts := s.restarts + 1 } i _ (refuses_not_initiated i.hook hr)
  unfold engineRestart
  split
  · simp
  · simp only [hsim, Bool.false_and, Bool.false_eq_true, if_false]
    split
    · simp only [hm]
      exact ⟨h1.2, by rw [h1.1]⟩
    · rw [launch_notMet]; simp

theorem compRestart_refusing (c : Cfg) (s : St) (i : Inp) (hrep : c.repeating = false) (hsim : c.simulator = false)
    (hm : c.hookModule = .scripted) (hsf : i.reason ≠ .submissionFailed) (hr : i.hook.refuses = true) :
    (guarded (compRestart false c s i)).2 ≠ .initiated ∧ (guarded (compRestart false c s i)).1.runs = s.runs := by
  unfold compRestart
  split
  · simp [guarded]
  · simp only [hrep, Bool.false_eq_true, if_false]
    have := engineRestart_refusing c s i hsim hm hsf hr
    generalize engineRestart c s i = r at this
    obtain ⟨a, b⟩ := r
    cases b <;> simp_all [guarded]

theorem ctrlRestart_refusing (c : Cfg) (s : St) (i : Inp) (hrep : c.repeating = false) (hsim : c.simulator = false)
    (hm : c.hookModule = .scripted) (hsf : i.reason ≠ .submissionFailed) (hr : i.hook.refuses = true) :
    (ctrlRestart c s i).2 ≠ .initiated ∧ (ctrlRestart c s i).1.runs = s.runs := by
  have key := compRestart_refusing c s i hrep hsim hm hsf hr
  unfold ctrlRestart
  rw [if_neg hsf]
  repeat' split
  all_goals first | exact key | simp

/-- when the hook is asked the exit reason is listed and the budget is not used up -/
theorem engineAsksHook_spec (c : Cfg) (s : St) (i : Inp) (h : engineAsksHook c s i = true) :
    i.reason ∈ c.hookOn ∧ i.reason ≠ .submissionFailed ∧ budgetLeft c s = true ∧ c.hookModule = .scripted := by
  simp only [engineAsksHook, Bool.and_eq_true, decide_eq_true_eq] at h
  exact ⟨h.1.2, h.1.1.2, h.1.1.1.1, h.2⟩

end St4sd.Restart
