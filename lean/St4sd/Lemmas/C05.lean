import St4sd.Model.Loop
/-!
Helper lemmas for C05: decimal digits round trip, parsing of instance names `i#name`,
`firstMaxBy` / `sortBy`, lookups in binding lists.
-/
namespace St4sd.C05L
open St4sd.Str St4sd.Loop

/-! ### digits -/

def val (s : S) : Nat := s.foldl (fun acc c => acc * 10 + (c.toNat - 48)) 0

theorem digit_toNat : ∀ m, m < 10 → (Char.ofNat (48 + m)).toNat - 48 = m := by decide

theorem digit_isDigit : ∀ m, m < 10 → isDigit (Char.ofNat (48 + m)) = true := by decide

theorem aux_acc (fuel : Nat) : ∀ (n : Nat) (acc : S),
    natToDigitsAux fuel n acc = natToDigitsAux fuel n [] ++ acc := by
  induction fuel with
  | zero => intro n acc; simp [natToDigitsAux]
  | succ f ih =>
    intro n acc
    simp only [natToDigitsAux]
    by_cases h : n < 10
    · simp [h]
    · simp only [h, if_false]
      rw [ih (n / 10) (Char.ofNat (48 + n % 10) :: acc), ih (n / 10) [Char.ofNat (48 + n % 10)]]
      simp

theorem aux_val (fuel : Nat) : ∀ n, n < fuel → val (natToDigitsAux fuel n []) = n := by
  induction fuel with
  | zero => intro n h; omega
  | succ f ih =>
    intro n hn
    simp only [natToDigitsAux]
    by_cases h : n < 10
    · simp only [h, if_true, val, List.foldl]
      rw [digit_toNat (n % 10) (Nat.mod_lt _ (by omega))]
      omega
    · simp only [h, if_false]
      rw [aux_acc]
      have h1 := ih (n / 10) (by omega)
      unfold val at h1 ⊢
      rw [List.foldl_append, h1]
      simp only [List.foldl]
      rw [digit_toNat (n % 10) (Nat.mod_lt _ (by omega))]
      omega

theorem aux_digits (fuel : Nat) : ∀ n, ∀ c ∈ natToDigitsAux (fuel + 1) n [], isDigit c = true := by
  induction fuel with
  | zero =>
    intro n c hc
    simp only [natToDigitsAux] at hc
    have : c = Char.ofNat (48 + n % 10) := by
      by_cases h : n < 10 <;> simp [h] at hc <;> exact hc
    subst this
    exact digit_isDigit _ (Nat.mod_lt _ (by omega))
  | succ f ih =>
    intro n c hc
    rw [natToDigitsAux] at hc
    by_cases h : n < 10
    · simp only [h, if_true, List.mem_singleton] at hc
      subst hc
      exact digit_isDigit _ (Nat.mod_lt _ (by omega))
    · simp only [h, if_false] at hc
      rw [aux_acc] at hc
      rcases List.mem_append.mp hc with h1 | h1
      · exact ih _ c h1
      · simp only [List.mem_singleton] at h1
        subst h1
        exact digit_isDigit _ (Nat.mod_lt _ (by omega))

theorem aux_ne_nil (fuel n : Nat) : natToDigitsAux (fuel + 1) n [] ≠ [] := by
  rw [natToDigitsAux]
  by_cases h : n < 10
  · simp [h]
  · simp only [h, if_false]
    rw [aux_acc]
    simp

theorem natToDigits_digits (n : Nat) : ∀ c ∈ natToDigits n, isDigit c = true := aux_digits n n

theorem natToDigits_ne_nil (n : Nat) : natToDigits n ≠ [] := aux_ne_nil n n

/-- `int(str(n)) == n` -/
theorem digitsToNat_natToDigits (n : Nat) : digitsToNat? (natToDigits n) = some n := by
  unfold digitsToNat?
  have h1 : (natToDigits n).isEmpty = false := by
    cases h : natToDigits n with
    | nil => exact absurd h (natToDigits_ne_nil n)
    | cons a l => rfl
  have h2 : (natToDigits n).all isDigit = true := List.all_eq_true.mpr (natToDigits_digits n)
  have h3 : val (natToDigits n) = n := aux_val (n + 1) n (by omega)
  simp only [h1, h2]
  simp only [Bool.not_true, Bool.or_false, Bool.false_eq_true, if_false]
  exact congrArg some h3

theorem hash_not_in_digits (n : Nat) : '#' ∉ natToDigits n := by
  intro h
  have := natToDigits_digits n '#' h
  exact absurd this (by decide)

/-! ### instance names -/

theorem splitFirst_append (c : Char) (a b : S) (h : c ∉ a) : splitFirst c (a ++ c :: b) = some (a, b) := by
  induction a with
  | nil => simp [splitFirst]
  | cons x xs ih =>
    have hx : x ≠ c := fun e => h (by simp [e])
    have hxs : c ∉ xs := fun e => h (by simp [e])
    simp only [List.cons_append, splitFirst]
    have : (x == c) = false := by simp [hx]
    simp [this, ih hxs]

theorem split_instName (i : Nat) (n : S) : splitFirst '#' (instName i n) = some (natToDigits i, n) :=
  splitFirst_append '#' _ _ (hash_not_in_digits i)

@[simp] theorem iterStr_instName (i : Nat) (n : S) : iterStr (instName i n) = natToDigits i := by
  simp [iterStr, split_instName]

@[simp] theorem baseName_instName (i : Nat) (n : S) : baseName (instName i n) = n := by
  simp [baseName, split_instName]

@[simp] theorem iterNum_instName (i : Nat) (n : S) : iterNum (instName i n) = i := by
  simp [iterNum, digitsToNat_natToDigits]

@[simp] theorem isLooped_instName (i : Nat) (n : S) : isLooped (instName i n) = true := by
  simp [isLooped, instName]

/-! ### selection and sorting -/

theorem firstMaxBy_key {α : Type} (key : α → Nat) :
    ∀ (l : List α) (z : α), firstMaxBy (fun a b => decide (key a < key b)) l = some z →
      z ∈ l ∧ ∀ y ∈ l, key y ≤ key z := by
  intro l
  induction l with
  | nil => intro z h; simp [firstMaxBy] at h
  | cons a l ih =>
    intro z h
    simp only [firstMaxBy] at h
    cases hr : firstMaxBy (fun a b => decide (key a < key b)) l with
    | none =>
      rw [hr] at h
      simp only [Option.some.injEq] at h
      subst h
      cases l with
      | nil => simp
      | cons b l' =>
        simp only [firstMaxBy] at hr
        cases h2 : firstMaxBy (fun a b => decide (key a < key b)) l' <;> rw [h2] at hr <;> simp at hr
        split at hr <;> simp at hr
    | some b =>
      rw [hr] at h
      obtain ⟨hb, hmax⟩ := ih b hr
      by_cases hlt : key a < key b
      · simp only [hlt, decide_true, if_true, Option.some.injEq] at h
        subst h
        refine ⟨List.mem_cons_of_mem _ hb, ?_⟩
        intro y hy
        rcases List.mem_cons.mp hy with e | e
        · subst e; omega
        · exact hmax y e
      · simp only [hlt, decide_false, Bool.false_eq_true, if_false, Option.some.injEq] at h
        subst h
        refine ⟨List.mem_cons_self, ?_⟩
        intro y hy
        rcases List.mem_cons.mp hy with e | e
        · subst e; omega
        · have := hmax y e; omega

theorem firstMaxBy_isSome {α : Type} (lt : α → α → Bool) : ∀ (l : List α), l ≠ [] → ∃ z, firstMaxBy lt l = some z := by
  intro l
  induction l with
  | nil => intro h; exact absurd rfl h
  | cons a l _ =>
    intro _
    simp only [firstMaxBy]
    cases firstMaxBy lt l with
    | none => exact ⟨a, rfl⟩
    | some b => by_cases h : lt a b = true <;> simp [h]

theorem iterLt_true : iterLt true = fun a b => decide (iterNum a.2 < iterNum b.2) := by
  funext a b; simp [iterLt]

/-- a list whose later elements are never strictly smaller is left unchanged by the stable sort -/
theorem sortBy_sorted {α : Type} (lt : α → α → Bool) :
    ∀ (l : List α), l.Pairwise (fun a b => lt b a = false) → sortBy lt l = l := by
  intro l
  induction l with
  | nil => intro _; rfl
  | cons a l ih =>
    intro h
    rw [List.pairwise_cons] at h
    simp only [sortBy, ih h.2]
    cases l with
    | nil => rfl
    | cons b l' =>
      have := h.1 b List.mem_cons_self
      simp [insertBy, this]

/-! ### lookups -/

theorem lookup_map (k : S) (f : Ref → Ref) : ∀ (l : List (S × Ref)),
    lookup k (l.map fun kv => (kv.1, f kv.2)) = (lookup k l).map f := by
  intro l
  induction l with
  | nil => rfl
  | cons x l ih =>
    obtain ⟨k', r⟩ := x
    simp only [List.map, lookup]
    by_cases h : (k' == k) = true <;> simp [h, ih]

theorem lookup_append (k : S) : ∀ (l1 l2 : List (S × Ref)),
    lookup k (l1 ++ l2) = match lookup k l1 with | some r => some r | none => lookup k l2 := by
  intro l1 l2
  induction l1 with
  | nil => rfl
  | cons x l ih =>
    obtain ⟨k', r⟩ := x
    simp only [List.cons_append, lookup]
    by_cases h : (k' == k) = true <;> simp [h, ih]

theorem lookup_filter_key (k : S) (p : S → Bool) (hp : p k = true) : ∀ (l : List (S × Ref)),
    lookup k (l.filter fun kv => p kv.1) = lookup k l := by
  intro l
  induction l with
  | nil => rfl
  | cons x l ih =>
    obtain ⟨k', r⟩ := x
    by_cases h : (k' == k) = true
    · have e : k' = k := by simpa using h
      subst e
      simp [List.filter, hp, lookup]
    · by_cases hq : p k' = true
      · simp [List.filter, hq, lookup, h, ih]
      · simp [List.filter, hq, lookup, h, ih]

theorem lookup_none_any (k : S) : ∀ (l : List (S × Ref)), lookup k l = none → (l.any fun lb => lb.1 == k) = false := by
  intro l
  induction l with
  | nil => intro _; rfl
  | cons x l ih =>
    obtain ⟨k', r⟩ := x
    intro h
    simp only [lookup] at h
    by_cases hk : (k' == k) = true
    · simp [hk] at h
    · simp only [hk, if_false, Bool.false_eq_true] at h
      simp only [List.any_cons, ih h, Bool.or_false]
      simpa using hk

/-- in a duplicate-free list exactly one element equals `a` -/
theorem filter_eq_singleton {α : Type} [BEq α] [LawfulBEq α] (a : α) :
    ∀ (l : List α), l.Nodup → a ∈ l → l.filter (fun x => x == a) = [a] := by
  intro l
  induction l with
  | nil => intro _ h; simp at h
  | cons x l ih =>
    intro hn ha
    rw [List.nodup_cons] at hn
    by_cases hx : x = a
    · subst hx
      have : l.filter (fun y => y == x) = [] := by
        rw [List.filter_eq_nil_iff]
        intro y hy
        have : y ≠ x := fun e => hn.1 (e ▸ hy)
        simpa using this
      simp [List.filter, this]
    · have hal : a ∈ l := by
        rcases List.mem_cons.mp ha with e | e
        · exact absurd e.symm hx
        · exact e
      have : (x == a) = false := by simpa using hx
      simp [List.filter, this, ih hn.2 hal]

end St4sd.C05L
