import St4sd.Model.Validate
/-!
# C11 — lemmas about the expansion (`expandDoc`) of a document by replication

The expanded graph projects onto the blueprint graph: every expanded component comes from one blueprint
component (`bpList`), and — when the `replicate` counts are consistent (`replOk`) and every reference is a
component of the document — every reference of an expanded component is the identifier of an expanded component
whose blueprint is a reference of the blueprint of the consumer.  No Mathlib.
-/
namespace St4sd.C11
open St4sd.ValSchema St4sd.Validate

/-- (expanded identifier, blueprint identifier) for every expanded component, in document order -/
def bpList (d : Doc) : List (Id × Id) :=
  d.comps.flatMap (fun c => (expandComp d c).map (fun c' => (c'.id, c.id)))

/-- the blueprint of an expanded identifier (the identifier itself when it is unknown) -/
def bpOf (l : List (Id × Id)) (x : Id) : Id :=
  match l.find? (fun p => p.1 == x) with
  | some p => p.2
  | none => x

theorem ids_expandDoc (d : Doc) : ids (expandDoc d) = (bpList d).map Prod.fst := by
  unfold ids expandDoc bpList
  simp only [List.map_flatMap, List.map_map]
  rfl

theorem find_of_nodup (l : List (Id × Id)) (h : (l.map Prod.fst).Nodup) {x b : Id} (hm : (x, b) ∈ l) :
    l.find? (fun p => p.1 == x) = some (x, b) := by
  induction l with
  | nil => cases hm
  | cons p rest ih =>
    rw [List.map_cons, List.nodup_cons] at h
    rcases List.mem_cons.mp hm with rfl | hm'
    · simp
    · have hne : ¬ p.1 = x := fun e => h.1 (e ▸ List.mem_map_of_mem (f := Prod.fst) hm')
      rw [List.find?_cons]
      have : (p.1 == x) = false := by simpa using hne
      rw [this]
      exact ih h.2 hm'

theorem bpOf_of_mem {d : Doc} (h : (ids (expandDoc d)).Nodup) {x b : Id} (hm : (x, b) ∈ bpList d) :
    bpOf (bpList d) x = b := by
  rw [ids_expandDoc] at h
  unfold bpOf
  rw [find_of_nodup _ h hm]

theorem mem_bpList {d : Doc} {c c' : Comp} (hc : c ∈ d.comps) (hc' : c' ∈ expandComp d c) :
    (c'.id, c.id) ∈ bpList d := by
  unfold bpList
  rw [List.mem_flatMap]
  exact ⟨c, hc, List.mem_map.mpr ⟨c', hc', rfl⟩⟩

theorem mem_ids_of_mem {d : Doc} {c : Comp} (hc : c ∈ d.comps) : c.id ∈ ids d :=
  List.mem_map_of_mem hc

theorem contains_ids {d : Doc} {c : Comp} (hc : c ∈ d.comps) : (ids d).contains c.id = true := by
  simpa using mem_ids_of_mem hc

/-- the three shapes of an expanded component -/
theorem mem_expandComp {d : Doc} {c c' : Comp} (h : c' ∈ expandComp d c) :
    (rewrites d c.id = true ∧ ∃ k, k < cnt d c.id ∧ c'.id = (c.stage, replName c.name k) ∧
        c'.refs = c.refs.map (replicaRef d k)) ∨
    (rewrites d c.id = false ∧ c'.id = c.id ∧ c'.refs = c.refs.flatMap (aggRefs d (cnt d c.id))) ∨
    (rewrites d c.id = false ∧ isAgg d c.id = false ∧ c' = c) := by
  unfold expandComp at h
  split at h
  · rename_i hr
    left
    refine ⟨hr, ?_⟩
    rw [List.mem_map] at h
    obtain ⟨k, hk, rfl⟩ := h
    exact ⟨k, List.mem_range.mp hk, rfl, rfl⟩
  · rename_i hr
    have hr' : rewrites d c.id = false := by simpa using hr
    split at h
    · right; left
      rw [List.mem_singleton] at h
      subst h
      exact ⟨hr', rfl, rfl⟩
    · rename_i ha
      right; right
      rw [List.mem_singleton] at h
      exact ⟨hr', by simpa using ha, h⟩

/-- a replicated blueprint has a replica for every index below its count -/
theorem replica_mem {d : Doc} {cr : Comp} (hr : rewrites d cr.id = true) {k : Nat} (hk : k < cnt d cr.id) :
    ∃ c' ∈ expandComp d cr, c'.id = (cr.stage, replName cr.name k) := by
  unfold expandComp
  rw [if_pos hr]
  exact ⟨_, List.mem_map.mpr ⟨k, List.mem_range.mpr hk, rfl⟩, rfl⟩

/-- a blueprint that is not replicated keeps its identifier -/
theorem plain_mem {d : Doc} {cr : Comp} (hr : rewrites d cr.id = false) :
    ∃ c' ∈ expandComp d cr, c'.id = cr.id := by
  unfold expandComp
  rw [if_neg (by simp [hr])]
  split
  · exact ⟨_, List.mem_singleton.mpr rfl, rfl⟩
  · exact ⟨_, List.mem_singleton.mpr rfl, rfl⟩

theorem exists_comp_of_mem_ids {d : Doc} {r : Id} (h : r ∈ ids d) : ∃ cr ∈ d.comps, cr.id = r := by
  unfold ids at h
  rw [List.mem_map] at h
  exact h

/-- the expanded name of a reference that is not rewritten is in the expansion, with itself as blueprint -/
theorem plain_ref_in_bpList {d : Doc} {r : Id} (hid : r ∈ ids d) (hr : rewrites d r = false) :
    (r, r) ∈ bpList d := by
  obtain ⟨cr, hcr, rfl⟩ := exists_comp_of_mem_ids hid
  obtain ⟨c', hc', hid'⟩ := plain_mem hr
  have := mem_bpList hcr hc'
  rwa [hid'] at this

/-- replica `k` of a rewritten reference is in the expansion when `k` is below the count of the producer -/
theorem replica_ref_in_bpList {d : Doc} {r : Id} (hid : r ∈ ids d) (hr : rewrites d r = true) {k : Nat}
    (hk : k < cnt d r) : ((r.1, replName r.2 k), r) ∈ bpList d := by
  obtain ⟨cr, hcr, rfl⟩ := exists_comp_of_mem_ids hid
  obtain ⟨c', hc', hid'⟩ := replica_mem hr hk
  have := mem_bpList hcr hc'
  rw [hid'] at this
  exact this

/-- consistency: a rewritten reference of `c` has the count of `c` -/
theorem cnt_eq_of_rewrites {d : Doc} {c : Comp} (hok : replOk d c = true) {r : Id} (hr : r ∈ c.refs)
    (hw : rewrites d r = true) : cnt d c.id = cnt d r := by
  unfold rewrites at hw
  simp only [Bool.and_eq_true, Bool.not_eq_true', decide_eq_true_eq] at hw
  obtain ⟨⟨h1, h2⟩, h3⟩ := hw
  have hf : r ∈ feeders d c := by
    unfold feeders
    rw [List.mem_filter]
    exact ⟨hr, by rw [h1, h2]; rfl⟩
  unfold replOk at hok
  rw [List.all_eq_true] at hok
  have := hok r hf
  simp only [Bool.or_eq_true, beq_iff_eq] at this
  rcases this with h | h
  · omega
  · exact h

/-- **reference projection**: every reference of an expanded component is the identifier of an expanded
component whose blueprint is a reference of the consumer's blueprint -/
theorem ref_projects {d : Doc} {c c' : Comp} (hc : c ∈ d.comps) (hc' : c' ∈ expandComp d c)
    (hok : replOk d c = true) (href : ∀ r ∈ c.refs, r ∈ ids d) {x : Id} (hx : x ∈ c'.refs) :
    ∃ r ∈ c.refs, (x, r) ∈ bpList d := by
  rcases mem_expandComp hc' with ⟨_, k, hk, _, hrefs⟩ | ⟨_, _, hrefs⟩ | ⟨hw, ha, rfl⟩
  · rw [hrefs, List.mem_map] at hx
    obtain ⟨r, hr, rfl⟩ := hx
    refine ⟨r, hr, ?_⟩
    unfold replicaRef
    cases hwr : rewrites d r with
    | true =>
      rw [if_pos rfl]
      have := cnt_eq_of_rewrites hok hr hwr
      exact replica_ref_in_bpList (href r hr) hwr (by omega)
    | false =>
      simp only [Bool.false_eq_true, if_false]
      exact plain_ref_in_bpList (href r hr) hwr
  · rw [hrefs, List.mem_flatMap] at hx
    obtain ⟨r, hr, hx⟩ := hx
    refine ⟨r, hr, ?_⟩
    unfold aggRefs at hx
    cases hwr : rewrites d r with
    | true =>
      rw [hwr, if_pos rfl, List.mem_map] at hx
      obtain ⟨k, hk, rfl⟩ := hx
      have := cnt_eq_of_rewrites hok hr hwr
      have hk' := List.mem_range.mp hk
      exact replica_ref_in_bpList (href r hr) hwr (by omega)
    | false =>
      rw [hwr] at hx
      simp only [Bool.false_eq_true, if_false, List.mem_singleton] at hx
      subst hx
      exact plain_ref_in_bpList (href x hr) hwr
  · refine ⟨x, hx, ?_⟩
    cases hwr : rewrites d x with
    | false => exact plain_ref_in_bpList (href x hx) hwr
    | true =>
      -- a plain, non-aggregating consumer of a replicated producer would be replicated itself
      exfalso
      have heq := cnt_eq_of_rewrites hok hx hwr
      unfold rewrites at hw hwr
      rw [contains_ids hc, ha] at hw
      simp only [Bool.and_eq_true, Bool.not_eq_true', decide_eq_true_eq] at hwr
      simp only [Bool.true_and, Bool.not_false, decide_eq_false_iff_not] at hw
      omega

end St4sd.C11
