import St4sd.Lemmas.C04Tree
/-!
# Helper lemmas for C04: user variables (`patchUser`) and the layering of several variable files
(`mergeVars`, `mergeStages`, `mergeUser`, `layerUserFiles`)
-/
namespace St4sd.Tree
open St4sd.Str

/-- every value of the collection is a scalar that `override_object` simply replaces: neither a dictionary
nor `None` (what the schema of a variable file admits: strings, numbers, booleans) -/
def PlainVars (f : Fields) : Prop := ∀ x v, get f x = some v → isDict v = false ∧ v ≠ .null

/-- the stage-`i` section of a variable file (absent = empty) -/
def stageOf (u : UserVars) (i : Nat) : Fields := (lookupN u.stages i).getD []

def PlainUser (u : UserVars) : Prop := PlainVars u.global ∧ ∀ i g, lookupN u.stages i = some g → PlainVars g

theorem plainVars_nil : PlainVars [] := by
  intro x v h; simp [get] at h

theorem plainUser_empty : PlainUser ⟨[], []⟩ :=
  ⟨plainVars_nil, by intro i g h; simp [lookupN] at h⟩

theorem plainVars_stageOf (u : UserVars) (h : PlainUser u) (i : Nat) : PlainVars (stageOf u i) := by
  unfold stageOf
  cases hl : lookupN u.stages i with
  | none => exact plainVars_nil
  | some g => exact h.2 i g hl

/-- decidable form of `PlainVars` (every entry, shadowed ones included) -/
def plainVarsB (f : Fields) : Bool :=
  f.all (fun kv => match kv.2 with | .dict _ => false | .null => false | _ => true)

def plainUserB (u : UserVars) : Bool := plainVarsB u.global && u.stages.all (fun e => plainVarsB e.2)

theorem plainVars_of_B : ∀ (f : Fields), plainVarsB f = true → PlainVars f := by
  intro f
  induction f with
  | nil => intro _; exact plainVars_nil
  | cons h t ih =>
    obtain ⟨k, w⟩ := h
    intro hb x v hg
    simp only [plainVarsB, List.all_cons, Bool.and_eq_true] at hb
    simp only [get] at hg
    by_cases hk : k = x
    · simp only [hk, if_true, Option.some.injEq] at hg
      subst hg
      cases w <;> simp_all [isDict]
    · simp only [hk, if_false] at hg
      exact ih hb.2 x v hg

theorem plainUser_of_B (u : UserVars) (h : plainUserB u = true) : PlainUser u := by
  simp only [plainUserB, Bool.and_eq_true] at h
  refine ⟨plainVars_of_B _ h.1, ?_⟩
  have hall := h.2
  generalize u.stages = st at hall
  induction st with
  | nil => intro i g hl; simp [lookupN] at hl
  | cons e r ih =>
    obtain ⟨k, f⟩ := e
    simp only [List.all_cons, Bool.and_eq_true] at hall
    intro i g hl
    simp only [lookupN] at hl
    by_cases hk : k = i
    · simp only [hk, if_true, Option.some.injEq] at hl
      subst hl
      exact plainVars_of_B _ hall.1
    · simp only [hk, if_false] at hl
      exact ih hall.2 i g hl

theorem override_plain (x y : Val) (hx : isDict x = false) (hy : isDict y = false) (hn : y ≠ .null) :
    override x y = y := by
  cases x <;> cases y <;> simp_all [override, isDict]

/-- one name of `override_object` on two collections of plain values: the later collection wins where it
defines the name, everything else is kept -/
theorem get_mergeVars (a b : Fields) (ha : PlainVars a) (hb : PlainVars b) (x : S) :
    get (mergeVars a b) x = match get b x with | some v => some v | none => get a x := by
  unfold mergeVars
  rw [get_override_dict]
  cases hga : get a x with
  | none => cases hgb : get b x <;> rfl
  | some u =>
    cases hgb : get b x with
    | none => rfl
    | some w =>
      have h1 := ha x u hga
      have h2 := hb x w hgb
      simp [override_plain u w h1.1 h2.1 h2.2]

theorem plain_mergeVars (a b : Fields) (ha : PlainVars a) (hb : PlainVars b) : PlainVars (mergeVars a b) := by
  intro x v h
  rw [get_mergeVars a b ha hb] at h
  cases hgb : get b x with
  | some w =>
    rw [hgb] at h
    simp only [Option.some.injEq] at h
    subst h
    exact hb x w hgb
  | none =>
    rw [hgb] at h
    exact ha x v h

theorem lookupN_append {α : Type} (a b : List (Nat × α)) (i : Nat) :
    lookupN (a ++ b) i = match lookupN a i with | some v => some v | none => lookupN b i := by
  induction a with
  | nil => simp [lookupN]
  | cons h t ih =>
    obtain ⟨k, v⟩ := h
    simp only [List.cons_append, lookupN]
    split <;> simp_all

theorem lookupN_mapVals {α β : Type} (g : Nat → α → β) (a : List (Nat × α)) (i : Nat) :
    lookupN (a.map (fun e => (e.1, g e.1 e.2))) i = (lookupN a i).map (g i) := by
  induction a with
  | nil => simp [lookupN]
  | cons h t ih =>
    obtain ⟨k, v⟩ := h
    simp only [List.map_cons, lookupN]
    by_cases hk : k = i
    · subst hk; simp
    · simp [hk, ih]

theorem lookupN_filter_absent {α β : Type} (a : List (Nat × β)) (b : List (Nat × α)) (i : Nat) :
    lookupN (b.filter (fun e => (lookupN a e.1).isNone)) i = if (lookupN a i).isNone then lookupN b i else none := by
  induction b with
  | nil => simp [lookupN]
  | cons h t ih =>
    obtain ⟨k, v⟩ := h
    simp only [List.filter]
    by_cases hk : k = i
    · subst hk
      cases hg : lookupN a k <;> simp [lookupN, hg, ih]
    · cases hg : lookupN a k <;> simp [lookupN, ih, hk]

/-- one stage section of `override_object` on two `stages` dictionaries -/
theorem lookupN_mergeStages (a b : List (Nat × Fields)) (i : Nat) :
    lookupN (mergeStages a b) i =
      match lookupN a i, lookupN b i with
      | some f, some g => some (mergeVars f g)
      | some f, none => some f
      | none, g => g := by
  have hm : lookupN (a.map (fun e => (e.1, mergeOpt e.2 (lookupN b e.1)))) i =
      (lookupN a i).map (fun f => mergeOpt f (lookupN b i)) :=
    lookupN_mapVals (fun k f => mergeOpt f (lookupN b k)) a i
  unfold mergeStages
  rw [lookupN_append, hm, lookupN_filter_absent]
  cases lookupN a i <;> cases lookupN b i <;> simp [mergeOpt]

/-- the stage-`i` section after layering one more file -/
theorem get_stageOf_mergeUser (a b : UserVars) (ha : PlainUser a) (hb : PlainUser b) (i : Nat) (x : S) :
    get (stageOf (mergeUser a b) i) x =
      match get (stageOf b i) x with | some v => some v | none => get (stageOf a i) x := by
  unfold stageOf mergeUser
  simp only [lookupN_mergeStages]
  cases hla : lookupN a.stages i with
  | none =>
    cases hlb : lookupN b.stages i with
    | none => simp [get]
    | some g => simp only [Option.getD_some, Option.getD_none, get]; cases get g x <;> rfl
  | some f =>
    cases hlb : lookupN b.stages i with
    | none => simp [get]
    | some g =>
      simp only [Option.getD_some]
      exact get_mergeVars f g (ha.2 i f hla) (hb.2 i g hlb) x

theorem get_global_mergeUser (a b : UserVars) (ha : PlainUser a) (hb : PlainUser b) (x : S) :
    get (mergeUser a b).global x = match get b.global x with | some v => some v | none => get a.global x :=
  get_mergeVars a.global b.global ha.1 hb.1 x

theorem plain_mergeUser (a b : UserVars) (ha : PlainUser a) (hb : PlainUser b) : PlainUser (mergeUser a b) := by
  refine ⟨plain_mergeVars _ _ ha.1 hb.1, ?_⟩
  intro i g h
  simp only [mergeUser, lookupN_mergeStages] at h
  cases hla : lookupN a.stages i with
  | none =>
    rw [hla] at h
    exact hb.2 i g h
  | some f =>
    rw [hla] at h
    cases hlb : lookupN b.stages i with
    | none =>
      rw [hlb] at h
      simp only [Option.some.injEq] at h
      subst h
      exact ha.2 i f hla
    | some g' =>
      rw [hlb] at h
      simp only [Option.some.injEq] at h
      subst h
      exact plain_mergeVars f g' (ha.2 i f hla) (hb.2 i g' hlb)

/-! ### `_patch_in_variable_files` -/

theorem lookupN_setN {α : Type} (st : List (Nat × α)) (i j : Nat) (v : α) :
    lookupN (setN st i v) j = if j = i then some v else lookupN st j := by
  induction st with
  | nil =>
    simp only [setN, lookupN]
    by_cases h : j = i
    · subst h; simp
    · have : ¬ i = j := fun e => h e.symm
      simp [h, this]
  | cons h t ih =>
    obtain ⟨k, w⟩ := h
    simp only [setN]
    by_cases hk : k = i
    · subst hk
      simp only [if_true, lookupN]
      by_cases hj : j = k
      · subst hj; simp
      · have : ¬ k = j := fun e => hj e.symm
        simp [hj, this]
    · simp only [hk, if_false, lookupN, ih]
      by_cases hj : j = i
      · subst hj; simp [hk]
      · simp [hj]

/-- stages `0 .. n-1` hold their own variables with the user's on top, the others are untouched -/
theorem lookupN_patchStages (uv : UserVars) (st : List (Nat × Fields)) : ∀ (n i : Nat),
    lookupN (patchStages uv st n) i =
      if i < n then some (update ((lookupN st i).getD []) (userFor uv i)) else lookupN st i := by
  intro n
  induction n with
  | zero => intro i; simp [patchStages]
  | succ n ih =>
    intro i
    simp only [patchStages]
    rw [lookupN_setN]
    by_cases hi : i = n
    · subst hi
      have h0 := ih i
      simp only [Nat.lt_irrefl, if_false] at h0
      simp [h0]
    · simp only [hi, if_false, ih i]
      by_cases hlt : i < n
      · have : i < n + 1 := by omega
        simp [hlt, this]
      · have : ¬ i < n + 1 := by omega
        simp [hlt, this]

theorem lookupS_map_self {α : Type} (g : S → α) : ∀ (ps : List S) (P : S), P ∈ ps →
    lookupS (ps.map (fun Q => (Q, g Q))) P = some (g P) := by
  intro ps
  induction ps with
  | nil => intro P h; simp at h
  | cons q r ih =>
    intro P h
    simp only [List.map_cons, lookupS]
    by_cases hq : q = P
    · subst hq; simp
    · simp only [hq, if_false]
      have : P ∈ r := by
        rcases List.mem_cons.mp h with h | h
        · exact absurd h.symm hq
        · exact h
      exact ih P this

theorem platVars_patchUser (d : Desc) (uv : UserVars) (n : Nat) (P : S) (hP : P ∈ d.platforms) :
    platVars (patchUser d uv n) P =
      { global := (platVars d P).global, stages := patchStages uv (platVars d P).stages n } := by
  have h := lookupS_map_self
    (fun Q => PlatVars.mk (platVars d Q).global (patchStages uv (platVars d Q).stages n)) d.platforms P hP
  simp only [platVars, patchUser] at h ⊢
  rw [h]
  rfl

/-- after `_patch_in_variable_files` the global variables of every platform are what they were … -/
theorem globalVars_patchUser (d : Desc) (uv : UserVars) (n : Nat) (P : S) (hP : P ∈ d.platforms) :
    globalVars (patchUser d uv n) P = globalVars d P := by
  unfold globalVars
  rw [platVars_patchUser d uv n P hP]

/-- … and the stage variables of every platform carry the user's variables for that stage on top -/
theorem stageVars_patchUser (d : Desc) (uv : UserVars) (n : Nat) (P : S) (hP : P ∈ d.platforms) (i : Nat)
    (hi : i < n) : stageVars (patchUser d uv n) P i = update (stageVars d P i) (userFor uv i) := by
  unfold stageVars
  rw [platVars_patchUser d uv n P hP]
  simp only [lookupN_patchStages, hi, if_true, Option.getD_some]

end St4sd.Tree
