import St4sd.Model.Repeat
/-! Inductive invariants of the repeating-engine model (helper lemmas for Props/C13).
Proof pattern: destructure the state, case on the operation and on the program counter, unfold one step,
split the remaining `if`s and close the propositional / linear-arithmetic goals with `grind`. -/
namespace St4sd.Repeat

/-- generic induction over histories -/
theorem run_induction {cfg : Cfg} (P : St → Prop)
    (hstep : ∀ s op, P s → P (step cfg s op)) : ∀ (h : List Op) (s : St), P s → P (run cfg s h) := by
  intro h
  induction h with
  | nil => intro s hs; exact hs
  | cons op ops ih => intro s hs; exact ih _ (hstep s op hs)

/-! registers of the poll in progress -/
def Pc.pdws : Pc → Bool
  | .sampled _ _ p => p | .running _ _ p _ => p | .ready _ _ p _ _ _ => p | _ => false
def Pc.fc : Pc → Bool
  | .checked _ f => f | .sampled _ f _ => f | .running _ f _ _ => f | .ready _ f _ _ _ _ => f | _ => false
def Pc.isNew : Pc → Bool
  | .checked n _ => n | .sampled n _ _ => n | .running n _ _ _ => n | .ready n _ _ _ _ _ => n | _ => false
/-- inside the body of a normal poll -/
def Pc.mid : Pc → Bool
  | .checked _ _ => true | .sampled _ _ _ => true | .running _ _ _ _ => true | .ready _ _ _ _ _ _ => true
  | _ => false
/-- past the sample of producers_done_when_i_started -/
def Pc.past : Pc → Bool
  | .sampled _ _ _ => true | .running _ _ _ _ => true | .ready _ _ _ _ _ _ => true | _ => false
def Pc.launched : Pc → Bool
  | .running _ _ _ _ => true | .ready _ _ _ d _ _ => d | _ => false
def Pc.skipped : Pc → Bool
  | .ready _ _ _ d _ _ => !d | _ => false
/-- no poll body can follow without the monitor looking at the cancel event again -/
def Pc.quiet : Pc → Bool
  | .idle => true | .polled true => true | .stopped => true | _ => false

/-- output only grows: what could be consumed can still be consumed after more output appeared -/
theorem canConsume_mono (cfg : Cfg) (outs : List Nat) (c : Nat) (h : canConsume cfg outs = true) :
    canConsume cfg (c :: outs) = true := by
  simp only [canConsume, List.all_eq_true, Bool.or_eq_true, Bool.not_eq_true'] at h ⊢
  intro p hp
  rcases h p hp with h1 | h1
  · exact Or.inl h1
  · refine Or.inr ?_
    have : p.id ∈ outs := by simpa using h1
    simp [this]

/-- A: whoever consumes has something to consume from EVERY producer of its own stage; every launch happened
with output of every same-stage producer available; `hasOutput` is "some producer has output" -/
def InvA (cfg : Cfg) (s : St) : Prop :=
  (s.consume = true → canConsume cfg s.outs = true) ∧ (∀ e ∈ s.execLog, e.avail = true) ∧
  (∀ c ∈ s.outs, s.hasOutput = true ∧ cfg.isProd c = true)

theorem invA_init (cfg : Cfg) : InvA cfg (init cfg) := by
  simp only [InvA, init, Cfg.preOutput]
  refine ⟨by simp, by simp, ?_⟩
  intro c hc
  rw [List.mem_filter] at hc
  exact ⟨List.any_eq_true.mpr ⟨c, hc.1, hc.2⟩, hc.2⟩

theorem invA_step (cfg : Cfg) (s : St) (op : Op) (h : InvA cfg s) : InvA cfg (step cfg s op) := by
  obtain ⟨clock, prodDone, finTime, suicide, armed, consume, retries, cancel, kc, hasProc, procKilled,
    lastLaunched, aged, hasOutput, lastOutput, outs, execLog, pc, cause, pollsFin, books, started⟩ := s
  simp only [InvA] at h ⊢
  rcases op with e | o
  · cases e with
    | out c =>
      have hm := canConsume_mono cfg outs c
      simp only [step, envStep] <;> (repeat' split) <;> grind
    | _ => simp only [step, envStep, doKill] <;> (repeat' split) <;> grind
  · cases pc <;> simp only [step, engStep, post, doKill] <;> (repeat' split) <;> grind

/-- B: flags that imply that the producers finished; who cancelled -/
def InvB (_cfg : Cfg) (s : St) : Prop :=
  (s.armed = true → s.prodDone = true) ∧ (s.suicide = true → s.prodDone = true) ∧
  (s.pc.pdws = true → s.prodDone = true) ∧ (s.pc.fc = true → s.prodDone = true) ∧
  ((s.cause = some .success ∨ s.cause = some .retries ∨ s.cause = some .killDelay) → s.prodDone = true) ∧
  (s.cancel = true ↔ s.cause ≠ none) ∧
  (s.pc = .polled true ∨ s.pc = .stopped → s.cancel = true)

theorem invB_init (cfg : Cfg) : InvB cfg (init cfg) := by
  simp [InvB, init, Pc.pdws, Pc.fc]

theorem invB_step (cfg : Cfg) (s : St) (op : Op) (h : InvB cfg s) : InvB cfg (step cfg s op) := by
  obtain ⟨clock, prodDone, finTime, suicide, armed, consume, retries, cancel, kc, hasProc, procKilled,
    lastLaunched, aged, hasOutput, lastOutput, outs, execLog, pc, cause, pollsFin, books, started⟩ := s
  simp only [InvB] at h ⊢
  rcases op with e | o
  · cases e <;> simp only [step, envStep, doKill] <;> (repeat' split) <;> grind [Pc.pdws, Pc.fc]
  · cases pc <;> simp only [step, engStep, post, doKill] <;> (repeat' split) <;> grind [Pc.pdws, Pc.fc]

def Fixed (cfg : Cfg) : Prop := cfg.guardNone = true ∧ cfg.killOnSuicidePoll = true

/-- C: counting polls after the producers finished -/
def InvC (cfg : Cfg) (s : St) : Prop :=
  (s.pc.past = true → s.pc.fc = true → s.pc.pdws = true) ∧
  s.books + s.retries ≤ cfg.retries + 1 ∧
  ((s.cancel = false ∨ s.pc.mid = true ∨ s.pc = .polled false) → s.books + s.retries ≤ cfg.retries) ∧
  s.pollsFin ≤ s.books + (if s.pc.mid = true ∧ s.pc.fc = true then 1 else 0)

theorem invC_init (cfg : Cfg) : InvC cfg (init cfg) := by
  simp [InvC, init, Pc.pdws, Pc.fc, Pc.mid, Pc.past]

theorem invC_step (cfg : Cfg) (hf : Fixed cfg) (s : St) (op : Op) (hB : InvB cfg s) (h : InvC cfg s) :
    InvC cfg (step cfg s op) := by
  obtain ⟨g1, g2⟩ := hf
  obtain ⟨clock, prodDone, finTime, suicide, armed, consume, retries, cancel, kc, hasProc, procKilled,
    lastLaunched, aged, hasOutput, lastOutput, outs, execLog, pc, cause, pollsFin, books, started⟩ := s
  simp only [InvB, InvC] at hB h ⊢
  rcases op with e | o
  · cases e <;> simp only [step, envStep, doKill] <;> (repeat' split) <;>
      grind [Pc.pdws, Pc.fc, Pc.mid, Pc.past]
  · cases pc <;> simp only [step, engStep, post, doKill, g1, g2] <;> (repeat' split) <;>
      grind [Pc.pdws, Pc.fc, Pc.mid, Pc.past, b2n]


def selfCause (s : St) : Prop := s.cause = some .success ∨ s.cause = some .retries

/-- D: the final producer output is looked at before the engine stops by itself -/
def InvD (cfg : Cfg) (s : St) : Prop :=
  1 ≤ s.clock ∧ s.lastLaunched < s.clock ∧ s.lastOutput < s.clock ∧
  (s.prodDone = true → s.finTime < s.clock) ∧
  s.retries ≤ cfg.retries ∧
  (s.hasOutput = true → 0 < s.lastOutput) ∧
  (s.execLog = [] → s.lastLaunched = 0) ∧
  (∀ e, s.execLog.head? = some e → e.launch = s.lastLaunched) ∧
  (s.prodDone = true → s.lastOutput ≤ s.finTime) ∧
  (selfCause s → s.pc.quiet = true) ∧
  (s.retries < cfg.retries → s.prodDone = true ∧ (s.pc.mid = true → s.pc.fc = true)) ∧
  (s.pc.mid = true → s.pc.fc = true → s.pc.isNew = false → cfg.noProd = false → s.hasOutput = true →
      s.lastOutput ≤ s.lastLaunched) ∧
  (s.pc.skipped = true → s.consume = false ∨ (s.pc.isNew = false ∧ cfg.noProd = false)) ∧
  (s.pc.launched = true → s.execLog ≠ [] ∧ (s.pc.pdws = true → s.finTime ≤ s.lastLaunched)) ∧
  (selfCause s → s.consume = true → s.hasOutput = true → s.execLog ≠ [] ∧ s.lastOutput ≤ s.lastLaunched)

theorem invD_init (cfg : Cfg) (hp : cfg.preOutput = false) : InvD cfg (init cfg) := by
  simp [InvD, init, selfCause, Pc.pdws, Pc.fc, Pc.mid, Pc.isNew, Pc.skipped, Pc.launched, Pc.quiet, hp]

theorem invD_step (cfg : Cfg) (hr : 1 ≤ cfg.retries) (s : St) (op : Op)
    (hB : InvB cfg s) (h : InvD cfg s) : InvD cfg (step cfg s op) := by
  obtain ⟨clock, prodDone, finTime, suicide, armed, consume, retries, cancel, kc, hasProc, procKilled,
    lastLaunched, aged, hasOutput, lastOutput, outs, execLog, pc, cause, pollsFin, books, started⟩ := s
  simp only [InvB, InvD, selfCause] at hB h ⊢
  rcases op with e | o
  · cases e <;> simp only [step, envStep, doKill] <;> (repeat' split) <;>
      grind [Pc.pdws, Pc.fc, Pc.mid, Pc.isNew, Pc.skipped, Pc.launched, Pc.quiet]
  · cases pc <;> simp only [step, engStep, post, doKill, outSince] <;> (repeat' split) <;>
      grind [Pc.pdws, Pc.fc, Pc.mid, Pc.isNew, Pc.skipped, Pc.launched, Pc.quiet]

end St4sd.Repeat
