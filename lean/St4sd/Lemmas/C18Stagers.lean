import St4sd.Lemmas.C18Confine
import St4sd.Model.C18Stagers
/-!
# C18 — invariant of two interleaved stagers

`SGood d s`: the private state of a stager whose working directory is `d` — its log lies under `d`, the members it
still has to extract were vetted (`MemberRel`).  `WGood dA dB fs0 w`: both stagers are good, the shared file system is
`Safe` for both directories and nothing outside the two directories differs from the initial state `fs0`.
-/
namespace St4sd.Confine
open St4sd.Str

/-- neither directory is the other one or lies below it -/
def Apart (dA dB : Path) : Prop := ¬ dA <:+ dB ∧ ¬ dB <:+ dA

theorem apart_under {dA dB p : Path} (h : Apart dA dB) (ha : dA <:+ p) : ¬ dB <:+ p := by
  intro hb
  rcases List.suffix_or_suffix_of_suffix ha hb with h1 | h1
  · exact h.1 h1
  · exact h.2 h1

theorem apart_under' {dA dB p : Path} (h : Apart dA dB) (hb : dB <:+ p) : ¬ dA <:+ p :=
  fun ha => apart_under h ha hb

/-- an operation confined to `d` keeps `Safe d'` of a directory that shares no location with `d` -/
theorem safe_of_frame {d d' : Path} {fs fs' : Fs} (hd : ∀ p, d' <:+ p → ¬ d <:+ p) (hs : Safe d' fs)
    (hf : ∀ q, ¬ d <:+ q → fs'.get q = fs.get q) : Safe d' fs' := by
  intro p n hp hget
  rw [hf p (hd p hp)] at hget
  exact hs p n hp hget

structure SGood (d : Path) (s : Stager) : Prop where
  dest : s.dest = d
  log : LogUnder d s.log
  rel : ∀ m ∈ s.todo, MemberRel m

theorem sgood_init (d : Path) (ms : List Member) : SGood d (Stager.init d ms) := by
  unfold Stager.init
  split
  · rename_i hc
    refine ⟨rfl, (by intro p hp; cases hp), ?_⟩
    intro m hm
    obtain ⟨m0, hm0, rfl⟩ := List.mem_map.mp hm
    exact memberRel_of_ok (List.all_eq_true.mp hc m0 hm0)
  · exact ⟨rfl, (by intro p hp; cases hp), (by intro m hm; cases hm)⟩

/-- one member of one stager: its log stays under its own directory, its directory stays `Safe`, and NO location
outside its own directory changes — in particular nothing in the other stager's directory -/
theorem stager_step_good {d : Path} {fs fs' : Fs} {s s' : Stager} (hs : Safe d fs) (hg : SGood d s)
    (h : s.step fs = (fs', s')) :
    SGood d s' ∧ Safe d fs' ∧ (∀ q, ¬ d <:+ q → fs'.get q = fs.get q) := by
  unfold Stager.step at h
  cases htodo : s.todo with
  | nil =>
    simp only [htodo] at h
    cases h
    exact ⟨hg, hs, fun _ _ => rfl⟩
  | cons m ms =>
    simp only [htodo] at h
    have hgood : Good d fs ⟨fs, s.log⟩ := ⟨hs, hg.log, fun _ _ => rfl⟩
    have hrel : MemberRel m := hg.rel m (by rw [htodo]; exact List.mem_cons_self ..)
    cases h1 : extractOne s.dest ⟨fs, s.log⟩ m with
    | mk st1 e =>
      have h1' : extractOne d ⟨fs, s.log⟩ m = (st1, e) := by rw [← hg.dest]; exact h1
      have hg1 := extractOne_good hgood hrel h1'
      simp only [h1] at h
      cases e with
      | none =>
        simp only at h
        cases h
        refine ⟨⟨hg.dest, hg1.log, ?_⟩, hg1.safe, hg1.frame⟩
        intro m' hm'
        exact hg.rel m' (by rw [htodo]; exact List.mem_cons_of_mem _ hm')
      | some x =>
        simp only at h
        cases h
        exact ⟨⟨hg.dest, hg1.log, (by intro m' hm'; cases hm')⟩, hg1.safe, hg1.frame⟩

theorem stager_drain_good {d : Path} {fs fs' : Fs} {s s' : Stager} (hs : Safe d fs) (hg : SGood d s)
    (h : s.drain fs = (fs', s')) :
    SGood d s' ∧ Safe d fs' ∧ (∀ q, ¬ d <:+ q → fs'.get q = fs.get q) := by
  unfold Stager.drain at h
  cases htodo : s.todo with
  | nil =>
    simp only [htodo] at h
    cases h
    exact ⟨hg, hs, fun _ _ => rfl⟩
  | cons m ms =>
    simp only [htodo] at h
    have hgood : Good d fs ⟨fs, s.log⟩ := ⟨hs, hg.log, fun _ _ => rfl⟩
    cases h1 : extractAll s.dest ⟨fs, s.log⟩ (m :: ms) with
    | mk st1 e =>
      have h1' : extractAll d ⟨fs, s.log⟩ (m :: ms) = (st1, e) := by rw [← hg.dest]; exact h1
      have hg1 := extractAll_good (m :: ms) _ _ _ hgood (by rw [← htodo]; exact hg.rel) h1'
      simp only [h1] at h
      cases h
      exact ⟨⟨hg.dest, hg1.log, (by intro m' hm'; cases hm')⟩, hg1.safe, hg1.frame⟩

structure WGood (dA dB : Path) (fs0 : Fs) (w : World) : Prop where
  a : SGood dA w.a
  b : SGood dB w.b
  safeA : Safe dA w.fs
  safeB : Safe dB w.fs
  frame : ∀ q, ¬ dA <:+ q → ¬ dB <:+ q → w.fs.get q = fs0.get q

theorem world_step_good {dA dB : Path} {fs0 : Fs} {w : World} (hap : Apart dA dB) (hw : WGood dA dB fs0 w)
    (who : Bool) : WGood dA dB fs0 (w.step who) := by
  unfold World.step
  cases who with
  | true =>
    simp only [if_true]
    cases h : w.b.step w.fs with
    | mk fs1 s1 =>
      obtain ⟨hs1, hsafe, hframe⟩ := stager_step_good hw.safeB hw.b h
      refine ⟨hw.a, hs1, safe_of_frame (fun p hp => apart_under hap hp) hw.safeA hframe, hsafe, ?_⟩
      intro q hqa hqb
      show fs1.get q = fs0.get q
      rw [hframe q hqb]
      exact hw.frame q hqa hqb
  | false =>
    simp only [Bool.false_eq_true, if_false]
    cases h : w.a.step w.fs with
    | mk fs1 s1 =>
      obtain ⟨hs1, hsafe, hframe⟩ := stager_step_good hw.safeA hw.a h
      refine ⟨hs1, hw.b, hsafe, safe_of_frame (fun p hp => apart_under' hap hp) hw.safeB hframe, ?_⟩
      intro q hqa hqb
      show fs1.get q = fs0.get q
      rw [hframe q hqa]
      exact hw.frame q hqa hqb

theorem world_sched_good {dA dB : Path} {fs0 : Fs} (hap : Apart dA dB) :
    ∀ (sched : List Bool) (w : World), WGood dA dB fs0 w → WGood dA dB fs0 (sched.foldl World.step w) := by
  intro sched
  induction sched with
  | nil => intro w hw; exact hw
  | cons x r ih => intro w hw; exact ih _ (world_step_good hap hw x)

theorem world_finish_good {dA dB : Path} {fs0 : Fs} {w : World} (hap : Apart dA dB) (hw : WGood dA dB fs0 w) :
    WGood dA dB fs0 w.finish := by
  unfold World.finish
  cases h1 : w.a.drain w.fs with
  | mk fs1 a1 =>
    obtain ⟨ha1, hsafeA1, hframe1⟩ := stager_drain_good hw.safeA hw.a h1
    have hsafeB1 : Safe dB fs1 := safe_of_frame (fun p hp => apart_under' hap hp) hw.safeB hframe1
    simp only
    cases h2 : w.b.drain fs1 with
    | mk fs2 b1 =>
      obtain ⟨hb1, hsafeB2, hframe2⟩ := stager_drain_good hsafeB1 hw.b h2
      refine ⟨ha1, hb1, safe_of_frame (fun p hp => apart_under hap hp) hsafeA1 hframe2, hsafeB2, ?_⟩
      intro q hqa hqb
      show fs2.get q = fs0.get q
      rw [hframe2 q hqb, hframe1 q hqa]
      exact hw.frame q hqa hqb

end St4sd.Confine
