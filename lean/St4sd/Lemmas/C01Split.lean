import St4sd.Model.CtrlSplit
import St4sd.Lemmas.C01
/-!
# C01 — the invariant of the controller model survives the splitting of `finishedCheck`

`SInv wf s` = the invariant `C01L.Inv` of the underlying state + every notification in flight belongs
to a component whose state is final (that is what `fin c ∈ pending` guaranteed when the handler took
the notification, and final states are permanent).  Every split operation preserves it.
-/
namespace St4sd.C01L
open St4sd.Ctrl

structure SInv (wf : Wf) (s : SSt) : Prop where
  inv : Inv wf s.base
  fly : ∀ e ∈ s.inflight, (s.base.comp e.1).ctrl.isSome = true

theorem sinit_inv (wf : Wf) : SInv wf sinit :=
  ⟨init_inv wf, fun _ he => by simp [sinit] at he⟩

/-- final states are kept by `t` -/
def Keeps (s t : St) : Prop := ∀ c f, (s.comp c).ctrl = some f → (t.comp c).ctrl = some f

theorem Keeps.isSome {s t : St} (h : Keeps s t) (c : Nat) (hs : (s.comp c).ctrl.isSome = true) :
    (t.comp c).ctrl.isSome = true := by
  cases hc : (s.comp c).ctrl with
  | none => simp [hc] at hs
  | some f => simp [h c f hc]

theorem sstep_spec (wf : Wf) {s : SSt} (h : SInv wf s) (op : SOp) :
    SInv wf (sstep wf s op) ∧ Keeps s.base (sstep wf s op).base := by
  cases op with
  | base o =>
    have h1 := step_spec wf h.inv o
    exact ⟨⟨h1.1, fun e he => Keeps.isSome h1.2 e.1 (h.fly e he)⟩, h1.2⟩
  | finPre c =>
    simp only [sstep]
    split
    · next hm =>
      have h0 := erase_spec h.inv.core (Notif.fin c)
      refine ⟨⟨h.inv.of_ext h0.1 h0.2, fun e he => ?_⟩, h0.2.ctrl⟩
      simp only [List.mem_append, List.mem_singleton] at he
      rcases he with he | he
      · exact h.fly e he
      · subst he; exact h.inv.core.pend c hm
    · exact ⟨h, fun _ _ hc => hc⟩
  | finCrit c =>
    simp only [sstep]
    split
    · next hm =>
      have h1 := deliverFin_mid wf h.inv.core c
      refine ⟨⟨h.inv.of_ext h1.1 h1.2, fun e he => ?_⟩, h1.2.ctrl⟩
      simp only [List.mem_append, List.mem_singleton] at he
      show ((finCritical wf s.base c).comp e.1).ctrl.isSome = true
      rcases he with he | he
      · exact h1.2.isSome e.1 (h.fly e (List.mem_of_mem_erase he))
      · subst he; exact h1.2.isSome c (h.fly _ hm)
    · exact ⟨h, fun _ _ hc => hc⟩
  | finPost c =>
    simp only [sstep]
    split
    · next hm =>
      have h2 := setDone_spec h.inv.core c (h.fly _ hm)
      refine ⟨⟨h.inv.of_ext h2.1 h2.2, fun e he => ?_⟩, h2.2.ctrl⟩
      exact h.fly e (List.mem_of_mem_erase he)
    · exact ⟨h, fun _ _ hc => hc⟩
  | complete k =>
    have h1 := stopStage_spec wf h.inv.core k
    exact ⟨⟨h.inv.of_ext h1.1 h1.2, fun e he => h1.2.isSome e.1 (h.fly e he)⟩, h1.2.ctrl⟩

theorem sfoldl_inv (wf : Wf) (ops : List SOp) : ∀ (s : SSt), SInv wf s →
    SInv wf (ops.foldl (sstep wf) s) ∧ Keeps s.base (ops.foldl (sstep wf) s).base := by
  induction ops with
  | nil => intro s h; exact ⟨h, fun _ _ hc => hc⟩
  | cons op ops ih =>
    intro s h
    have h1 := sstep_spec wf h op
    have h2 := ih _ h1.1
    exact ⟨h2.1, fun c f hc => h2.2 c f (h1.2 c f hc)⟩

theorem srun_inv (wf : Wf) (ops : List SOp) : SInv wf (srun wf ops) :=
  (sfoldl_inv wf ops sinit (sinit_inv wf)).1

/-- a history of unsplit operations is a history of the split system -/
theorem srun_base (wf : Wf) (ops : List Op) : ∀ (s : SSt),
    (ops.map SOp.base).foldl (sstep wf) s = { s with base := ops.foldl (step wf) s.base } := by
  induction ops with
  | nil => intro s; rfl
  | cons op ops ih => intro s; simp only [List.map_cons, List.foldl_cons]; rw [ih]; rfl

end St4sd.C01L
