import St4sd.Model.C14Listing
import St4sd.Lemmas.C14Status
/-! Helper lemmas for C14: one line of the key-output listing (dosini writer / reader). -/
namespace St4sd.Listing
open St4sd.Str St4sd.StatusFile

theorem letter_props (c : Char) (h : letter c = true) :
    pyIsSpace c = false ∧ isDelim c = false ∧ (c == '#' || c == ';') = false := by
  simp only [letter, Bool.or_eq_true, Bool.and_eq_true, decide_eq_true_eq] at h
  refine ⟨?_, ?_, ?_⟩
  · simp only [pyIsSpace, Bool.or_eq_false_iff, Bool.and_eq_false_iff, decide_eq_false_iff_not, beq_eq_false_iff_ne]
    omega
  · simp only [isDelim, Bool.or_eq_false_iff, beq_eq_false_iff_ne]
    constructor <;> (intro e; subst e; revert h; decide)
  · simp only [Bool.or_eq_false_iff, beq_eq_false_iff_ne]
    constructor <;> (intro e; subst e; revert h; decide)

theorem listKey_mem (k : List Char) (h : listKey k = true) : ∀ c ∈ k, letter c = true := by
  simpa [listKey, letter, List.all_eq_true] using h

/-- a non-empty run of characters that are neither white space nor inline prefixes is copied -/
theorem cutInline_append (inl : List Char) (k w : List Char) (hne : k ≠ [])
    (hk : ∀ c ∈ k, pyIsSpace c = false ∧ inl.contains c = false) :
    ∀ ps, cutInline inl ps (k ++ w) = k ++ cutInline inl false w := by
  induction k with
  | nil => exact absurd rfl hne
  | cons c k ih =>
    intro ps
    have hc := hk c (by simp)
    cases k with
    | nil => simp only [List.cons_append, List.nil_append, cutInline, hc.1, hc.2, Bool.and_false, Bool.false_eq_true, if_false]
    | cons d k =>
      have := ih (by simp) (fun x hx => hk x (by simp [hx])) (pyIsSpace c)
      simp only [List.cons_append, cutInline, hc.2, Bool.and_false, Bool.false_eq_true, if_false] at this ⊢
      rw [this]

theorem cutInline_id (inl : List Char) : ∀ (l : List Char) (ps : Bool), markGo inl ps l = false → cutInline inl ps l = l := by
  intro l
  induction l with
  | nil => intro ps _; rfl
  | cons c s ih =>
    intro ps h
    simp only [markGo, Bool.or_eq_false_iff] at h
    simp only [cutInline, h.1, Bool.false_eq_true, if_false, ih _ h.2]

theorem cutInline_nil (l : List Char) : ∀ ps, cutInline [] ps l = l := by
  induction l with
  | nil => intro ps; rfl
  | cons c s ih => intro ps; simp [cutInline, ih]

theorem markGo_nil (l : List Char) : ∀ ps, markGo [] ps l = false := by
  induction l with
  | nil => intro ps; rfl
  | cons c s ih => intro ps; simp [markGo, ih]

/-- a white-space character followed by an inline prefix: everything from the prefix on is dropped -/
theorem cutInline_mark_length (inl : List Char) (c p : Char) (y : List Char) (hc : pyIsSpace c = true)
    (hp : inl.contains p = true) :
    ∀ (x : List Char) (ps : Bool), (cutInline inl ps (x ++ c :: p :: y)).length ≤ x.length + 1 := by
  intro x
  induction x with
  | nil =>
    intro ps
    simp only [List.nil_append, cutInline, hc, hp, Bool.and_self, if_true]
    split <;> simp
  | cons d x ih =>
    intro ps
    simp only [List.cons_append, cutInline]
    split
    · simp
    · have := ih (pyIsSpace d)
      simp only [List.length_cons]
      omega

theorem splitDelim_key (k r : List Char) (hk : ∀ c ∈ k, isDelim c = false) :
    splitDelim (k ++ '=' :: r) = some (k, r) := by
  induction k with
  | nil => simp [splitDelim, isDelim]
  | cons c k ih =>
    have hc := hk c (by simp)
    simp [splitDelim, hc, ih (fun x hx => hk x (by simp [hx]))]

theorem pyStrip_length_le (s : List Char) : (pyStrip s).length ≤ s.length := by
  unfold pyStrip
  have h1 := (List.dropWhile_sublist (l := s) pyIsSpace).length_le
  have h2 := (List.dropWhile_sublist (l := (s.dropWhile pyIsSpace).reverse) pyIsSpace).length_le
  simp only [List.length_reverse] at h2 ⊢
  omega

theorem fullComment_key (k w : List Char) (hne : k ≠ []) (hk : ∀ c ∈ k, letter c = true) :
    fullComment (k ++ w) = false := by
  cases k with
  | nil => exact absurd rfl hne
  | cons c k =>
    have hc := letter_props c (hk c (by simp))
    simp [fullComment, hc.1, hc.2.2]

/-- what the reader makes of a written line, for every set of inline prefixes that are not letters of the key -/
theorem readLine_writeLine (inl k v : List Char) (hk : listKey k = true) (hne : k ≠ [])
    (hinl : ∀ c ∈ k, inl.contains c = false) :
    readLine inl (writeLine k v) = some (lowerAscii k, pyStrip (cutInline inl false v)) := by
  have hm := listKey_mem k hk
  have hcut : cutInline inl true (k ++ '=' :: v) = k ++ '=' :: cutInline inl false v := by
    rw [cutInline_append inl k _ hne (fun c hc => ⟨(letter_props c (hm c hc)).1, hinl c hc⟩)]
    simp [cutInline, pyIsSpace]
  unfold readLine writeLine
  rw [fullComment_key k _ hne hm, hcut, splitDelim_key k _ (fun c hc => (letter_props c (hm c hc)).2.1)]
  simp [pyStrip_none k (fun c hc => (letter_props c (hm c hc)).1)]

end St4sd.Listing
