import St4sd.Model.TreeConf
import St4sd.Lemmas.C04User
/-!
# Helper lemmas for C04: variable files in the INI flavour (`stageSectionIndex`, `confUser`)
-/
namespace St4sd.Tree
open St4sd.Str

/-! ## `int(str(n)) = n` (decimal digits) -/

private def dg (acc : Nat) (c : Char) : Nat := acc * 10 + (c.toNat - 48)

private theorem digit_toNat : ∀ d : Nat, d < 10 → (Char.ofNat (48 + d)).toNat - 48 = d
  | 0, _ => rfl | 1, _ => rfl | 2, _ => rfl | 3, _ => rfl | 4, _ => rfl
  | 5, _ => rfl | 6, _ => rfl | 7, _ => rfl | 8, _ => rfl | 9, _ => rfl
  | n + 10, h => absurd h (by omega)

private theorem digit_isDigit : ∀ d : Nat, d < 10 → isDigit (Char.ofNat (48 + d)) = true
  | 0, _ => by decide | 1, _ => by decide | 2, _ => by decide | 3, _ => by decide | 4, _ => by decide
  | 5, _ => by decide | 6, _ => by decide | 7, _ => by decide | 8, _ => by decide | 9, _ => by decide
  | n + 10, h => absurd h (by omega)

private theorem aux_foldl : ∀ (fuel n : Nat) (acc : S), n < fuel →
    (natToDigitsAux fuel n acc).foldl dg 0 = acc.foldl dg n := by
  intro fuel
  induction fuel with
  | zero => intro n acc h; omega
  | succ fuel ih =>
    intro n acc h
    unfold natToDigitsAux
    by_cases h10 : n < 10
    · simp only [h10, if_true, List.foldl_cons]
      have : dg 0 (Char.ofNat (48 + n % 10)) = n := by
        unfold dg; rw [digit_toNat _ (by omega)]; omega
      rw [this]
    · simp only [h10, if_false]
      rw [ih (n / 10) _ (by omega)]
      simp only [List.foldl_cons]
      have : dg (n / 10) (Char.ofNat (48 + n % 10)) = n := by
        unfold dg; rw [digit_toNat _ (by omega)]; omega
      rw [this]

private theorem aux_all : ∀ (fuel n : Nat) (acc : S), acc.all isDigit = true →
    (natToDigitsAux fuel n acc).all isDigit = true := by
  intro fuel
  induction fuel with
  | zero => intro n acc h; simpa [natToDigitsAux] using h
  | succ fuel ih =>
    intro n acc h
    unfold natToDigitsAux
    have hd : isDigit (Char.ofNat (48 + n % 10)) = true := digit_isDigit _ (by omega)
    by_cases h10 : n < 10
    · simp only [h10, if_true, List.all_cons, hd, h, Bool.and_self]
    · simp only [h10, if_false]
      exact ih _ _ (by simp only [List.all_cons, hd, h, Bool.and_self])

private theorem aux_ne : ∀ (fuel n : Nat) (acc : S), acc ≠ [] → natToDigitsAux fuel n acc ≠ [] := by
  intro fuel
  induction fuel with
  | zero => intro n acc h; simpa [natToDigitsAux] using h
  | succ fuel ih =>
    intro n acc _
    unfold natToDigitsAux
    by_cases h10 : n < 10
    · simp [h10]
    · simp only [h10, if_false]
      exact ih _ _ (by simp)

theorem conf_digits_all (n : Nat) : (natToDigits n).all isDigit = true :=
  aux_all _ _ _ (by simp)

theorem conf_digits_ne (n : Nat) : natToDigits n ≠ [] := by
  unfold natToDigits natToDigitsAux
  by_cases h10 : n < 10
  · simp [h10]
  · simp only [h10, if_false]
    exact aux_ne _ _ _ (by simp)

theorem conf_digits_roundtrip (n : Nat) : digitsToNat? (natToDigits n) = some n := by
  unfold digitsToNat?
  have h1 := conf_digits_all n
  have h2 := conf_digits_ne n
  have h3 : (natToDigits n).isEmpty = false := by
    cases h : natToDigits n with
    | nil => exact absurd h h2
    | cons _ _ => rfl
  simp only [h3, h1, Bool.not_true, Bool.or_self, Bool.false_eq_true, if_false]
  have := aux_foldl (n + 1) n [] (by omega)
  simp only [List.foldl_nil] at this
  unfold natToDigits
  exact congrArg some this

/-! ## `strip` on digits -/

private theorem digit_not_space (c : Char) (h : isDigit c = true) : isSpace c = false := by
  cases hs : isSpace c with
  | false => rfl
  | true =>
    simp only [isSpace, Bool.or_eq_true, beq_iff_eq] at hs
    rcases hs with ((((h1 | h1) | h1) | h1) | h1) | h1 <;> subst h1 <;> revert h <;> decide

private theorem dropWhile_space_digits (s : S) (h : s.all isDigit = true) : s.dropWhile isSpace = s := by
  cases s with
  | nil => rfl
  | cons c r =>
    simp only [List.all_cons, Bool.and_eq_true] at h
    simp [List.dropWhile, digit_not_space c h.1]

theorem strip_digits (s : S) (h : s.all isDigit = true) : strip s = s := by
  unfold strip rstrip lstrip
  rw [dropWhile_space_digits s h, dropWhile_space_digits s.reverse (by simpa using h)]
  simp

theorem confInt_digits (n : Nat) : confInt? (natToDigits n) = some n := by
  unfold confInt?
  rw [strip_digits _ (conf_digits_all n), conf_digits_roundtrip]

/-! ## the section-name → scope map -/

theorem lower_append (a b : S) : lower (a ++ b) = lower a ++ lower b := by
  simp [lower]

theorem length_of_lower_stage (p : S) (hp : lower p = stageWord) : p.length = 5 := by
  have := congrArg List.length hp
  simpa [lower, stageWord] using this

/-- every spelling of `stage` (any letter case) followed by the decimal digits of `n` names stage `n` -/
theorem stageSectionIndex_spelling (p : S) (n : Nat) (hp : lower p = stageWord) :
    stageSectionIndex (p ++ natToDigits n) = some n := by
  have hlen := length_of_lower_stage p hp
  have hpre : startsWith (lower (p ++ natToDigits n)) stageWord = true := by
    rw [lower_append, hp]
    simp [startsWith]
  have hdrop : (p ++ natToDigits n).drop 5 = natToDigits n := by
    rw [← hlen]; simp
  unfold stageSectionIndex
  rw [hpre, hdrop]
  simp [confInt_digits]

/-! ## the stage scopes of a loaded file -/

theorem confStagesAux_spec : ∀ (l : ConfFile) (acc : List (Nat × Fields)),
    (∀ e ∈ l, (stageSectionIndex e.1).isSome = true) →
    ∃ st, confStagesAux l acc = some st ∧
      ∀ i, lookupN st i = match sectionFor l i with | some f => some f | none => lookupN acc i := by
  intro l
  induction l with
  | nil => intro acc _; exact ⟨acc, rfl, fun i => rfl⟩
  | cons e r ih =>
    obtain ⟨n, f⟩ := e
    intro acc h
    have hn := h (n, f) (by simp)
    cases hidx : stageSectionIndex n with
    | none => simp [hidx] at hn
    | some i0 =>
      obtain ⟨st, hst, hlook⟩ := ih (setN acc i0 f) (fun e he => h e (by simp [he]))
      refine ⟨st, ?_, ?_⟩
      · simp only [confStagesAux, hidx]; exact hst
      · intro i
        rw [hlook i]
        simp only [sectionFor]
        cases sectionFor r i with
        | some g => rfl
        | none =>
          simp only [lookupN_setN, hidx, Option.some.injEq]
          by_cases hi : i = i0
          · subst hi; simp
          · have : ¬ i0 = i := fun e => hi e.symm
            simp [hi, this]

theorem sectionFor_none (l : ConfFile) (i : Nat) (h : ∀ e ∈ l, stageSectionIndex e.1 ≠ some i) :
    sectionFor l i = none := by
  induction l with
  | nil => rfl
  | cons e r ih =>
    obtain ⟨n, f⟩ := e
    simp only [sectionFor]
    rw [ih (fun e he => h e (by simp [he]))]
    have := h (n, f) (by simp)
    simp [this]

/-- in a file whose stage sections name pairwise different stages, the section that names stage `i` is the
one `sectionFor` finds -/
theorem sectionFor_of_mem (l : ConfFile) (hnd : (l.map (fun e => stageSectionIndex e.1)).Nodup)
    (name : S) (f : Fields) (i : Nat) (hmem : (name, f) ∈ l) (hidx : stageSectionIndex name = some i) :
    sectionFor l i = some f := by
  induction l with
  | nil => simp at hmem
  | cons e r ih =>
    obtain ⟨n0, f0⟩ := e
    simp only [List.map_cons, List.nodup_cons] at hnd
    simp only [sectionFor]
    rcases List.mem_cons.mp hmem with h | h
    · have h1 : name = n0 := congrArg Prod.fst h
      have h2 : f = f0 := congrArg Prod.snd h
      subst h1; subst h2
      have hnone : sectionFor r i = none := by
        apply sectionFor_none
        intro e he heq
        apply hnd.1
        rw [hidx, ← heq]
        exact List.mem_map.mpr ⟨e, he, rfl⟩
      simp [hnone, hidx]
    · rw [ih hnd.2 h]

end St4sd.Tree
