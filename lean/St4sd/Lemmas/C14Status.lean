import St4sd.Model.StatusFile
import St4sd.Lemmas.C14Escape
/-! Helper lemmas for C14: the status file reader inverts the writer on clean data. -/
namespace St4sd.StatusFile
open St4sd.Str

def NoNL (s : List Char) : Prop := ∀ c ∈ s, c ≠ '\n'

theorem splitLines_line (l rest : List Char) (h : NoNL l) :
    splitLines (l ++ '\n' :: rest) = l :: splitLines rest := by
  induction l with
  | nil => simp [splitLines]
  | cons c l ih =>
    have hc : c ≠ '\n' := h c (by simp)
    have hl : NoNL l := fun d hd => h d (by simp [hd])
    simp only [List.cons_append, splitLines, hc, if_false, ih hl]

theorem splitFirst_eq (k v : List Char) (h : ∀ c ∈ k, c ≠ '=') :
    splitFirst '=' (k ++ '=' :: v) = some (k, v) := by
  induction k with
  | nil => simp [splitFirst]
  | cons c k ih =>
    have hc : c ≠ '=' := h c (by simp)
    have hk : ∀ d ∈ k, d ≠ '=' := fun d hd => h d (by simp [hd])
    simp [splitFirst, hc, ih hk]

theorem dropWhile_none (p : Char → Bool) (s : List Char) (h : ∀ c ∈ s, p c = false) : s.dropWhile p = s := by
  cases s with
  | nil => rfl
  | cons c s => simp [List.dropWhile, h c (by simp)]

theorem pyStrip_none (s : List Char) (h : ∀ c ∈ s, pyIsSpace c = false) : pyStrip s = s := by
  unfold pyStrip
  rw [dropWhile_none _ _ h, dropWhile_none _ _ (by intro c hc; exact h c (List.mem_reverse.mp hc)), List.reverse_reverse]

def keyChar (c : Char) : Bool :=
  (97 ≤ c.toNat && c.toNat ≤ 122) || (48 ≤ c.toNat && c.toNat ≤ 57) || c.toNat == 45

theorem keyChar_props (c : Char) (h : keyChar c = true) :
    pyIsSpace c = false ∧ c ≠ '=' ∧ c ≠ '\n' ∧ ¬ (65 ≤ c.toNat ∧ c.toNat ≤ 90) := by
  simp only [keyChar, Bool.or_eq_true, Bool.and_eq_true, decide_eq_true_eq, beq_iff_eq] at h
  refine ⟨?_, ?_, ?_, ?_⟩
  · simp only [pyIsSpace, Bool.or_eq_false_iff, Bool.and_eq_false_iff, decide_eq_false_iff_not, beq_eq_false_iff_ne]
    omega
  · intro e; subst e; revert h; decide
  · intro e; subst e; revert h; decide
  · omega

theorem keyClean_mem (k : List Char) (h : keyClean k = true) : ∀ c ∈ k, keyChar c = true := by
  simpa [keyClean, keyChar, List.all_eq_true] using h

theorem lowerAscii_key (k : List Char) (h : ∀ c ∈ k, keyChar c = true) : lowerAscii k = k := by
  unfold lowerAscii
  induction k with
  | nil => rfl
  | cons c k ih =>
    have hc := (keyChar_props c (h c (by simp))).2.2.2
    have hk : ∀ d ∈ k, keyChar d = true := fun d hd => h d (by simp [hd])
    have hif : (65 ≤ c.toNat && c.toNat ≤ 90) = false := by
      simp only [Bool.and_eq_false_iff, decide_eq_false_iff_not]; omega
    simp only [List.map_cons, hif, ih hk]
    simp

theorem key_facts (k : List Char) (h : keyClean k = true) :
    lowerAscii (pyStrip k) = k ∧ (∀ c ∈ k, c ≠ '=') ∧ NoNL k := by
  have hm := keyClean_mem k h
  refine ⟨?_, ?_, ?_⟩
  · rw [pyStrip_none k (fun c hc => (keyChar_props c (hm c hc)).1)]
    exact lowerAscii_key k hm
  · exact fun c hc => (keyChar_props c (hm c hc)).2.1
  · exact fun c hc => (keyChar_props c (hm c hc)).2.2.1

/-! the escaped text never contains a newline -/

theorem hexDigit_ne_nl_fin : ∀ d : Fin 16, hexDigit d.val ≠ '\n' := by decide

theorem toHex_noNL (k n : Nat) : NoNL (toHex k n) := by
  induction k with
  | zero => intro c hc; simp [toHex] at hc
  | succ k ih =>
    intro c hc
    simp only [toHex, List.mem_cons] at hc
    rcases hc with hc | hc
    · subst hc
      exact hexDigit_ne_nl_fin ⟨n / 16 ^ k % 16, Nat.mod_lt _ (by decide)⟩
    · exact ih c hc

theorem escapeChar_noNL (c : Char) : NoNL (escapeChar c) := by
  intro d hd
  unfold escapeChar at hd
  have hx := toHex_noNL 2 c.toNat
  have hu := toHex_noNL 4 c.toNat
  have hU := toHex_noNL 8 c.toNat
  by_cases h1 : c = '\\'
  · simp only [h1, if_true, List.mem_cons, List.not_mem_nil, or_false] at hd
    rcases hd with hd | hd <;> (subst hd; decide)
  by_cases h2 : c = '\t'
  · simp only [h2] at hd; revert hd; revert d; decide
  by_cases h3 : c = '\n'
  · simp only [h3] at hd; revert hd; revert d; decide
  by_cases h4 : c = '\r'
  · simp only [h4] at hd; revert hd; revert d; decide
  simp only [h1, h2, h3, h4, if_false] at hd
  have bs : ∀ (x : Char) (l : List Char), x ≠ '\n' → NoNL l → d ∈ '\\' :: x :: l → d ≠ '\n' := by
    intro x l hx hl hm
    simp only [List.mem_cons] at hm
    rcases hm with hm | hm | hm
    · subst hm; decide
    · subst hm; exact hx
    · exact hl d hm
  split at hd
  · exact bs 'x' _ (by decide) hx hd
  split at hd
  · simp only [List.mem_cons, List.not_mem_nil, or_false] at hd; subst hd; exact h3
  split at hd
  · exact bs 'x' _ (by decide) hx hd
  split at hd
  · exact bs 'u' _ (by decide) hu hd
  · exact bs 'U' _ (by decide) hU hd

theorem escape_noNL (s : List Char) : NoNL (escape s) := by
  induction s with
  | nil => intro c hc; simp [escape] at hc
  | cons c s ih =>
    intro d hd
    simp only [escape, List.mem_append] at hd
    rcases hd with hd | hd
    · exact escapeChar_noNL c d hd
    · exact ih d hd

end St4sd.StatusFile
