import St4sd.Model.IniFloat
import St4sd.Lemmas.C19
/-!
# C19 — lemmas about decimal literals (`Model/IniFloat.lean`)

`parseWeight (printWeight w) = some w` for every well-formed literal, by induction over its digit lists.
-/
namespace St4sd.IniFloat
open St4sd.Str
open St4sd.Ini (digitsOk)

/-- scanning digits: a digit string followed by something that does not start with a digit -/
theorem span_digits (d r : S) (hd : d.all isDigit = true) (hr : ∀ c t, r = c :: t → isDigit c = false) :
    (d ++ r).takeWhile isDigit = d ∧ (d ++ r).dropWhile isDigit = r := by
  induction d with
  | nil =>
    cases r with
    | nil => exact ⟨rfl, rfl⟩
    | cons c t =>
      have := hr c t rfl
      simp [this]
  | cons c d ih =>
    simp only [List.all_cons, Bool.and_eq_true] at hd
    obtain ⟨h1, h2⟩ := ih hd.2
    constructor
    · simp only [List.cons_append, List.takeWhile, hd.1, h1]
    · simp only [List.cons_append, List.dropWhile, hd.1, h2]

theorem expText_head (e : Option (Bool × S)) : ∀ c t, expText e = c :: t → isDigit c = false := by
  intro c t h
  match e, h with
  | some (true, d), h => simp only [expText, List.cons.injEq] at h; rw [← h.1]; decide
  | some (false, d), h => simp only [expText, List.cons.injEq] at h; rw [← h.1]; decide

theorem fracExp_head (f : Option S) (e : Option (Bool × S)) :
    ∀ c t, fracText f ++ expText e = c :: t → isDigit c = false := by
  intro c t h
  cases f with
  | none => exact expText_head e c t (by simpa [fracText] using h)
  | some f =>
    simp only [fracText, List.cons_append, List.cons.injEq] at h
    rw [← h.1]; decide

theorem expText_not_point (e : Option (Bool × S)) (t : S) : expText e ≠ '.' :: t := by
  intro h
  match e, h with
  | some (true, d), h => simp [expText] at h
  | some (false, d), h => simp [expText] at h

def expWf : Option (Bool × S) → Bool
  | none => true
  | some (_, d) => digitsOk d

theorem parseExp_expText (e : Option (Bool × S)) (h : expWf e = true) : parseExp (expText e) = some e := by
  match e, h with
  | none, _ => rfl
  | some (true, d), h =>
    simp only [expWf] at h
    simp [expText, parseExp, h]
  | some (false, d), h =>
    simp only [expWf] at h
    simp [expText, parseExp, h]

theorem digitsOk_ne (d : S) (h : digitsOk d = true) : d.isEmpty = false ∧ d.all isDigit = true := by
  simp only [digitsOk, Bool.and_eq_true, Bool.not_eq_true'] at h
  exact h

/-- the unsigned part of a well-formed literal is read back -/
theorem parseUnsigned_text (neg : Bool) (i : S) (f : Option S) (e : Option (Bool × S))
    (hi : digitsOk i = true) (hf : ∀ d, f = some d → d.all isDigit = true) (he : expWf e = true) :
    parseUnsigned neg (i ++ (fracText f ++ expText e)) = some ⟨neg, i, f, e⟩ := by
  obtain ⟨hine, hiall⟩ := digitsOk_ne i hi
  obtain ⟨h1, h2⟩ := span_digits i (fracText f ++ expText e) hiall (fracExp_head f e)
  unfold parseUnsigned
  simp only [h1, h2]
  cases f with
  | none =>
    simp only [fracText, List.nil_append]
    split
    · rename_i t heq
      exact absurd heq (expText_not_point e t)
    · simp only [hine, Bool.false_eq_true, if_false, parseExp_expText e he, Option.map_some]
  | some d =>
    have hd := hf d rfl
    obtain ⟨h3, h4⟩ := span_digits d (expText e) hd (expText_head e)
    simp only [fracText, List.cons_append, h3, h4, hine, Bool.false_and, Bool.false_eq_true, if_false,
      parseExp_expText e he, Option.map_some]

theorem wf_parts (w : Lit) (h : wf w = true) :
    digitsOk w.int = true ∧ (∀ d, w.frac = some d → d.all isDigit = true) ∧ expWf w.exp = true := by
  unfold wf at h
  simp only [Bool.and_eq_true] at h
  obtain ⟨⟨h1, h2⟩, h3⟩ := h
  refine ⟨h1, ?_, ?_⟩
  · intro d hd
    rw [hd] at h2
    exact h2
  · cases he : w.exp with
    | none => rfl
    | some sd =>
      obtain ⟨s, d⟩ := sd
      rw [he] at h3
      exact h3

/-- `float(str(x))` reads the literal of `x` back, for every well-formed literal -/
theorem parseWeight_printWeight (w : Lit) (h : wf w = true) : parseWeight (printWeight w) = some w := by
  obtain ⟨hi, hf, he⟩ := wf_parts w h
  obtain ⟨neg, i, f, e⟩ := w
  simp only at hi hf he
  cases neg with
  | true =>
    simp only [printWeight, unsignedText, if_true, parseWeight]
    exact parseUnsigned_text true i f e hi hf he
  | false =>
    simp only [printWeight, unsignedText, Bool.false_eq_true, if_false]
    obtain ⟨hine, hiall⟩ := digitsOk_ne i hi
    cases i with
    | nil => simp at hine
    | cons c r =>
      have hc : isDigit c = true := by
        simp only [List.all_cons, Bool.and_eq_true] at hiall; exact hiall.1
      have := parseUnsigned_text false (c :: r) f e hi hf he
      unfold parseWeight
      split
      · rename_i t heq
        have : c = '-' := by injection heq
        subst this; exact absurd hc (by decide)
      · rename_i t heq
        have : c = '+' := by injection heq
        subst this; exact absurd hc (by decide)
      · exact this

theorem canonical_wf (w : Lit) (h : canonical w = true) : wf w = true := by
  unfold canonical at h
  simp only [Bool.and_eq_true] at h
  obtain ⟨⟨⟨h1, _⟩, h2⟩, h3⟩ := h
  unfold wf
  simp only [Bool.and_eq_true]
  refine ⟨⟨h1, ?_⟩, ?_⟩
  · cases hf : w.frac with
    | none => rfl
    | some f =>
      rw [hf] at h2
      simp only [Bool.and_eq_true] at h2
      exact (digitsOk_ne f h2.1).2
  · cases he : w.exp with
    | none => rfl
    | some sd =>
      obtain ⟨s, d⟩ := sd
      rw [he] at h3
      simp only [Bool.and_eq_true] at h3
      exact h3.1.1.1.1.1

/-! ## the lines of one status section -/

theorem get_weight_lines (w : Option Lit) (e : Option Exe) :
    get kWeight (weightLines w ++ exeLines e) = w.map printWeight := by
  cases w with
  | some w => simp [weightLines, get]
  | none =>
    cases e with
    | none => rfl
    | some e =>
      simp only [weightLines, exeLines, List.nil_append, get, Option.map_none]
      have h1 : (kExecutable = kWeight) = False := by simp [kExecutable, kWeight]
      have h2 : (kArguments = kWeight) = False := by simp [kArguments, kWeight]
      have h3 : (kReferences = kWeight) = False := by simp [kReferences, kWeight]
      simp only [h1, h2, h3, if_false]

theorem readExe_lines (w : Option Lit) (e : Option Exe)
    (he : ∀ x, e = some x → x.executable.isEmpty = false ∧ x.references.all St4sd.Ini.wordOk = true) :
    readExe (weightLines w ++ exeLines e) = e := by
  have hw : ∀ k, (kWeight = k) = False → ∀ r, get k (weightLines w ++ r) = get k r := by
    intro k hk r
    cases w with
    | none => rfl
    | some w => simp only [weightLines, List.cons_append, List.nil_append, get, hk, if_false]
  have k1 : (kWeight = kExecutable) = False := by simp [kExecutable, kWeight]
  have k2 : (kWeight = kArguments) = False := by simp [kArguments, kWeight]
  have k3 : (kWeight = kReferences) = False := by simp [kReferences, kWeight]
  unfold readExe
  rw [hw _ k1, hw _ k2, hw _ k3]
  cases e with
  | none => rfl
  | some x =>
    obtain ⟨hx, hr⟩ := he x rfl
    have a1 : (kExecutable = kArguments) = False := by simp [kExecutable, kArguments]
    have a2 : (kExecutable = kReferences) = False := by simp [kExecutable, kReferences]
    have a3 : (kArguments = kReferences) = False := by simp [kArguments, kReferences]
    simp only [exeLines, get, if_true, a1, a2, a3, if_false, hx, Bool.false_eq_true, Option.getD_some,
      St4sd.Ini.splitWords_join x.references hr]

end St4sd.IniFloat
