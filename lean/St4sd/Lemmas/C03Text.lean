import St4sd.Model.Repl
/-!
# C03, text level: the repaired substitution rewrites whole reference tokens only

Helper lemmas about `Repl.scan` (the single-pass regular-expression substitution of the repaired
`compile_component_replica`), used by `text_refines_graph_partial` in `Props/C03.lean`.
-/
namespace St4sd.C03
open St4sd.Repl St4sd.Str

/-- while characters of a matched key remain to be skipped nothing is emitted -/
theorem scan_skip (keys : List (S × S)) : ∀ (s : S) (n : Nat) (prev : Option Char), s.length ≤ n →
    scan keys n prev s = [] := by
  intro s
  induction s with
  | nil => intro n prev _; cases n <;> simp [scan]
  | cons c s ih =>
    intro n prev h
    cases n with
    | zero => simp at h
    | succ k =>
      simp only [scan]
      exact ih k (some c) (by simpa using h)

/-- no key matches (with its boundaries) at any position of `s`; `prev` = character before `s` -/
def noMatch (keys : List (S × S)) : Option Char → S → Bool
  | _, [] => true
  | prev, c :: s => (!leftOk prev || (firstMatch keys (c :: s)).isNone) && noMatch keys (some c) s

/-- a string in which no key matches is left alone -/
theorem scan_noMatch (keys : List (S × S)) : ∀ (s : S) (prev : Option Char), noMatch keys prev s = true →
    scan keys 0 prev s = s := by
  intro s
  induction s with
  | nil => intro prev _; simp [scan]
  | cons c s ih =>
    intro prev h
    simp only [noMatch, Bool.and_eq_true, Bool.or_eq_true, Bool.not_eq_true', Option.isNone_iff_eq_none] at h
    obtain ⟨h1, h2⟩ := h
    have hm : (if leftOk prev = true then firstMatch keys (c :: s) else none) = none := by
      rcases h1 with h1 | h1
      · simp [h1]
      · simp [h1]
    simp only [scan, hm]
    rw [ih (some c) h2]

/-- a string that is, as a whole, the first matching key is replaced by that key's target -/
theorem scan_whole (keys : List (S × S)) (s v : S) (hne : s ≠ [])
    (h : firstMatch keys s = some (s, v)) : scan keys 0 none s = v := by
  cases s with
  | nil => exact absurd rfl hne
  | cons c t =>
    simp only [scan, leftOk, if_true, h]
    rw [scan_skip keys t _ (some c) (by simp)]
    simp

end St4sd.C03
