import St4sd.Model.DslLoad
import St4sd.Lemmas.C15Sort
/-!
Lemmas for the DSL 2.0 part of C15 (`Model/DslLoad.lean`): the sort inside `hash_environment` is invariant
under permutations of the entries of an environment; bookkeeping of `known_environments`.
-/
namespace St4sd.DslLoad
open St4sd.Str St4sd.Layer St4sd.Sort

/-! ### `sorted(environment)` does not depend on the order of the entries -/

theorem insertE_comm (a b : S × Option S) (hne : a.1 ≠ b.1) (l : Env) :
    insertE a (insertE b l) = insertE b (insertE a l) := by
  induction l with
  | nil =>
    simp only [insertE]
    cases hab : leS a.1 b.1 <;> cases hba : leS b.1 a.1 <;> simp
    · rcases leS_total a.1 b.1 with h | h <;> simp_all
    · exact absurd (leS_antisymm _ _ hab hba) hne
  | cons c r ih =>
    simp only [insertE]
    cases hbc : leS b.1 c.1 <;> cases hac : leS a.1 c.1 <;>
      simp only [insertE, hbc, hac, ih, if_true, if_false, Bool.false_eq_true]
    · have : leS b.1 a.1 = false := by
        cases h : leS b.1 a.1 with
        | false => rfl
        | true => rw [leS_trans _ _ _ h hac] at hbc; exact absurd hbc (by simp)
      simp [this]
    · have : leS a.1 b.1 = false := by
        cases h : leS a.1 b.1 with
        | false => rfl
        | true => rw [leS_trans _ _ _ h hbc] at hac; exact absurd hac (by simp)
      simp [this]
    · cases hab : leS a.1 b.1 <;> cases hba : leS b.1 a.1 <;> simp [hac, hbc]
      · rcases leS_total a.1 b.1 with h | h <;> simp_all
      · exact absurd (leS_antisymm _ _ hab hba) hne

theorem sortE_perm (e₁ e₂ : Env) (h : e₁.Perm e₂) (hnd : (e₁.map Prod.fst).Nodup) :
    sortE e₁ = sortE e₂ := by
  induction h with
  | nil => rfl
  | cons x _ ih =>
    simp only [List.map_cons, List.nodup_cons] at hnd
    simp [sortE, ih hnd.2]
  | swap x y l =>
    simp only [List.map_cons, List.nodup_cons, List.mem_cons, not_or] at hnd
    simp only [sortE]
    exact insertE_comm y x hnd.1.1 _
  | trans p₁ _ ih₁ ih₂ =>
    rw [ih₁ hnd, ih₂ (((p₁.map Prod.fst).nodup_iff).mp hnd)]

theorem hashEnv_perm (e₁ e₂ : Env) (h : e₁.Perm e₂) (hnd : (e₁.map Prod.fst).Nodup) :
    hashEnv e₁ = hashEnv e₂ := by
  unfold hashEnv
  rw [sortE_perm e₁ e₂ h hnd]

theorem insertE_perm (a : S × Option S) (l : Env) : (insertE a l).Perm (a :: l) := by
  induction l with
  | nil => simp [insertE]
  | cons b r ih =>
    simp only [insertE]
    split
    · exact List.Perm.refl _
    · exact ((ih.cons b).trans (List.Perm.swap a b r))

theorem sortE_perm_self (e : Env) : (sortE e).Perm e := by
  induction e with
  | nil => simp [sortE]
  | cons a r ih => exact (insertE_perm a (sortE r)).trans (ih.cons a)

/-! ### a mapping without repeated keys is its set of entries -/

theorem lookup_eq_some_iff_mem {α : Type} (l : List (S × α)) (hnd : (l.map Prod.fst).Nodup) (k : S) (v : α) :
    l.lookup k = some v ↔ (k, v) ∈ l := by
  induction l with
  | nil => simp
  | cons a r ih =>
    obtain ⟨ak, av⟩ := a
    simp only [List.map_cons, List.nodup_cons] at hnd
    by_cases hk : k = ak
    · subst hk
      simp only [List.lookup_cons_self, Option.some.injEq, List.mem_cons, Prod.mk.injEq, true_and]
      constructor
      · intro h; exact Or.inl h.symm
      · intro h
        rcases h with h | h
        · exact h.symm
        · exact absurd (List.mem_map.mpr ⟨(k, v), h, rfl⟩) hnd.1
    · have : (k == ak) = false := by simp [hk]
      simp only [List.lookup_cons, this, List.mem_cons, Prod.mk.injEq, hk, false_and, false_or]
      exact ih hnd.2

theorem nodup_of_nodup_keys {α : Type} (l : List (S × α)) (hnd : (l.map Prod.fst).Nodup) : l.Nodup := by
  induction l with
  | nil => simp
  | cons a r ih =>
    simp only [List.map_cons, List.nodup_cons] at hnd ⊢
    exact ⟨fun h => hnd.1 (List.mem_map.mpr ⟨a, h, rfl⟩), ih hnd.2⟩

/-- two mappings (no repeated keys) that read the same value — `None` included — under every key have the
same entries -/
theorem perm_of_same_mapping (e₁ e₂ : Env) (h₁ : (e₁.map Prod.fst).Nodup) (h₂ : (e₂.map Prod.fst).Nodup)
    (h : ∀ k, e₁.lookup k = e₂.lookup k) : e₁.Perm e₂ := by
  rw [List.perm_ext_iff_of_nodup (nodup_of_nodup_keys e₁ h₁) (nodup_of_nodup_keys e₂ h₂)]
  intro ⟨k, v⟩
  rw [← lookup_eq_some_iff_mem e₁ h₁, ← lookup_eq_some_iff_mem e₂ h₂, h k]

theorem mem_dropNone (e : Env) (k v : S) : (k, v) ∈ dropNone e ↔ (k, some v) ∈ e := by
  induction e with
  | nil => simp [dropNone]
  | cons a r ih =>
    obtain ⟨ak, av⟩ := a
    cases av with
    | none => simp [dropNone, ih]
    | some w => simp [dropNone, ih]

/-- the identity of an environment determines its entries that are not `None` -/
theorem mem_hashEnv (e : Env) (k v : S) : (k, v) ∈ hashEnv e ↔ (k, some v) ∈ e := by
  unfold hashEnv
  rw [mem_dropNone]
  exact (sortE_perm_self e).mem_iff

/-! ### `known_environments` -/

variable (h : Env → List (S × S))

/-- indices are below the size, and no index is given to two identities -/
def KnownOK (known : Known) : Prop :=
  (∀ x i, known.lookup x = some i → i < known.length) ∧
  (∀ x y i, known.lookup x = some i → known.lookup y = some i → x = y)

theorem knownOK_nil : KnownOK ([] : Known) := by
  constructor <;> intro x <;> simp

theorem lookup_cons_ite {β : Type} (k a : List (S × S)) (b : β) (l : List (List (S × S) × β)) :
    ((a, b) :: l).lookup k = if k = a then some b else l.lookup k := by
  by_cases hk : k = a
  · subst hk; simp
  · have : (k == a) = false := by simp [hk]
    simp [List.lookup_cons, this, hk]

theorem knownOK_cons (known : Known) (ok : KnownOK known) (x : List (S × S)) :
    KnownOK ((x, known.length) :: known) := by
  obtain ⟨lt, inj⟩ := ok
  constructor
  · intro y i hy
    rw [lookup_cons_ite] at hy
    split at hy
    · simp only [Option.some.injEq] at hy; subst hy; simp
    · have := lt y i hy; simp only [List.length_cons]; omega
  · intro y z i hy hz
    rw [lookup_cons_ite] at hy hz
    by_cases e1 : y = x <;> by_cases e2 : z = x
    · rw [e1, e2]
    · simp only [e1, if_true, Option.some.injEq, e2, if_false] at hy hz
      subst hy
      exact absurd (lt z _ hz) (by omega)
    · simp only [e1, if_false, e2, if_true, Option.some.injEq] at hy hz
      subst hz
      exact absurd (lt y _ hy) (by omega)
    · simp only [e1, if_false, e2] at hy hz
      exact inj y z i hy hz

theorem knownOK_after (known : Known) (cs : List CEnv) (ok : KnownOK known) :
    KnownOK (knownAfterWith h known cs) := by
  induction cs generalizing known with
  | nil => simpa [knownAfterWith]
  | cons c r ih =>
    cases c with
    | unset => simpa [knownAfterWith] using ih known ok
    | dict e =>
      simp only [knownAfterWith]
      split
      · exact ih known ok
      · split
        · exact ih known ok
        · exact ih _ (knownOK_cons known ok _)

/-- an identity keeps the index it was given -/
theorem lookup_persists (known : Known) (cs : List CEnv) (x : List (S × S)) (i : Nat)
    (hx : known.lookup x = some i) : (knownAfterWith h known cs).lookup x = some i := by
  induction cs generalizing known with
  | nil => simpa [knownAfterWith]
  | cons c r ih =>
    cases c with
    | unset => simpa [knownAfterWith] using ih known hx
    | dict e =>
      simp only [knownAfterWith]
      split
      · exact ih known hx
      · split
        · exact ih known hx
        · rename_i hnone
          apply ih
          have hne : ¬ x = h e := by
            intro hb; rw [hb, hnone] at hx; cases hx
          rw [lookup_cons_ite, if_neg hne]; exact hx

/-- every component with a non-empty environment is named after the index of its identity -/
theorem name_is_index (known : Known) (cs : List CEnv) (e : Env) (n : EnvName)
    (hm : (CEnv.dict e, n) ∈ cs.zip (assignEnvsWith h known cs)) (he : e ≠ []) :
    ∃ i, n = .env i ∧ (knownAfterWith h known cs).lookup (h e) = some i := by
  induction cs generalizing known with
  | nil => simp at hm
  | cons c r ih =>
    cases c with
    | unset =>
      simp only [assignEnvsWith, List.zip_cons_cons, List.mem_cons, Prod.mk.injEq, reduceCtorEq, false_and,
        false_or] at hm
      simpa [knownAfterWith] using ih known hm
    | dict e₀ =>
      by_cases hemp : e₀.isEmpty = true
      · simp only [assignEnvsWith, knownAfterWith, hemp, if_true, List.zip_cons_cons, List.mem_cons,
          Prod.mk.injEq, CEnv.dict.injEq] at hm ⊢
        rcases hm with ⟨rfl, _⟩ | hm
        · exact absurd (by simpa using hemp) he
        · exact ih known hm
      · cases hl : known.lookup (h e₀) with
        | some i =>
          simp only [assignEnvsWith, knownAfterWith, hemp, hl, Bool.false_eq_true, if_false, List.zip_cons_cons,
            List.mem_cons, Prod.mk.injEq, CEnv.dict.injEq] at hm ⊢
          rcases hm with ⟨rfl, rfl⟩ | hm
          · exact ⟨i, rfl, lookup_persists h known r _ i hl⟩
          · exact ih known hm
        | none =>
          simp only [assignEnvsWith, knownAfterWith, hemp, hl, Bool.false_eq_true, if_false, List.zip_cons_cons,
            List.mem_cons, Prod.mk.injEq, CEnv.dict.injEq] at hm ⊢
          rcases hm with ⟨rfl, rfl⟩ | hm
          · exact ⟨known.length, rfl, lookup_persists h _ r _ _ (by rw [lookup_cons_ite, if_pos rfl])⟩
          · exact ih _ hm

/-! ### names -/

theorem pick_named (used : List FullName) (s : S) : ∀ (fuel k : Nat) (st : Nat) (n : S),
    pick used s fuel k = .named st n →
      (st, n) ∉ used ∧ ∃ j, k ≤ j ∧ parseName (cand s j) = some (st, n) ∧
        ∀ i, k ≤ i → i < j → ∃ fn, parseName (cand s i) = some fn ∧ fn ∈ used := by
  intro fuel
  induction fuel with
  | zero => intro k st n hp; simp [pick] at hp
  | succ f ih =>
    intro k st n hp
    unfold pick at hp
    split at hp
    · cases hp
    · rename_i fn hfn
      split at hp
      · rename_i hused
        obtain ⟨hnot, j, hkj, hj, hall⟩ := ih (k + 1) st n hp
        refine ⟨hnot, j, by omega, hj, ?_⟩
        intro i hki hij
        by_cases hik : i = k
        · subst hik; exact ⟨fn, hfn, by simpa using hused⟩
        · exact hall i (by omega) hij
      · rename_i hused
        simp only [NameRes.named.injEq] at hp
        obtain ⟨rfl, rfl⟩ := hp
        exact ⟨by simpa using hused, k, Nat.le_refl _, hfn, fun i h1 h2 => absurd h1 (by omega)⟩

theorem namedOnly_fresh (used : List FullName) (steps : List S) :
    (namedOnly (assignNames used steps)).Nodup ∧ ∀ fn ∈ namedOnly (assignNames used steps), fn ∉ used := by
  induction steps generalizing used with
  | nil => simp [assignNames, namedOnly]
  | cons s r ih =>
    cases hp : pick used s (used.length + 1) 0 with
    | named st n =>
      simp only [assignNames, hp]
      obtain ⟨hnot, _⟩ := pick_named used s _ _ st n hp
      obtain ⟨nd, fresh⟩ := ih ((st, n) :: used)
      simp only [namedOnly, List.nodup_cons, List.mem_cons, forall_eq_or_imp]
      refine ⟨⟨?_, nd⟩, hnot, ?_⟩
      · intro hm
        exact fresh _ hm (List.mem_cons_self ..)
      · intro fn hfn hu
        exact fresh fn hfn (List.mem_cons_of_mem _ hu)
    | invalid =>
      simp only [assignNames, hp, namedOnly]
      exact ih used
    | fuelOut =>
      simp only [assignNames, hp, namedOnly]
      exact ih used

theorem assignNames_append (used : List FullName) (l r : List S) :
    assignNames used (l ++ r) = assignNames used l ++ assignNames (usedAfter used l) r := by
  induction l generalizing used with
  | nil => simp [assignNames, usedAfter]
  | cons s t ih =>
    simp only [List.cons_append, assignNames, usedAfter]
    split <;> simp [ih]

theorem assignNames_length (used : List FullName) (l : List S) : (assignNames used l).length = l.length := by
  induction l generalizing used with
  | nil => simp [assignNames]
  | cons s t ih =>
    simp only [assignNames]
    split <;> simp [ih]

end St4sd.DslLoad
