import St4sd.Lemmas.C18Stagers
/-!
# C18 — extraction is LOCAL to the working directory

In a `Safe` working directory `d` the extraction of a vetted member reads and writes the file system under `d`
only: run on two file systems that agree under `d` it gives the same answer, the same log and file systems that
still agree under `d`.  Consequence (`Props.C18.stager_receives_own_members`): what a stager extracts into its
own working directory does not depend on what another stager does, at any time, elsewhere.
-/
namespace St4sd.Confine
open St4sd.Str

def AgreeUnder (d : Path) (fs1 fs2 : Fs) : Prop := ∀ p, d <:+ p → fs1.get p = fs2.get p

theorem agree_refl (d : Path) (fs : Fs) : AgreeUnder d fs fs := fun _ _ => rfl

theorem agree_symm {d : Path} {fs1 fs2 : Fs} (h : AgreeUnder d fs1 fs2) : AgreeUnder d fs2 fs1 :=
  fun p hp => (h p hp).symm

theorem agree_trans {d : Path} {fs1 fs2 fs3 : Fs} (h1 : AgreeUnder d fs1 fs2) (h2 : AgreeUnder d fs2 fs3) :
    AgreeUnder d fs1 fs3 := fun p hp => (h1 p hp).trans (h2 p hp)

theorem agree_put {d : Path} {fs1 fs2 : Fs} (h : AgreeUnder d fs1 fs2) (q : Path) (n : Node) :
    AgreeUnder d (fs1.put q n) (fs2.put q n) := by
  intro p hp
  rw [get_put, get_put, h p hp]

/-- a change outside `d` is invisible under `d` -/
theorem agree_of_frame {d : Path} {fs fs' : Fs} (h : ∀ q, ¬ d <:+ q → fs'.get q = fs.get q)
    {d' : Path} (hd : ∀ p, d' <:+ p → ¬ d <:+ p) : AgreeUnder d' fs' fs :=
  fun p hp => h p (hd p hp)

theorem isDir_agree {d : Path} {fs1 fs2 : Fs} (h : AgreeUnder d fs1 fs2) {p : Path} (hp : d <:+ p) :
    fs1.isDir p = fs2.isDir p := by
  simp [Fs.isDir, h p hp]

theorem resolve_local {d : Path} {fs1 fs2 : Fs} (hs : Safe d fs1) (ha : AgreeUnder d fs1 fs2) :
    ∀ (f : Nat) (cur : Path) (segs : List Seg), d <:+ cur → allNames segs = true →
      resolve fs1 f cur segs = resolve fs2 f cur segs := by
  intro f
  induction f with
  | zero => intro cur segs _ _; simp [resolve]
  | succ f ih =>
    intro cur segs hc hn
    cases segs with
    | nil => simp [resolve]
    | cons x r =>
      obtain ⟨hx, hr⟩ := allNames_cons.mp hn
      cases x with
      | up => simp [isName] at hx
      | name s =>
        have hsc : d <:+ s :: cur := under_cons s hc
        simp only [resolve]
        rw [← ha (s :: cur) hsc]
        cases hget : fs1.get (s :: cur) with
        | none => rfl
        | some n =>
          cases n with
          | dir => exact ih _ _ hsc hr
          | file ino => rfl
          | link a t =>
            obtain ⟨ha', ht⟩ := hs _ _ hsc hget
            subst ha'
            exact ih _ _ hc (allNames_append.mpr ⟨ht, hr⟩)

/-- two states that look the same from inside `d` -/
structure Eqv (d : Path) (st1 st2 : St) : Prop where
  log : st1.log = st2.log
  agree : AgreeUnder d st1.fs st2.fs

theorem eqv_put {d : Path} {st1 st2 : St} (h : Eqv d st1 st2) (q : Path) (n : Node) :
    Eqv d { fs := st1.fs.put q n, log := q :: st1.log } { fs := st2.fs.put q n, log := q :: st2.log } :=
  ⟨by simp [h.log], agree_put h.agree q n⟩

theorem descend_local {d : Path} {fs0 : Fs} :
    ∀ (f : Nat) (st1 st2 : St) (cur : Path) (segs : List Seg), Good d fs0 st1 → Eqv d st1 st2 →
      d <:+ cur → allNames segs = true →
      Eqv d (descend f st1 cur segs).1 (descend f st2 cur segs).1 ∧
      (descend f st1 cur segs).2 = (descend f st2 cur segs).2 := by
  intro f
  induction f with
  | zero => intro st1 st2 cur segs _ he _ _; simp [descend]; exact he
  | succ f ih =>
    intro st1 st2 cur segs hg he hc hn
    cases segs with
    | nil => simp [descend]; exact he
    | cons x r =>
      obtain ⟨hx, hr⟩ := allNames_cons.mp hn
      cases x with
      | up => simp [isName] at hx
      | name s =>
        have hsc : d <:+ s :: cur := under_cons s hc
        simp only [descend]
        rw [← he.agree (s :: cur) hsc]
        cases hget : st1.fs.get (s :: cur) with
        | none =>
          exact ih _ _ _ _ (good_put hg hsc (n := Node.dir) trivial) (eqv_put he _ _) hsc hr
        | some n =>
          cases n with
          | dir => exact ih _ _ _ _ hg he hsc hr
          | file ino => exact ⟨he, rfl⟩
          | link a t =>
            obtain ⟨ha', ht⟩ := hg.safe _ _ hsc hget
            subst ha'
            simp only [Bool.false_eq_true, if_false]
            rw [← resolve_local hg.safe he.agree fuel0 cur t hc ht]
            cases hres : resolve st1.fs fuel0 cur t with
            | none => exact ⟨he, rfl⟩
            | some q =>
              have hq : d <:+ q := resolve_under hg.safe _ _ _ _ hc ht hres
              simp only
              rw [← isDir_agree he.agree hq]
              cases st1.fs.isDir q with
              | true => simp only [if_true]; exact ih _ _ _ _ hg he hq hr
              | false => exact ⟨he, rfl⟩

theorem writeFile_local {d : Path} {fs0 : Fs} {st1 st2 : St} {par : Path} (s : S)
    (hg : Good d fs0 st1) (he : Eqv d st1 st2) (hp : d <:+ par) :
    Eqv d (writeFile st1 par s).1 (writeFile st2 par s).1 ∧ (writeFile st1 par s).2 = (writeFile st2 par s).2 := by
  unfold writeFile
  rw [← resolve_local hg.safe he.agree fuel0 par [Seg.name s] hp (by simp [allNames, isName])]
  cases hres : resolve st1.fs fuel0 par [Seg.name s] with
  | none => exact ⟨he, rfl⟩
  | some p =>
    have hpu : d <:+ p := resolve_under hg.safe _ _ _ _ hp (by simp [allNames, isName]) hres
    simp only
    cases hpe : p.isEmpty with
    | true => exact ⟨he, rfl⟩
    | false =>
      simp only [Bool.false_eq_true, if_false]
      rw [← he.agree p hpu]
      cases hget : st1.fs.get p with
      | none => exact ⟨eqv_put he _ _, rfl⟩
      | some n =>
        cases n with
        | dir => exact ⟨he, rfl⟩
        | link a t => exact ⟨he, rfl⟩
        | file ino => exact ⟨⟨by simp [he.log], he.agree⟩, rfl⟩

theorem followsToExisting_local {d : Path} {fs1 fs2 : Fs} (hs : Safe d fs1) (ha : AgreeUnder d fs1 fs2)
    {tp : Path} (ts : S) (htp : d <:+ tp) : followsToExisting fs1 tp ts = followsToExisting fs2 tp ts := by
  unfold followsToExisting
  rw [← resolve_local hs ha fuel0 tp [Seg.name ts] htp (by simp [allNames, isName])]
  cases hres : resolve fs1 fuel0 tp [Seg.name ts] with
  | none => rfl
  | some q =>
    have hq : d <:+ q := resolve_under hs _ _ _ _ htp (by simp [allNames, isName]) hres
    simp only
    rw [ha q hq]

/-- **one member is local to the working directory** -/
theorem extractOne_local {d : Path} {fs0 : Fs} {st1 st2 : St} {m : Member}
    (hg : Good d fs0 st1) (he : Eqv d st1 st2) (hm : MemberRel m) :
    Eqv d (extractOne d st1 m).1 (extractOne d st2 m).1 ∧ (extractOne d st1 m).2 = (extractOne d st2 m).2 := by
  obtain ⟨habs, hnames, hlink⟩ := hm
  unfold extractOne
  simp only
  cases hsplit : splitLastSeg m.name.segs with
  | none => cases m <;> exact ⟨he, rfl⟩
  | some pr =>
    obtain ⟨parents, l⟩ := pr
    have hsegs := splitLastSeg_eq hsplit
    rw [hsegs] at hnames
    obtain ⟨hpar, hl⟩ := allNames_append.mp hnames
    cases l with
    | up => simp [allNames, isName] at hl
    | name s =>
      simp only
      have hstart : start d m.name = d := by simp [start, habs]
      rw [hstart]
      obtain ⟨he1, ho⟩ := descend_local fuel0 st1 st2 d parents hg he (List.suffix_refl d) hpar
      cases hd1 : descend fuel0 st1 d parents with
      | mk sa o =>
        cases hd2 : descend fuel0 st2 d parents with
        | mk sb o2 =>
          rw [hd1, hd2] at he1 ho
          simp only at he1 ho
          subst ho
          obtain ⟨hg1, hou⟩ := descend_good _ _ _ _ _ _ hg (List.suffix_refl d) hpar hd1
          cases o with
          | none => exact ⟨he1, rfl⟩
          | some par =>
            have hparu : d <:+ par := hou par rfl
            have hsp : d <:+ s :: par := under_cons s hparu
            simp only
            cases m with
            | file n => exact writeFile_local s hg1 he1 hparu
            | dir n =>
              simp only
              rw [← he1.agree (s :: par) hsp]
              cases hget : sa.fs.get (s :: par) with
              | none => exact ⟨eqv_put he1 _ _, rfl⟩
              | some nd =>
                simp only
                rw [← resolve_local hg1.safe he1.agree fuel0 par [Seg.name s] hparu (by simp [allNames, isName])]
                cases hres : resolve sa.fs fuel0 par [Seg.name s] with
                | none => exact ⟨he1, rfl⟩
                | some p => exact ⟨⟨by simp [he1.log], he1.agree⟩, rfl⟩
            | sym n t =>
              simp only
              rw [← he1.agree (s :: par) hsp]
              cases hget : sa.fs.get (s :: par) with
              | none => exact ⟨eqv_put he1 _ _, rfl⟩
              | some nd =>
                cases nd with
                | dir => exact ⟨he1, rfl⟩
                | file ino => exact ⟨eqv_put he1 _ _, rfl⟩
                | link a lt => exact ⟨eqv_put he1 _ _, rfl⟩
            | hard n t =>
              simp only at hlink ⊢
              obtain ⟨htabs, htn⟩ := hlink
              cases hts : splitLastSeg t.segs with
              | none => exact ⟨he1, rfl⟩
              | some tpr =>
                obtain ⟨tparents, tl⟩ := tpr
                have htsegs := splitLastSeg_eq hts
                rw [htsegs] at htn
                obtain ⟨htpar, _⟩ := allNames_append.mp htn
                cases tl with
                | up => exact ⟨he1, rfl⟩
                | name ts =>
                  simp only
                  have hst : start d t = d := by simp [start, htabs]
                  rw [hst]
                  rw [← resolve_local hg1.safe he1.agree fuel0 d tparents (List.suffix_refl d) htpar]
                  cases hres : resolve sa.fs fuel0 d tparents with
                  | none => exact ⟨he1, rfl⟩
                  | some tp =>
                    have htp : d <:+ tp := resolve_under hg1.safe _ _ _ _ (List.suffix_refl d) htpar hres
                    simp only
                    rw [← he1.agree (ts :: tp) (under_cons ts htp), ← he1.agree (s :: par) hsp,
                      ← followsToExisting_local hg1.safe he1.agree ts htp]
                    cases hget : sa.fs.get (ts :: tp) with
                    | none => exact ⟨he1, rfl⟩
                    | some nd =>
                      cases nd with
                      | dir => exact ⟨he1, rfl⟩
                      | file ino =>
                        simp only
                        cases (sa.fs.get (s :: par)).isSome with
                        | true => exact ⟨he1, rfl⟩
                        | false => exact ⟨eqv_put he1 _ _, rfl⟩
                      | link a lt =>
                        simp only
                        cases followsToExisting sa.fs tp ts with
                        | false => exact ⟨he1, rfl⟩
                        | true =>
                          simp only [Bool.not_true, Bool.false_eq_true, if_false]
                          cases (sa.fs.get (s :: par)).isSome with
                          | true => exact ⟨he1, rfl⟩
                          | false => exact ⟨eqv_put he1 _ _, rfl⟩

theorem extractAll_local {d : Path} {fs0 : Fs} :
    ∀ (ms : List Member) (st1 st2 : St), Good d fs0 st1 → Eqv d st1 st2 → (∀ m ∈ ms, MemberRel m) →
      Eqv d (extractAll d st1 ms).1 (extractAll d st2 ms).1 ∧ (extractAll d st1 ms).2 = (extractAll d st2 ms).2 := by
  intro ms
  induction ms with
  | nil => intro st1 st2 _ he _; exact ⟨he, rfl⟩
  | cons m ms ih =>
    intro st1 st2 hg he hm
    obtain ⟨he1, hr⟩ := extractOne_local hg he (hm m (List.mem_cons_self ..))
    simp only [extractAll]
    cases h1 : extractOne d st1 m with
    | mk sa e1 =>
      cases h2 : extractOne d st2 m with
      | mk sb e2 =>
        rw [h1, h2] at he1 hr
        simp only at he1 hr
        subst hr
        have hg1 := extractOne_good hg (hm m (List.mem_cons_self ..)) h1
        cases e1 with
        | none => exact ih _ _ hg1 he1 (fun m' hm' => hm m' (List.mem_cons_of_mem _ hm'))
        | some x => exact ⟨he1, rfl⟩

/-! ## a stager against its own solo run -/

/-- a stager that still has members to extract has not answered yet -/
def Pending (s : Stager) : Prop := s.todo ≠ [] → s.res = none

theorem pending_init (d : Path) (ms : List Member) : Pending (Stager.init d ms) := by
  unfold Stager.init Pending
  split
  · intro _; rfl
  · intro h; exact absurd rfl h

theorem step_local {d : Path} {fs1 fs2 : Fs} {s : Stager} (hs : Safe d fs1) (hg : SGood d s)
    (ha : AgreeUnder d fs1 fs2) :
    (s.step fs1).2 = (s.step fs2).2 ∧ AgreeUnder d (s.step fs1).1 (s.step fs2).1 := by
  unfold Stager.step
  cases htodo : s.todo with
  | nil => exact ⟨rfl, ha⟩
  | cons m ms =>
    simp only
    have hgood : Good d fs1 ⟨fs1, s.log⟩ := ⟨hs, hg.log, fun _ _ => rfl⟩
    have hrel : MemberRel m := hg.rel m (by rw [htodo]; exact List.mem_cons_self ..)
    obtain ⟨he, hr⟩ := extractOne_local (st2 := ⟨fs2, s.log⟩) hgood ⟨rfl, ha⟩ hrel
    rw [hg.dest]
    cases h1 : extractOne d ⟨fs1, s.log⟩ m with
    | mk sa e1 =>
      cases h2 : extractOne d ⟨fs2, s.log⟩ m with
      | mk sb e2 =>
        rw [h1, h2] at he hr
        simp only at he hr
        subst hr
        cases e1 with
        | none => simp only; exact ⟨by rw [he.log], he.agree⟩
        | some x => simp only; exact ⟨by rw [he.log], he.agree⟩

theorem drain_local {d : Path} {fs1 fs2 : Fs} {s : Stager} (hs : Safe d fs1) (hg : SGood d s)
    (ha : AgreeUnder d fs1 fs2) :
    (s.drain fs1).2 = (s.drain fs2).2 ∧ AgreeUnder d (s.drain fs1).1 (s.drain fs2).1 := by
  unfold Stager.drain
  cases htodo : s.todo with
  | nil => exact ⟨rfl, ha⟩
  | cons m ms =>
    simp only
    have hgood : Good d fs1 ⟨fs1, s.log⟩ := ⟨hs, hg.log, fun _ _ => rfl⟩
    obtain ⟨he, hr⟩ := extractAll_local (m :: ms) ⟨fs1, s.log⟩ ⟨fs2, s.log⟩ hgood ⟨rfl, ha⟩
      (by rw [← htodo]; exact hg.rel)
    rw [hg.dest]
    cases h1 : extractAll d ⟨fs1, s.log⟩ (m :: ms) with
    | mk sa e1 =>
      cases h2 : extractAll d ⟨fs2, s.log⟩ (m :: ms) with
      | mk sb e2 =>
        rw [h1, h2] at he hr
        simp only at he hr
        subst hr
        exact ⟨by simp only; rw [he.log], he.agree⟩

/-- extracting the next member and then the rest is extracting all that is left -/
theorem drain_step (fs : Fs) (s : Stager) (hp : Pending s) :
    (s.step fs).2.drain (s.step fs).1 = s.drain fs := by
  unfold Stager.step
  cases htodo : s.todo with
  | nil => rfl
  | cons m ms =>
    have hres : s.res = none := hp (by rw [htodo]; simp)
    simp only
    cases h1 : extractOne s.dest ⟨fs, s.log⟩ m with
    | mk st1 e =>
      cases e with
      | some x =>
        simp only [Stager.drain, htodo, extractAll, h1]
      | none =>
        simp only
        cases ms with
        | nil =>
          simp only [Stager.drain, htodo, extractAll, h1]
          cases s
          simp_all
        | cons m2 ms2 =>
          simp only [Stager.drain, htodo, extractAll, h1]

theorem pending_step (fs : Fs) (s : Stager) (hp : Pending s) : Pending (s.step fs).2 := by
  unfold Stager.step
  cases htodo : s.todo with
  | nil => simp only; exact hp
  | cons m ms =>
    have hres : s.res = none := hp (by rw [htodo]; simp)
    simp only
    cases h1 : extractOne s.dest ⟨fs, s.log⟩ m with
    | mk st1 e =>
      cases e with
      | none => simp only; intro _; exact hres
      | some x => simp only; intro h; exact absurd rfl h

/-! ## the world against the solo runs -/

theorem wstep_true_a (w : World) : (w.step true).a = w.a := by
  cases h : w.b.step w.fs; simp [World.step, h]
theorem wstep_true_b (w : World) : (w.step true).b = (w.b.step w.fs).2 := by
  cases h : w.b.step w.fs; simp [World.step, h]
theorem wstep_true_fs (w : World) : (w.step true).fs = (w.b.step w.fs).1 := by
  cases h : w.b.step w.fs; simp [World.step, h]
theorem wstep_false_a (w : World) : (w.step false).a = (w.a.step w.fs).2 := by
  cases h : w.a.step w.fs; simp [World.step, h]
theorem wstep_false_b (w : World) : (w.step false).b = w.b := by
  cases h : w.a.step w.fs; simp [World.step, h]
theorem wstep_false_fs (w : World) : (w.step false).fs = (w.a.step w.fs).1 := by
  cases h : w.a.step w.fs; simp [World.step, h]

theorem wfinish_a (w : World) : w.finish.a = (w.a.drain w.fs).2 := by
  cases h1 : w.a.drain w.fs with
  | mk fs1 a1 => cases h2 : w.b.drain fs1; simp [World.finish, h1, h2]
theorem wfinish_b (w : World) : w.finish.b = (w.b.drain (w.a.drain w.fs).1).2 := by
  cases h1 : w.a.drain w.fs with
  | mk fs1 a1 => cases h2 : w.b.drain fs1; simp [World.finish, h1, h2]
theorem wfinish_fs (w : World) : w.finish.fs = (w.b.drain (w.a.drain w.fs).1).1 := by
  cases h1 : w.a.drain w.fs with
  | mk fs1 a1 => cases h2 : w.b.drain fs1; simp [World.finish, h1, h2]

/-- the first stager of the world is where its solo run is: there is a file system `fsS` that looks like the
world's from inside `dA` and from which the rest of the stager's work gives the solo result -/
structure TrackA (dA dB : Path) (fs0 : Fs) (solo : Fs × Stager) (w : World) : Prop where
  good : WGood dA dB fs0 w
  pend : Pending w.a
  sim : ∃ fsS, AgreeUnder dA w.fs fsS ∧ Safe dA fsS ∧ w.a.drain fsS = solo

structure TrackB (dA dB : Path) (fs0 : Fs) (solo : Fs × Stager) (w : World) : Prop where
  good : WGood dA dB fs0 w
  pend : Pending w.b
  sim : ∃ fsS, AgreeUnder dB w.fs fsS ∧ Safe dB fsS ∧ w.b.drain fsS = solo

theorem trackA_step {dA dB : Path} {fs0 : Fs} {solo : Fs × Stager} {w : World} (hap : Apart dA dB)
    (ht : TrackA dA dB fs0 solo w) (who : Bool) : TrackA dA dB fs0 solo (w.step who) := by
  obtain ⟨fsS, hagree, hsafeS, hdrain⟩ := ht.sim
  have hgood' := world_step_good hap ht.good who
  cases who with
  | false =>
    obtain ⟨hsame, hagree'⟩ := step_local (s := w.a) ht.good.safeA ht.good.a hagree
    obtain ⟨_, hsafeS', _⟩ := stager_step_good hsafeS ht.good.a (fs' := (w.a.step fsS).1) (s' := (w.a.step fsS).2) rfl
    refine ⟨hgood', ?_, (w.a.step fsS).1, ?_, hsafeS', ?_⟩
    · rw [wstep_false_a]; exact pending_step _ _ ht.pend
    · rw [wstep_false_fs]; exact hagree'
    · rw [wstep_false_a, hsame, drain_step _ _ ht.pend]; exact hdrain
  | true =>
    obtain ⟨_, _, hframe⟩ := stager_step_good ht.good.safeB ht.good.b (fs' := (w.b.step w.fs).1)
      (s' := (w.b.step w.fs).2) rfl
    refine ⟨hgood', ?_, fsS, ?_, hsafeS, ?_⟩
    · rw [wstep_true_a]; exact ht.pend
    · rw [wstep_true_fs]
      exact agree_trans (agree_of_frame hframe (fun p hp => apart_under hap hp)) hagree
    · rw [wstep_true_a]; exact hdrain

theorem trackB_step {dA dB : Path} {fs0 : Fs} {solo : Fs × Stager} {w : World} (hap : Apart dA dB)
    (ht : TrackB dA dB fs0 solo w) (who : Bool) : TrackB dA dB fs0 solo (w.step who) := by
  obtain ⟨fsS, hagree, hsafeS, hdrain⟩ := ht.sim
  have hgood' := world_step_good hap ht.good who
  cases who with
  | true =>
    obtain ⟨hsame, hagree'⟩ := step_local (s := w.b) ht.good.safeB ht.good.b hagree
    obtain ⟨_, hsafeS', _⟩ := stager_step_good hsafeS ht.good.b (fs' := (w.b.step fsS).1) (s' := (w.b.step fsS).2) rfl
    refine ⟨hgood', ?_, (w.b.step fsS).1, ?_, hsafeS', ?_⟩
    · rw [wstep_true_b]; exact pending_step _ _ ht.pend
    · rw [wstep_true_fs]; exact hagree'
    · rw [wstep_true_b, hsame, drain_step _ _ ht.pend]; exact hdrain
  | false =>
    obtain ⟨_, _, hframe⟩ := stager_step_good ht.good.safeA ht.good.a (fs' := (w.a.step w.fs).1)
      (s' := (w.a.step w.fs).2) rfl
    refine ⟨hgood', ?_, fsS, ?_, hsafeS, ?_⟩
    · rw [wstep_false_b]; exact ht.pend
    · rw [wstep_false_fs]
      exact agree_trans (agree_of_frame hframe (fun p hp => apart_under' hap hp)) hagree
    · rw [wstep_false_b]; exact hdrain

theorem trackA_sched {dA dB : Path} {fs0 : Fs} {solo : Fs × Stager} (hap : Apart dA dB) :
    ∀ (sched : List Bool) (w : World), TrackA dA dB fs0 solo w → TrackA dA dB fs0 solo (sched.foldl World.step w) := by
  intro sched
  induction sched with
  | nil => intro w h; exact h
  | cons x r ih => intro w h; exact ih _ (trackA_step hap h x)

theorem trackB_sched {dA dB : Path} {fs0 : Fs} {solo : Fs × Stager} (hap : Apart dA dB) :
    ∀ (sched : List Bool) (w : World), TrackB dA dB fs0 solo w → TrackB dA dB fs0 solo (sched.foldl World.step w) := by
  intro sched
  induction sched with
  | nil => intro w h; exact h
  | cons x r ih => intro w h; exact ih _ (trackB_step hap h x)

theorem trackA_finish {dA dB : Path} {fs0 : Fs} {solo : Fs × Stager} {w : World} (hap : Apart dA dB)
    (ht : TrackA dA dB fs0 solo w) : w.finish.a = solo.2 ∧ AgreeUnder dA w.finish.fs solo.1 := by
  obtain ⟨fsS, hagree, _, hdrain⟩ := ht.sim
  obtain ⟨hsame, hagree'⟩ := drain_local (s := w.a) ht.good.safeA ht.good.a hagree
  obtain ⟨_, _, hframeA⟩ := stager_drain_good ht.good.safeA ht.good.a (fs' := (w.a.drain w.fs).1)
    (s' := (w.a.drain w.fs).2) rfl
  have hsafeB1 : Safe dB (w.a.drain w.fs).1 :=
    safe_of_frame (fun p hp => apart_under' hap hp) ht.good.safeB hframeA
  obtain ⟨_, _, hframeB⟩ := stager_drain_good hsafeB1 ht.good.b (fs' := (w.b.drain (w.a.drain w.fs).1).1)
    (s' := (w.b.drain (w.a.drain w.fs).1).2) rfl
  refine ⟨?_, ?_⟩
  · rw [wfinish_a, hsame, hdrain]
  · rw [wfinish_fs, ← hdrain]
    exact agree_trans (agree_of_frame hframeB (fun p hp => apart_under hap hp)) hagree'

theorem trackB_finish {dA dB : Path} {fs0 : Fs} {solo : Fs × Stager} {w : World} (hap : Apart dA dB)
    (ht : TrackB dA dB fs0 solo w) : w.finish.b = solo.2 ∧ AgreeUnder dB w.finish.fs solo.1 := by
  obtain ⟨fsS, hagree, _, hdrain⟩ := ht.sim
  obtain ⟨_, _, hframeA⟩ := stager_drain_good ht.good.safeA ht.good.a (fs' := (w.a.drain w.fs).1)
    (s' := (w.a.drain w.fs).2) rfl
  have hsafeB1 : Safe dB (w.a.drain w.fs).1 :=
    safe_of_frame (fun p hp => apart_under' hap hp) ht.good.safeB hframeA
  have hagree1 : AgreeUnder dB (w.a.drain w.fs).1 fsS :=
    agree_trans (agree_of_frame hframeA (fun p hp => apart_under' hap hp)) hagree
  obtain ⟨hsame, hagree'⟩ := drain_local (s := w.b) hsafeB1 ht.good.b hagree1
  refine ⟨?_, ?_⟩
  · rw [wfinish_b, hsame, hdrain]
  · rw [wfinish_fs, ← hdrain]
    exact hagree'

end St4sd.Confine
