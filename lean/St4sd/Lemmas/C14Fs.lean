import St4sd.Model.FsAtomic
/-! Helper lemmas for C14 about file-system traces. -/
namespace St4sd.FsAtomic

theorem set_same (fs : Fs) (p : Path) (v : Option Content) : set fs p v p = v := by simp [set]

theorem set_other (fs : Fs) (p q : Path) (v : Option Content) (h : q ≠ p) : set fs p v q = fs q := by
  simp [set, h]

theorem run_nil (fs : Fs) : run [] fs = fs := rfl
theorem run_cons (o : Op) (tr : List Op) (fs : Fs) : run (o :: tr) fs = run tr (apply fs o) := rfl
theorem run_append (a b : List Op) (fs : Fs) : run (a ++ b) fs = run b (run a fs) := by
  simp [run, List.foldl_append]

/-- an operation that does not name `t` leaves the content of `t` alone -/
theorem apply_noTouch (fs : Fs) (o : Op) (t : Path) (h : touches t o = false) : apply fs o t = fs t := by
  cases o with
  | create p =>
    have hp : t ≠ p := by intro e; subst e; simp [touches] at h
    simp [apply, set_other _ _ _ _ hp]
  | append p b =>
    have hp : t ≠ p := by intro e; subst e; simp [touches] at h
    simp only [apply]
    cases hfp : fs p with
    | none => rfl
    | some c => exact set_other _ _ _ _ hp
  | close p => rfl
  | rename a b =>
    have ha : t ≠ a := by intro e; subst e; simp [touches] at h
    have hb : t ≠ b := by intro e; subst e; simp [touches] at h
    simp only [apply]
    cases hfa : fs a with
    | none => rfl
    | some c =>
      by_cases hab : a = b
      · simp [hab]
      · simp only [hab, if_false]
        rw [set_other _ _ _ _ ha, set_other _ _ _ _ hb]
  | remove p =>
    have hp : t ≠ p := by intro e; subst e; simp [touches] at h
    simp [apply, set_other _ _ _ _ hp]

theorem run_noTouch (tr : List Op) (fs : Fs) (t : Path) (h : noTouch t tr = true) : run tr fs t = fs t := by
  induction tr generalizing fs with
  | nil => rfl
  | cons o tr ih =>
    simp only [noTouch, List.all_cons, Bool.and_eq_true, Bool.not_eq_true'] at h
    rw [run_cons, ih _ (by simpa [noTouch] using h.2), apply_noTouch _ _ _ h.1]

theorem noTouch_take (tr : List Op) (t : Path) (n : Nat) (h : noTouch t tr = true) : noTouch t (tr.take n) = true := by
  simp only [noTouch, List.all_eq_true] at *
  intro o ho
  exact h o (List.mem_of_mem_take ho)

end St4sd.FsAtomic
