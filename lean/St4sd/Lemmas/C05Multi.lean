import St4sd.Model.LoopMulti
import St4sd.Lemmas.C05
/-!
Helper lemmas for C05, several DoWhile documents: the threaded discovery of placeholders (`discover`), the choice of
the newest instance among `0 … k`, `matched` of appended component lists.
-/
namespace St4sd.C05L
open St4sd.Str St4sd.Loop

/-- no placeholder id belongs to two DoWhile documents (their iterations 0 would be the same components: the loader
rejects duplicate component ids) -/
def LoopsDisjoint (ds : List Doc) : Prop := ds.Pairwise fun d d' => ∀ p ∈ loopIds d, p ∉ loopIds d'

theorem matchP_iff (p x : CId) : matchP p x = true ↔ (x.1, baseName x.2) = p := by
  obtain ⟨a, b⟩ := p
  simp [matchP, Prod.ext_iff]

theorem matched_eq_filter (cs : List Comp) (p : CId) : matched cs p = (loopedIds cs).filter (matchP p) := rfl

/-- removing what another placeholder matches does not change what `p` matches -/
theorem filter_match_remove (p q : CId) (h : q ≠ p) (rem : List CId) :
    (rem.filter fun x => !matchP q x).filter (matchP p) = rem.filter (matchP p) := by
  rw [List.filter_filter]
  apply List.filter_congr
  intro x _
  by_cases hp : matchP p x = true
  · have hq : matchP q x = false := by
      rw [Bool.eq_false_iff]
      intro hq
      exact h (((matchP_iff q x).mp hq).symm.trans ((matchP_iff p x).mp hp))
    simp [hp, hq]
  · simp [hp]

/-- the entry of placeholder id `p` found in the threaded discovery is the one computed from ALL looped ids: the ids
taken by the placeholders processed before it are never ids that `p` matches -/
theorem discover_find (num : Bool) (p : CId) : ∀ (ps : List (Doc × CId)) (rem : List CId),
    (discover num ps rem).find? (fun q => q.2.id == p) =
      (ps.find? (fun t => t.2 == p)).map fun t =>
        (t.1, { id := p, represents := rem.filter (matchP p),
                latest := firstMaxBy (iterLt num) (rem.filter (matchP p)) }) := by
  intro ps
  induction ps with
  | nil => intro rem; simp [discover]
  | cons t ps ih =>
    intro rem
    obtain ⟨d, q⟩ := t
    simp only [discover, List.find?_cons]
    by_cases hq : q = p
    · subst hq; simp
    · have hb : (q == p) = false := by simpa using hq
      simp only [hb]
      rw [ih, filter_match_remove p q hq]

theorem find_beq (p : CId) : ∀ (l : List CId), p ∈ l → l.find? (fun q => q == p) = some p := by
  intro l
  induction l with
  | nil => intro h; simp at h
  | cons a l ih =>
    intro h
    by_cases ha : a = p
    · subst ha; simp
    · have hb : (a == p) = false := by simpa using ha
      simp only [List.find?_cons, hb]
      exact ih (by rcases List.mem_cons.mp h with e | e; exact absurd e.symm ha; exact e)

theorem find_beq_none (p : CId) : ∀ (l : List CId), p ∉ l → l.find? (fun q => q == p) = none := by
  intro l h
  rw [List.find?_eq_none]
  intro x hx hxp
  have : x = p := by simpa using hxp
  exact h (this ▸ hx)

theorem find_tag (d : Doc) (p : CId) (l : List CId) :
    (l.map fun q => (d, q)).find? (fun t => t.2 == p) = (l.find? (fun q => q == p)).map fun q => (d, q) := by
  induction l with
  | nil => rfl
  | cons a l ih =>
    by_cases ha : (a == p) = true
    · simp [ha]
    · simp only [List.map_cons, List.find?_cons, ha, ih]

theorem disj_idx {ds : List Doc} (h : LoopsDisjoint ds) : ∀ {i j : Nat} {d d' : Doc},
    ds[i]? = some d → ds[j]? = some d' → i ≠ j → ∀ p ∈ loopIds d, p ∉ loopIds d' := by
  induction ds with
  | nil => intro i j d d' hi; simp at hi
  | cons d0 ds ih =>
    unfold LoopsDisjoint at h
    rw [List.pairwise_cons] at h
    intro i j d d' hi hj hne p hp hp'
    cases i with
    | zero =>
      cases j with
      | zero => exact hne rfl
      | succ j =>
        simp only [List.getElem?_cons_zero, Option.some.injEq] at hi
        simp only [List.getElem?_cons_succ] at hj
        subst hi
        exact h.1 d' (List.mem_of_getElem? hj) p hp hp'
    | succ i =>
      cases j with
      | zero =>
        simp only [List.getElem?_cons_zero, Option.some.injEq] at hj
        simp only [List.getElem?_cons_succ] at hi
        subst hj
        exact h.1 d (List.mem_of_getElem? hi) p hp' hp
      | succ j =>
        simp only [List.getElem?_cons_succ] at hi hj
        exact ih h.2 hi hj (by omega) p hp hp'

/-- the document recorded for placeholder id `p` is the document that declares it -/
theorem tagged_find {ds : List Doc} (h : LoopsDisjoint ds) : ∀ {i : Nat} {d : Doc} {p : CId},
    ds[i]? = some d → p ∈ loopIds d → (taggedIds ds).find? (fun t => t.2 == p) = some (d, p) := by
  induction ds with
  | nil => intro i d p hi; simp at hi
  | cons d0 ds ih =>
    intro i d p hi hp
    have hcons : taggedIds (d0 :: ds) = ((loopIds d0).map fun q => (d0, q)) ++ taggedIds ds := by
      simp [taggedIds]
    rw [hcons, List.find?_append, find_tag]
    cases i with
    | zero =>
      simp only [List.getElem?_cons_zero, Option.some.injEq] at hi
      subst hi
      simp [find_beq p _ hp]
    | succ i =>
      have hi' : ds[i]? = some d := by simpa using hi
      have hnot : p ∉ loopIds d0 := by
        intro hp0
        exact disj_idx h (i := i + 1) (j := 0) hi (by simp) (by omega) p hp hp0
      unfold LoopsDisjoint at h
      rw [List.pairwise_cons] at h
      simp [find_beq_none p _ hnot, ih h.2 hi' hp]

/-- the newest of the instances `0 … k` of one component is instance `k` -/
theorem firstMaxBy_range_inst (s : Nat) (n : S) (k : Nat) :
    firstMaxBy (iterLt true) ((List.range (k + 1)).map fun j => ((s, instName j n) : CId)) = some (s, instName k n) := by
  have hne : ((List.range (k + 1)).map fun j => ((s, instName j n) : CId)) ≠ [] := by
    simp [List.range_succ]
  obtain ⟨z, hz⟩ := firstMaxBy_isSome (iterLt true) _ hne
  rw [hz]
  have hz' := hz
  rw [iterLt_true] at hz'
  obtain ⟨hmem, hmax⟩ := firstMaxBy_key (fun x : CId => iterNum x.2) _ z hz'
  simp only [List.mem_map, List.mem_range] at hmem
  obtain ⟨j, hj, e⟩ := hmem
  have hk := hmax (s, instName k n) (by
    simp only [List.mem_map, List.mem_range]
    exact ⟨k, by omega, rfl⟩)
  subst e
  simp only [iterNum_instName] at hk
  have : j = k := by omega
  subst this
  rfl

/-- the instances `0 … k` in increasing order are left as they are by the numeric sort -/
theorem sortBy_range_inst (s : Nat) (n : S) (k : Nat) :
    sortBy (iterLt true) ((List.range (k + 1)).map fun j => ((s, instName j n) : CId)) =
      (List.range (k + 1)).map fun j => ((s, instName j n) : CId) := by
  apply sortBy_sorted
  rw [List.pairwise_map]
  refine List.Pairwise.imp ?_ (List.pairwise_lt_range (n := k + 1))
  intro a b hab
  simp [iterLt]
  omega

theorem loopedIds_append (a b : List Comp) : loopedIds (a ++ b) = loopedIds a ++ loopedIds b := by
  simp [loopedIds, ids]

theorem matched_append (a b : List Comp) (p : CId) : matched (a ++ b) p = matched a p ++ matched b p := by
  simp [matched, loopedIds_append]

theorem mem_loopedIds_of_matched {cs : List Comp} {p x : CId} (h : x ∈ matched cs p) : x ∈ loopedIds cs :=
  (List.mem_filter.mp h).1

theorem mem_ids_of_loopedIds {cs : List Comp} {x : CId} (h : x ∈ loopedIds cs) : x ∈ ids cs :=
  (List.mem_filter.mp h).1

/-- the edges of one graph construction, reference by reference (`refPreds`) -/
theorem edgesOfM_eq (ds : List Doc) (cs : List Comp) :
    edgesOfM ds cs = cs.flatMap fun c => (c.refs.filter fun r => !r.direct).flatMap fun r =>
      ((refPreds ds cs c r).filter fun p => (ids cs).contains p).map fun p => (p, c.id) := rfl

/-- membership in the edges of one graph construction -/
theorem mem_edgesOfM {ds : List Doc} {cs : List Comp} {c : Comp} {r : Ref} {p : CId} (hc : c ∈ cs) (hr : r ∈ c.refs)
    (hd : r.direct = false) (hp : p ∈ refPreds ds cs c r) (hid : p ∈ ids cs) : (p, c.id) ∈ edgesOfM ds cs := by
  rw [edgesOfM_eq]
  simp only [List.mem_flatMap, List.mem_filter, List.mem_map]
  exact ⟨c, hc, r, ⟨hr, by simp [hd]⟩, p, ⟨hp, by simpa using hid⟩, rfl⟩

theorem advances_append (a b : List Op) : advances (a ++ b) = advances a ++ advances b := by
  induction a with
  | nil => rfl
  | cons o a ih => cases o <;> simp [advances, ih]

end St4sd.C05L
