import St4sd.Model.RepeatDir
import St4sd.Lemmas.C13Prod
/-! Working directories of producers (C13, clause 1): what was staged in is input, never output. -/
namespace St4sd.RepeatDir
open St4sd.Repeat

theorem drun_append : ∀ (a b : List DOp) (d : Dir), drun d (a ++ b) = drun (drun d a) b := by
  intro a
  induction a with
  | nil => intro b d; rfl
  | cons o os ih => intro b d; simp [drun, ih]

theorem mem_add (d : Dir) (f g : File) : g ∈ (d.add f).files ↔ g = f ∨ g ∈ d.files := by
  unfold Dir.add
  split
  · rename_i h
    have : f ∈ d.files := by simpa using h
    constructor
    · exact Or.inr
    · rintro (rfl | h1) <;> assumption
  · simp

theorem add_inputs (d : Dir) (f : File) : (d.add f).inputs = d.inputs := by
  unfold Dir.add; split <;> rfl

/-- staging and writing never touch the record of inputs -/
theorem drun_stage_inputs : ∀ (fs : List File) (d : Dir), (drun d (fs.map .stage)).inputs = d.inputs := by
  intro fs
  induction fs with
  | nil => intro d; rfl
  | cons f r ih => intro d; simp [drun, dstep, ih, add_inputs]

theorem drun_write_inputs : ∀ (fs : List File) (d : Dir), (drun d (writes fs)).inputs = d.inputs := by
  intro fs
  induction fs with
  | nil => intro d; rfl
  | cons f r ih =>
    intro d
    have := ih (d.add f)
    simpa [writes, drun, dstep, add_inputs] using this

theorem drun_write_files : ∀ (fs : List File) (d : Dir) (g : File),
    g ∈ (drun d (writes fs)).files ↔ g ∈ fs ∨ g ∈ d.files := by
  intro fs
  induction fs with
  | nil => intro d g; simp [writes, drun]
  | cons f r ih =>
    intro d g
    have := ih (d.add f) g
    simp only [writes, List.map_cons, drun, dstep] at this ⊢
    rw [this, mem_add]
    simp only [List.mem_cons]
    grind

theorem output_updateInputs (d : Dir) : (dstep d .updateInputs).output = [] := by
  simp [dstep, Dir.output, List.filter_eq_nil_iff]

theorem mem_output (d : Dir) (g : File) : g ∈ d.output ↔ g ∈ d.files ∧ g ∉ d.inputs := by
  simp [Dir.output, List.mem_filter]

theorem drun_single (d : Dir) (o : DOp) : drun d [o] = dstep d o := rfl

theorem stageIn_eq (direct comp : List File) (d : Dir) :
    stageIn direct comp [] d = dstep (drun (drun d (direct.map .stage)) (comp.map .stage)) .updateInputs := by
  simp only [stageIn, stageInOps, List.map_nil, List.append_nil, drun_append, drun_single]

theorem stageIn_inputs (direct comp : List File) (d : Dir) :
    (stageIn direct comp [] d).inputs = (stageIn direct comp [] d).files := by
  rw [stageIn_eq]; rfl

end St4sd.RepeatDir
