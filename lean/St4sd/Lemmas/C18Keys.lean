import St4sd.Lemmas.C18Confine
import St4sd.Model.C18Keys
/-!
# C18 — the deployment invariant `DGood` through manifest entries with their keys as text, whole manifests and
histories of deployments; `mkChain` never removes an entry.
-/
namespace St4sd.Confine
open St4sd.Str

/-- one entry, whatever the spelling of its key -/
theorem deployOneK_good {target : Path} {fs0 : Fs} {st st' : St} {e : KEntry} {x : Option Err}
    (hg : DGood target fs0 st) (h : deployOneK true target st e = (st', x)) : DGood target fs0 st' := by
  unfold deployOneK at h
  simp only at h
  split at h
  · -- key ends in a `.` component
    split at h
    · cases h; exact hg
    · split at h
      · cases h; exact hg
      · split at h
        · cases h; exact hg
        · split at h
          · cases h; exact hg
          · split at h
            · cases h; exact hg
            · split at h
              · cases h; exact hg
              · exact deployOne_good hg h
  · split at h
    · -- link entry whose key ends with a separator
      split at h
      · cases h; exact hg
      · exact deployOne_good hg h
    · exact deployOne_good hg h

theorem deployAllK_good {target : Path} {fs0 : Fs} :
    ∀ (es : List KEntry) (st st' : St) (x : Option Err), DGood target fs0 st →
      deployAllK true target st es = (st', x) → DGood target fs0 st' := by
  intro es
  induction es with
  | nil => intro st st' x hg h; simp [deployAllK] at h; obtain ⟨rfl, _⟩ := h; exact hg
  | cons e es ih =>
    intro st st' x hg h
    simp only [deployAllK] at h
    cases h1 : deployOneK true target st e with
    | mk st1 e1 =>
      have hg1 := deployOneK_good hg h1
      simp only [h1] at h
      cases e1 with
      | none => exact ih _ _ _ hg1 h
      | some y => simp at h; obtain ⟨rfl, _⟩ := h; exact hg1

theorem deployK_good {target : Path} {fs0 : Fs} {st st' : St} {es : List KEntry} {x : Option Err}
    (hg : DGood target fs0 st) (h : deployK true target st es = (st', x)) : DGood target fs0 st' := by
  unfold deployK at h
  cases h1 : deployAllK true target st es with
  | mk st1 e1 =>
    have hg1 := deployAllK_good es _ _ _ hg h1
    simp only [h1] at h
    cases e1 with
    | some y => simp at h; obtain ⟨rfl, _⟩ := h; exact hg1
    | none => exact deployConf_good hg1 h

theorem deployStep_good {target : Path} {fs0 : Fs} {st st' : St} {d : Deployment} {x : Option Err}
    (hg : DGood target fs0 st) (h : deployStep true target st d = (st', x)) : DGood target fs0 st' := by
  unfold deployStep at h
  split at h
  · unfold loadAndDeployK at h
    split at h
    · exact deployK_good hg h
    · cases h; exact hg
  · exact deployK_good hg h

theorem deployHistory_good {target : Path} {fs0 : Fs} :
    ∀ (ds : List Deployment) (st : St), DGood target fs0 st →
      DGood target fs0 (deployHistory true target st ds).1 := by
  intro ds
  induction ds with
  | nil => intro st hg; exact hg
  | cons d ds ih =>
    intro st hg
    simp only [deployHistory]
    cases h1 : deployStep true target st d with
    | mk st1 r =>
      have hg1 := deployStep_good hg h1
      have := ih st1 hg1
      cases h2 : deployHistory true target st1 ds with
      | mk st2 rs =>
        rw [h2] at this
        exact this

/-- `os.makedirs` only adds entries: what is missing afterwards was missing before -/
theorem mkChain_get_none :
    ∀ (r : List Seg) (st st1 : St) (cur par q : Path), mkChain st cur r = (st1, par) →
      st1.fs.get q = none → st.fs.get q = none := by
  intro r
  induction r with
  | nil => intro st st1 cur par q h hn; simp [mkChain] at h; obtain ⟨rfl, _⟩ := h; exact hn
  | cons x r ih =>
    intro st st1 cur par q h hn
    cases x with
    | up => simp only [mkChain] at h; exact ih _ _ _ _ _ h hn
    | name s =>
      simp only [mkChain] at h
      split at h
      · exact ih _ _ _ _ _ h hn
      · have := ih _ _ _ _ _ h hn
        change (st.fs.put (s :: cur) Node.dir).get q = none at this
        rw [get_put] at this
        split at this
        · cases this
        · exact this

end St4sd.Confine
