import St4sd.Lemmas.C02c
/-! The rule table `spec`, and the "agreement" invariant used for part C of `Props/C02`. -/
namespace St4sd.C02L
open St4sd.Ctrl

theorem any_congr' {l : List Nat} {f g : Nat → Bool} (h : ∀ x ∈ l, f x = g x) : l.any f = l.any g := by
  induction l with
  | nil => rfl
  | cons a l ih =>
    simp only [List.any_cons]
    rw [h a (List.mem_cons_self ..), ih (fun x hx => h x (List.mem_cons_of_mem _ hx))]

theorem all_congr' {l : List Nat} {f g : Nat → Bool} (h : ∀ x ∈ l, f x = g x) : l.all f = l.all g := by
  induction l with
  | nil => rfl
  | cons a l ih =>
    simp only [List.all_cons]
    rw [h a (List.mem_cons_self ..), ih (fun x hx => h x (List.mem_cons_of_mem _ hx))]

/-- common shape of `mustShutdown` and `ruleShutdown` -/
def rule (wf : Wf) (c : Nat) (isF isS : Nat → Bool) : Bool :=
  let d := wf.cdef c
  if d.preds.any isF then true
  else if d.isAgg then
    let repl := d.preds.filter fun p => (wf.cdef p).isRepl
    let nonrepl := d.preds.filter fun p => !(wf.cdef p).isRepl
    if nonrepl.any isS then true
    else !repl.isEmpty && repl.all isS
  else d.preds.any isS

theorem mustShutdown_eq (wf : Wf) (s : St) (c : Nat) :
    mustShutdown wf s c =
      rule wf c (fun p => predState s p == some .failed) (fun p => predState s p == some .shutdown) := rfl

theorem ruleShutdown_eq (wf : Wf) (t : Nat → Fin3) (c : Nat) :
    ruleShutdown wf t c = rule wf c (fun p => t p == .failed) (fun p => t p == .shutdown) := rfl

theorem rule_congr {wf : Wf} {c : Nat} {f g f' g' : Nat → Bool}
    (h : ∀ p ∈ (wf.cdef c).preds, f p = f' p ∧ g p = g' p) : rule wf c f g = rule wf c f' g' := by
  unfold rule
  dsimp only
  rw [any_congr' (fun p hp => (h p hp).1), any_congr' (g := g') (l := (wf.cdef c).preds) (fun p hp => (h p hp).2),
    any_congr' (g := g') (l := (wf.cdef c).preds.filter _) (fun p hp => (h p (List.mem_filter.1 hp).1).2),
    all_congr' (g := g') (l := (wf.cdef c).preds.filter _) (fun p hp => (h p (List.mem_filter.1 hp).1).2)]

theorem specTable_eq (wf : Wf) : ∀ k p, p < k → specTable wf k p = spec wf p := by
  intro k
  induction k with
  | zero => intro p hp; omega
  | succ k ih =>
    intro p hp
    by_cases e : p = k
    · subst e; rfl
    · have : specTable wf (k + 1) p = specTable wf k p := by simp [specTable, e]
      rw [this]; exact ih p (by omega)

theorem spec_unfold' (wf : Wf) (h : wf.WF) (c : Nat) :
    spec wf c = if ruleShutdown wf (spec wf) c then .shutdown else own wf c := by
  have h1 : spec wf c = if ruleShutdown wf (specTable wf c) c then .shutdown else own wf c := by
    simp [spec, specTable]
  rw [h1, ruleShutdown_eq, ruleShutdown_eq]
  rw [rule_congr (f' := fun p => spec wf p == .failed) (g' := fun p => spec wf p == .shutdown)]
  intro p hp
  have := specTable_eq wf c p (h.topo c p hp)
  simp [this]

/-! ## agreement with `spec` as long as nothing has failed -/

def RepeatSafe (wf : Wf) : Prop :=
  ∀ c, c < wf.n → (wf.cdef c).isRepeat = true → ∀ p ∈ (wf.cdef c).preds,
    (wf.cdef p).stage = (wf.cdef c).stage → spec wf p = .finished

structure Good (wf : Wf) (s : St) : Prop where
  stop : s.stop = false
  pf : ∀ c, (s.comp c).pendingFinal = none
  agree : ∀ c f, (s.comp c).ctrl = some f → f = spec wf c
  ranOwn : ∀ c, (s.comp c).ran = true → spec wf c = own wf c

def NoFailed (s : St) : Prop := ∀ c, (s.comp c).ctrl ≠ some .failed

def FailedWit (wf : Wf) (s : St) : Prop :=
  ∃ c, c < wf.n ∧ spec wf c = .failed ∧ (s.comp c).ctrl = some .failed

def Inv2 (wf : Wf) (s : St) : Prop := FailedWit wf s ∨ (Good wf s ∧ NoFailed s)

/-- one "good" step: the only final states that appear are the ones `spec` prescribes -/
structure GStep (wf : Wf) (s s' : St) : Prop where
  stop : s'.stop = s.stop
  pf : ∀ j, (s.comp j).pendingFinal = none → (s'.comp j).pendingFinal = none
  ran : ∀ j, (s'.comp j).ran = true → (s.comp j).ran = true ∨ spec wf j = own wf j
  ctrl : ∀ j, (s'.comp j).ctrl = (s.comp j).ctrl ∨
    ((s.comp j).ctrl = none ∧ (s'.comp j).ctrl = some (spec wf j) ∧ j ∈ wf.order)

theorem GStep.of_eq {wf : Wf} {s s' : St} (hc : s'.comp = s.comp) (hs : s'.stop = s.stop) : GStep wf s s' :=
  ⟨hs, fun j h => by rw [hc]; exact h, fun j h => by rw [hc] at h; exact Or.inl h, fun j => by rw [hc]; exact Or.inl rfl⟩

theorem GStep.trans {wf : Wf} {a b c : St} (h1 : GStep wf a b) (h2 : GStep wf b c) : GStep wf a c := by
  refine ⟨by rw [h2.stop, h1.stop], fun j h => h2.pf j (h1.pf j h), fun j h => ?_, fun j => ?_⟩
  · rcases h2.ran j h with h | h
    · exact h1.ran j h
    · exact Or.inr h
  · rcases h2.ctrl j with e2 | ⟨e2, e2', e2''⟩
    · rw [e2]; exact h1.ctrl j
    · rcases h1.ctrl j with e1 | ⟨e1, e1', _⟩
      · right; rw [← e1]; exact ⟨e2, e2', e2''⟩
      · rw [e1'] at e2; simp at e2

theorem GStep.good {wf : Wf} {s s' : St} (hG : Good wf s) (h : GStep wf s s') : Good wf s' := by
  refine ⟨by rw [h.stop]; exact hG.stop, fun j => h.pf j (hG.pf j), fun j f hf => ?_, fun j hr => ?_⟩
  · rcases h.ctrl j with e | ⟨_, e, _⟩
    · rw [e] at hf; exact hG.agree j f hf
    · rw [e] at hf; simp at hf; exact hf.symm
  · rcases h.ran j hr with e | e
    · exact hG.ranOwn j e
    · exact e

theorem GStep.inv2 {wf : Wf} (hwf : wf.WF) {s s' : St} (hG : Good wf s) (hN : NoFailed s)
    (h : GStep wf s s') : Inv2 wf s' := by
  by_cases hw : FailedWit wf s'
  · exact Or.inl hw
  · refine Or.inr ⟨h.good hG, fun j hj => ?_⟩
    rcases h.ctrl j with e | ⟨_, e, ho⟩
    · rw [e] at hj; exact hN j hj
    · rw [e] at hj
      simp only [Option.some.injEq] at hj
      exact hw ⟨j, hwf.order_lt j ho, hj, by rw [e, hj]⟩

theorem taskExitCore_gstep {wf : Wf} {s : St} (c : Nat) (hpf : (s.comp c).pendingFinal = none) :
    GStep wf s (taskExitCore wf s c) := by
  unfold taskExitCore
  dsimp only
  split
  · simp only [hpf]
    refine ⟨?_, fun j h => ?_, fun j h => ?_, fun j => ?_⟩
    · split <;> simp
    · split <;> simp <;> split <;> simp_all
    · left; revert h; split <;> simp <;> split <;> simp_all
    · left; split <;> simp <;> split <;> simp_all
  · exact GStep.of_eq rfl rfl

theorem taskExit_gstep {wf : Wf} {s : St} (c : Nat) (hpf : (s.comp c).pendingFinal = none) :
    GStep wf s (taskExit wf s c) := by
  unfold taskExit
  split
  · exact taskExitCore_gstep c hpf
  · exact GStep.of_eq rfl rfl

theorem finish_comp_pm {s : St} {c : Nat} {st : Fin3} (hc : (s.comp c).ctrl = none)
    (hex : (s.comp c).exit.isSome = true) (j : Nat) :
    (finish s c st).comp j = (if j = c then { s.comp j with finishCalled := true, ctrl := some st } else s.comp j)
      ∧ (finish s c st).stop = s.stop := by
  unfold finish
  simp only [hc, hex, Option.isSome_none, Bool.false_eq_true, if_false, if_true]
  split <;> simp

theorem deliverPM_gstep {wf : Wf} {s : St} (c : Nat) (hI : Inv wf none s) (hG : Good wf s) :
    GStep wf s (deliverPM wf s c) := by
  unfold deliverPM
  by_cases hp : Notif.pm c ∈ s.pending
  · simp only [hp, if_true]
    have hcI := hI.ci c
    split
    · exact GStep.of_eq rfl rfl
    · rename_i hfc
      have hfc : (s.comp c).finishCalled = false := by simpa using hfc
      have hct : (s.comp c).ctrl = none := by
        cases h : (s.comp c).ctrl with
        | none => rfl
        | some v => have := hcI.k0 (by simp [h]); simp [hfc] at this
      split
      · exact GStep.of_eq rfl rfl
      · rename_i r hex
        have hexs : (s.comp c).exit.isSome = true := by simp [hex]
        split
        · refine ⟨rfl, fun j h => ?_, fun j h => ?_, fun j => ?_⟩
          · simp only [upd_comp]; split <;> simp_all
          · left; revert h; simp only [upd_comp]; split <;> simp_all
          · left; simp only [upd_comp]; split <;> simp_all
        · rename_i hr
          have hs2 := hcI.s2 r hex hct
          simp only [afterPM, hr, Bool.false_eq_true, if_false] at hs2
          have hran := hcI.k9' hexs hct
          have hspec : finalOf (wf.cdef c) r = spec wf c := by rw [hs2, hG.ranOwn c hran]
          have hchar := fun j => finish_comp_pm (s := { s with pending := s.pending.erase (.pm c) })
            (st := finalOf (wf.cdef c) r) hct hexs j
          refine ⟨(hchar 0).2, fun j h => ?_, fun j h => ?_, fun j => ?_⟩
          · rw [(hchar j).1]; split <;> simp_all
          · left; rw [(hchar j).1] at h; revert h; split <;> simp_all
          · rw [(hchar j).1]
            by_cases hj : j = c
            · subst hj
              right
              exact ⟨hct, by simp [hspec], hcI.u (hcI.k9 hexs)⟩
            · left; simp [hj]
  · simp only [hp, if_false]; exact GStep.of_eq rfl rfl

end St4sd.C02L
