import St4sd.Model.ArgSubst
/-!
# C10 — lemmas about the text of a reference: `str(int)` round trip, `split('/', 1)`, `os.path.join`
-/
namespace St4sd.C10.Spell
open St4sd.Str St4sd.ArgSubst

/-! ## decimal digits -/

private def g (acc : Nat) (c : Char) : Nat := acc * 10 + (c.toNat - 48)

private theorem digit_toNat : ∀ d : Nat, d < 10 → (Char.ofNat (48 + d)).toNat - 48 = d
  | 0, _ => rfl | 1, _ => rfl | 2, _ => rfl | 3, _ => rfl | 4, _ => rfl
  | 5, _ => rfl | 6, _ => rfl | 7, _ => rfl | 8, _ => rfl | 9, _ => rfl
  | n + 10, h => absurd h (by omega)

private theorem digit_isDigit : ∀ d : Nat, d < 10 → isDigit (Char.ofNat (48 + d)) = true
  | 0, _ => by decide | 1, _ => by decide | 2, _ => by decide | 3, _ => by decide | 4, _ => by decide
  | 5, _ => by decide | 6, _ => by decide | 7, _ => by decide | 8, _ => by decide | 9, _ => by decide
  | n + 10, h => absurd h (by omega)

private theorem aux_foldl : ∀ (fuel n : Nat) (acc : S), n < fuel →
    (natToDigitsAux fuel n acc).foldl g 0 = acc.foldl g n := by
  intro fuel
  induction fuel with
  | zero => intro n acc h; omega
  | succ fuel ih =>
    intro n acc h
    unfold natToDigitsAux
    by_cases h10 : n < 10
    · simp only [h10, if_true, List.foldl_cons]
      have : g 0 (Char.ofNat (48 + n % 10)) = n := by
        unfold g; rw [digit_toNat _ (by omega)]; omega
      rw [this]
    · simp only [h10, if_false]
      rw [ih (n / 10) _ (by omega)]
      simp only [List.foldl_cons]
      have : g (n / 10) (Char.ofNat (48 + n % 10)) = n := by
        unfold g; rw [digit_toNat _ (by omega)]; omega
      rw [this]

private theorem aux_all : ∀ (fuel n : Nat) (acc : S), acc.all isDigit = true →
    (natToDigitsAux fuel n acc).all isDigit = true := by
  intro fuel
  induction fuel with
  | zero => intro n acc h; simpa [natToDigitsAux] using h
  | succ fuel ih =>
    intro n acc h
    unfold natToDigitsAux
    have hd : isDigit (Char.ofNat (48 + n % 10)) = true := digit_isDigit _ (by omega)
    by_cases h10 : n < 10
    · simp only [h10, if_true, List.all_cons, hd, h, Bool.and_self]
    · simp only [h10, if_false]
      exact ih _ _ (by simp only [List.all_cons, hd, h, Bool.and_self])

private theorem aux_ne : ∀ (fuel n : Nat) (acc : S), acc ≠ [] → natToDigitsAux fuel n acc ≠ [] := by
  intro fuel
  induction fuel with
  | zero => intro n acc h; simpa [natToDigitsAux] using h
  | succ fuel ih =>
    intro n acc _
    unfold natToDigitsAux
    by_cases h10 : n < 10
    · simp [h10]
    · simp only [h10, if_false]
      exact ih _ _ (by simp)

theorem natToDigits_all (n : Nat) : (natToDigits n).all isDigit = true :=
  aux_all _ _ _ (by simp)

theorem natToDigits_ne (n : Nat) : natToDigits n ≠ [] := by
  unfold natToDigits natToDigitsAux
  by_cases h10 : n < 10
  · simp [h10]
  · simp only [h10, if_false]
    exact aux_ne _ _ _ (by simp)

/-- `int(str(n)) = n` on naturals -/
theorem digitsToNat_natToDigits (n : Nat) : digitsToNat? (natToDigits n) = some n := by
  unfold digitsToNat?
  have h1 := natToDigits_all n
  have h2 := natToDigits_ne n
  have h3 : (natToDigits n).isEmpty = false := by
    cases h : natToDigits n with
    | nil => exact absurd h h2
    | cons _ _ => rfl
  simp only [h3, h1, Bool.not_true, Bool.or_self, Bool.false_eq_true, if_false]
  have := aux_foldl (n + 1) n [] (by omega)
  simp only [List.foldl_nil] at this
  unfold natToDigits
  exact congrArg some this

/-! ## `split(c, 1)` -/

theorem splitFirst_none_iff (c : Char) (s : S) : splitFirst c s = none ↔ c ∉ s := by
  induction s with
  | nil => simp [splitFirst]
  | cons d t ih =>
    unfold splitFirst
    by_cases h : (d == c) = true
    · simp only [h, if_true]
      have : d = c := by simpa using h
      simp [this]
    · simp only [h]
      have hne : d ≠ c := by simpa using h
      cases hs : splitFirst c t with
      | none =>
        have := ih.mp hs
        simp [this, Ne.symm hne]
      | some p =>
        obtain ⟨a, b⟩ := p
        have : ¬ (c ∉ t) := fun hc => by rw [ih.mpr hc] at hs; cases hs
        have hmem : c ∈ t := Classical.not_not.mp this
        simp [hmem]

/-- the two pieces are the text around the FIRST occurrence -/
theorem splitFirst_some (c : Char) : ∀ (s a b : S), splitFirst c s = some (a, b) → s = a ++ c :: b ∧ c ∉ a := by
  intro s
  induction s with
  | nil => intro a b h; simp [splitFirst] at h
  | cons d t ih =>
    intro a b h
    unfold splitFirst at h
    by_cases hd : (d == c) = true
    · simp only [hd, if_true, Option.some.injEq, Prod.mk.injEq] at h
      have : d = c := by simpa using hd
      obtain ⟨rfl, rfl⟩ := h
      simp [this]
    · simp only [hd] at h
      have hne : d ≠ c := by simpa using hd
      cases hs : splitFirst c t with
      | none => rw [hs] at h; cases h
      | some p =>
        obtain ⟨a', b'⟩ := p
        rw [hs] at h
        obtain ⟨h1, h2⟩ := ih a' b' hs
        have h' : d :: a' = a ∧ b' = b := by simpa using h
        obtain ⟨ha, hb⟩ := h'
        rw [← ha, ← hb]
        refine ⟨by rw [h1]; simp, ?_⟩
        simp [h2, Ne.symm hne]

/-- splitting a text that was put together around a separator-free first piece gives the pieces back -/
theorem splitFirst_append (c : Char) (a b : S) (h : c ∉ a) : splitFirst c (a ++ c :: b) = some (a, b) := by
  induction a with
  | nil => simp [splitFirst]
  | cons d t ih =>
    have hd : d ≠ c := fun e => h (by simp [e])
    have ht : c ∉ t := fun e => h (by simp [e])
    simp only [List.cons_append, splitFirst]
    have : (d == c) = false := by simpa using hd
    simp [this, ih ht]

/-! ## `os.path.join` -/

theorem getLast?_ne_of_not_mem {c : Char} {a : S} (h : c ∉ a) : a.getLast? ≠ some c := by
  intro e
  exact h (List.mem_of_getLast? e)

/-- a non-empty base without trailing separator and a relative second part: one separator in between —
also when the second part is EMPTY -/
theorem pjoin_rel (a b : S) (ha : a ≠ []) (hl : a.getLast? ≠ some '/') (hb : b.head? ≠ some '/') :
    pjoin a b = a ++ '/' :: b := by
  unfold pjoin
  have h1 : a.isEmpty = false := by cases a with
    | nil => exact absurd rfl ha
    | cons _ _ => rfl
  simp [hb, h1, hl]

end St4sd.C10.Spell
