import St4sd.Model.Resolve
/-!
# Helper lemmas for C04 / C08: association lists, `override`, `update`
-/
namespace St4sd.Tree
open St4sd.Str

theorem get_append (a b : Fields) (k : S) :
    get (a ++ b) k = match get a k with | some v => some v | none => get b k := by
  induction a with
  | nil => simp [get]
  | cons h t ih =>
    obtain ⟨k', v⟩ := h
    simp only [List.cons_append, get]
    split <;> simp_all

theorem get_filter_absent (a b : Fields) (k : S) :
    get (b.filter (fun kv => (get a kv.1).isNone)) k = if (get a k).isNone then get b k else none := by
  induction b with
  | nil => simp [get]
  | cons h t ih =>
    obtain ⟨k', v⟩ := h
    simp only [List.filter]
    by_cases hk : k' = k
    · subst hk
      cases hg : get a k' <;> simp [get, hg, ih]
    · cases hg : get a k' <;> simp [get, ih, hk]

theorem get_overrideFields (a b : Fields) (k : S) :
    get (overrideFields a b) k =
      match get a k with
      | none => none
      | some x => some (match get b k with | some y => override x y | none => x) := by
  induction a with
  | nil => simp [overrideFields, get]
  | cons h t ih =>
    obtain ⟨k', v⟩ := h
    simp only [overrideFields, get]
    by_cases hk : k' = k
    · subst hk; simp; cases get b k' <;> rfl
    · simp [hk, ih]

/-- one key of `override_object` on two dictionaries -/
theorem get_override_dict (a b : Fields) (k : S) :
    get (overrideFields a b ++ b.filter (fun kv => (get a kv.1).isNone)) k =
      match get a k, get b k with
      | some x, some y => some (override x y)
      | some x, none => some x
      | none, y => y := by
  rw [get_append, get_overrideFields, get_filter_absent]
  cases get a k <;> cases get b k <;> simp

theorem get_update (a b : Fields) (k : S) :
    get (update a b) k = match get b k with | some v => some v | none => get a k := by
  unfold update
  rw [get_append]
  have : get (a.filter (fun kv => (get b kv.1).isNone)) k = if (get b k).isNone then get a k else none :=
    get_filter_absent b a k
  rw [this]
  cases get b k <;> cases get a k <;> simp

end St4sd.Tree
