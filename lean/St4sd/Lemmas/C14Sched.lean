import St4sd.Lemmas.C14Conc
/-! Helper lemmas for C14: every schedule of n protocol-following updates is accepted by the protocol checker. -/
namespace St4sd.FsConc
open St4sd.FsAtomic (Path Content flatten)

theorem flatten_take_succ (l : List Content) : ∀ (k : Nat) (h : k < l.length),
    flatten (l.take (k + 1)) = flatten (l.take k) ++ l[k] := by
  induction l with
  | nil => intro k h; simp at h
  | cons c cs ih =>
    intro k h
    cases k with
    | zero => simp [flatten]
    | succ k =>
      simp only [List.take_succ_cons, flatten, List.getElem_cons_succ]
      rw [ih k (by simpa using h), List.append_assoc]

theorem prog_get_zero (t : Path) (w : Nat) (u : Upd) : (prog t w u)[0]? = some (.openW w u.tmp) := rfl

theorem prog_get_write (t : Path) (w : Nat) (u : Upd) (k : Nat) (h : k < u.chunks.length) :
    (prog t w u)[k + 1]? = some (.write w u.chunks[k]) := by
  simp [prog, List.getElem?_append, h]

theorem prog_get_close (t : Path) (w : Nat) (u : Upd) :
    (prog t w u)[u.chunks.length + 1]? = some (.close w) := by
  simp [prog]

theorem prog_get_rename (t : Path) (w : Nat) (u : Upd) :
    (prog t w u)[u.chunks.length + 2]? = some (.rename u.tmp t) := by
  simp [prog]

theorem prog_get_none (t : Path) (w : Nat) (u : Upd) (k : Nat) (h : u.chunks.length + 3 ≤ k) :
    (prog t w u)[k]? = none := by
  apply List.getElem?_eq_none
  simp [prog]; omega

/-- relation between the program counters of the updates and the state of the protocol checker -/
structure Rel (us : List Upd) (pc : Nat → Nat) (c : Chk) : Prop where
  sess : ∀ x ∈ c.sess, ∃ u, us[x.w]? = some u ∧ x.p = u.tmp ∧ 1 ≤ pc x.w ∧ pc x.w ≤ u.chunks.length + 2 ∧
    x.isOpen = decide (pc x.w ≤ u.chunks.length + 1) ∧ x.buf = flatten (u.chunks.take (pc x.w - 1))
  live : ∀ w u, us[w]? = some u → 1 ≤ pc w → pc w ≤ u.chunks.length + 2 → ∃ x ∈ c.sess, x.w = w
  inst : ∀ v ∈ c.installed, ∃ u ∈ us, v = flatten u.chunks

theorem rel_step (t : Path) (us : List Upd) (hd : DistinctTmps t us) (pc : Nat → Nat) (c : Chk) (w : Nat) (u : Upd)
    (e : Ev) (rel : Rel us pc c) (hu : us[w]? = some u) (he : (prog t w u)[pc w]? = some e) :
    ∃ c1, chkStep t c e = some c1 ∧ Rel us (upd pc w (pc w + 1)) c1 := by
  have hcases : pc w = 0 ∨ (∃ k, k < u.chunks.length ∧ pc w = k + 1) ∨ pc w = u.chunks.length + 1 ∨
      pc w = u.chunks.length + 2 ∨ u.chunks.length + 3 ≤ pc w := by
    by_cases h0 : pc w = 0
    · exact Or.inl h0
    · by_cases h1 : pc w ≤ u.chunks.length
      · exact Or.inr (Or.inl ⟨pc w - 1, by omega, by omega⟩)
      · omega
  -- facts about sessions of `w` and of the other updates
  have hsw : ∀ x ∈ c.sess, x.w = w → x.p = u.tmp ∧ x.isOpen = decide (pc w ≤ u.chunks.length + 1) ∧
      x.buf = flatten (u.chunks.take (pc w - 1)) ∧ 1 ≤ pc w := by
    intro x hx e
    obtain ⟨u', h1, h2, h3, _, h5, h6⟩ := rel.sess x hx
    rw [e, hu] at h1
    injection h1 with h1
    subst h1
    rw [e] at h3 h5 h6
    exact ⟨h2, h5, h6, h3⟩
  have hso : ∀ x ∈ c.sess, x.w ≠ w → x.p ≠ u.tmp ∧ x.p ≠ t := by
    intro x hx hne
    obtain ⟨u', h1, h2, _⟩ := rel.sess x hx
    refine ⟨fun e => hne (hd.ne _ _ _ _ h1 hu (h2 ▸ e)), h2 ▸ hd.notT _ _ h1⟩
  have hpt : ∀ x ∈ c.sess, x.p ≠ t := by
    intro x hx
    obtain ⟨u', h1, h2, _⟩ := rel.sess x hx
    exact h2 ▸ hd.notT _ _ h1
  have hother : ∀ (c1 : Chk), (∀ y ∈ c1.sess, y.w ≠ w → y ∈ c.sess) → ∀ y ∈ c1.sess, y.w ≠ w →
      ∃ u, us[y.w]? = some u ∧ y.p = u.tmp ∧ 1 ≤ upd pc w (pc w + 1) y.w ∧
        upd pc w (pc w + 1) y.w ≤ u.chunks.length + 2 ∧
        y.isOpen = decide (upd pc w (pc w + 1) y.w ≤ u.chunks.length + 1) ∧
        y.buf = flatten (u.chunks.take (upd pc w (pc w + 1) y.w - 1)) := by
    intro c1 hsub y hy hne
    rw [upd_other _ _ _ _ hne]
    exact rel.sess y (hsub y hy hne)
  rcases hcases with h0 | ⟨k, hk, hpk⟩ | hcl | hrn | hend
  · -- open
    rw [h0, prog_get_zero] at he
    injection he with he
    subst he
    have hall : ∀ x ∈ c.sess, x.w ≠ w ∧ x.p ≠ u.tmp := by
      intro x hx
      have hne : x.w ≠ w := fun e => by have := (hsw x hx e).2.2.2; omega
      exact ⟨hne, (hso x hx hne).1⟩
    refine ⟨{ c with sess := ⟨w, u.tmp, true, []⟩ :: c.sess }, ?_, ?_, ?_, rel.inst⟩
    · simp only [chkStep]
      rw [if_pos]
      simp only [Bool.and_eq_true, bne_iff_ne, ne_eq, List.all_eq_true]
      exact ⟨hd.notT _ _ hu, fun x hx => hall x hx⟩
    · intro y hy
      by_cases hyw : y.w = w
      · rcases List.mem_cons.1 hy with hy | hy
        · subst hy
          refine ⟨u, hu, rfl, ?_⟩
          show 1 ≤ upd pc w (pc w + 1) w ∧ _
          rw [upd_same, h0]
          simp [flatten]
        · exact absurd hyw (hall y hy).1
      · refine hother { c with sess := ⟨w, u.tmp, true, []⟩ :: c.sess } ?_ y hy hyw
        intro z hz hzw
        rcases List.mem_cons.1 hz with hz | hz
        · subst hz; exact absurd rfl hzw
        · exact hz
    · intro w' u' hu' h1 h2
      by_cases hww : w' = w
      · subst hww
        exact ⟨_, List.mem_cons_self, rfl⟩
      · rw [upd_other _ _ _ _ hww] at h1 h2
        obtain ⟨x, hx, hxw⟩ := rel.live w' u' hu' h1 h2
        exact ⟨x, List.mem_cons_of_mem _ hx, hxw⟩
  · -- write
    rw [hpk, prog_get_write _ _ _ _ hk] at he
    injection he with he
    subst he
    obtain ⟨x0, hx0, hxw0⟩ := rel.live w u hu (by omega) (by omega)
    obtain ⟨_, ho0, _, _⟩ := hsw x0 hx0 hxw0
    refine ⟨{ c with sess := c.sess.map (addBuf w u.chunks[k]) }, ?_, ?_, ?_, rel.inst⟩
    · simp only [chkStep]
      rw [if_pos]
      · rfl
      · simp only [List.any_eq_true, Bool.and_eq_true, beq_iff_eq]
        exact ⟨x0, hx0, hxw0, by rw [ho0]; simp; omega⟩
    · intro y hy
      obtain ⟨x, hx, rfl⟩ := List.mem_map.1 hy
      by_cases hxw : x.w = w
      · obtain ⟨h1, h2, h3, _⟩ := hsw x hx hxw
        refine ⟨u, by rw [addBuf_w, hxw, hu], by rw [addBuf_p, h1], ?_⟩
        rw [addBuf_w, hxw, upd_same, addBuf_isOpen, addBuf_buf _ _ _ hxw, h2, h3, hpk]
        refine ⟨by omega, by omega, ?_, ?_⟩
        · simp; omega
        · simp only [Nat.add_sub_cancel]
          rw [flatten_take_succ _ _ hk]
      · rw [addBuf_ne _ _ _ hxw]
        refine hother ⟨c.sess, c.installed⟩ (fun z hz _ => hz) x hx hxw
    · intro w' u' hu' h1 h2
      by_cases hww : w' = w
      · subst hww
        exact ⟨_, List.mem_map.2 ⟨x0, hx0, rfl⟩, by rw [addBuf_w, hxw0]⟩
      · rw [upd_other _ _ _ _ hww] at h1 h2
        obtain ⟨x, hx, hxw⟩ := rel.live w' u' hu' h1 h2
        exact ⟨_, List.mem_map.2 ⟨x, hx, rfl⟩, by rw [addBuf_w, hxw]⟩
  · -- close
    rw [hcl, prog_get_close] at he
    injection he with he
    subst he
    obtain ⟨x0, hx0, hxw0⟩ := rel.live w u hu (by omega) (by omega)
    obtain ⟨_, ho0, _, _⟩ := hsw x0 hx0 hxw0
    refine ⟨{ c with sess := c.sess.map (closeS w) }, ?_, ?_, ?_, rel.inst⟩
    · simp only [chkStep]
      rw [if_pos]
      · rfl
      · simp only [List.any_eq_true, Bool.and_eq_true, beq_iff_eq]
        exact ⟨x0, hx0, hxw0, by rw [ho0]; simp; omega⟩
    · intro y hy
      obtain ⟨x, hx, rfl⟩ := List.mem_map.1 hy
      by_cases hxw : x.w = w
      · obtain ⟨h1, h2, h3, _⟩ := hsw x hx hxw
        refine ⟨u, by rw [closeS_w, hxw, hu], by rw [closeS_p, h1], ?_⟩
        rw [closeS_w, hxw, upd_same, closeS_isOpen _ _ hxw, closeS_buf, h3, hcl]
        refine ⟨by omega, by omega, by simp, ?_⟩
        simp only [Nat.add_sub_cancel]
        rw [List.take_of_length_le (Nat.le_refl _), List.take_of_length_le (Nat.le_succ _)]
      · rw [closeS_ne _ _ hxw]
        refine hother ⟨c.sess, c.installed⟩ (fun z hz _ => hz) x hx hxw
    · intro w' u' hu' h1 h2
      by_cases hww : w' = w
      · subst hww
        exact ⟨_, List.mem_map.2 ⟨x0, hx0, rfl⟩, by rw [closeS_w, hxw0]⟩
      · rw [upd_other _ _ _ _ hww] at h1 h2
        obtain ⟨x, hx, hxw⟩ := rel.live w' u' hu' h1 h2
        exact ⟨_, List.mem_map.2 ⟨x, hx, rfl⟩, by rw [closeS_w, hxw]⟩
  · -- rename
    rw [hrn, prog_get_rename] at he
    injection he with he
    subst he
    obtain ⟨x0, hx0, hxw0⟩ := rel.live w u hu (by omega) (by omega)
    have hfind : ∃ x1, c.sess.find? (fun x => x.p == u.tmp) = some x1 := by
      cases hf : c.sess.find? (fun x => x.p == u.tmp) with
      | some x1 => exact ⟨x1, rfl⟩
      | none =>
        have := List.find?_eq_none.1 hf x0 hx0
        simp [(hsw x0 hx0 hxw0).1] at this
    obtain ⟨x1, hf1⟩ := hfind
    have hx1 : x1 ∈ c.sess := List.mem_of_find?_eq_some hf1
    have hp1 : x1.p = u.tmp := by simpa using List.find?_some hf1
    have hw1 : x1.w = w := by
      apply Classical.byContradiction
      intro hne
      exact (hso x1 hx1 hne).1 hp1
    have hb1 : x1.buf = flatten u.chunks := by
      rw [(hsw x1 hx1 hw1).2.2.1, hrn]
      show flatten (List.take (u.chunks.length + 2 - 1) u.chunks) = _
      rw [List.take_of_length_le (by omega)]
    refine ⟨⟨c.sess.filter (fun y => y.p != u.tmp), x1.buf :: c.installed⟩, ?_, ?_, ?_, ?_⟩
    · simp only [chkStep]
      rw [if_pos]
      · simp [hf1]
      · simp only [Bool.and_eq_true, bne_iff_ne, ne_eq, List.all_eq_true, Bool.or_eq_true, Bool.not_eq_true',
          beq_iff_eq]
        refine ⟨hd.notT _ _ hu, ?_⟩
        intro x hx
        refine ⟨?_, Or.inl (hpt x hx)⟩
        by_cases hxw : x.w = w
        · right
          rw [(hsw x hx hxw).2.1, hrn]
          simp
        · exact Or.inl (hso x hx hxw).1
    · intro y hy
      obtain ⟨hy1, hy2⟩ := List.mem_filter.1 hy
      have hyw : y.w ≠ w := fun e => by simp [(hsw y hy1 e).1] at hy2
      exact hother ⟨c.sess, c.installed⟩ (fun z hz _ => hz) y hy1 hyw
    · intro w' u' hu' h1 h2
      by_cases hww : w' = w
      · rw [hww, hu] at hu'
        injection hu' with hu'
        subst hu'
        rw [hww, upd_same] at h2
        omega
      · rw [upd_other _ _ _ _ hww] at h1 h2
        obtain ⟨x, hx, hxw⟩ := rel.live w' u' hu' h1 h2
        refine ⟨x, List.mem_filter.2 ⟨hx, ?_⟩, hxw⟩
        have := (hso x hx (by rw [hxw]; exact hww)).1
        simpa using this
    · intro v hv
      rcases List.mem_cons.1 hv with hv | hv
      · exact ⟨u, List.mem_of_getElem? hu, hv.trans hb1⟩
      · exact rel.inst v hv
  · rw [prog_get_none _ _ _ _ hend] at he
    exact absurd he (by simp)

theorem interleave_accepted (t : Path) (us : List Upd) (hd : DistinctTmps t us) (sched : List Nat) :
    ∀ (pc : Nat → Nat) (c : Chk), Rel us pc c →
      ∃ c', chkRun t c (interleave t us pc sched) = some c' ∧ ∀ v ∈ c'.installed, ∃ u ∈ us, v = flatten u.chunks := by
  induction sched with
  | nil => intro pc c rel; exact ⟨c, rfl, rel.inst⟩
  | cons w s ih =>
    intro pc c rel
    cases hu : us[w]? with
    | none => simp only [interleave, hu]; exact ih pc c rel
    | some u =>
      cases he : (prog t w u)[pc w]? with
      | none => simp only [interleave, hu, he]; exact ih pc c rel
      | some e =>
        simp only [interleave, hu, he]
        obtain ⟨c1, h1, rel1⟩ := rel_step t us hd pc c w u e rel hu he
        obtain ⟨c', h2, h3⟩ := ih _ c1 rel1
        exact ⟨c', by simp only [chkRun, h1, h2], h3⟩

theorem rel_init (us : List Upd) : Rel us (fun _ => 0) chk0 where
  sess := by intro x hx; simp [chk0] at hx
  live := by intro w u _ h; simp at h
  inst := by intro v hv; simp [chk0] at hv

theorem distinctTmps_of_nodup (t : Path) (us : List Upd) (h1 : (us.map Upd.tmp).Nodup) (h2 : ∀ u ∈ us, u.tmp ≠ t) :
    DistinctTmps t us where
  ne := by
    intro i j ui uj hi hj e
    have hi' : (us.map Upd.tmp)[i]? = some ui.tmp := by simp [hi]
    have hj' : (us.map Upd.tmp)[j]? = some uj.tmp := by simp [hj]
    obtain ⟨hli, hi2⟩ := List.getElem?_eq_some_iff.1 hi'
    obtain ⟨hlj, hj2⟩ := List.getElem?_eq_some_iff.1 hj'
    exact (List.getElem_inj (h₀ := hli) (h₁ := hlj) h1).1 (by rw [hi2, hj2, e])
  notT := fun i ui hi => h2 ui (List.mem_of_getElem? hi)

end St4sd.FsConc
