import St4sd.Model.CtrlLoop
/-!
State invariant of `St4sd.CtrlLoop.step` (consumer of a DoWhile loop) and its preservation.
-/
namespace St4sd.C01Loop
open St4sd.CtrlLoop

theorem ready_spec {L : Loop} {s : LS} (h : ready L s = true) :
    (∀ k, k ≤ s.cur → (∀ n ∈ L.refs, n < L.n → s.ph k n = 3) ∧ s.ph k L.cond = 3) ∧ s.ph s.cur L.cond = 3 := by
  simp only [ready, Bool.and_eq_true, List.all_eq_true, List.mem_range, decide_eq_true_eq] at h
  exact ⟨fun k hk => h k (by omega), (h s.cur (by omega)).2⟩

structure Inv (L : Loop) (s : LS) : Prop where
  /-- iterations that were not instantiated have no history -/
  fresh : ∀ k n, s.cur < k → s.ph k n = 0
  /-- after the launch of the consumer: the loop is where it was at the launch, the producer of its condition is in
  `comp_done`, and the launch saw every instance of every referenced looped component and of the producer of the
  condition in `comp_done` -/
  launch : ∀ c lp, s.launched = some (c, lp) →
    c = s.cur ∧ s.ph s.cur L.cond = 3 ∧
      (∀ k, k ≤ c → (∀ n ∈ L.refs, n < L.n → lp k n = 3) ∧ lp k L.cond = 3)

theorem inv_init (L : Loop) (script : List Bool) : Inv L (init script) :=
  ⟨fun _ _ _ => rfl, fun _ _ h => by simp [init] at h⟩

theorem setPh_other {ph : Nat → Nat → Nat} {k n v k' n' : Nat} (h : ¬ (k' = k ∧ n' = n)) :
    setPh ph k n v k' n' = ph k' n' := by simp [setPh, h]

theorem setPh_val (ph : Nat → Nat → Nat) (k n v k' n' : Nat) :
    setPh ph k n v k' n' = v ∨ setPh ph k n v k' n' = ph k' n' := by
  unfold setPh; split <;> simp

theorem inv_step (L : Loop) (s : LS) (op : Op) (h : Inv L s) : Inv L (step L s op) := by
  cases op with
  | exit k n =>
    simp only [step, stepWith]
    split
    · rename_i g
      refine ⟨fun k' n' hk => ?_, fun c lp hl => ?_⟩
      · dsimp only at hk ⊢
        have : ¬ (k' = k ∧ n' = n) := by intro e; have := g.1; omega
        simp only [setPh_other this]; exact h.fresh k' n' hk
      · dsimp only at hl ⊢
        obtain ⟨h1, h2, h3⟩ := h.launch c lp hl
        refine ⟨h1, ?_, h3⟩
        have : ¬ (s.cur = k ∧ L.cond = n) := by
          intro e; have := g.2.2; rw [← e.1, ← e.2, h2] at this; omega
        simp only [setPh_other this]; exact h2
    · exact h
  | post k n =>
    simp only [step, stepWith]
    split
    · rename_i g
      refine ⟨fun k' n' hk => ?_, fun c lp hl => ?_⟩
      · dsimp only at hk ⊢
        have : ¬ (k' = k ∧ n' = n) := by intro e; have := g.1; omega
        simp only [setPh_other this]; exact h.fresh k' n' hk
      · dsimp only at hl ⊢
        obtain ⟨h1, h2, h3⟩ := h.launch c lp hl
        refine ⟨h1, ?_, h3⟩
        rcases setPh_val s.ph k n 3 s.cur L.cond with e | e
        · exact e
        · rw [e]; exact h2
    · exact h
  | sched =>
    simp only [step, stepWith]
    split
    · rename_i g
      refine ⟨h.fresh, fun c lp hl => ?_⟩
      dsimp only at hl ⊢
      simp only [Option.some.injEq, Prod.mk.injEq] at hl
      obtain ⟨rfl, rfl⟩ := hl
      have r := ready_spec g.2
      exact ⟨rfl, r.2, r.1⟩
    · exact h
  | crit k n ok =>
    simp only [step, stepWith]
    split
    · rename_i g
      have notCond : ∀ c lp, s.launched = some (c, lp) → ¬ (s.cur = k ∧ L.cond = n) := by
        intro c lp hl e
        have h2 := (h.launch c lp hl).2.1
        have := g.2.2; rw [← e.1, ← e.2, h2] at this; omega
      have fresh' : ∀ k' n', s.cur < k' → setPh s.ph k n 2 k' n' = 0 := by
        intro k' n' hk
        have : ¬ (k' = k ∧ n' = n) := by intro e; have := g.1; omega
        simp only [setPh_other this]; exact h.fresh k' n' hk
      have keep : Inv L { s with ph := setPh s.ph k n 2 } := by
        refine ⟨fresh', fun c lp hl => ?_⟩
        obtain ⟨h1, h2, h3⟩ := h.launch c lp hl
        refine ⟨h1, ?_, h3⟩
        show setPh s.ph k n 2 s.cur L.cond = 3
        simp only [setPh_other (notCond c lp hl)]; exact h2
      split
      · rename_i gc
        have noLaunch : ∀ c lp, s.launched = some (c, lp) → False :=
          fun c lp hl => notCond c lp hl ⟨gc.1.symm, gc.2.symm⟩
        split
        · exact keep
        · split
          · refine ⟨fun k' n' hk => fresh' k' n' (by dsimp only at hk; omega), fun c lp hl => ?_⟩
            exact (noLaunch c lp hl).elim
          · refine ⟨fresh', fun c lp hl => ?_⟩
            exact (noLaunch c lp hl).elim
      · exact keep
    · exact h

theorem inv_run (L : Loop) (script : List Bool) (ops : List Op) : Inv L (run L script ops) := by
  unfold run
  suffices ∀ s, Inv L s → Inv L (ops.foldl (step L) s) from this _ (inv_init L script)
  induction ops with
  | nil => intro s h; exact h
  | cons op rest ih => intro s h; exact ih _ (inv_step L s op h)

/-- the launch record never changes once written -/
theorem launched_step (L : Loop) (s : LS) (op : Op) (v : Nat × (Nat → Nat → Nat))
    (h : s.launched = some v) : (step L s op).launched = some v := by
  cases op <;> simp only [step, stepWith] <;> (repeat' split) <;> simp_all

theorem launched_foldl (L : Loop) (ops : List Op) (s : LS) (v : Nat × (Nat → Nat → Nat))
    (h : s.launched = some v) : (ops.foldl (step L) s).launched = some v := by
  induction ops generalizing s with
  | nil => exact h
  | cons op rest ih => exact ih _ (launched_step L s op v h)

end St4sd.C01Loop
