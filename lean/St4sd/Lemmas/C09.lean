import St4sd.Model.Ref
/-!
Helper lemmas for C09: facts about `splitFirst`, `splitColon2`, `natToDigits`, `stageMatch`,
`posixSplit` and the parse of a reference that starts with a canonical stage prefix.
-/
namespace St4sd.Ref
open St4sd.Str

/-! ### splitFirst -/

theorem splitFirst_none_iff (c : Char) (s : S) : splitFirst c s = none ↔ c ∉ s := by
  induction s with
  | nil => simp [splitFirst]
  | cons d s ih =>
    by_cases h : d = c
    · subst h; simp [splitFirst]
    · have h' : ¬ c = d := fun e => h e.symm
      cases hs : splitFirst c s with
      | none => simp [splitFirst, h, hs, h', ih.mp hs]
      | some ab =>
        have : c ∈ s := Decidable.byContradiction fun hc => by
          rw [ih.mpr hc] at hs; cases hs
        simp [splitFirst, h, hs, this]

theorem splitFirst_some (c : Char) (s a b : S) (h : splitFirst c s = some (a, b)) :
    s = a ++ c :: b ∧ c ∉ a := by
  induction s generalizing a b with
  | nil => simp [splitFirst] at h
  | cons d s ih =>
    by_cases hd : d = c
    · subst hd
      simp [splitFirst] at h
      obtain ⟨rfl, rfl⟩ := h
      simp
    · cases hs : splitFirst c s with
      | none => simp [splitFirst, hd, hs] at h
      | some ab =>
        obtain ⟨a', b'⟩ := ab
        simp [splitFirst, hd, hs] at h
        obtain ⟨rfl, rfl⟩ := h
        obtain ⟨h1, h2⟩ := ih a' b' hs
        refine ⟨by rw [h1]; simp, ?_⟩
        simp only [List.mem_cons, not_or]
        exact ⟨fun e => hd e.symm, h2⟩

theorem splitFirst_append_left (c : Char) (pre s : S) (h : c ∉ pre) :
    splitFirst c (pre ++ s) = (splitFirst c s).map (fun ab => (pre ++ ab.1, ab.2)) := by
  induction pre with
  | nil => simp only [List.nil_append]; cases splitFirst c s <;> simp
  | cons d pre ih =>
    simp only [List.mem_cons, not_or] at h
    have hd : ¬ d = c := fun e => h.1 e.symm
    simp only [List.cons_append, splitFirst, beq_iff_eq, hd, if_false, ih h.2]
    cases splitFirst c s <;> simp

theorem splitFirst_mk (c : Char) (a b : S) (h : c ∉ a) : splitFirst c (a ++ c :: b) = some (a, b) := by
  rw [splitFirst_append_left c a _ h]; simp [splitFirst]

/-! ### splitColon2 -/

theorem contains_false_iff (c : Char) (s : S) : s.contains c = false ↔ c ∉ s := by
  simp

theorem splitColon2_mk (x m : S) (hx : ':' ∉ x) (hm : ':' ∉ m) : splitColon2 (x ++ ':' :: m) = some (x, m) := by
  simp [splitColon2, splitFirst_mk ':' x m hx, hm]

theorem splitColon2_some (s x m : S) (h : splitColon2 s = some (x, m)) :
    s = x ++ ':' :: m ∧ ':' ∉ x ∧ ':' ∉ m := by
  unfold splitColon2 at h
  split at h
  · cases h
  · rename_i a b hs
    split at h
    · cases h
    · rename_i hb
      simp only [Option.some.injEq, Prod.mk.injEq] at h
      obtain ⟨rfl, rfl⟩ := h
      obtain ⟨h1, h2⟩ := splitFirst_some ':' s _ _ hs
      refine ⟨h1, h2, ?_⟩
      simpa using hb

/-! ### digits -/

theorem digitChar_isDigit (d : Nat) (h : d < 10) : isDigit (Char.ofNat (48 + d)) = true := by
  have : d = 0 ∨ d = 1 ∨ d = 2 ∨ d = 3 ∨ d = 4 ∨ d = 5 ∨ d = 6 ∨ d = 7 ∨ d = 8 ∨ d = 9 := by omega
  rcases this with h | h | h | h | h | h | h | h | h | h <;> subst h <;> decide

theorem digitChar_val (d : Nat) (h : d < 10) : (Char.ofNat (48 + d)).toNat - 48 = d := by
  have : d = 0 ∨ d = 1 ∨ d = 2 ∨ d = 3 ∨ d = 4 ∨ d = 5 ∨ d = 6 ∨ d = 7 ∨ d = 8 ∨ d = 9 := by omega
  rcases this with h | h | h | h | h | h | h | h | h | h <;> subst h <;> decide

theorem natToDigitsAux_all (fuel n : Nat) (acc : S) (hacc : ∀ c ∈ acc, isDigit c = true) :
    ∀ c ∈ natToDigitsAux fuel n acc, isDigit c = true := by
  induction fuel generalizing n acc with
  | zero => simpa [natToDigitsAux] using hacc
  | succ fuel ih =>
    have hd : isDigit (Char.ofNat (48 + n % 10)) = true := digitChar_isDigit _ (Nat.mod_lt _ (by decide))
    have hacc' : ∀ c ∈ Char.ofNat (48 + n % 10) :: acc, isDigit c = true := by
      intro c hc
      rcases List.mem_cons.mp hc with rfl | hc
      · exact hd
      · exact hacc c hc
    simp only [natToDigitsAux]
    split
    · exact hacc'
    · exact ih _ _ hacc'

theorem natToDigits_all (n : Nat) : ∀ c ∈ natToDigits n, isDigit c = true :=
  natToDigitsAux_all _ _ [] (by simp)

theorem natToDigitsAux_ne_nil (fuel n : Nat) (acc : S) (h : 0 < fuel) : natToDigitsAux fuel n acc ≠ [] := by
  induction fuel generalizing n acc with
  | zero => omega
  | succ fuel ih =>
    simp only [natToDigitsAux]
    split
    · simp
    · rename_i hn
      cases fuel with
      | zero => simp [natToDigitsAux]
      | succ f => exact ih _ _ (by omega)

theorem natToDigits_ne_nil (n : Nat) : natToDigits n ≠ [] := natToDigitsAux_ne_nil _ _ _ (by omega)

private def dstep (acc : Nat) (c : Char) : Nat := acc * 10 + (c.toNat - 48)

theorem natToDigitsAux_val (fuel n : Nat) (acc : S) (h : n < fuel) :
    (natToDigitsAux fuel n acc).foldl dstep 0 = acc.foldl dstep n := by
  induction fuel generalizing n acc with
  | zero => omega
  | succ fuel ih =>
    simp only [natToDigitsAux]
    split
    · rename_i hn
      simp only [List.foldl_cons, dstep, Nat.zero_mul, Nat.zero_add]
      rw [digitChar_val _ (Nat.mod_lt _ (by decide)), Nat.mod_eq_of_lt hn]
    · rename_i hn
      rw [ih (n / 10) _ (by omega)]
      simp only [List.foldl_cons, dstep]
      rw [digitChar_val _ (Nat.mod_lt _ (by decide))]
      congr 1
      omega

theorem digitsVal_natToDigits (n : Nat) : digitsVal (natToDigits n) = n := by
  have h0 : digitsVal (natToDigits n) = (natToDigitsAux (n + 1) n []).foldl dstep 0 := rfl
  rw [h0, natToDigitsAux_val (n + 1) n [] (by omega)]; rfl

/-- `"stage%d" % n` -/
def stageTok (n : Nat) : S := 's' :: 't' :: 'a' :: 'g' :: 'e' :: natToDigits n

theorem stagePrefix_eq (n : Nat) : stagePrefix n = stageTok n ++ ['.'] := by
  simp [stagePrefix, stageTok]

theorem digit_not (c : Char) (h : isDigit c = true) : c ≠ '.' ∧ c ≠ '/' ∧ c ≠ ':' := by
  refine ⟨?_, ?_, ?_⟩ <;> (intro e; subst e; revert h; decide)

theorem stageTok_no (n : Nat) : '.' ∉ stageTok n ∧ '/' ∉ stageTok n ∧ ':' ∉ stageTok n := by
  have hd := natToDigits_all n
  refine ⟨?_, ?_, ?_⟩ <;>
  · intro hm
    simp only [stageTok, List.mem_cons] at hm
    rcases hm with h | h | h | h | h | h
    all_goals first
      | (revert h; decide)
      | (have := digit_not _ (hd _ h); simp at this)

theorem takeWhile_all (p : Char → Bool) (l : S) (h : ∀ c ∈ l, p c = true) : l.takeWhile p = l := by
  induction l with
  | nil => rfl
  | cons d l ih =>
    have hd : p d = true := h d (by simp)
    simp only [List.takeWhile_cons, hd, if_true]
    rw [ih (fun c hc => h c (List.mem_cons_of_mem _ hc))]

theorem stageMatch_stageTok (n : Nat) : stageMatch (stageTok n) = some n := by
  have hall : (natToDigits n).takeWhile isDigit = natToDigits n :=
    takeWhile_all _ _ (natToDigits_all n)
  have hne : (natToDigits n).isEmpty = false := by
    cases h : natToDigits n with
    | nil => exact absurd h (natToDigits_ne_nil n)
    | cons _ _ => rfl
  simp [stageTok, stageMatch, hall, hne, digitsVal_natToDigits]

theorem isAbs_stagePrefix (n : Nat) (s : S) : isAbs (stagePrefix n ++ s) = false := by
  simp [stagePrefix, isAbs]

/-! ### producer references -/

theorem ppr_stagePrefix (n : Nat) (a : S) (idx : Option Nat) :
    parseProducerReference (stagePrefix n ++ a) idx = (some n, a, true) := by
  have h1 : splitFirst '.' (stagePrefix n ++ a) = some (stageTok n, a) := by
    rw [stagePrefix_eq, List.append_assoc]
    exact splitFirst_mk '.' (stageTok n) a (stageTok_no n).1
  simp [parseProducerReference, isAbs_stagePrefix, h1, stageMatch_stageTok]

/-- without an explicit stage the producer reference is returned whole, in the context stage -/
theorem ppr_noIndex (r : S) (idx : Option Nat) (h : (parseProducerReference r idx).2.2 = false) :
    parseProducerReference r idx = (idx, r, false) := by
  unfold parseProducerReference at h ⊢
  by_cases h1 : isAbs r = true
  · rw [if_pos h1]
  · rw [if_neg h1] at h ⊢
    cases h2 : splitFirst '.' r with
    | none => rfl
    | some sj =>
      obtain ⟨stage, job⟩ := sj
      simp only [h2] at h ⊢
      cases h3 : stageMatch stage with
      | none => rfl
      | some n => simp [h3] at h

theorem ppr_hasIndex (r : S) (idx : Option Nat) (h : (parseProducerReference r idx).2.2 = true) :
    (parseProducerReference r idx).1.isSome = true := by
  unfold parseProducerReference at h ⊢
  by_cases h1 : isAbs r = true
  · rw [if_pos h1] at h; cases h
  · rw [if_neg h1] at h ⊢
    cases h2 : splitFirst '.' r with
    | none => simp [h2] at h
    | some sj =>
      obtain ⟨stage, job⟩ := sj
      simp only [h2] at h ⊢
      cases h3 : stageMatch stage with
      | none => simp [h3] at h
      | some n => rfl

theorem ppr_job_subset (r : S) (idx : Option Nat) : ∀ c ∈ (parseProducerReference r idx).2.1, c ∈ r := by
  unfold parseProducerReference
  split
  · simp
  · split
    · simp
    · rename_i stage job hs
      split
      · intro c hc
        obtain ⟨h1, _⟩ := splitFirst_some '.' r stage job hs
        rw [h1]; simp [show c ∈ job from hc]
      · simp

/-! ### os.path.split -/

theorem rstripSlash_subset (s : S) : ∀ c ∈ rstripSlash s, c ∈ s := by
  induction s with
  | nil => simp [rstripSlash]
  | cons d s ih =>
    intro c hc
    simp only [rstripSlash] at hc
    split at hc
    · simp at hc
    · rcases List.mem_cons.mp hc with rfl | hc
      · simp
      · exact List.mem_cons_of_mem _ (ih c hc)

theorem splitLastSlash_subset (s : S) :
    (∀ c ∈ (splitLastSlash s).1, c ∈ s) ∧ (∀ c ∈ (splitLastSlash s).2, c ∈ s) := by
  induction s with
  | nil => simp [splitLastSlash]
  | cons d s ih =>
    simp only [splitLastSlash]
    split
    · rename_i hd
      have hd' : d = '/' := by simpa using hd
      constructor
      · intro c hc
        rcases List.mem_cons.mp hc with rfl | hc
        · simp [hd']
        · exact List.mem_cons_of_mem _ (ih.1 c hc)
      · intro c hc; exact List.mem_cons_of_mem _ (ih.2 c hc)
    · split
      · constructor
        · simp
        · intro c hc
          rcases List.mem_cons.mp hc with rfl | hc
          · simp
          · exact List.mem_cons_of_mem _ (ih.2 c hc)
      · constructor
        · intro c hc
          rcases List.mem_cons.mp hc with rfl | hc
          · simp
          · exact List.mem_cons_of_mem _ (ih.1 c hc)
        · intro c hc; exact List.mem_cons_of_mem _ (ih.2 c hc)

theorem posixSplit_subset (p : S) :
    (∀ c ∈ (posixSplit p).1, c ∈ p) ∧ (∀ c ∈ (posixSplit p).2, c ∈ p) := by
  have h := splitLastSlash_subset p
  unfold posixSplit
  constructor
  · intro c hc
    simp only at hc
    split at hc
    · exact h.1 c hc
    · exact h.1 c (rstripSlash_subset _ c hc)
  · exact h.2

/-- the directory part of an absolute path is an absolute path (so it contains `/`) -/
theorem posixSplit_abs (p : S) (h : isAbs p = true) : '/' ∈ (posixSplit p).1 := by
  cases p with
  | nil => simp [isAbs] at h
  | cons c s =>
    have hc : c = '/' := by simpa [isAbs] using h
    subst hc
    simp only [posixSplit, splitLastSlash, beq_self_eq_true, if_true, rstripSlash]
    split
    · simp
    · simp

/-! ### parseDataReference -/

/-- first path segment and remainder of the text before the colon -/
def splitProd (rest : S) : S × Option S :=
  match splitFirst '/' rest with
  | none => (rest, none)
  | some (a, b) => (a, some b)

/-- `producer[/file]` -/
def restOf (prod : S) (file : Option S) : S :=
  match file with
  | none => prod
  | some f => prod ++ '/' :: f

theorem refBody_eq (prod : S) (file : Option S) (m : S) : refBody prod file m = restOf prod file ++ ':' :: m := by
  cases file <;> simp [refBody, restOf]

theorem restOf_splitProd (rest : S) : restOf (splitProd rest).1 (splitProd rest).2 = rest := by
  unfold splitProd
  cases h : splitFirst '/' rest with
  | none => simp [restOf]
  | some ab =>
    obtain ⟨a, b⟩ := ab
    simp [restOf, (splitFirst_some '/' rest a b h).1]

theorem splitProd_restOf (prod : S) (file : Option S) (h : '/' ∉ prod) : splitProd (restOf prod file) = (prod, file) := by
  cases file with
  | none => simp [restOf, splitProd, (splitFirst_none_iff '/' prod).mpr h]
  | some f => simp [restOf, splitProd, splitFirst_mk '/' prod f h]

theorem splitProd_fst_no_slash (rest : S) : '/' ∉ (splitProd rest).1 := by
  unfold splitProd
  cases h : splitFirst '/' rest with
  | none => simpa using (splitFirst_none_iff '/' rest).mp h
  | some ab =>
    obtain ⟨a, b⟩ := ab
    simpa using (splitFirst_some '/' rest a b h).2

/-- no reserved folder contains a `.` (pinned for the regenerated `FlowIR.SpecialFolders`) -/
def SFok (sf : List S) : Prop := ∀ f ∈ sf, '.' ∉ f

theorem pdr_colon_free (sf : List S) (v ref m : S) (file : Option S)
    (h : parseDataReference sf v = some (ref, file, m)) :
    ':' ∉ ref ∧ (∀ f, file = some f → ':' ∉ f) ∧ ':' ∉ m ∧ ':' ∉ restOf ref file := by
  unfold parseDataReference at h
  cases hs : splitColon2 v with
  | none => simp [hs] at h
  | some pm =>
    obtain ⟨pre, m'⟩ := pm
    obtain ⟨_, hpre, hm⟩ := splitColon2_some v pre m' hs
    simp only [hs] at h
    split at h
    · simp only [Option.some.injEq, Prod.mk.injEq] at h
      obtain ⟨rfl, rfl, rfl⟩ := h
      have hsub := posixSplit_subset pre
      have h1 : ':' ∉ (posixSplit pre).1 := fun hc => hpre (hsub.1 _ hc)
      have h2 : ':' ∉ (posixSplit pre).2 := fun hc => hpre (hsub.2 _ hc)
      refine ⟨h1, ?_, hm, ?_⟩
      · intro f hf; cases hf; exact h2
      · simp [restOf, h1, h2]
    · cases hsp : splitFirst '/' pre with
      | none =>
        simp only [hsp, Option.some.injEq, Prod.mk.injEq] at h
        obtain ⟨rfl, rfl, rfl⟩ := h
        exact ⟨hpre, by simp, hm, by simpa [restOf] using hpre⟩
      | some ab =>
        obtain ⟨a, b⟩ := ab
        obtain ⟨hab, _⟩ := splitFirst_some '/' pre a b hsp
        simp only [hsp] at h
        split at h
        · simp only [Option.some.injEq, Prod.mk.injEq] at h
          obtain ⟨rfl, rfl, rfl⟩ := h
          exact ⟨hpre, by simp, hm, by simpa [restOf] using hpre⟩
        · have ha : ':' ∉ a := fun hc => hpre (by rw [hab]; simp [hc])
          have hb : ':' ∉ b := fun hc => hpre (by rw [hab]; simp [hc])
          simp only [Option.some.injEq, Prod.mk.injEq] at h
          obtain ⟨rfl, rfl, rfl⟩ := h
          refine ⟨ha, ?_, hm, ?_⟩
          · intro f hf; cases hf; exact hb
          · simp [restOf, ha, hb]

/-- **Key lemma.**  A string that starts with a canonical stage prefix parses into that stage, the first
path segment after the prefix as producer and the remainder as file. -/
theorem parseFullX_stagePrefix (sf : List S) (hsf : SFok sf) (n : Nat) (rest m : S)
    (hr : ':' ∉ rest) (hm : ':' ∉ m) (idx : Option Nat) (deps extra : List S) :
    parseFullX sf (stagePrefix n ++ (rest ++ ':' :: m)) idx deps extra =
      some (if hasVar (splitProd rest).1 then none else some n, (splitProd rest).1, (splitProd rest).2, m, true) := by
  have hpre : ':' ∉ stagePrefix n ++ rest := by
    rw [stagePrefix_eq]
    have := (stageTok_no n).2.2
    simp [this, hr]
  have hsplit : splitColon2 (stagePrefix n ++ (rest ++ ':' :: m)) = some (stagePrefix n ++ rest, m) := by
    rw [← List.append_assoc]; exact splitColon2_mk _ _ hpre hm
  have hslash : '/' ∉ stagePrefix n := by
    rw [stagePrefix_eq]; have := (stageTok_no n).2.1; simp [this]
  have hnotsf : ∀ a : S, stagePrefix n ++ a ∉ sf := by
    intro a hmem
    have := hsf _ hmem
    apply this
    rw [stagePrefix_eq]; simp
  unfold parseFullX parseDataReference
  simp only [hsplit, isAbs_stagePrefix, Bool.false_eq_true, if_false]
  rw [splitFirst_append_left '/' _ _ hslash]
  unfold splitProd
  cases hsp : splitFirst '/' rest with
  | none => simp [ppr_stagePrefix]
  | some ab =>
    obtain ⟨a, b⟩ := ab
    simp [hnotsf, ppr_stagePrefix]


/-- the four ways `ParseDataReference` splits the text before the colon -/
theorem pdr_cases (sf : List S) (v ref0 m0 : S) (file0 : Option S)
    (h : parseDataReference sf v = some (ref0, file0, m0)) :
    ∃ pre, splitColon2 v = some (pre, m0) ∧
      ((isAbs pre = true ∧ ref0 = (posixSplit pre).1 ∧ file0 = some (posixSplit pre).2) ∨
       (isAbs pre = false ∧ splitFirst '/' pre = none ∧ ref0 = pre ∧ file0 = none) ∨
       (isAbs pre = false ∧ ∃ a b, splitFirst '/' pre = some (a, b) ∧ a ∈ sf ∧ ref0 = pre ∧ file0 = none) ∨
       (isAbs pre = false ∧ ∃ a b, splitFirst '/' pre = some (a, b) ∧ a ∉ sf ∧ ref0 = a ∧ file0 = some b)) := by
  unfold parseDataReference at h
  cases hs : splitColon2 v with
  | none => simp [hs] at h
  | some pm =>
    obtain ⟨pre, m'⟩ := pm
    simp only [hs] at h
    by_cases habs : isAbs pre = true
    · rw [if_pos habs] at h
      simp only [Option.some.injEq, Prod.mk.injEq] at h
      obtain ⟨h1, h2, h3⟩ := h
      exact ⟨pre, by rw [h3], Or.inl ⟨habs, h1.symm, h2.symm⟩⟩
    · rw [if_neg habs] at h
      have habs' : isAbs pre = false := by simpa using habs
      cases hq : splitFirst '/' pre with
      | none =>
        simp only [hq, Option.some.injEq, Prod.mk.injEq] at h
        obtain ⟨h1, h2, h3⟩ := h
        exact ⟨pre, by rw [h3], Or.inr (Or.inl ⟨habs', hq, h1.symm, h2.symm⟩)⟩
      | some ab =>
        obtain ⟨a, b⟩ := ab
        simp only [hq] at h
        by_cases hin : a ∈ sf
        · have hc : sf.contains a = true := by simpa using hin
          rw [if_pos hc] at h
          simp only [Option.some.injEq, Prod.mk.injEq] at h
          obtain ⟨h1, h2, h3⟩ := h
          exact ⟨pre, by rw [h3], Or.inr (Or.inr (Or.inl ⟨habs', a, b, hq, hin, h1.symm, h2.symm⟩))⟩
        · have hc : ¬ sf.contains a = true := by simpa using hin
          rw [if_neg hc] at h
          simp only [Option.some.injEq, Prod.mk.injEq] at h
          obtain ⟨h1, h2, h3⟩ := h
          exact ⟨pre, by rw [h3], Or.inr (Or.inr (Or.inr ⟨habs', a, b, hq, hin, h1.symm, h2.symm⟩))⟩

theorem parseFullX_some (sf : List S) (v : S) (idx : Option Nat) (deps extra : List S)
    (si : Option Nat) (job : S) (file : Option S) (m : S) (has : Bool)
    (h : parseFullX sf v idx deps extra = some (si, job, file, m, has)) :
    ∃ ref0, parseDataReference sf v = some (ref0, file, m) ∧
      (parseProducerReference ref0 idx).2.1 = job ∧ (parseProducerReference ref0 idx).2.2 = has ∧
      si = (if ((folders sf deps extra).contains job && !has || job.contains '/' && !has || hasVar job) = true
            then none else (parseProducerReference ref0 idx).1) := by
  unfold parseFullX at h
  cases hd : parseDataReference sf v with
  | none => simp [hd] at h
  | some d =>
    obtain ⟨ref0, file0, m0⟩ := d
    simp only [hd, Option.some.injEq, Prod.mk.injEq] at h
    obtain ⟨h1, h2, h3, h4, h5⟩ := h
    subst h3 h4
    refine ⟨ref0, rfl, h2, h5, ?_⟩
    rw [h2, h5] at h1
    exact h1.symm

theorem parseFullX_mk (sf : List S) (v : S) (idx : Option Nat) (deps extra : List S) (ref0 : S)
    (file : Option S) (m : S) (hd : parseDataReference sf v = some (ref0, file, m)) :
    parseFullX sf v idx deps extra =
      some (if ((folders sf deps extra).contains (parseProducerReference ref0 idx).2.1
                  && !(parseProducerReference ref0 idx).2.2
                || (parseProducerReference ref0 idx).2.1.contains '/' && !(parseProducerReference ref0 idx).2.2
                || hasVar (parseProducerReference ref0 idx).2.1) = true
            then none else (parseProducerReference ref0 idx).1,
            (parseProducerReference ref0 idx).2.1, file, m, (parseProducerReference ref0 idx).2.2) := by
  simp [parseFullX, hd]

/-- a parse without explicit stage: the producer is the producer reference itself, in the context stage -/
theorem parseFullX_noIndex (sf : List S) (v : S) (idx : Option Nat) (deps extra : List S)
    (si : Option Nat) (job : S) (file : Option S) (m : S)
    (h : parseFullX sf v idx deps extra = some (si, job, file, m, false)) :
    parseDataReference sf v = some (job, file, m) ∧
      si = (if ((folders sf deps extra).contains job || job.contains '/' || hasVar job) = true then none else idx) := by
  obtain ⟨ref0, hd, hjob, hhas, hsi⟩ := parseFullX_some sf v idx deps extra si job file m false h
  have hnp := ppr_noIndex ref0 idx hhas
  rw [hnp] at hjob hsi
  simp only at hjob
  rw [hjob] at hd
  exact ⟨hd, by simpa using hsi⟩

theorem isAbs_append_colon (pre m : S) : isAbs (pre ++ ':' :: m) = isAbs pre := by
  cases pre <;> simp [isAbs]

end St4sd.Ref
