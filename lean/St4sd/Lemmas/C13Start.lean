import St4sd.Lemmas.C13
/-! Invariant F of the repeating-engine model (C13): what the stop/retry bookkeeping of a poll judges is the
attempt of THAT poll.  A stop by `success` needs an execution that was really started (the task generator
returned a Task object) in a poll that sampled the producers as finished, i.e. after the producers' last output;
a stop by `retries` happens only with no retry left.  No hypotheses on the configuration. -/
namespace St4sd.Repeat

/-- registers about the newest entry of the execution log -/
def headStarted (s : St) : Bool := match s.execLog with | e :: _ => e.started | [] => false
def headPdws (s : St) : Bool := match s.execLog with | e :: _ => e.pdws | [] => false
def headLaunch (s : St) : Nat := match s.execLog with | e :: _ => e.launch | [] => 0

/-- the launch of the poll in progress returned a Task object -/
def Pc.startedNow : Pc → Bool
  | .running _ _ _ o => o != .raised
  | .ready _ _ _ d _ r => d && !r
  | _ => false
/-- the poll in progress judged its own execution successful -/
def Pc.rc0 : Pc → Bool
  | .ready _ _ _ d r _ => d && r
  | _ => false

def InvF (_cfg : Cfg) (s : St) : Prop :=
  s.lastLaunched < s.clock ∧ s.lastOutput < s.clock ∧
  (s.prodDone = true → s.finTime < s.clock ∧ s.lastOutput ≤ s.finTime) ∧
  (s.pc.pdws = true → s.prodDone = true) ∧
  (s.pc.launched = true →
      headLaunch s = s.lastLaunched ∧ headPdws s = s.pc.pdws ∧ headStarted s = s.pc.startedNow ∧
      (s.pc.pdws = true → s.finTime ≤ s.lastLaunched)) ∧
  (s.pc.rc0 = true → s.pc.startedNow = true) ∧
  (s.cause = some .success →
      s.cancel = true ∧ s.pc.quiet = true ∧ s.prodDone = true ∧
      headStarted s = true ∧ headPdws s = true ∧ s.lastOutput ≤ headLaunch s) ∧
  (s.cause = some .retries → s.retries = 0)

theorem invF_init (cfg : Cfg) : InvF cfg (init cfg) := by
  simp [InvF, init, Pc.pdws, Pc.launched, Pc.rc0, Pc.startedNow]

theorem invF_step (cfg : Cfg) (s : St) (op : Op) (h : InvF cfg s) : InvF cfg (step cfg s op) := by
  obtain ⟨clock, prodDone, finTime, suicide, armed, consume, retries, cancel, kc, hasProc, procKilled,
    lastLaunched, aged, hasOutput, lastOutput, outs, execLog, pc, cause, pollsFin, books, started⟩ := s
  simp only [InvF] at h ⊢
  rcases op with e | o
  · cases e <;> simp only [step, envStep, doKill] <;> (repeat' split) <;>
      grind [Pc.pdws, Pc.launched, Pc.quiet, Pc.rc0, Pc.startedNow, headStarted, headPdws, headLaunch]
  · cases pc <;> simp only [step, engStep, post, doKill] <;> (repeat' split) <;>
      grind [Pc.pdws, Pc.launched, Pc.quiet, Pc.rc0, Pc.startedNow, headStarted, headPdws, headLaunch]

end St4sd.Repeat
