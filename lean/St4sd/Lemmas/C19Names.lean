import St4sd.Model.IniNames
import St4sd.Lemmas.C19
/-!
# C19 — lemmas about names packed into the DOSINI syntax (`Model/IniNames.lean`)
-/
namespace St4sd.IniNames
open St4sd.Str

/-! ## letter case -/

def lowerChar (c : Char) : Char := if 'A' ≤ c && c ≤ 'Z' then Char.ofNat (c.toNat + 32) else c

theorem lower_eq_map (s : S) : lower s = s.map lowerChar := rfl

private theorem le_iff (a b : Char) : a ≤ b ↔ a.toNat ≤ b.toNat := Char.le_def.trans UInt32.le_iff_toNat_le

private theorem lower_upper_letter :
    ∀ d : Nat, d < 26 → lowerChar (upperChar (Char.ofNat (97 + d))) = lowerChar (Char.ofNat (97 + d)) := by decide

private theorem upper_upper_letter :
    ∀ d : Nat, d < 26 → upperChar (upperChar (Char.ofNat (97 + d))) = upperChar (Char.ofNat (97 + d)) := by decide

private theorem letter_of (c : Char) (h : ('a' ≤ c && c ≤ 'z') = true) : ∃ d, d < 26 ∧ c = Char.ofNat (97 + d) := by
  simp only [Bool.and_eq_true, decide_eq_true_eq, le_iff] at h
  have h1 : 'a'.toNat = 97 := rfl
  have h2 : 'z'.toNat = 122 := rfl
  refine ⟨c.toNat - 97, by omega, ?_⟩
  have : 97 + (c.toNat - 97) = c.toNat := by omega
  rw [this, Char.ofNat_toNat]

theorem lowerChar_upperChar (c : Char) : lowerChar (upperChar c) = lowerChar c := by
  by_cases h : ('a' ≤ c && c ≤ 'z') = true
  · obtain ⟨d, hd, e⟩ := letter_of c h
    rw [e]; exact lower_upper_letter d hd
  · simp [upperChar, h]

theorem upperChar_idem (c : Char) : upperChar (upperChar c) = upperChar c := by
  by_cases h : ('a' ≤ c && c ≤ 'z') = true
  · obtain ⟨d, hd, e⟩ := letter_of c h
    rw [e]; exact upper_upper_letter d hd
  · simp [upperChar, h]

/-- `s.upper().lower() == s.lower()` -/
theorem lower_upper (s : S) : lower (upper s) = lower s := by
  rw [lower_eq_map, lower_eq_map, upper, List.map_map]
  apply List.map_congr_left
  intro c _
  exact lowerChar_upperChar c

/-- `s.upper().upper() == s.upper()` -/
theorem upper_idem (s : S) : upper (upper s) = upper s := by
  rw [upper, upper, List.map_map]
  apply List.map_congr_left
  intro c _
  exact upperChar_idem c

theorem upper_append (a b : S) : upper (a ++ b) = upper a ++ upper b := by simp [upper]

/-! ## `split` at a character that the first field does not contain -/

theorem splitChar_ne_nil (c : Char) (s : S) : splitChar c s ≠ [] := by
  induction s with
  | nil => simp [splitChar]
  | cons d s ih =>
    unfold splitChar
    split
    · simp
    · split <;> simp

theorem splitChar_cons_ne (c d : Char) (s f : S) (fs : List S) (h : (d == c) = false)
    (e : splitChar c s = f :: fs) : splitChar c (d :: s) = (d :: f) :: fs := by
  rw [splitChar]; simp [h, e]

theorem splitChar_none (c : Char) (p : S) (hp : c ∉ p) : splitChar c p = [p] := by
  induction p with
  | nil => rfl
  | cons d p ih =>
    have hd : (d == c) = false := by
      simp only [List.mem_cons, not_or] at hp
      simp; exact fun h => hp.1 h.symm
    have := ih (fun h => hp (List.mem_cons_of_mem _ h))
    exact splitChar_cons_ne c d p p [] hd this

theorem splitChar_append (c : Char) (p rest : S) (hp : c ∉ p) :
    splitChar c (p ++ c :: rest) = p :: splitChar c rest := by
  induction p with
  | nil => simp [splitChar]
  | cons d p ih =>
    have hd : (d == c) = false := by
      simp only [List.mem_cons, not_or] at hp
      simp; exact fun h => hp.1 h.symm
    have := ih (fun h => hp (List.mem_cons_of_mem _ h))
    show splitChar c (d :: (p ++ c :: rest)) = _
    exact splitChar_cons_ne c d _ p _ hd this

/-- `sep.join(parts).split(sep) == parts` when no part contains the separator (and there is a part) -/
theorem splitChar_join (c : Char) (ps : List S) (hne : ps ≠ []) (hp : ∀ p ∈ ps, c ∉ p) :
    splitChar c (join [c] ps) = ps := by
  induction ps with
  | nil => exact absurd rfl hne
  | cons p r ih =>
    cases r with
    | nil => simpa [join] using splitChar_none c p (hp p List.mem_cons_self)
    | cons q r =>
      have h1 := hp p List.mem_cons_self
      have h2 := ih (by simp) (fun x hx => hp x (List.mem_cons_of_mem _ hx))
      simp only [join, List.append_assoc, List.singleton_append]
      rw [splitChar_append c p _ h1, h2]

/-! ## `strip` of a text without blanks at its ends -/

theorem strip_id (s : S) (h : ∀ c ∈ s, isSpace c = false) : strip s = s := by
  have hl : lstrip s = s := by
    unfold lstrip
    cases s with
    | nil => rfl
    | cons c s => simp [List.dropWhile, h c List.mem_cons_self]
  have hr : rstrip s = s := by
    unfold rstrip
    cases hs : s.reverse with
    | nil => simp at hs; simp [hs]
    | cons c t =>
      have hc : c ∈ s := by
        have : c ∈ s.reverse := by rw [hs]; exact List.mem_cons_self
        simpa using this
      simp only [List.dropWhile, h c hc]
      rw [← hs]; simp
  unfold strip
  rw [hl, hr]

/-! ## digits -/

theorem digit_not_space (c : Char) (h : isDigit c = true) : isSpace c = false := by
  simp only [isDigit, Bool.and_eq_true, decide_eq_true_eq, le_iff] at h
  have h0 : '0'.toNat = 48 := rfl
  have h9 : '9'.toNat = 57 := rfl
  unfold isSpace
  have ne : ∀ d : Char, d.toNat < 48 → (c == d) = false := by
    intro d hd
    simp only [beq_eq_false_iff_ne, ne_eq]
    intro e; subst e; omega
  simp [ne ' ' (by decide), ne '\t' (by decide), ne '\n' (by decide), ne '\r' (by decide),
        ne '\x0b' (by decide), ne '\x0c' (by decide)]

theorem digit_ne (c d : Char) (h : isDigit c = true) (hd : isDigit d = false) : c ≠ d := by
  intro e; subst e; simp [h] at hd

theorem digits_no_char (n : Nat) (d : Char) (hd : isDigit d = false) : d ∉ natToDigits n := by
  intro hm
  have := St4sd.Ini.natToDigits_all n
  rw [List.all_eq_true] at this
  exact digit_ne d d (this d hm) hd rfl

end St4sd.IniNames
