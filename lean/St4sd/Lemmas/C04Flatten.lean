import St4sd.Lemmas.C04Tree
import St4sd.Model.TreeFlatten
/-!
# Helper lemmas for the flattening theorems of C04 (`Model/TreeFlatten.lean`)
-/
namespace St4sd.Tree
open St4sd.Str

theorem get_erase (d : Fields) (k k' : S) : get (erase d k) k' = if k = k' then none else get d k' := by
  induction d with
  | nil => simp [erase, get]
  | cons h t ih =>
    obtain ⟨a, v⟩ := h
    simp only [erase]
    by_cases ha : a = k
    · subst ha
      simp only [if_true, ih, get]
      by_cases hk : a = k' <;> simp [hk]
    · simp only [ha, if_false, get, ih]
      by_cases hk : k = k'
      · subst hk; simp [ha]
      · simp [hk]

theorem get_set (d : Fields) (k : S) (v : Val) (k' : S) :
    get (set d k v) k' = if k = k' then some v else get d k' := by
  unfold set
  rw [get_append, get_erase]
  by_cases hk : k = k'
  · simp [hk, get]
  · simp only [hk, if_false, get]
    cases get d k' <;> rfl

theorem get_update_nil (b : Fields) (x : S) : get (update [] b) x = get b x := by
  rw [get_update]; cases get b x <;> rfl

theorem lookupN_map {α : Type} (f : Nat → α) : ∀ (l : List Nat) (i : Nat), i ∈ l →
    lookupN (l.map fun j => (j, f j)) i = some (f i) := by
  intro l
  induction l with
  | nil => intro i h; cases h
  | cons a r ih =>
    intro i h
    simp only [List.map, lookupN]
    by_cases ha : a = i
    · subst ha; simp
    · simp only [ha, if_false]
      cases h with
      | head => exact absurd rfl ha
      | tail _ h' => exact ih i h'

theorem mem_stagesOf : ∀ (cs : List Comp) (c : Comp), c ∈ cs → c.stage ∈ stagesOf cs := by
  intro cs
  induction cs with
  | nil => intro c h; cases h
  | cons a r ih =>
    intro c h
    simp only [stagesOf]
    cases h with
    | head =>
      by_cases hc : a.stage ∈ stagesOf r
      · simp [hc]
      · simp [hc]
    | tail _ h' =>
      have := ih c h'
      by_cases hc : a.stage ∈ stagesOf r
      · simp [hc, this]
      · simp [hc, this]

/-! ### the variable scopes of the skeleton -/

theorem flattenRaw_global_default (d : Desc) (P : S) :
    globalVars (flattenRaw d P) defaultName = flatGlobal0 d P := by
  simp [globalVars, platVars, flattenRaw, lookupS]

theorem flattenRaw_stage_default (d : Desc) (P : S) (i : Nat) (hi : i ∈ stagesOf d.comps) :
    stageVars (flattenRaw d P) defaultName i = flatStage0 d P i := by
  simp [stageVars, platVars, flattenRaw, lookupS, lookupN_map (fun j => flatStage0 d P j) _ i hi]

theorem flattenRaw_global_other (d : Desc) (P : S) (hP : P ≠ defaultName) :
    globalVars (flattenRaw d P) P = [] := by
  have : ¬ defaultName = P := fun h => hP h.symm
  simp [globalVars, platVars, flattenRaw, lookupS, this]

theorem flattenRaw_stage_other (d : Desc) (P : S) (i : Nat) (hP : P ≠ defaultName) :
    stageVars (flattenRaw d P) P i = [] := by
  have : ¬ defaultName = P := fun h => hP h.symm
  simp [stageVars, platVars, flattenRaw, lookupS, this, lookupN]

/-- what the scopes of a flattened description offer to a component of stage `i`: exactly the documented
layering of the four scopes of the original description -/
theorem get_flatScope (d : Desc) (P : S) (i : Nat) (x : S) :
    get (update (flatGlobal0 d P) (flatStage0 d P i)) x =
      get (if P = defaultName then update (globalVars d defaultName) (stageVars d defaultName i)
           else update (update (update (globalVars d defaultName) (stageVars d defaultName i)) (globalVars d P))
                  (stageVars d P i)) x := by
  by_cases hP : P = defaultName
  · subst hP
    simp only [flatGlobal0, flatStage0, if_true, get_update, get]
    cases get (stageVars d defaultName i) x <;> cases get (globalVars d defaultName) x <;> rfl
  · simp only [flatGlobal0, flatStage0, hP, if_false, get_update, get_filter_absent]
    cases get (stageVars d P i) x <;> cases get (globalVars d P) x <;>
      cases get (stageVars d defaultName i) x <;> cases get (globalVars d defaultName) x <;> rfl

/-! ### the component of the skeleton -/

theorem overrideName_ne_variables : ("override".toList : S) ≠ "variables".toList := by decide

theorem get_trimOverrideRaw_other (body : Fields) (P k : S) (hk : ("override".toList : S) ≠ k) :
    get (trimOverrideRaw body P) k = get body k := by
  unfold trimOverrideRaw trimOverride
  cases get body "override".toList with
  | none => rfl
  | some o =>
    cases o with
    | dict kvs =>
      dsimp only
      cases get kvs P with
      | none => show get (erase body "override".toList) k = get body k; rw [get_erase, if_neg hk]
      | some v =>
        show get (set body "override".toList (.dict [(P, v)])) k = get body k
        rw [get_set, if_neg hk]
    | _ => rfl

theorem get_trimOverrideRaw_override (body : Fields) (P : S) :
    get (dictOr (get (trimOverrideRaw body P) "override".toList)) P =
      get (dictOr (get body "override".toList)) P := by
  unfold trimOverrideRaw trimOverride
  cases h : get body "override".toList with
  | none => show get (dictOr (get body "override".toList)) P = _; rw [h]
  | some o =>
    cases o with
    | dict kvs =>
      dsimp only
      cases hv : get kvs P with
      | none =>
        show get (dictOr (get (erase body "override".toList) "override".toList)) P = get (dictOr (some (.dict kvs))) P
        rw [get_erase, if_pos rfl]
        simp only [dictOr, get, hv]
      | some v =>
        show get (dictOr (get (set body "override".toList (.dict [(P, v)])) "override".toList)) P
          = get (dictOr (some (.dict kvs))) P
        rw [get_set, if_pos rfl]
        simp only [dictOr, get, hv, if_true]
    | null => show get (dictOr (get body "override".toList)) P = _; rw [h]
    | bool _ => show get (dictOr (get body "override".toList)) P = _; rw [h]
    | int _ => show get (dictOr (get body "override".toList)) P = _; rw [h]
    | flt _ => show get (dictOr (get body "override".toList)) P = _; rw [h]
    | str _ => show get (dictOr (get body "override".toList)) P = _; rw [h]
    | list _ => show get (dictOr (get body "override".toList)) P = _; rw [h]

theorem flatCompRaw_stage (P : S) (c : Comp) : (flatCompRaw P c).stage = c.stage := rfl

theorem flatCompRaw_compVars (P : S) (c : Comp) : compVars (flatCompRaw P c) = flatCompVars0 c P := by
  unfold compVars flatCompRaw
  simp only
  rw [get_trimOverrideRaw_other _ _ _ overrideName_ne_variables, get_set, if_pos rfl]
  rfl

theorem flatCompRaw_ovrOf (P : S) (c : Comp) : ovrOf (flatCompRaw P c) P = ovrOf c P := by
  unfold ovrOf flatCompRaw
  simp only
  have : ¬ ("variables".toList : S) = "override".toList := fun h => overrideName_ne_variables h.symm
  rw [get_trimOverrideRaw_override, get_set, if_neg this]

theorem flatCompRaw_ovrVars (P : S) (c : Comp) : ovrVars (flatCompRaw P c) P = ovrVars c P := by
  unfold ovrVars
  rw [flatCompRaw_ovrOf]

/-! ### `interp` reads its context through `get` only -/

theorem interp_congr (ctx ctx' : Fields) (prim : Bool) (h : ∀ x, get ctx x = get ctx' x) :
    ∀ (f : Nat) (done s : S), interp f ctx prim done s = interp f ctx' prim done s := by
  intro f
  induction f with
  | zero => intro done s; rfl
  | succ f ih =>
    intro done s
    simp only [interp, h, ih]

/-- a successful strict interpolation returns a text that passes the final checks again -/
theorem interp_result_finished (ctx : Fields) : ∀ (f : Nat) (s v : S),
    interp f ctx false [] s = .ok v → finish v = .ok v := by
  intro f
  induction f with
  | zero => intro s v h; simp [interp] at h
  | succ f ih =>
    intro s v h
    simp only [interp] at h
    split at h
    · simp only [List.nil_append] at h
      have h' := h
      simp only [finish] at h
      split at h
      · cases h
      · split at h
        · cases h
        · cases h; exact h'
    · split at h
      · cases h
      · split at h
        · simp at h
        · split at h
          · exact ih _ _ h
          · cases h
        · exact ih _ _ h
        · exact ih _ _ h
        · exact ih _ _ h
        · cases h

end St4sd.Tree
