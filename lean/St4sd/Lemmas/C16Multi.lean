import St4sd.Model.Hash
import St4sd.Lemmas.C16Fs
/-!
C16: the `files` of a memoization info as a **multiset** — `sortStr` identifies exactly the permutations, one
entry per consumed file, the dictionary keyed by the absolute reference (`dedupAbs`).
-/
namespace St4sd.C16
open St4sd.Str St4sd.Hash

/-! ### `lexLe` is a total order -/

theorem lexLt_irrefl : ∀ a : S, lexLt a a = false
  | [] => rfl
  | c :: s => by simp [lexLt, Char.lt_irrefl, lexLt_irrefl s]

theorem lexLt_asymm : ∀ a b : S, lexLt a b = true → lexLt b a = false
  | [], [] => by simp [lexLt]
  | [], _ :: _ => by simp [lexLt]
  | _ :: _, [] => by simp [lexLt]
  | a :: s, b :: t => by
    simp only [lexLt, Bool.or_eq_true, decide_eq_true_eq, Bool.and_eq_true, beq_iff_eq,
      Bool.or_eq_false_iff, decide_eq_false_iff_not, Bool.and_eq_false_imp]
    intro h
    rcases h with h | ⟨h1, h2⟩
    · exact ⟨Char.lt_asymm h, fun e => by subst e; exact absurd h (Char.lt_irrefl _)⟩
    · subst h1; exact ⟨Char.lt_irrefl _, fun _ => lexLt_asymm s t h2⟩

theorem lexLt_trans : ∀ a b c : S, lexLt a b = true → lexLt b c = true → lexLt a c = true
  | [], [], _ => by simp [lexLt]
  | [], _ :: _, [] => by simp [lexLt]
  | [], _ :: _, _ :: _ => by simp [lexLt]
  | _ :: _, [], _ => by simp [lexLt]
  | _ :: _, _ :: _, [] => by simp [lexLt]
  | a :: s, b :: t, c :: u => by
    simp only [lexLt, Bool.or_eq_true, decide_eq_true_eq, Bool.and_eq_true, beq_iff_eq]
    intro h1 h2
    rcases h1 with h1 | ⟨e1, h1⟩ <;> rcases h2 with h2 | ⟨e2, h2⟩
    · exact Or.inl (Char.lt_trans h1 h2)
    · subst e2; exact Or.inl h1
    · subst e1; exact Or.inl h2
    · subst e1; subst e2; exact Or.inr ⟨rfl, lexLt_trans s t u h1 h2⟩

theorem lexLt_trichotomy : ∀ a b : S, lexLt a b = false → lexLt b a = false → a = b
  | [], [] => by simp
  | [], _ :: _ => by simp [lexLt]
  | _ :: _, [] => by simp [lexLt]
  | a :: s, b :: t => by
    simp only [lexLt, Bool.or_eq_false_iff, decide_eq_false_iff_not, Bool.and_eq_false_imp, beq_iff_eq]
    intro ⟨h1, h2⟩ ⟨h3, h4⟩
    have e : a = b := Char.le_antisymm (Char.not_lt.mp h3) (Char.not_lt.mp h1)
    subst e
    rw [lexLt_trichotomy s t (h2 rfl) (h4 rfl)]

theorem lexLe_total (a b : S) : lexLe a b = true ∨ lexLe b a = true := by
  unfold lexLe
  cases h : lexLt b a with
  | false => simp
  | true => simp [lexLt_asymm b a h]

theorem lexLe_antisymm (a b : S) (h1 : lexLe a b = true) (h2 : lexLe b a = true) : a = b := by
  unfold lexLe at h1 h2
  exact lexLt_trichotomy a b (by simpa using h2) (by simpa using h1)

theorem lexLe_trans (a b c : S) (h1 : lexLe a b = true) (h2 : lexLe b c = true) : lexLe a c = true := by
  unfold lexLe at *
  simp only [Bool.not_eq_eq_eq_not, Bool.not_true] at *
  cases hca : lexLt c a with
  | false => rfl
  | true =>
    cases hbc : lexLt b c with
    | true => rw [lexLt_trans b c a hbc hca] at h1; exact h1
    | false =>
      have : b = c := lexLt_trichotomy b c hbc h2
      subst this
      rw [hca] at h1; exact h1

/-! ### `sorted(files)` identifies exactly the permutations -/

theorem insertStr_comm (a b : S) (l : List S) : insertStr a (insertStr b l) = insertStr b (insertStr a l) := by
  by_cases hne : a = b
  · subst hne; rfl
  induction l with
  | nil =>
    simp only [insertStr]
    cases hab : lexLe a b <;> cases hba : lexLe b a <;> simp
    · rcases lexLe_total a b with h | h <;> simp_all
    · exact absurd (lexLe_antisymm _ _ hab hba) hne
  | cons c r ih =>
    simp only [insertStr]
    cases hbc : lexLe b c <;> cases hac : lexLe a c <;>
      simp only [insertStr, hbc, hac, ih, if_true, if_false, Bool.false_eq_true]
    · have : lexLe b a = false := by
        cases h : lexLe b a with
        | false => rfl
        | true => rw [lexLe_trans _ _ _ h hac] at hbc; exact absurd hbc (by simp)
      simp [this]
    · have : lexLe a b = false := by
        cases h : lexLe a b with
        | false => rfl
        | true => rw [lexLe_trans _ _ _ h hbc] at hac; exact absurd hac (by simp)
      simp [this]
    · cases hab : lexLe a b <;> cases hba : lexLe b a <;> simp [hac, hbc]
      · rcases lexLe_total a b with h | h <;> simp_all
      · exact absurd (lexLe_antisymm _ _ hab hba) hne

/-- the sorted list does not depend on the order of the entries … -/
theorem sortStr_perm (l₁ l₂ : List S) (h : l₁.Perm l₂) : sortStr l₁ = sortStr l₂ := by
  induction h with
  | nil => rfl
  | cons x _ ih => simp [sortStr, ih]
  | swap x y l => simp only [sortStr]; exact insertStr_comm y x _
  | trans _ _ ih₁ ih₂ => exact ih₁.trans ih₂

/-- … and on nothing but the multiset: every entry occurs in both lists the same number of times -/
theorem perm_of_sortStr_eq (l₁ l₂ : List S) (h : sortStr l₁ = sortStr l₂) : l₁.Perm l₂ := by
  apply List.perm_iff_count.mpr
  intro a
  rw [← count_sortStr a l₁, h, count_sortStr]

theorem sortStr_eq_iff_perm (l₁ l₂ : List S) : sortStr l₁ = sortStr l₂ ↔ l₁.Perm l₂ :=
  ⟨perm_of_sortStr_eq l₁ l₂, sortStr_perm l₁ l₂⟩

/-! ### one entry per consumed file -/

/-- the reference points to a file that is there (it is *consumed*: hashed and entered into `files`) -/
def _root_.St4sd.Hash.Ref.isFile (r : Ref) : Bool :=
  match r.target with
  | .file (some _) => true
  | .prodFile _ (some _) => true
  | _ => false

theorem entryOf_entry_isFile (md5 : S → S) (fuzzy : Bool) (ph : Nat → Option S) (r : Ref) (e : FileEntry)
    (h : entryOf md5 fuzzy ph r = .entry e) : r.isFile = true := by
  unfold entryOf at h
  unfold Ref.isFile
  cases ht : r.target with
  | file c => cases c <;> simp_all
  | dir => simp only [ht] at h; split at h <;> cases h
  | prodDir p => simp only [ht] at h; split at h <;> cases h
  | prodFile p c => cases c <;> simp_all

theorem entryOf_skip_isFile (md5 : S → S) (fuzzy : Bool) (ph : Nat → Option S) (r : Ref)
    (h : entryOf md5 fuzzy ph r = .skip) : r.isFile = false := by
  unfold entryOf at h
  unfold Ref.isFile
  cases ht : r.target with
  | file c =>
    cases c with
    | none => simp_all
    | some c => simp only [ht] at h; split at h <;> cases h
  | dir => rfl
  | prodDir p => rfl
  | prodFile p c =>
    cases c with
    | none => simp_all
    | some c =>
      simp only [ht] at h
      split at h
      · split at h <;> cases h
      · split at h <;> cases h

theorem fileEntries_length (md5 : S → S) (fuzzy : Bool) (ph : Nat → Option S) (l : List Ref)
    (E : List FileEntry) (h : fileEntries md5 fuzzy ph l = some E) : E.length = l.countP Ref.isFile := by
  induction l generalizing E with
  | nil =>
    simp only [fileEntries, Option.some.injEq] at h
    subst h; rfl
  | cons x xs ih =>
    simp only [fileEntries] at h
    cases he : entryOf md5 fuzzy ph x with
    | fail => simp [he] at h
    | skip =>
      simp only [he] at h
      rw [List.countP_cons, entryOf_skip_isFile md5 fuzzy ph x he, ih E h]
      simp
    | entry e =>
      simp only [he] at h
      cases h1 : fileEntries md5 fuzzy ph xs with
      | none => simp [h1] at h
      | some E1 =>
        simp only [h1, Option.map_some, Option.some.injEq] at h
        subst h
        rw [List.countP_cons, entryOf_entry_isFile md5 fuzzy ph x e he, List.length_cons, ih E1 h1]
        simp

theorem insertLen_perm (x : Ref) (l : List Ref) : (insertLen x l).Perm (x :: l) := by
  induction l with
  | nil => simp [insertLen]
  | cons y ys ih =>
    simp only [insertLen]
    split
    · exact List.Perm.refl _
    · exact (List.Perm.cons y ih).trans (List.Perm.swap x y ys)

theorem sortRefs_perm (l : List Ref) : (sortRefs l).Perm l := by
  induction l with
  | nil => simp [sortRefs]
  | cons x xs ih => exact (insertLen_perm x (sortRefs xs)).trans (List.Perm.cons x ih)

/-! ### the dictionary keyed by the absolute reference -/

theorem mem_dedupAbs (r : Ref) (l : List Ref) (h : r ∈ dedupAbs l) : r ∈ l := by
  induction l with
  | nil => simp [dedupAbs] at h
  | cons x xs ih =>
    simp only [dedupAbs] at h
    split at h
    · exact List.mem_cons_of_mem _ (ih h)
    · rcases List.mem_cons.mp h with rfl | h
      · simp
      · exact List.mem_cons_of_mem _ (ih h)

/-- every reference is represented (by the last reference with its spelling) -/
theorem dedupAbs_covers (r : Ref) (l : List Ref) (h : r ∈ l) : ∃ r' ∈ dedupAbs l, r'.abs = r.abs := by
  induction l generalizing r with
  | nil => cases h
  | cons x xs ih =>
    simp only [dedupAbs]
    rcases List.mem_cons.mp h with rfl | h
    · split
      · rename_i hany
        obtain ⟨r', hr', he⟩ := List.any_eq_true.mp hany
        obtain ⟨r'', hr'', he'⟩ := ih r' hr'
        exact ⟨r'', hr'', he'.trans (by simpa using he)⟩
      · exact ⟨r, by simp, rfl⟩
    · obtain ⟨r', hr', he⟩ := ih r h
      split
      · exact ⟨r', hr', he⟩
      · exact ⟨r', List.mem_cons_of_mem _ hr', he⟩

theorem dedupAbs_nodup (l : List Ref) : ((dedupAbs l).map (·.abs)).Nodup := by
  induction l with
  | nil => simp [dedupAbs]
  | cons x xs ih =>
    simp only [dedupAbs]
    split
    · exact ih
    · rename_i hany
      simp only [List.map_cons, List.nodup_cons]
      refine ⟨?_, ih⟩
      intro hm
      obtain ⟨r', hr', he⟩ := List.mem_map.mp hm
      apply hany
      exact List.any_eq_true.mpr ⟨r', mem_dedupAbs r' xs hr', by simpa using he⟩

/-- distinct spellings: nothing is dropped -/
theorem dedupAbs_id (l : List Ref) (h : (l.map (·.abs)).Nodup) : dedupAbs l = l := by
  induction l with
  | nil => rfl
  | cons x xs ih =>
    simp only [List.map_cons, List.nodup_cons] at h
    simp only [dedupAbs]
    split
    · rename_i hany
      obtain ⟨r', hr', he⟩ := List.any_eq_true.mp hany
      exact absurd (List.mem_map.mpr ⟨r', hr', by simpa using he⟩) h.1
    · rw [ih h.2]

/-- stating a reference once more changes nothing -/
theorem dedupAbs_restated (r : Ref) (l : List Ref) (h : ∃ r' ∈ l, r'.abs = r.abs) :
    dedupAbs (r :: l) = dedupAbs l := by
  obtain ⟨r', hr', he⟩ := h
  have : l.any (fun r' => r'.abs == r.abs) = true := List.any_eq_true.mpr ⟨r', hr', by simpa using he⟩
  simp [dedupAbs, this]

theorem dedupAbs_map (g : Ref → Ref) (hg : ∀ r, (g r).abs = r.abs) (l : List Ref) :
    dedupAbs (l.map g) = (dedupAbs l).map g := by
  induction l with
  | nil => rfl
  | cons x xs ih =>
    have : (xs.map g).any (fun r' => r'.abs == (g x).abs) = xs.any (fun r' => r'.abs == x.abs) := by
      simp [List.any_map, Function.comp_def, hg]
    simp only [List.map_cons, dedupAbs, this]
    split
    · exact ih
    · simp [ih]

/-! ### the set-based variant loses the multiplicity -/

theorem dedupStr_pair (x : S) : dedupStr [x, x] = dedupStr [x] := by
  simp [dedupStr]

end St4sd.C16
