import St4sd.Model.Assoc
/-!
Lookup lemmas for the association-list dictionaries of `Model/Assoc.lean`
(used by the C15 and C17 property files).
-/
namespace St4sd.Assoc

variable {α : Type} {β : Type} [BEq α] [LawfulBEq α]

theorem dget_dset (d : List (α × β)) (k : α) (v : β) (k' : α) :
    dget (dset d k v) k' = if k == k' then some v else dget d k' := by
  induction d with
  | nil => simp [dset, dget]
  | cons e r ih =>
    obtain ⟨a, b⟩ := e
    by_cases h : a = k
    · subst h
      simp only [dset, dget, BEq.rfl, if_true]
      split <;> rfl
    · by_cases h2 : a = k'
      · subst h2
        have h3 : ¬ k = a := fun x => h x.symm
        simp [dset, dget, h, h3]
      · simp [dset, dget, h, h2, ih]

theorem dget_derase (d : List (α × β)) (k k' : α) :
    dget (derase d k) k' = if k == k' then none else dget d k' := by
  induction d with
  | nil => simp [derase, dget]
  | cons e r ih =>
    obtain ⟨a, b⟩ := e
    unfold derase at ih ⊢
    by_cases h : a = k
    · subst h
      by_cases h2 : a = k'
      · subst h2; simp [ih]
      · simp [dget, ih, h2]
    · by_cases h2 : a = k'
      · subst h2
        have h3 : ¬ k = a := fun x => h x.symm
        simp [dget, h, h3]
      · simp [dget, h, h2, ih]

/-- `d.update(n)`: the last occurrence in `n` wins, otherwise the old value stays -/
theorem dget_dupdate (d n : List (α × β)) (k : α) :
    dget (dupdate d n) k = match dgetLast n k with
      | some v => some v
      | none => dget d k := by
  unfold dupdate
  induction n generalizing d with
  | nil => simp [dgetLast]
  | cons e r ih =>
    obtain ⟨a, b⟩ := e
    simp only [List.foldl_cons, ih, dgetLast]
    cases h : dgetLast r k with
    | some w => simp
    | none =>
      simp only [dget_dset]
      by_cases h2 : (a == k) = true <;> simp [h2]

omit [LawfulBEq α] in
theorem dgetLast_isSome_iff_dget (n : List (α × β)) (k : α) :
    (dgetLast n k).isSome = (dget n k).isSome := by
  induction n with
  | nil => simp [dgetLast, dget]
  | cons e r ih =>
    obtain ⟨a, b⟩ := e
    simp only [dgetLast, dget]
    by_cases h2 : (a == k) = true
    · simp only [h2, if_true]
      cases dgetLast r k <;> simp
    · simp only [h2]
      cases h : dgetLast r k with
      | some w => rw [h] at ih; simp [← ih]
      | none => rw [h] at ih; simp [← ih]

theorem dget_isSome_iff_mem_keys (d : List (α × β)) (k : α) :
    (dget d k).isSome = true ↔ k ∈ keys d := by
  induction d with
  | nil => simp [dget, keys]
  | cons e r ih =>
    obtain ⟨a, b⟩ := e
    simp only [dget, keys, List.map_cons, List.mem_cons]
    by_cases h2 : (a == k) = true
    · have : a = k := by simpa using h2
      simp [this]
    · have hne : ¬ a = k := by simpa using h2
      have hne' : ¬ k = a := fun h => hne h.symm
      simp only [h2, hne']
      simpa [keys] using ih

/-- for dictionaries without repeated keys `dgetLast` is `dget` -/
theorem dgetLast_eq_dget_of_nodup (n : List (α × β)) (hn : (keys n).Nodup) (k : α) :
    dgetLast n k = dget n k := by
  induction n with
  | nil => simp [dgetLast, dget]
  | cons e r ih =>
    obtain ⟨a, b⟩ := e
    simp only [keys, List.map_cons, List.nodup_cons] at hn
    simp only [dgetLast, dget, ih hn.2]
    by_cases h2 : (a == k) = true
    · have hak : a = k := by simpa using h2
      subst hak
      have : dget r a = none := by
        cases h : dget r a with
        | none => rfl
        | some w =>
          have := (dget_isSome_iff_mem_keys r a).mp (by simp [h])
          exact absurd this hn.1
      simp [this]
    · simp only [h2]
      cases dget r k <;> simp

end St4sd.Assoc
