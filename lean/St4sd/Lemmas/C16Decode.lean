import St4sd.Model.Hash
/-!
C16: the concatenation of file entries `<hash part>:<method>` can be cut back into the entries
(so equality of the sorted buffers is equality of the sorted entry lists).
-/
namespace St4sd.C16
open St4sd.Str St4sd.Hash

/-- shape of the entries the code produces: `L ++ ":" ++ method` with a known method and a non-empty `L`
without `:` that does not start with `o` (a hex digest, or `fuzzy#<digest>#<file>`) -/
def goodEntry (e : S) : Bool :=
  match splitFirst ':' e with
  | some (l, m) => methods.contains m && !l.isEmpty && l.head? != some 'o'
  | none => false

theorem splitFirst_append (l m : S) (h : ':' ∉ l) : splitFirst ':' (l ++ ':' :: m) = some (l, m) := by
  induction l with
  | nil => simp [splitFirst]
  | cons c l ih =>
    have hc : (c == ':') = false := by
      simp only [List.mem_cons, not_or] at h
      simpa using fun e => h.1 e.symm
    have hl : ':' ∉ l := fun hm => h (List.mem_cons_of_mem _ hm)
    simp [splitFirst, hc, ih hl]

theorem splitFirst_some (e l m : S) (h : splitFirst ':' e = some (l, m)) : e = l ++ ':' :: m ∧ ':' ∉ l := by
  induction e generalizing l with
  | nil => simp [splitFirst] at h
  | cons c e ih =>
    simp only [splitFirst] at h
    by_cases hc : (c == ':') = true
    · simp only [hc, if_true, Option.some.injEq, Prod.mk.injEq] at h
      obtain ⟨rfl, rfl⟩ := h
      simp at hc
      simp [hc]
    · simp only [hc, Bool.false_eq_true, if_false] at h
      cases hs : splitFirst ':' e with
      | none => simp [hs] at h
      | some p =>
        obtain ⟨a, b⟩ := p
        simp only [hs, Option.some.injEq, Prod.mk.injEq] at h
        obtain ⟨rfl, rfl⟩ := h
        obtain ⟨h1, h2⟩ := ih a hs
        refine ⟨by simp [h1], ?_⟩
        simp only [List.mem_cons, not_or]
        exact ⟨fun e0 => hc (by simp [← e0]), h2⟩

theorem colon_cancel (l₁ l₂ r₁ r₂ : S) (h₁ : ':' ∉ l₁) (h₂ : ':' ∉ l₂) (e : l₁ ++ ':' :: r₁ = l₂ ++ ':' :: r₂) :
    l₁ = l₂ ∧ r₁ = r₂ := by
  have a := splitFirst_append l₁ r₁ h₁
  rw [e, splitFirst_append l₂ r₂ h₂] at a
  simpa [eq_comm] using a

/-- the only method that is a proper prefix of another one is continued by an `o` (`copy`/`copyout`) -/
theorem method_prefix : ∀ m₁ ∈ methods, ∀ m₂ ∈ methods, m₁.isPrefixOf m₂ = true →
    m₁ = m₂ ∨ (m₂.drop m₁.length).head? = some 'o' := by decide

theorem goodEntry_spec (e : S) (h : goodEntry e = true) :
    ∃ l m, e = l ++ ':' :: m ∧ ':' ∉ l ∧ m ∈ methods ∧ l ≠ [] ∧ l.head? ≠ some 'o' := by
  unfold goodEntry at h
  cases hs : splitFirst ':' e with
  | none => simp [hs] at h
  | some p =>
    obtain ⟨l, m⟩ := p
    simp only [hs, Bool.and_eq_true, List.contains_iff_mem, Bool.not_eq_true', bne_iff_ne, ne_eq] at h
    obtain ⟨h1, h2⟩ := splitFirst_some e l m hs
    exact ⟨l, m, h1, h2, h.1.1, by simpa using h.1.2, h.2⟩

private theorem concat_head (e : S) (t : List S) (h : goodEntry e = true) :
    (concat (e :: t)) ≠ [] ∧ (concat (e :: t)).head? ≠ some 'o' := by
  obtain ⟨l, m, rfl, _, _, hl, ho⟩ := goodEntry_spec e h
  cases l with
  | nil => exact absurd rfl hl
  | cons c l => simp_all [concat]

/-- **decodability**: two lists of well-shaped entries with the same concatenation are the same list -/
theorem files_decodable (l₁ l₂ : List S) (h₁ : ∀ e ∈ l₁, goodEntry e = true) (h₂ : ∀ e ∈ l₂, goodEntry e = true)
    (e : concat l₁ = concat l₂) : l₁ = l₂ := by
  induction l₁ generalizing l₂ with
  | nil =>
    cases l₂ with
    | nil => rfl
    | cons x xs => exact absurd e.symm (concat_head x xs (h₂ x (by simp))).1
  | cons x xs ih =>
    cases l₂ with
    | nil => exact absurd e (concat_head x xs (h₁ x (by simp))).1
    | cons y ys =>
      obtain ⟨lx, mx, rfl, cx, hmx, _, _⟩ := goodEntry_spec x (h₁ x (by simp))
      obtain ⟨ly, my, rfl, cy, hmy, _, _⟩ := goodEntry_spec y (h₂ y (by simp))
      simp only [concat, List.append_assoc, List.cons_append] at e
      obtain ⟨hl, hr⟩ := colon_cancel _ _ _ _ cx cy e
      subst hl
      have hxs : ∀ e ∈ xs, goodEntry e = true := fun e he => h₁ e (List.mem_cons_of_mem _ he)
      have hys : ∀ e ∈ ys, goodEntry e = true := fun e he => h₂ e (List.mem_cons_of_mem _ he)
      -- one method is a prefix of the other
      have step : ∀ (m₁ m₂ : S) (t₁ t₂ : List S), m₁ ∈ methods → m₂ ∈ methods →
          (∀ e ∈ t₁, goodEntry e = true) → ∀ a, m₂ = m₁ ++ a → concat t₁ = a ++ concat t₂ → a = [] := by
        intro m₁ m₂ t₁ t₂ hm₁ hm₂ ht₁ a hma hc
        have hp : m₁.isPrefixOf m₂ = true := by rw [hma]; simp
        rcases method_prefix m₁ hm₁ m₂ hm₂ hp with heq | ho
        · have : m₁ ++ [] = m₁ ++ a := by rw [List.append_nil]; rw [← hma]; exact heq
          exact (List.append_cancel_left this).symm
        · rw [hma] at ho
          simp only [List.drop_left] at ho
          cases a with
          | nil => rfl
          | cons c a =>
            simp only [List.head?_cons, Option.some.injEq] at ho
            subst ho
            cases t₁ with
            | nil => simp [concat] at hc
            | cons z zs =>
              have := (concat_head z zs (ht₁ z (by simp))).2
              rw [hc] at this
              simp at this
      rcases List.append_eq_append_iff.mp hr with ⟨a, ha, hc⟩ | ⟨a, ha, hc⟩
      · have a0 := step mx my xs ys hmx hmy hxs a ha hc
        subst a0
        simp only [List.append_nil, List.nil_append] at ha hc
        rw [ha, ih ys hxs hys hc]
      · have a0 := step my mx ys xs hmy hmx hys a ha hc
        subst a0
        simp only [List.append_nil, List.nil_append] at ha hc
        rw [ha, ih ys hxs hys hc.symm]

end St4sd.C16
