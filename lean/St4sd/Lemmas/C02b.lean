import St4sd.Lemmas.C02
/-! Preservation of `Inv` by `taskExit`, `deliverPM`, `stopStage`, `killAll`, `deliverFin`,
`schedPass`, hence by `step` and `run`. -/
namespace St4sd.C02L
open St4sd.Ctrl

theorem ownFrom_drop (wf : Wf) (d : CompDef) (k rs rb : Nat) :
    ownFrom wf d (d.script.drop k) rs rb =
      (if restartable wf d { restarts := rs, resub := if d.script.getD k .success = .success then 0 else rb }
            (d.script.getD k .success) then
        ownFrom wf d (d.script.drop (k + 1))
          (if d.script.getD k .success = .submissionFailed then rs else rs + 1)
          (if d.script.getD k .success = .submissionFailed then
            (if d.script.getD k .success = .success then 0 else rb) + 1
           else (if d.script.getD k .success = .success then 0 else rb))
      else finalOf d (d.script.getD k .success)) := by
  by_cases h : k < d.script.length
  · rw [List.drop_eq_getElem_cons h]
    have : d.script.getD k .success = d.script[k] := by simp [List.getD_eq_getElem?_getD, h]
    rw [this]
    simp [ownFrom]
  · have h' : d.script.length ≤ k := Nat.le_of_not_lt h
    have : d.script.getD k .success = .success := by simp [List.getD_eq_getElem?_getD, h']
    rw [this, List.drop_of_length_le h', List.drop_of_length_le (by omega)]
    simp [ownFrom, finalOf]

theorem taskExitCore_inv {wf exc s} (c : Nat) (hI : Inv wf exc s) : Inv wf exc (taskExitCore wf s c) := by
  have hcI := hI.ci c
  unfold taskExitCore
  dsimp only
  split
  · rename_i hcond
    simp only [Bool.and_eq_true, Option.isNone_iff_eq_none] at hcond
    obtain ⟨hran, hex⟩ := hcond
    have hst := hcI.k2 hran
    split
    · rename_i st hpf
      simp only [hst, if_true]
      refine ⟨fun j => ?_, hI.curLe⟩
      by_cases hj : j = c
      · subst hj
        have := hcI.k3 (by simp [hpf])
        constructor <;> simp_all
        · exact hcI.u hst
        · exact hcI.b2 _ hpf
      · simp only [push_comp, upd_comp, hj, if_false, push_done, upd_done, push_pending, upd_pending]
        exact (hI.ci j).push _ (by simp; omega)
    · rename_i hpf
      have hs1 := hcI.s1 hex
      rw [ownFrom_drop] at hs1
      generalize (wf.cdef c).script.getD (s.comp c).execs .success = r at hs1 ⊢
      have hfc : (s.comp c).finishCalled = false := by
        cases h : (s.comp c).finishCalled with
        | false => rfl
        | true =>
          cases hct : (s.comp c).ctrl with
          | none => have := hcI.k3' h hran hex hct; simp [hpf] at this
          | some v => have := hcI.k10 (by simp [hct]); simp [hex] at this
      simp only [hfc, Bool.false_eq_true, if_false]
      refine ⟨fun j => ?_, hI.curLe⟩
      by_cases hj : j = c
      · subst hj
        obtain ⟨k0, k1, k2, k3, k3', k4, k5, k6, k8, k8', k9, k9', k10, u, b1, b2, s1, s2⟩ := hcI
        constructor <;> simp_all [afterPM]
        simp only [restartable] at hs1 ⊢
        exact hs1
      · simp only [push_comp, upd_comp, hj, if_false, push_done, upd_done, push_pending, upd_pending]
        exact (hI.ci j).push _ (by simp)
  · exact hI

theorem taskExit_inv {wf exc s} (c : Nat) (hI : Inv wf exc s) : Inv wf exc (taskExit wf s c) := by
  unfold taskExit
  split
  · exact taskExitCore_inv c hI
  · exact hI

/-! ## delivering a notification: the in-flight notification is the exception `exc` -/

theorem erase_inv {wf s} (hI : Inv wf none s) (n : Notif) :
    Inv wf (some n) { s with pending := s.pending.erase n } := by
  refine ⟨fun j => ?_, hI.curLe⟩
  have h := hI.ci j
  show CI wf (some n) j (s.comp j) (s.done j) (s.pending.erase n)
  refine { h with k5 := ?_, k6 := ?_, k8' := ?_ }
  · intro a b c
    obtain ⟨h1, h2⟩ := h.k5 a b c
    refine ⟨?_, h2⟩
    rcases h1 with h1 | h1
    · by_cases e : n = .pm j
      · right; rw [e]
      · left; exact (List.mem_erase_of_ne (Ne.symm e)).2 h1
    · simp at h1
  · intro a
    rcases h.k6 a with h1 | h1 | h1
    · left; exact h1
    · by_cases e : n = .fin j
      · right; right; rw [e]
      · right; left; exact (List.mem_erase_of_ne (Ne.symm e)).2 h1
    · simp at h1
  · intro a; exact h.k8' (List.mem_of_mem_erase a)

theorem Inv.drop_pm {wf s c} (hI : Inv wf (some (.pm c)) s)
    (hc : (s.comp c).ran = true → (s.comp c).exit.isSome = true → (s.comp c).ctrl = none → False) :
    Inv wf none s := by
  refine ⟨fun j => ?_, hI.curLe⟩
  have h := hI.ci j
  refine { h with k5 := ?_, k6 := ?_ }
  · intro a b d
    obtain ⟨h1, h2⟩ := h.k5 a b d
    refine ⟨?_, h2⟩
    rcases h1 with h1 | h1
    · left; exact h1
    · simp only [Option.some.injEq, Notif.pm.injEq] at h1
      subst h1; exact (hc a b d).elim
  · intro a
    rcases h.k6 a with h1 | h1 | h1
    · left; exact h1
    · right; left; exact h1
    · simp at h1

theorem restart_inv {wf exc s c r} (hI : Inv wf exc s) (hex : (s.comp c).exit = some r)
    (hfc : (s.comp c).finishCalled = false) (hr : restartable wf (wf.cdef c) (s.comp c) r = true) :
    Inv wf exc (s.upd c fun x => { x with exit := none, launches := x.launches + 1, restarts := (if r = .submissionFailed then x.restarts else x.restarts + 1), resub := (if r = .submissionFailed then x.resub + 1 else x.resub) }) := by
  refine ⟨fun j => ?_, hI.curLe⟩
  by_cases hj : j = c
  · subst hj
    have hcI := hI.ci j
    have hct : (s.comp j).ctrl = none := by
      cases h : (s.comp j).ctrl with
      | none => rfl
      | some v => have := hcI.k0 (by simp [h]); simp [hfc] at this
    have hs2 := hcI.s2 r hex hct
    simp only [afterPM, hr, if_true] at hs2
    obtain ⟨k0, k1, k2, k3, k3', k4, k5, k6, k8, k8', k9, k9', k10, u, b1, b2, s1, s2⟩ := hcI
    constructor <;> simp_all
  · simp only [upd_comp, hj, if_false, upd_done, upd_pending]
    exact hI.ci j

theorem finish_ctrl_pm {s c st} (hc : (s.comp c).ctrl = none) (hex : (s.comp c).exit.isSome = true) :
    ((finish s c st).comp c).ctrl = some st := by
  unfold finish
  simp only [hc, hex, Option.isSome_none, Bool.false_eq_true, if_false, if_true]
  split <;> simp

theorem deliverPM_inv {wf s} (c : Nat) (hI : Inv wf none s) : Inv wf none (deliverPM wf s c) := by
  unfold deliverPM
  by_cases hp : Notif.pm c ∈ s.pending
  · simp only [hp, if_true]
    have I0 := erase_inv hI (.pm c)
    have hcI : CI wf (some (.pm c)) c (s.comp c) (s.done c) (s.pending.erase (.pm c)) := I0.ci c
    split
    · rename_i hfc
      exact I0.drop_pm (fun a b d => by have := (hcI.k5 a b d).2; simp [hfc] at this)
    · rename_i hfc
      have hfc : (s.comp c).finishCalled = false := by simpa using hfc
      have hct : (s.comp c).ctrl = none := by
        cases h : (s.comp c).ctrl with
        | none => rfl
        | some v => have := hcI.k0 (by simp [h]); simp [hfc] at this
      split
      · rename_i hex
        exact I0.drop_pm (fun a b d => by simp [hex] at b)
      · rename_i r hex
        split
        · rename_i hr
          exact (restart_inv I0 hex hfc hr).drop_pm (fun a b d => by simp at b)
        · rename_i hr
          have hexs : (s.comp c).exit.isSome = true := by simp [hex]
          have hs2 := hcI.s2 r hex hct
          simp only [afterPM, hr, Bool.false_eq_true, if_false] at hs2
          refine (finish_inv (st := finalOf (wf.cdef c) r) I0 (hcI.k9 hexs) hct (Or.inr hs2)).drop_pm
            (fun a b d => ?_)
          rw [finish_ctrl_pm (s := { s with pending := s.pending.erase (.pm c) }) hct hexs] at d
          simp at d
  · simp only [hp, if_false]; exact hI

theorem deliverPM_mono {wf s} (c : Nat) (hI : Inv wf none s) : Mono s (deliverPM wf s c) := by
  unfold deliverPM
  by_cases hp : Notif.pm c ∈ s.pending
  · simp only [hp, if_true]
    have hcI := hI.ci c
    split
    · exact ⟨fun _ h => h, fun _ _ h => h, rfl⟩
    · rename_i hfc
      have hct : (s.comp c).ctrl = none := by
        cases h : (s.comp c).ctrl with
        | none => rfl
        | some v => have := hcI.k0 (by simp [h]); simp at hfc; simp [hfc] at this
      split
      · exact ⟨fun _ h => h, fun _ _ h => h, rfl⟩
      · split
        · refine ⟨fun j h => ?_, fun j f h => ?_, rfl⟩
          · simp only [upd_comp]; split <;> simp_all
          · simp only [upd_comp]; split <;> simp_all
        · exact Mono.trans (b := { s with pending := s.pending.erase (.pm c) })
            ⟨fun _ h => h, fun _ _ h => h, rfl⟩ (finish_mono hct)
  · simp only [hp, if_false]; exact Mono.refl s

theorem taskExitCore_mono {wf exc s} (c : Nat) (hI : Inv wf exc s) : Mono s (taskExitCore wf s c) := by
  unfold taskExitCore
  dsimp only
  split
  · refine ⟨fun j h => ?_, fun j f h => ?_, ?_⟩
    · split <;> split <;> simp <;> split <;> simp_all
    · by_cases hj : j = c
      · subst hj
        split
        · rename_i st hpf
          have := ((hI.ci j).k3 (by simp [hpf])).2.2.2
          simp [this] at h
        · split <;> simp [h]
      · split <;> split <;> simp [hj, h]
    · split <;> split <;> simp
  · exact Mono.refl s

theorem taskExit_mono {wf exc s} (c : Nat) (hI : Inv wf exc s) : Mono s (taskExit wf s c) := by
  unfold taskExit
  split
  · exact taskExitCore_mono c hI
  · exact Mono.refl s

end St4sd.C02L
