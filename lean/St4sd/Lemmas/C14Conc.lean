import St4sd.Model.FsConc
/-! Helper lemmas for C14 about interleaved traces of several writers (`St4sd.FsConc`). -/
namespace St4sd.FsConc
open St4sd.FsAtomic (Path Content)

theorem upd_same {α β : Type} [DecidableEq α] (f : α → β) (k : α) (v : β) : upd f k v k = v := by simp [upd]

theorem upd_other {α β : Type} [DecidableEq α] (f : α → β) (k x : α) (v : β) (h : x ≠ k) : upd f k v x = f x := by
  simp [upd, h]

theorem writeAt_end (d b : Content) : writeAt d d.length b = d ++ b := by
  cases b with
  | nil => simp [writeAt]
  | cons c cs => simp [writeAt]

theorem crun_nil (s : St) : crun [] s = s := rfl
theorem crun_cons (e : Ev) (evs : List Ev) (s : St) : crun (e :: evs) s = crun evs (step s e) := rfl

/-- the invariant that ties the file system state to the state of the protocol checker -/
structure Inv (t : Path) (old : Option Content) (s : St) (c : Chk) : Prop where
  inj : ∀ p q i, s.names p = some i → s.names q = some i → p = q
  fresh : ∀ p i, s.names p = some i → i < s.next
  distinct : ∀ x ∈ c.sess, ∀ y ∈ c.sess, (x.w = y.w ∨ x.p = y.p) → x = y
  notT : ∀ x ∈ c.sess, x.p ≠ t
  held : ∀ x ∈ c.sess, ∃ i, s.names x.p = some i ∧ s.data i = x.buf ∧
    s.fds x.w = if x.isOpen then some (i, x.buf.length) else none
  idle : ∀ w, (∀ x ∈ c.sess, x.w ≠ w) → s.fds w = none
  tgt : content s t = old ∨ ∃ v ∈ c.installed, content s t = some v

theorem content_congr {s s' : St} {t : Path} (hn : s'.names t = s.names t)
    (hd : ∀ k, s.names t = some k → s'.data k = s.data k) : content s' t = content s t := by
  unfold content
  rw [hn]
  cases h : s.names t with
  | none => rfl
  | some k => simp [hd k h]

theorem tgt_congr {t : Path} {old : Option Content} {s s' : St} {inst : List Content}
    (hn : s'.names t = s.names t) (hd : ∀ k, s.names t = some k → s'.data k = s.data k)
    (h : content s t = old ∨ ∃ v ∈ inst, content s t = some v) :
    content s' t = old ∨ ∃ v ∈ inst, content s' t = some v := by
  rw [content_congr hn hd]; exact h

theorem Inv.init (t : Path) (s : St) (h : WF s) : Inv t (content s t) s chk0 where
  inj := h.inj
  fresh := h.fresh
  distinct := by intro x hx; simp [chk0] at hx
  notT := by intro x hx; simp [chk0] at hx
  held := by intro x hx; simp [chk0] at hx
  idle := fun w _ => h.nofd w
  tgt := Or.inl rfl

theorem inv_open (t : Path) (old : Option Content) (s : St) (c c' : Chk) (w : Nat) (p : Path)
    (inv : Inv t old s c) (h : chkStep t c (.openW w p) = some c') : Inv t old (step s (.openW w p)) c' := by
  simp only [chkStep] at h
  split at h
  · rename_i hc
    simp only [Bool.and_eq_true, bne_iff_ne, ne_eq, List.all_eq_true] at hc
    obtain ⟨hpt, hall⟩ := hc
    injection h with h
    subst h
    have hdist : ∀ x ∈ (⟨w, p, true, []⟩ : Sess) :: c.sess, ∀ y ∈ (⟨w, p, true, []⟩ : Sess) :: c.sess,
        (x.w = y.w ∨ x.p = y.p) → x = y := by
      intro x hx y hy hxy
      rcases List.mem_cons.1 hx with hx | hx <;> rcases List.mem_cons.1 hy with hy | hy
      · rw [hx, hy]
      · subst hx
        rcases hxy with e | e
        · exact absurd e.symm (hall y hy).1
        · exact absurd e.symm (hall y hy).2
      · subst hy
        rcases hxy with e | e
        · exact absurd e (hall x hx).1
        · exact absurd e (hall x hx).2
      · exact inv.distinct x hx y hy hxy
    have hnotT : ∀ x ∈ (⟨w, p, true, []⟩ : Sess) :: c.sess, x.p ≠ t := by
      intro x hx
      rcases List.mem_cons.1 hx with hx | hx
      · subst hx; exact hpt
      · exact inv.notT x hx
    cases hnp : s.names p with
    | some i =>
      simp only [step, hnp]
      refine ⟨inv.inj, inv.fresh, hdist, hnotT, ?_, ?_, ?_⟩
      · intro x hx
        rcases List.mem_cons.1 hx with hx | hx
        · subst hx
          exact ⟨i, hnp, upd_same _ _ _, by simp [upd_same]⟩
        · obtain ⟨j, hj1, hj2, hj3⟩ := inv.held x hx
          have hji : j ≠ i := fun e => (hall x hx).2 (inv.inj _ _ _ hj1 (e ▸ hnp))
          exact ⟨j, hj1, by show upd s.data i [] j = x.buf; rw [upd_other _ _ _ _ hji, hj2],
            by show upd s.fds w _ x.w = _; rw [upd_other _ _ _ _ (hall x hx).1, hj3]⟩
      · intro w' hw'
        have hne : w' ≠ w := fun e => hw' _ (List.mem_cons_self) (by simp [e])
        show upd s.fds w _ w' = none
        rw [upd_other _ _ _ _ hne]
        exact inv.idle w' (fun x hx => hw' x (List.mem_cons_of_mem _ hx))
      · refine tgt_congr (s := s) ?_ ?_ inv.tgt
        · rfl
        · intro k hk
          have hki : k ≠ i := fun e => hpt (inv.inj _ _ _ hnp (e ▸ hk))
          exact upd_other _ _ _ _ hki
    | none =>
      simp only [step, hnp]
      refine ⟨?_, ?_, hdist, hnotT, ?_, ?_, ?_⟩
      · intro q q' i h1 h2
        have h1' : upd s.names p (some s.next) q = some i := h1
        have h2' : upd s.names p (some s.next) q' = some i := h2
        by_cases e1 : q = p <;> by_cases e2 : q' = p
        · rw [e1, e2]
        · rw [e1, upd_same] at h1'
          rw [upd_other _ _ _ _ e2] at h2'
          injection h1' with h1'
          have := inv.fresh _ _ h2'
          omega
        · rw [e2, upd_same] at h2'
          rw [upd_other _ _ _ _ e1] at h1'
          injection h2' with h2'
          have := inv.fresh _ _ h1'
          omega
        · rw [upd_other _ _ _ _ e1] at h1'
          rw [upd_other _ _ _ _ e2] at h2'
          exact inv.inj _ _ _ h1' h2'
      · intro q i h1
        have h1' : upd s.names p (some s.next) q = some i := h1
        show i < s.next + 1
        by_cases e1 : q = p
        · rw [e1, upd_same] at h1'
          injection h1' with h1'
          omega
        · rw [upd_other _ _ _ _ e1] at h1'
          have := inv.fresh _ _ h1'
          omega
      · intro x hx
        rcases List.mem_cons.1 hx with hx | hx
        · subst hx
          exact ⟨s.next, upd_same _ _ _, upd_same _ _ _, by simp [upd_same]⟩
        · obtain ⟨j, hj1, hj2, hj3⟩ := inv.held x hx
          have hji : j ≠ s.next := by have := inv.fresh _ _ hj1; omega
          exact ⟨j, by show upd s.names p _ x.p = _; rw [upd_other _ _ _ _ (hall x hx).2, hj1],
            by show upd s.data s.next [] j = x.buf; rw [upd_other _ _ _ _ hji, hj2],
            by show upd s.fds w _ x.w = _; rw [upd_other _ _ _ _ (hall x hx).1, hj3]⟩
      · intro w' hw'
        have hne : w' ≠ w := fun e => hw' _ (List.mem_cons_self) (by simp [e])
        show upd s.fds w _ w' = none
        rw [upd_other _ _ _ _ hne]
        exact inv.idle w' (fun x hx => hw' x (List.mem_cons_of_mem _ hx))
      · refine tgt_congr (s := s) ?_ ?_ inv.tgt
        · exact upd_other _ _ _ _ (fun e => hpt e.symm)
        · intro k hk
          have hki : k ≠ s.next := by have := inv.fresh _ _ hk; omega
          exact upd_other _ _ _ _ hki
  · exact absurd h (by simp)

/-! ### write / close -/

def addBuf (w : Nat) (b : Content) (x : Sess) : Sess := if x.w = w then { x with buf := x.buf ++ b } else x
def closeS (w : Nat) (x : Sess) : Sess := if x.w = w then { x with isOpen := false } else x

theorem addBuf_w (w : Nat) (b : Content) (x : Sess) : (addBuf w b x).w = x.w := by unfold addBuf; split <;> rfl
theorem addBuf_p (w : Nat) (b : Content) (x : Sess) : (addBuf w b x).p = x.p := by unfold addBuf; split <;> rfl
theorem addBuf_isOpen (w : Nat) (b : Content) (x : Sess) : (addBuf w b x).isOpen = x.isOpen := by
  unfold addBuf; split <;> rfl
theorem addBuf_buf (w : Nat) (b : Content) (x : Sess) (h : x.w = w) : (addBuf w b x).buf = x.buf ++ b := by
  simp [addBuf, h]
theorem addBuf_ne (w : Nat) (b : Content) (x : Sess) (h : x.w ≠ w) : addBuf w b x = x := by simp [addBuf, h]

theorem closeS_w (w : Nat) (x : Sess) : (closeS w x).w = x.w := by unfold closeS; split <;> rfl
theorem closeS_p (w : Nat) (x : Sess) : (closeS w x).p = x.p := by unfold closeS; split <;> rfl
theorem closeS_buf (w : Nat) (x : Sess) : (closeS w x).buf = x.buf := by unfold closeS; split <;> rfl
theorem closeS_isOpen (w : Nat) (x : Sess) (h : x.w = w) : (closeS w x).isOpen = false := by simp [closeS, h]
theorem closeS_ne (w : Nat) (x : Sess) (h : x.w ≠ w) : closeS w x = x := by simp [closeS, h]

theorem inv_write (t : Path) (old : Option Content) (s : St) (c c' : Chk) (w : Nat) (b : Content)
    (inv : Inv t old s c) (h : chkStep t c (.write w b) = some c') : Inv t old (step s (.write w b)) c' := by
  simp only [chkStep] at h
  split at h
  · rename_i hc
    simp only [List.any_eq_true, Bool.and_eq_true, beq_iff_eq] at hc
    obtain ⟨x0, hx0, hw0, ho0⟩ := hc
    injection h with h
    subst h
    obtain ⟨i, hn0, hd0, hf0⟩ := inv.held x0 hx0
    rw [ho0, hw0] at hf0
    simp only [if_true] at hf0
    simp only [step, hf0]
    show Inv t old _ ⟨c.sess.map (addBuf w b), c.installed⟩
    have huniq : ∀ x ∈ c.sess, x.w = w → x = x0 := fun x hx e => inv.distinct x hx x0 hx0 (Or.inl (e.trans hw0.symm))
    have hother : ∀ x ∈ c.sess, x.w ≠ w → ∀ j, s.names x.p = some j → j ≠ i := by
      intro x hx hne j hj e
      have : x.p = x0.p := inv.inj _ _ _ hj (e ▸ hn0)
      exact hne ((inv.distinct x hx x0 hx0 (Or.inr this)) ▸ hw0)
    refine ⟨inv.inj, inv.fresh, ?_, ?_, ?_, ?_, ?_⟩
    · intro y1 hy1 y2 hy2 hy
      obtain ⟨x1, hx1, rfl⟩ := List.mem_map.1 hy1
      obtain ⟨x2, hx2, rfl⟩ := List.mem_map.1 hy2
      rw [addBuf_w, addBuf_w, addBuf_p, addBuf_p] at hy
      rw [inv.distinct x1 hx1 x2 hx2 hy]
    · intro y hy
      obtain ⟨x, hx, rfl⟩ := List.mem_map.1 hy
      rw [addBuf_p]
      exact inv.notT x hx
    · intro y hy
      obtain ⟨x, hx, rfl⟩ := List.mem_map.1 hy
      rw [addBuf_p, addBuf_w, addBuf_isOpen]
      by_cases hxw : x.w = w
      · have := huniq x hx hxw
        subst this
        refine ⟨i, hn0, ?_, ?_⟩
        · show upd s.data i _ i = _
          rw [upd_same, addBuf_buf _ _ _ hxw, hd0, writeAt_end]
        · show upd s.fds w _ x.w = _
          rw [hxw, upd_same, ho0, addBuf_buf _ _ _ hxw]
          simp
      · obtain ⟨j, hj1, hj2, hj3⟩ := inv.held x hx
        rw [addBuf_ne _ _ _ hxw]
        refine ⟨j, hj1, ?_, ?_⟩
        · show upd s.data i _ j = _
          rw [upd_other _ _ _ _ (hother x hx hxw j hj1), hj2]
        · show upd s.fds w _ x.w = _
          rw [upd_other _ _ _ _ hxw, hj3]
    · intro w' hw'
      have hne : w' ≠ w := by
        intro e
        exact hw' _ (List.mem_map.2 ⟨x0, hx0, rfl⟩) (by rw [addBuf_w, hw0, e])
      show upd s.fds w _ w' = none
      rw [upd_other _ _ _ _ hne]
      refine inv.idle w' (fun x hx e => hw' _ (List.mem_map.2 ⟨x, hx, rfl⟩) (by rw [addBuf_w, e]))
    · refine tgt_congr (s := s) ?_ ?_ inv.tgt
      · rfl
      · intro k hk
        have hki : k ≠ i := fun e => inv.notT x0 hx0 (inv.inj _ _ _ hn0 (e ▸ hk))
        exact upd_other _ _ _ _ hki
  · exact absurd h (by simp)

theorem inv_close (t : Path) (old : Option Content) (s : St) (c c' : Chk) (w : Nat)
    (inv : Inv t old s c) (h : chkStep t c (.close w) = some c') : Inv t old (step s (.close w)) c' := by
  simp only [chkStep] at h
  split at h
  · rename_i hc
    simp only [List.any_eq_true, Bool.and_eq_true, beq_iff_eq] at hc
    obtain ⟨x0, hx0, hw0, ho0⟩ := hc
    injection h with h
    subst h
    simp only [step]
    show Inv t old _ ⟨c.sess.map (closeS w), c.installed⟩
    refine ⟨inv.inj, inv.fresh, ?_, ?_, ?_, ?_, ?_⟩
    · intro y1 hy1 y2 hy2 hy
      obtain ⟨x1, hx1, rfl⟩ := List.mem_map.1 hy1
      obtain ⟨x2, hx2, rfl⟩ := List.mem_map.1 hy2
      rw [closeS_w, closeS_w, closeS_p, closeS_p] at hy
      rw [inv.distinct x1 hx1 x2 hx2 hy]
    · intro y hy
      obtain ⟨x, hx, rfl⟩ := List.mem_map.1 hy
      rw [closeS_p]
      exact inv.notT x hx
    · intro y hy
      obtain ⟨x, hx, rfl⟩ := List.mem_map.1 hy
      obtain ⟨j, hj1, hj2, hj3⟩ := inv.held x hx
      rw [closeS_p, closeS_w, closeS_buf]
      by_cases hxw : x.w = w
      · refine ⟨j, hj1, hj2, ?_⟩
        show upd s.fds w none x.w = _
        rw [hxw, upd_same, closeS_isOpen _ _ hxw]
        simp
      · rw [closeS_ne _ _ hxw]
        refine ⟨j, hj1, hj2, ?_⟩
        show upd s.fds w none x.w = _
        rw [upd_other _ _ _ _ hxw, hj3]
    · intro w' hw'
      have hne : w' ≠ w := by
        intro e
        exact hw' _ (List.mem_map.2 ⟨x0, hx0, rfl⟩) (by rw [closeS_w, hw0, e])
      show upd s.fds w none w' = none
      rw [upd_other _ _ _ _ hne]
      refine inv.idle w' (fun x hx e => hw' _ (List.mem_map.2 ⟨x, hx, rfl⟩) (by rw [closeS_w, e]))
    · exact tgt_congr (s := s) rfl (fun _ _ => rfl) inv.tgt
  · exact absurd h (by simp)

/-! ### rename / remove -/

/-- abandoning the closed sessions staged in `a` keeps the invariant -/
theorem inv_drop (t : Path) (old : Option Content) (s : St) (c : Chk) (a : Path)
    (inv : Inv t old s c) (hcl : ∀ x ∈ c.sess, x.p = a → x.isOpen = false) :
    Inv t old s ⟨c.sess.filter (fun y => y.p != a), c.installed⟩ := by
  refine ⟨inv.inj, inv.fresh, ?_, ?_, ?_, ?_, inv.tgt⟩
  · intro x hx y hy
    exact inv.distinct x (List.mem_filter.1 hx).1 y (List.mem_filter.1 hy).1
  · intro x hx
    exact inv.notT x (List.mem_filter.1 hx).1
  · intro x hx
    exact inv.held x (List.mem_filter.1 hx).1
  · intro w' hw'
    by_cases hex : ∃ x ∈ c.sess, x.w = w'
    · obtain ⟨x, hx, hxw⟩ := hex
      have hxa : x.p = a := by
        apply Classical.byContradiction
        intro hne
        exact hw' x (List.mem_filter.2 ⟨hx, by simpa using hne⟩) hxw
      obtain ⟨j, _, _, hj3⟩ := inv.held x hx
      rw [hcl x hx hxa, hxw] at hj3
      simpa using hj3
    · exact inv.idle w' (fun x hx e => hex ⟨x, hx, e⟩)

theorem inj_rename (names : Path → Option Nat) (a b : Path) (i : Nat)
    (inj : ∀ p q i, names p = some i → names q = some i → p = q) (ha : names a = some i) :
    ∀ p q j, upd (upd names b (some i)) a none p = some j → upd (upd names b (some i)) a none q = some j → p = q := by
  have key : ∀ p j, upd (upd names b (some i)) a none p = some j → p ≠ a ∧ ((p = b ∧ j = i) ∨ (p ≠ b ∧ names p = some j)) := by
    intro p j h
    by_cases e1 : p = a
    · rw [e1, upd_same] at h; exact absurd h (by simp)
    · rw [upd_other _ _ _ _ e1] at h
      refine ⟨e1, ?_⟩
      by_cases e2 : p = b
      · rw [e2, upd_same] at h
        injection h with h
        exact Or.inl ⟨e2, h.symm⟩
      · rw [upd_other _ _ _ _ e2] at h
        exact Or.inr ⟨e2, h⟩
  intro p q j hp hq
  obtain ⟨hpa, hp'⟩ := key p j hp
  obtain ⟨hqa, hq'⟩ := key q j hq
  rcases hp' with ⟨e1, e2⟩ | ⟨e1, e2⟩ <;> rcases hq' with ⟨f1, f2⟩ | ⟨f1, f2⟩
  · rw [e1, f1]
  · exact absurd (inj _ _ _ f2 (e2 ▸ ha)) hqa
  · exact absurd (inj _ _ _ e2 (f2 ▸ ha)) hpa
  · exact inj _ _ _ e2 f2

theorem fresh_rename (names : Path → Option Nat) (a b : Path) (i n : Nat)
    (fresh : ∀ p i, names p = some i → i < n) (ha : names a = some i) :
    ∀ p j, upd (upd names b (some i)) a none p = some j → j < n := by
  intro p j h
  by_cases e1 : p = a
  · rw [e1, upd_same] at h; exact absurd h (by simp)
  · rw [upd_other _ _ _ _ e1] at h
    by_cases e2 : p = b
    · rw [e2, upd_same] at h
      injection h with h
      exact h ▸ fresh _ _ ha
    · rw [upd_other _ _ _ _ e2] at h
      exact fresh _ _ h

/-- a rename between two paths that are neither the target nor the staging path of a session -/
theorem inv_rename_free (t : Path) (old : Option Content) (s : St) (c : Chk) (a b : Path)
    (inv : Inv t old s c) (hfree : ∀ x ∈ c.sess, x.p ≠ a ∧ x.p ≠ b) (hat : a ≠ t) (hbt : b ≠ t) :
    Inv t old (step s (.rename a b)) c := by
  cases hna : s.names a with
  | none => simp only [step, hna]; exact inv
  | some i =>
    by_cases hab : a = b
    · subst hab
      simp only [step, hna, if_true]; exact inv
    · simp only [step, hna, hab, if_false]
      refine ⟨inj_rename _ _ _ _ inv.inj hna, fresh_rename _ _ _ _ _ inv.fresh hna, inv.distinct, inv.notT, ?_, inv.idle, ?_⟩
      · intro x hx
        obtain ⟨j, hj1, hj2, hj3⟩ := inv.held x hx
        refine ⟨j, ?_, hj2, hj3⟩
        show upd (upd s.names b (some i)) a none x.p = some j
        rw [upd_other _ _ _ _ (hfree x hx).1, upd_other _ _ _ _ (hfree x hx).2, hj1]
      · refine tgt_congr (s := s) ?_ (fun _ _ => rfl) inv.tgt
        show upd (upd s.names b (some i)) a none t = s.names t
        rw [upd_other _ _ _ _ (fun e => hat e.symm), upd_other _ _ _ _ (fun e => hbt e.symm)]

/-- renaming a complete file `a` (content `v`) over the target installs `v` -/
theorem inv_rename_install (t : Path) (old : Option Content) (s : St) (c : Chk) (a : Path) (i : Nat)
    (inv : Inv t old s c) (hfree : ∀ x ∈ c.sess, x.p ≠ a) (hat : a ≠ t) (hna : s.names a = some i) :
    Inv t old (step s (.rename a t)) ⟨c.sess, s.data i :: c.installed⟩ := by
  simp only [step, hna, hat, if_false]
  refine ⟨inj_rename _ _ _ _ inv.inj hna, fresh_rename _ _ _ _ _ inv.fresh hna, inv.distinct, inv.notT, ?_, inv.idle, ?_⟩
  · intro x hx
    obtain ⟨j, hj1, hj2, hj3⟩ := inv.held x hx
    refine ⟨j, ?_, hj2, hj3⟩
    show upd (upd s.names t (some i)) a none x.p = some j
    rw [upd_other _ _ _ _ (hfree x hx), upd_other _ _ _ _ (inv.notT x hx), hj1]
  · right
    refine ⟨s.data i, List.mem_cons_self, ?_⟩
    show (upd (upd s.names t (some i)) a none t).map s.data = _
    rw [upd_other _ _ _ _ (fun e => hat e.symm), upd_same]
    rfl

theorem inv_remove_free (t : Path) (old : Option Content) (s : St) (c : Chk) (p : Path)
    (inv : Inv t old s c) (hfree : ∀ x ∈ c.sess, x.p ≠ p) (hpt : p ≠ t) :
    Inv t old (step s (.remove p)) c := by
  simp only [step]
  refine ⟨?_, ?_, inv.distinct, inv.notT, ?_, inv.idle, ?_⟩
  · intro q q' j h1 h2
    have h1' : upd s.names p none q = some j := h1
    have h2' : upd s.names p none q' = some j := h2
    by_cases e1 : q = p
    · rw [e1, upd_same] at h1'; exact absurd h1' (by simp)
    · by_cases e2 : q' = p
      · rw [e2, upd_same] at h2'; exact absurd h2' (by simp)
      · rw [upd_other _ _ _ _ e1] at h1'
        rw [upd_other _ _ _ _ e2] at h2'
        exact inv.inj _ _ _ h1' h2'
  · intro q j h1
    have h1' : upd s.names p none q = some j := h1
    by_cases e1 : q = p
    · rw [e1, upd_same] at h1'; exact absurd h1' (by simp)
    · rw [upd_other _ _ _ _ e1] at h1'
      exact inv.fresh _ _ h1'
  · intro x hx
    obtain ⟨j, hj1, hj2, hj3⟩ := inv.held x hx
    refine ⟨j, ?_, hj2, hj3⟩
    show upd s.names p none x.p = some j
    rw [upd_other _ _ _ _ (hfree x hx), hj1]
  · refine tgt_congr (s := s) ?_ (fun _ _ => rfl) inv.tgt
    show upd s.names p none t = s.names t
    rw [upd_other _ _ _ _ (fun e => hpt e.symm)]

theorem inv_rename (t : Path) (old : Option Content) (s : St) (c c' : Chk) (a b : Path)
    (inv : Inv t old s c) (h : chkStep t c (.rename a b) = some c') : Inv t old (step s (.rename a b)) c' := by
  simp only [chkStep] at h
  split at h
  · rename_i hc
    simp only [Bool.and_eq_true, bne_iff_ne, ne_eq, List.all_eq_true, Bool.or_eq_true, Bool.not_eq_true',
      beq_iff_eq] at hc
    obtain ⟨hat, hall⟩ := hc
    have hcl : ∀ x ∈ c.sess, x.p = a → x.isOpen = false := by
      intro x hx e
      rcases (hall x hx).1 with h1 | h1
      · exact absurd e h1
      · exact h1
    have inv1 := inv_drop t old s c a inv hcl
    split at h
    · rename_i hbt
      subst hbt
      split at h
      · rename_i x0 hfind
        injection h with h
        subst h
        have hx0 : x0 ∈ c.sess := List.mem_of_find?_eq_some hfind
        have hp0 : x0.p = a := by simpa using List.find?_some hfind
        obtain ⟨i, hn0, hd0, _⟩ := inv.held x0 hx0
        rw [hp0] at hn0
        have := inv_rename_install b old s _ a i inv1
          (fun x hx => by simpa using (List.mem_filter.1 hx).2) hat hn0
        rw [hd0] at this
        exact this
      · exact absurd h (by simp)
    · rename_i hbt
      injection h with h
      subst h
      by_cases hab : a = b
      · subst hab
        have hstep : step s (.rename a a) = s := by
          cases hna : s.names a <;> simp [step, hna]
        rw [hstep]
        have : c.sess.filter (fun y => y.p != a || a == a) = c.sess := by simp
        show Inv t old s ⟨c.sess.filter (fun y => y.p != a || a == a), c.installed⟩
        rw [this]
        exact inv
      · have hf : (fun y : Sess => y.p != a || a == b) = fun y => y.p != a := by
          funext y; simp [hab]
        show Inv t old _ ⟨c.sess.filter (fun y => y.p != a || a == b), c.installed⟩
        rw [hf]
        apply inv_rename_free t old s _ a b inv1 ?_ hat hbt
        intro x hx
        obtain ⟨hx1, hx2⟩ := List.mem_filter.1 hx
        refine ⟨by simpa using hx2, ?_⟩
        rcases (hall x hx1).2 with h1 | h1
        · exact h1
        · exact absurd h1 hab
  · exact absurd h (by simp)

theorem inv_remove (t : Path) (old : Option Content) (s : St) (c c' : Chk) (p : Path)
    (inv : Inv t old s c) (h : chkStep t c (.remove p) = some c') : Inv t old (step s (.remove p)) c' := by
  simp only [chkStep] at h
  split at h
  · rename_i hc
    simp only [Bool.and_eq_true, bne_iff_ne, ne_eq, List.all_eq_true, Bool.or_eq_true, Bool.not_eq_true'] at hc
    obtain ⟨hpt, hall⟩ := hc
    injection h with h
    subst h
    have hcl : ∀ x ∈ c.sess, x.p = p → x.isOpen = false := by
      intro x hx e
      rcases hall x hx with h1 | h1
      · exact absurd e h1
      · exact h1
    exact inv_remove_free t old s _ p (inv_drop t old s c p inv hcl)
      (fun x hx => by simpa using (List.mem_filter.1 hx).2) hpt
  · exact absurd h (by simp)

/-- **one event** keeps the invariant -/
theorem inv_step (t : Path) (old : Option Content) (s : St) (c c' : Chk) (e : Ev)
    (inv : Inv t old s c) (h : chkStep t c e = some c') : Inv t old (step s e) c' := by
  cases e with
  | openW w p => exact inv_open t old s c c' w p inv h
  | write w b => exact inv_write t old s c c' w b inv h
  | close w => exact inv_close t old s c c' w inv h
  | rename a b => exact inv_rename t old s c c' a b inv h
  | remove p => exact inv_remove t old s c c' p inv h

theorem inv_run (t : Path) (old : Option Content) (evs : List Ev) : ∀ (s : St) (c c' : Chk),
    Inv t old s c → chkRun t c evs = some c' → Inv t old (crun evs s) c' := by
  induction evs with
  | nil => intro s c c' inv h; simp only [chkRun] at h; injection h with h; subst h; exact inv
  | cons e evs ih =>
    intro s c c' inv h
    simp only [chkRun] at h
    split at h
    · rename_i c1 hc1
      exact ih _ _ _ (inv_step t old s c c1 e inv hc1) h
    · exact absurd h (by simp)

theorem chkStep_mono (t : Path) (c c' : Chk) (e : Ev) (h : chkStep t c e = some c') :
    ∀ v ∈ c.installed, v ∈ c'.installed := by
  intro v hv
  cases e with
  | openW w p =>
    simp only [chkStep] at h
    split at h
    · injection h with h; subst h; exact hv
    · exact absurd h (by simp)
  | write w b =>
    simp only [chkStep] at h
    split at h
    · injection h with h; subst h; exact hv
    · exact absurd h (by simp)
  | close w =>
    simp only [chkStep] at h
    split at h
    · injection h with h; subst h; exact hv
    · exact absurd h (by simp)
  | rename a b =>
    simp only [chkStep] at h
    split at h
    · split at h
      · split at h
        · injection h with h; subst h; exact List.mem_cons_of_mem _ hv
        · exact absurd h (by simp)
      · injection h with h; subst h; exact hv
    · exact absurd h (by simp)
  | remove p =>
    simp only [chkStep] at h
    split at h
    · injection h with h; subst h; exact hv
    · exact absurd h (by simp)

theorem chkRun_mono (t : Path) (evs : List Ev) : ∀ (c c' : Chk), chkRun t c evs = some c' →
    ∀ v ∈ c.installed, v ∈ c'.installed := by
  induction evs with
  | nil => intro c c' h; simp only [chkRun] at h; injection h with h; subst h; exact fun v hv => hv
  | cons e evs ih =>
    intro c c' h v hv
    simp only [chkRun] at h
    split at h
    · rename_i c1 hc1
      exact ih c1 c' h v (chkStep_mono t c c1 e hc1 v hv)
    · exact absurd h (by simp)

/-- the checker accepts every prefix of an accepted trace, and what a prefix installed stays installed -/
theorem chkRun_take (t : Path) (evs : List Ev) : ∀ (c c' : Chk) (n : Nat), chkRun t c evs = some c' →
    ∃ c1, chkRun t c (evs.take n) = some c1 ∧ ∀ v ∈ c1.installed, v ∈ c'.installed := by
  induction evs with
  | nil =>
    intro c c' n h
    simp only [chkRun] at h
    injection h with h
    subst h
    exact ⟨c, by simp [chkRun], fun v hv => hv⟩
  | cons e evs ih =>
    intro c c' n h
    have hmono := chkRun_mono t (e :: evs) c c' h
    simp only [chkRun] at h
    split at h
    · rename_i c1 hc1
      cases n with
      | zero => exact ⟨c, by simp [chkRun], hmono⟩
      | succ n =>
        obtain ⟨c2, h2, h3⟩ := ih c1 c' n h
        exact ⟨c2, by simp [chkRun, hc1, h2], h3⟩
    · exact absurd h (by simp)

theorem mkSt_wf (files : List (Path × Content)) : WF (mkSt files) where
  inj := by
    intro p q i h1 h2
    simp only [mkSt] at h1 h2
    rw [List.findIdx?_eq_some_iff_getElem] at h1 h2
    obtain ⟨hl, h1, _⟩ := h1
    obtain ⟨_, h2, _⟩ := h2
    simp only [beq_iff_eq] at h1 h2
    rw [← h1, ← h2]
  fresh := by
    intro p i h1
    simp only [mkSt] at h1
    rw [List.findIdx?_eq_some_iff_getElem] at h1
    exact h1.1
  nofd := fun _ => rfl

end St4sd.FsConc
