import St4sd.Model.Ctrl
/-!
# Invariants of the stage-controller model used by `Props/C02`

`CI` is the per-component invariant (parametrised by the notification `exc` that is being
delivered right now, so that the intermediate states of `deliverFin` / `deliverPM` satisfy it),
`Inv` says that it holds of every component.  This file proves preservation by the primitives
`finish`, `fakeFinish`, the launch folds and `taskExit`.
-/
namespace St4sd.C02L
open St4sd.Ctrl

/-! ## projections -/

@[simp] theorem upd_comp (s : St) (c : Nat) (f : CompS → CompS) (j : Nat) :
    (s.upd c f).comp j = if j = c then f (s.comp j) else s.comp j := rfl
@[simp] theorem upd_done (s : St) (c : Nat) (f : CompS → CompS) : (s.upd c f).done = s.done := rfl
@[simp] theorem upd_pending (s : St) (c : Nat) (f : CompS → CompS) : (s.upd c f).pending = s.pending := rfl
@[simp] theorem upd_stop (s : St) (c : Nat) (f : CompS → CompS) : (s.upd c f).stop = s.stop := rfl
@[simp] theorem upd_cur (s : St) (c : Nat) (f : CompS → CompS) : (s.upd c f).cur = s.cur := rfl
@[simp] theorem push_comp (s : St) (n : Notif) : (s.push n).comp = s.comp := rfl
@[simp] theorem push_done (s : St) (n : Notif) : (s.push n).done = s.done := rfl
@[simp] theorem push_pending (s : St) (n : Notif) : (s.push n).pending = s.pending ++ [n] := rfl
@[simp] theorem push_stop (s : St) (n : Notif) : (s.push n).stop = s.stop := rfl
@[simp] theorem push_cur (s : St) (n : Notif) : (s.push n).cur = s.cur := rfl

/-- the restart decision only reads the two counters -/
theorem restartable_congr (wf : Wf) (d : CompDef) (a b : CompS) (r : Reason)
    (h1 : a.restarts = b.restarts) (h2 : a.resub = b.resub) :
    restartable wf d a r = restartable wf d b r := by
  simp [restartable, h1, h2]

/-- value of the rest of the script after the pending post-mortem of exit reason `r` -/
def afterPM (wf : Wf) (c : Nat) (cs : CompS) (r : Reason) : Fin3 :=
  if restartable wf (wf.cdef c) cs r then
    ownFrom wf (wf.cdef c) ((wf.cdef c).script.drop cs.execs)
      (if r = .submissionFailed then cs.restarts else cs.restarts + 1)
      (if r = .submissionFailed then cs.resub + 1 else cs.resub)
  else finalOf (wf.cdef c) r

/-- per-component invariant -/
structure CI (wf : Wf) (exc : Option Notif) (c : Nat) (cs : CompS) (dn : Bool) (pend : List Notif) : Prop where
  k0 : cs.ctrl.isSome = true → cs.finishCalled = true
  k1 : cs.finishCalled = true → cs.staged = true
  k2 : cs.ran = true → cs.staged = true
  k3 : cs.pendingFinal.isSome = true →
        cs.finishCalled = true ∧ cs.ran = true ∧ cs.exit = none ∧ cs.ctrl = none
  k3' : cs.finishCalled = true → cs.ran = true → cs.exit = none → cs.ctrl = none →
        cs.pendingFinal.isSome = true
  k4 : cs.staged = true → cs.ran = false → cs.ctrl.isSome = true
  k5 : cs.ran = true → cs.exit.isSome = true → cs.ctrl = none →
        (Notif.pm c ∈ pend ∨ exc = some (.pm c)) ∧ cs.finishCalled = false
  k6 : cs.ctrl.isSome = true → dn = true ∨ Notif.fin c ∈ pend ∨ exc = some (.fin c)
  k8 : dn = true → cs.ctrl.isSome = true
  k8' : Notif.fin c ∈ pend → cs.ctrl.isSome = true
  k9 : cs.exit.isSome = true → cs.staged = true
  k9' : cs.exit.isSome = true → cs.ctrl = none → cs.ran = true
  k10 : cs.ctrl.isSome = true → cs.exit.isSome = true
  u : cs.staged = true → c ∈ wf.order
  b1 : ∀ f, cs.ctrl = some f → f = .shutdown ∨ f = own wf c
  b2 : ∀ f, cs.pendingFinal = some f → f = .shutdown ∨ f = own wf c
  s1 : cs.exit = none →
        ownFrom wf (wf.cdef c) ((wf.cdef c).script.drop cs.execs) cs.restarts cs.resub = own wf c
  s2 : ∀ r, cs.exit = some r → cs.ctrl = none → afterPM wf c cs r = own wf c

structure Inv (wf : Wf) (exc : Option Notif) (s : St) : Prop where
  ci : ∀ j, CI wf exc j (s.comp j) (s.done j) s.pending
  /-- the stage loop never runs past the last stage -/
  curLe : s.cur ≤ wf.lastStage

/-- two-state facts: `staged` and a final `ctrl` never go back, `cur` and `done` are untouched -/
structure Mono (s s' : St) : Prop where
  staged : ∀ j, (s.comp j).staged = true → (s'.comp j).staged = true
  ctrl : ∀ j f, (s.comp j).ctrl = some f → (s'.comp j).ctrl = some f
  cur : s'.cur = s.cur

/-- the part of `Mono` that also holds across a stage transition -/
structure MonoC (s s' : St) : Prop where
  staged : ∀ j, (s.comp j).staged = true → (s'.comp j).staged = true
  ctrl : ∀ j f, (s.comp j).ctrl = some f → (s'.comp j).ctrl = some f

theorem Mono.toC {s s' : St} (h : Mono s s') : MonoC s s' := ⟨h.staged, h.ctrl⟩

theorem MonoC.refl (s : St) : MonoC s s := ⟨fun _ h => h, fun _ _ h => h⟩
theorem MonoC.trans {a b c : St} (h1 : MonoC a b) (h2 : MonoC b c) : MonoC a c :=
  ⟨fun j h => h2.staged j (h1.staged j h), fun j f h => h2.ctrl j f (h1.ctrl j f h)⟩

theorem Mono.refl (s : St) : Mono s s := ⟨fun _ h => h, fun _ _ h => h, rfl⟩
theorem Mono.trans {a b c : St} (h1 : Mono a b) (h2 : Mono b c) : Mono a c :=
  ⟨fun j h => h2.staged j (h1.staged j h), fun j f h => h2.ctrl j f (h1.ctrl j f h), by rw [h2.cur, h1.cur]⟩

theorem CI.push {wf exc j cs dn pend} (h : CI wf exc j cs dn pend) (n : Notif) (hn : n ≠ .fin j) :
    CI wf exc j cs dn (pend ++ [n]) := by
  refine { h with k5 := ?_, k6 := ?_, k8' := ?_ }
  · intro a b c; have := h.k5 a b c; simp only [List.mem_append]; grind
  · intro a; have := h.k6 a; simp only [List.mem_append]; grind
  · intro a
    simp only [List.mem_append, List.mem_singleton] at a
    rcases a with a | a
    · exact h.k8' a
    · exact absurd a.symm hn

theorem inv_init (wf : Wf) : Inv wf none init := by
  refine ⟨fun j => ?_, Nat.zero_le _⟩
  constructor <;> simp [init, own]

/-! ## `finish` -/

theorem finish_inv {wf exc s c st} (hI : Inv wf exc s) (hst : (s.comp c).staged = true)
    (hc : (s.comp c).ctrl = none) (hf : st = .shutdown ∨ st = own wf c) :
    Inv wf exc (finish s c st) := by
  have hcI := hI.ci c
  unfold finish
  simp only [hc, hst, Option.isSome_none, Bool.false_eq_true, if_false, if_true]
  split
  · -- post-mortem
    rename_i hex
    refine ⟨fun j => ?_, hI.curLe⟩
    by_cases hj : j = c
    · subst hj
      have hpf : (s.comp j).pendingFinal = none := by
        cases hp : (s.comp j).pendingFinal with
        | none => rfl
        | some v => have := (hcI.k3 (by simp [hp])).2.2.1; simp [this] at hex
      constructor <;> simp_all
      · exact hcI.u hst
      · intro h; simp [h] at hex
    · simp only [push_comp, upd_comp, hj, if_false, push_done, upd_done, push_pending, upd_pending]
      exact (hI.ci j).push _ (by simp; omega)
  · split
    · -- live task
      rename_i hex hran
      refine ⟨fun j => ?_, hI.curLe⟩
      by_cases hj : j = c
      · subst hj
        have hex' : (s.comp j).exit = none := by simpa using hex
        constructor <;> simp_all
        · cases hd : s.done j with
          | false => rfl
          | true => have := hcI.k8 hd; simp [hc] at this
        · intro hd; have := hcI.k8' hd; simp [hc] at this
        · exact hcI.u hst
        · exact hcI.s1 hex'
      · simp only [upd_comp, hj, if_false, upd_done, upd_pending]
        exact hI.ci j
    · -- never launched
      rename_i hex hran
      refine ⟨fun j => ?_, hI.curLe⟩
      by_cases hj : j = c
      · subst hj
        have hpf : (s.comp j).pendingFinal = none := by
          cases hp : (s.comp j).pendingFinal with
          | none => rfl
          | some v => have := (hcI.k3 (by simp [hp])).2.1; simp [this] at hran
        constructor <;> simp_all
        · exact hcI.u hst
      · simp only [push_comp, upd_comp, hj, if_false, push_done, upd_done, push_pending, upd_pending]
        exact (hI.ci j).push _ (by simp; omega)

theorem finish_mono {s c st} (hc : (s.comp c).ctrl = none) : Mono s (finish s c st) := by
  unfold finish
  simp only [hc, Option.isSome_none, Bool.false_eq_true, if_false]
  refine ⟨fun j h => ?_, fun j f h => ?_, ?_⟩
  · split <;> (try split) <;> (try split) <;> simp <;> split <;> simp_all
  · have : j ≠ c := by intro e; subst e; simp [hc] at h
    split <;> (try split) <;> (try split) <;> simp [this, h]
  · split <;> (try split) <;> (try split) <;> simp

/-- facts about a component that is not staged in -/
theorem unstaged_facts {wf exc c cs dn pend} (h : CI wf exc c cs dn pend) (hst : cs.staged = false) :
    cs.finishCalled = false ∧ cs.ctrl = none ∧ cs.ran = false ∧ cs.exit = none ∧ cs.pendingFinal = none := by
  have h0 := h.k0; have h1 := h.k1; have h2 := h.k2; have h3 := h.k3; have h9 := h.k9
  cases hfc : cs.finishCalled <;> cases hct : cs.ctrl <;> cases hr : cs.ran <;> cases he : cs.exit <;>
    cases hp : cs.pendingFinal <;> simp_all

theorem fakeFinish_inv {wf exc s c st} (hI : Inv wf exc s) (hst : (s.comp c).staged = false)
    (ho : c ∈ wf.order) (hf : st = .shutdown ∨ st = own wf c) :
    Inv wf exc (fakeFinish s c st) := by
  have hcI := hI.ci c
  obtain ⟨hfc, hct, hr, he, hp⟩ := unstaged_facts hcI hst
  unfold fakeFinish finish
  simp only [upd_comp, if_true, hct, he, hr, Option.isSome_none, Bool.false_eq_true, if_false]
  refine ⟨fun j => ?_, hI.curLe⟩
  by_cases hj : j = c
  · subst hj
    constructor <;> simp_all
  · simp only [push_comp, upd_comp, hj, if_false, push_done, upd_done, push_pending, upd_pending]
    exact (hI.ci j).push _ (by simp; omega)

theorem fakeFinish_mono {s c st} (hc : (s.comp c).ctrl = none) : Mono s (fakeFinish s c st) := by
  unfold fakeFinish
  refine Mono.trans (b := s.upd c fun x => { x with staged := true }) ⟨?_, ?_, rfl⟩ (finish_mono ?_)
  · intro j h; simp only [upd_comp]; split <;> simp_all
  · intro j f h; simp only [upd_comp]; split <;> simp_all
  · simp [hc]

theorem fakeFinish_staged (s : St) (c : Nat) (st : Fin3) : ((fakeFinish s c st).comp c).staged = true := by
  unfold fakeFinish finish
  simp only [upd_comp, if_true]
  split <;> (try split) <;> (try split) <;> simp <;> (try split) <;> simp

/-! ## launching: `stageIn` fold followed by `runComp` fold -/

theorem foldl_stageIn_comp (wf : Wf) (l : List Nat) (s : St) (j : Nat) :
    ∃ w, ((l.foldl (stageIn wf) s).comp j) =
      if j ∈ l then { s.comp j with staged := true, watch := w } else s.comp j := by
  induction l generalizing s with
  | nil => exact ⟨none, by simp⟩
  | cons a l ih =>
    obtain ⟨w, hw⟩ := ih (stageIn wf s a)
    simp only [List.foldl_cons, hw, List.mem_cons]
    by_cases h1 : j ∈ l <;> by_cases h2 : j = a
    · subst h2; exact ⟨w, by simp [h1, stageIn]⟩
    · exact ⟨w, by simp [h1, h2, stageIn]⟩
    · subst h2; exact ⟨_, by simp [h1, stageIn]; rfl⟩
    · exact ⟨none, by simp [h1, h2, stageIn]⟩

theorem foldl_stageIn_rest (wf : Wf) (l : List Nat) (s : St) :
    (l.foldl (stageIn wf) s).done = s.done ∧ (l.foldl (stageIn wf) s).pending = s.pending ∧
    (l.foldl (stageIn wf) s).cur = s.cur ∧ (l.foldl (stageIn wf) s).stop = s.stop := by
  induction l generalizing s with
  | nil => simp
  | cons a l ih => simp only [List.foldl_cons, ih, stageIn, upd_done, upd_pending, upd_cur, upd_stop, and_self]

theorem foldl_runComp_comp (wf : Wf) (l : List Nat) (s : St) (j : Nat) :
    ∃ k, ((l.foldl (runComp wf) s).comp j) =
      if j ∈ l then { s.comp j with ran := true, launches := k } else s.comp j := by
  induction l generalizing s with
  | nil => simp
  | cons a l ih =>
    obtain ⟨k, hk⟩ := ih (runComp wf s a)
    simp only [List.foldl_cons, hk, List.mem_cons]
    by_cases h1 : j ∈ l <;> by_cases h2 : j = a
    · subst h2; exact ⟨k, by simp [h1, runComp]⟩
    · exact ⟨k, by simp [h1, h2, runComp]⟩
    · subst h2; exact ⟨(s.comp j).launches + 1, by simp [h1, runComp]⟩
    · exact ⟨0, by simp [h1, h2, runComp]⟩

theorem foldl_runComp_rest (wf : Wf) (l : List Nat) (s : St) :
    (l.foldl (runComp wf) s).done = s.done ∧ (l.foldl (runComp wf) s).pending = s.pending ∧
    (l.foldl (runComp wf) s).cur = s.cur ∧ (l.foldl (runComp wf) s).stop = s.stop := by
  induction l generalizing s with
  | nil => simp
  | cons a l ih => simp [List.foldl_cons, ih, runComp]

theorem launch_comp (wf : Wf) (l : List Nat) (s : St) (j : Nat) :
    ∃ k w, ((l.foldl (runComp wf) (l.foldl (stageIn wf) s)).comp j) =
      if j ∈ l then { s.comp j with staged := true, ran := true, launches := k, watch := w } else s.comp j := by
  obtain ⟨k, hk⟩ := foldl_runComp_comp wf l (l.foldl (stageIn wf) s) j
  obtain ⟨w, hw⟩ := foldl_stageIn_comp wf l s j
  refine ⟨k, w, ?_⟩
  rw [hk, hw]
  split <;> rfl

theorem launch_rest (wf : Wf) (l : List Nat) (s : St) :
    (l.foldl (runComp wf) (l.foldl (stageIn wf) s)).done = s.done ∧
    (l.foldl (runComp wf) (l.foldl (stageIn wf) s)).pending = s.pending ∧
    (l.foldl (runComp wf) (l.foldl (stageIn wf) s)).cur = s.cur ∧
    (l.foldl (runComp wf) (l.foldl (stageIn wf) s)).stop = s.stop := by
  obtain ⟨a, b, c, d⟩ := foldl_runComp_rest wf l (l.foldl (stageIn wf) s)
  obtain ⟨a', b', c', d'⟩ := foldl_stageIn_rest wf l s
  exact ⟨a.trans a', b.trans b', c.trans c', d.trans d'⟩

theorem CI.launch {wf exc c cs dn pend} (h : CI wf exc c cs dn pend) (ho : c ∈ wf.order) (k : Nat)
    (w : Option (List Nat)) :
    CI wf exc c { cs with staged := true, ran := true, launches := k, watch := w } dn pend := by
  obtain ⟨k0, k1, k2, k3, k3', k4, k5, k6, k8, k8', k9, k9', k10, u, b1, b2, s1, s2⟩ := h
  constructor <;> simp_all [afterPM, restartable]
  intro a b c; cases hr : cs.ran <;> simp_all

theorem launch_inv {wf exc s} (l : List Nat) (hI : Inv wf exc s) (hl : ∀ c ∈ l, c ∈ wf.order) :
    Inv wf exc (l.foldl (runComp wf) (l.foldl (stageIn wf) s)) := by
  obtain ⟨hd, hp, hc, _⟩ := launch_rest wf l s
  refine ⟨fun j => ?_, by rw [hc]; exact hI.curLe⟩
  obtain ⟨k, w, hk⟩ := launch_comp wf l s j
  rw [hk, hd, hp]
  split
  · exact (hI.ci j).launch (hl j ‹_›) k w
  · exact hI.ci j

theorem launch_mono (wf : Wf) (l : List Nat) (s : St) :
    Mono s (l.foldl (runComp wf) (l.foldl (stageIn wf) s)) := by
  refine ⟨fun j h => ?_, fun j f h => ?_, (launch_rest wf l s).2.2.1⟩
  · obtain ⟨k, w, hk⟩ := launch_comp wf l s j; rw [hk]; split <;> simp [h]
  · obtain ⟨k, w, hk⟩ := launch_comp wf l s j; rw [hk]; split <;> simp [h]

end St4sd.C02L
