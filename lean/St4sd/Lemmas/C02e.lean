import St4sd.Lemmas.C02d
/-! Preservation of `Inv2` (agreement with `spec` unless a component that `spec` says fails has failed). -/
namespace St4sd.C02L
open St4sd.Ctrl

theorem deliverFin_gstep {wf : Wf} {s : St} (c : Nat) (hN : NoFailed s) :
    GStep wf s (deliverFin wf s c) := by
  unfold deliverFin
  by_cases hp : Notif.fin c ∈ s.pending
  · simp only [hp, if_true, hN c, if_false]
    exact GStep.of_eq rfl rfl
  · simp only [hp, if_false]; exact GStep.of_eq rfl rfl

theorem fakeFinish_char {s : St} {c : Nat} {st : Fin3} (hct : (s.comp c).ctrl = none)
    (hex : (s.comp c).exit = none) (hr : (s.comp c).ran = false) (j : Nat) :
    (fakeFinish s c st).comp j =
        (if j = c then { s.comp j with staged := true, finishCalled := true, ctrl := some st, exit := some .killed }
         else s.comp j)
      ∧ (fakeFinish s c st).stop = s.stop := by
  unfold fakeFinish finish
  simp only [upd_comp, if_true, hct, hex, hr, Option.isSome_none, Bool.false_eq_true, if_false]
  by_cases hj : j = c <;> simp [hj]

theorem fakeFinish_gstep {wf : Wf} {s : St} {c : Nat} (hI : Inv wf none s)
    (hst : (s.comp c).staged = false) (ho : c ∈ wf.order) (hsp : spec wf c = .shutdown) :
    GStep wf s (fakeFinish s c .shutdown) := by
  obtain ⟨_, hct, hr, hex, _⟩ := unstaged_facts (hI.ci c) hst
  have hchar := fun j => fakeFinish_char (st := .shutdown) hct hex hr j
  refine ⟨(hchar 0).2, fun j h => ?_, fun j h => ?_, fun j => ?_⟩
  · rw [(hchar j).1]; split <;> simp_all
  · left; rw [(hchar j).1] at h; revert h; split <;> simp_all
  · rw [(hchar j).1]
    by_cases hj : j = c
    · subst hj; right; exact ⟨hct, by simp [hsp], ho⟩
    · left; simp [hj]

theorem mustShutdown_spec {wf : Wf} {s : St} {c : Nat} (hrs : RepeatSafe wf)
    (hI : Inv wf none s) (hG : Good wf s) (hc : c < wf.n) (hdeps : depsSatisfied wf s c = true) :
    mustShutdown wf s c = ruleShutdown wf (spec wf) c := by
  rw [mustShutdown_eq, ruleShutdown_eq]
  apply rule_congr
  intro p hp
  simp only [depsSatisfied, List.all_eq_true, Bool.or_eq_true, Bool.and_eq_true, beq_iff_eq] at hdeps
  rcases hdeps p hp with hd | ⟨⟨hrep, hstage⟩, hstg⟩
  · have := (hI.ci p).k8 hd
    cases hct : (s.comp p).ctrl with
    | none => simp [hct] at this
    | some f =>
      have := hG.agree p f hct
      subst this
      simp [predState, hct]
  · have hsp := hrs c hc hrep p hp hstage
    cases hct : (s.comp p).ctrl with
    | none => simp [predState, hct, hsp]
    | some f =>
      have := hG.agree p f hct
      rw [hsp] at this
      subst this
      simp [predState, hct, hsp]

theorem visit_fold_good {wf : Wf} {s : St} (hwf : wf.WF) (hrs : RepeatSafe wf)
    (hI : Inv wf none s) (hG : Good wf s) (l : List Nat) (hl : ∀ c ∈ l, c ∈ wf.order) :
    let r := l.foldl (visit wf) (s, [])
    Inv wf none r.1 ∧ Good wf r.1 ∧ GStep wf s r.1 ∧ ∀ c ∈ r.2, c ∈ wf.order ∧ spec wf c = own wf c := by
  refine foldl_inv (fun a : St × List Nat => Inv wf none a.1 ∧ Good wf a.1 ∧ GStep wf s a.1 ∧
      ∀ c ∈ a.2, c ∈ wf.order ∧ spec wf c = own wf c)
    (visit wf) l ?_ (s, []) ⟨hI, hG, GStep.of_eq rfl rfl, by simp⟩
  intro a c hc ⟨hIa, hGa, hSa, hla⟩
  unfold visit
  split
  · rename_i hel
    simp only [eligible, Bool.and_eq_true, Bool.not_eq_true'] at hel
    have hms := mustShutdown_spec hrs hIa hGa (hwf.order_lt c (hl c hc)) hel.2
    have hsu := spec_unfold' wf hwf c
    split
    · rename_i hm
      rw [← hms, hm] at hsu
      simp only [if_true] at hsu
      have hg := fakeFinish_gstep hIa hel.1.2 (hl c hc) hsu
      exact ⟨fakeFinish_inv hIa hel.1.2 (hl c hc) (Or.inl rfl), hg.good hGa, hSa.trans hg, hla⟩
    · rename_i hm
      have hm : mustShutdown wf a.1 c = false := by simpa using hm
      rw [← hms, hm] at hsu
      simp only [Bool.false_eq_true, if_false] at hsu
      refine ⟨hIa, hGa, hSa, fun d hd => ?_⟩
      rcases List.mem_append.1 hd with hd | hd
      · exact hla d hd
      · simp only [List.mem_singleton] at hd; subst hd; exact ⟨hl _ hc, hsu⟩
  · exact ⟨hIa, hGa, hSa, hla⟩

theorem schedPass_gstep {wf : Wf} {s : St} (hwf : wf.WF) (hrs : RepeatSafe wf)
    (hI : Inv wf none s) (hG : Good wf s) : GStep wf s (schedPass wf s) := by
  unfold schedPass
  obtain ⟨h1, h2, h3, h4⟩ := visit_fold_good hwf hrs hI hG wf.order (fun _ h => h)
  dsimp only
  simp only [h2.stop, Bool.false_eq_true, if_false]
  refine h3.trans ?_
  generalize (wf.order.foldl (visit wf) (s, [])) = r at h4
  obtain ⟨hd, hp, hc, hs⟩ := launch_rest wf r.2 r.1
  refine ⟨hs, fun j h => ?_, fun j h => ?_, fun j => ?_⟩
  · obtain ⟨k, w, hk⟩ := launch_comp wf r.2 r.1 j; rw [hk]; split <;> simp [h]
  · obtain ⟨k, w, hk⟩ := launch_comp wf r.2 r.1 j
    rw [hk] at h
    by_cases hj : j ∈ r.2
    · exact Or.inr (h4 j hj).2
    · left; simpa [hj] using h
  · left; obtain ⟨k, w, hk⟩ := launch_comp wf r.2 r.1 j; rw [hk]; split <;> simp

theorem advance_gstep {wf : Wf} {s : St} (hG : Good wf s) : GStep wf s (advance wf s) := by
  unfold advance
  split
  · exact ⟨hG.stop.symm, fun _ h => h, fun _ h => Or.inl h, fun _ => Or.inl rfl⟩
  · exact GStep.of_eq rfl rfl

theorem step_inv2 {wf : Wf} {s : St} (hwf : wf.WF) (hrs : RepeatSafe wf) (hI : Inv wf none s)
    (h2 : Inv2 wf s) (op : Op) (hk : op ≠ .kill) : Inv2 wf (step wf s op) := by
  rcases h2 with ⟨c, hc, hsp, hct⟩ | ⟨hG, hN⟩
  · exact Or.inl ⟨c, hc, hsp, (step_inv op hI).2.ctrl c _ hct⟩
  · have : GStep wf s (step wf s op) := by
      cases op with
      | sched => exact schedPass_gstep hwf hrs hI hG
      | exit c => exact taskExit_gstep c (hG.pf c)
      | fin c => exact deliverFin_gstep c hN
      | pm c => exact deliverPM_gstep c hI hG
      | kill => exact absurd rfl hk
      | tick c => exact GStep.of_eq rfl rfl
      | next => exact advance_gstep hG
    exact this.inv2 hwf hG hN

theorem run_from_inv2 {wf : Wf} (hwf : wf.WF) (hrs : RepeatSafe wf) (ops : List Op) :
    ∀ s, Inv wf none s → Inv2 wf s → Op.kill ∉ ops → Inv2 wf (ops.foldl (step wf) s) := by
  induction ops with
  | nil => intro s _ h _; exact h
  | cons op ops ih =>
    intro s hI h2 hk
    simp only [List.mem_cons, not_or] at hk
    exact ih _ (step_inv op hI).1 (step_inv2 hwf hrs hI h2 op (fun e => hk.1 e.symm)) hk.2

theorem run_inv2 {wf : Wf} (hwf : wf.WF) (hrs : RepeatSafe wf) (ops : List Op) (hk : Op.kill ∉ ops) :
    Inv2 wf (run wf ops) := by
  refine run_from_inv2 hwf hrs ops init (inv_init wf) (Or.inr ⟨⟨rfl, ?_, ?_, ?_⟩, ?_⟩) hk
  · intro c; rfl
  · intro c f h; simp [init] at h
  · intro c h; simp [init] at h
  · intro c h; simp [init] at h

end St4sd.C02L
