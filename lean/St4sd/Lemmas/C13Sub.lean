import St4sd.Model.RepeatSub
import St4sd.Lemmas.C13
/-! Invariants of the producers-finished subscription model and its composition with the poll protocol
(helper lemmas for Props/C13). -/
namespace St4sd.RepeatSub
open St4sd.Repeat

/-- the subscription state is determined by the references, the finished set and `stagedIn` -/
def SubInv (refs : List Pid) (s : Sub) : Prop :=
  s.refs = refs ∧
  (s.stagedIn = false → s.waiting = [] ∧ s.notified = false ∧ s.count = 0) ∧
  (s.stagedIn = true → s.waiting = refs.filter (fun p => !s.finished.contains p) ∧
      (s.notified = true ↔ s.waiting = []) ∧ s.count = b2n s.notified)

theorem subInv_init (refs : List Pid) : SubInv refs (Sub.init refs) := by
  simp [SubInv, Sub.init]

private theorem filter_step (refs fin : List Pid) (p : Pid) :
    (refs.filter (fun q => !fin.contains q)).filter (fun q => q != p) =
      refs.filter (fun q => !(p :: fin).contains q) := by
  rw [List.filter_filter]
  apply List.filter_congr
  intro q _
  simp only [List.contains_cons]
  cases h1 : (q == p) <;> cases h2 : fin.contains q <;> simp_all [bne]

private theorem b2n_false : b2n false = 0 := rfl

private theorem fire_lemma (W : List Pid) (p : Pid) (notified : Bool) (count : Nat)
    (n : notified = true ↔ W = []) (c : count = b2n notified) :
    ((notified || (!W.isEmpty && (W.filter (fun q => q != p)).isEmpty)) = true ↔
        W.filter (fun q => q != p) = []) ∧
    count + b2n (!W.isEmpty && (W.filter (fun q => q != p)).isEmpty) =
      b2n (notified || (!W.isEmpty && (W.filter (fun q => q != p)).isEmpty)) := by
  cases notified with
  | true =>
    have hw := n.mp rfl
    subst hw
    simp [c, b2n]
  | false =>
    cases W with
    | nil => simp at n
    | cons a l =>
      subst c
      simp only [List.isEmpty_cons, Bool.not_false, Bool.true_and, Bool.false_or, List.isEmpty_iff,
        b2n_false, Nat.zero_add, and_self]

theorem subInv_step (refs : List Pid) (s : Sub) (o : SubOp) (h : SubInv refs s) :
    SubInv refs (subStep s o) := by
  obtain ⟨srefs, fin, staged, waiting, notified, count⟩ := s
  simp only [SubInv] at h
  obtain ⟨h1, h2, h3⟩ := h
  subst h1
  cases o with
  | pexit p =>
    simp only [SubInv, subStep, fires, b2n_false, Bool.or_false, Nat.add_zero]
    exact ⟨trivial, h2, h3⟩
  | stageIn =>
    cases staged with
    | true =>
      simp only [SubInv, subStep, fires, b2n_false, Bool.not_true, Bool.false_and, Bool.or_false,
        Nat.add_zero, ite_true]
      exact ⟨trivial, fun h => by simp at h, fun _ => h3 rfl⟩
    | false =>
      obtain ⟨w, n, c⟩ := h2 rfl
      subst w n c
      simp only [SubInv, subStep, fires]
      refine ⟨rfl, by simp, fun _ => ⟨by simp, ?_, ?_⟩⟩
      · simp [List.isEmpty_iff]
      · simp [b2n]
  | pfin p =>
    cases hc : fin.contains p with
    | true =>
      simp only [SubInv, subStep, fires, hc, b2n_false, Bool.not_true, Bool.false_and, Bool.or_false,
        Nat.add_zero, ite_true]
      exact ⟨trivial, h2, h3⟩
    | false =>
      cases staged with
      | false =>
        obtain ⟨w, n, c⟩ := h2 rfl
        subst w n c
        simp only [SubInv, subStep, fires, hc, Bool.false_eq_true, ite_false]
        simp [b2n]
      | true =>
        obtain ⟨w, n, c⟩ := h3 rfl
        have hf := filter_step srefs fin p
        rw [← w] at hf
        have hl := fire_lemma waiting p notified count n c
        simp only [SubInv, subStep, fires, hc, Bool.false_eq_true, ite_false, Bool.not_false, Bool.true_and]
        exact ⟨trivial, by simp, fun _ => ⟨hf, hl.1, hl.2⟩⟩

theorem subRun_induction (P : Sub → Prop) (hstep : ∀ s o, P s → P (subStep s o)) :
    ∀ (h : List SubOp) (s : Sub), P s → P (subRun s h) := by
  intro h
  induction h with
  | nil => intro s hs; exact hs
  | cons o os ih => intro s hs; exact ih _ (hstep s o hs)

theorem subInv_all (refs : List Pid) (h : List SubOp) : SubInv refs (subExec refs h) :=
  subRun_induction (SubInv refs) (fun s o hs => subInv_step refs s o hs) h _ (subInv_init refs)

/-- a component is in the finished set iff it was there before or a `pfin` for it occurred -/
theorem finished_iff (p : Pid) : ∀ (h : List SubOp) (s : Sub),
    p ∈ (subRun s h).finished ↔ p ∈ s.finished ∨ SubOp.pfin p ∈ h := by
  intro h
  induction h with
  | nil => intro s; simp [subRun]
  | cons o os ih =>
    intro s
    rw [subRun, ih]
    cases o with
    | stageIn =>
      simp only [subStep]
      split <;> simp
    | pexit q => simp [subStep]
    | pfin q =>
      simp only [subStep]
      split
      · rename_i hq
        by_cases hpq : p = q
        · subst hpq
          have : p ∈ s.finished := by simpa using hq
          simp [this]
        · simp [hpq]
      · by_cases hpq : p = q
        · subst hpq; simp
        · simp [hpq]

theorem stagedIn_iff : ∀ (h : List SubOp) (s : Sub),
    (subRun s h).stagedIn = true ↔ s.stagedIn = true ∨ SubOp.stageIn ∈ h := by
  intro h
  induction h with
  | nil => intro s; simp [subRun]
  | cons o os ih =>
    intro s
    rw [subRun, ih]
    cases o with
    | stageIn =>
      simp only [subStep]
      split <;> simp_all
    | pexit q => simp [subStep]
    | pfin q =>
      simp only [subStep]
      split <;> simp

/-! composition -/

theorem crun_sub (cfg : Cfg) : ∀ (h : List COp) (c : CSt),
    (crun cfg c h).sub = subRun c.sub (subOps h) := by
  intro h
  induction h with
  | nil => intro c; rfl
  | cons op ops ih =>
    intro c
    rw [crun, ih]
    rcases op with (o | e) | o <;> simp [cstep, subOps, subRun]

theorem crun_eng (cfg : Cfg) : ∀ (h : List COp) (c : CSt),
    (crun cfg c h).eng = run cfg c.eng (project c.sub h) := by
  intro h
  induction h with
  | nil => intro c; rfl
  | cons op ops ih =>
    intro c
    rw [crun, ih]
    rcases op with (o | e) | o
    · simp only [cstep, project]
      split <;> simp [run]
    · simp [cstep, project, run]
    · simp [cstep, project, run]

/-- the engine's producers-finished flag is set by `fin` and by nothing else, and never reset -/
theorem step_prodDone (cfg : Cfg) (s : St) (op : Op) :
    (step cfg s op).prodDone = (s.prodDone || decide (op = .env .fin)) := by
  obtain ⟨clock, prodDone, finTime, suicide, armed, consume, retries, cancel, kc, hasProc, procKilled,
    lastLaunched, aged, hasOutput, lastOutput, outs, execLog, pc, cause, pollsFin, books, started⟩ := s
  rcases op with e | o
  · cases e <;> simp only [step, envStep, doKill] <;> (repeat' split) <;> simp
  · cases pc <;> simp only [step, engStep, post, doKill] <;> (repeat' split) <;> simp

theorem run_prodDone (cfg : Cfg) : ∀ (h : List Op) (s : St),
    (run cfg s h).prodDone = (s.prodDone || decide (Op.env .fin ∈ h)) := by
  intro h
  induction h with
  | nil => intro s; simp [run]
  | cons op ops ih =>
    intro s
    rw [run, ih, step_prodDone]
    by_cases h1 : op = .env .fin
    · simp [h1]
    · have : ¬ (Op.env Ev.fin = op) := fun e => h1 e.symm
      simp [h1, this]

/-- the projection contains a `fin` exactly if the subscription fires somewhere in the history -/
theorem fin_mem_project : ∀ (h : List COp) (s : Sub),
    Op.env .fin ∈ project s h ↔ (subRun s (subOps h)).count ≠ s.count := by
  intro h
  induction h with
  | nil => intro s; simp [project, subOps, subRun]
  | cons op ops ih =>
    intro s
    have mono : ∀ (l : List SubOp) (t : Sub), t.count ≤ (subRun t l).count := by
      intro l
      induction l with
      | nil => intro t; simp [subRun]
      | cons o os ihl =>
        intro t
        have := ihl (subStep t o)
        have h2 : t.count ≤ (subStep t o).count := by
          simp only [subStep]
          cases o <;> (repeat' split) <;> simp
        simp only [subRun]; omega
    rcases op with (o | e) | o
    · simp only [project, subOps, subRun, List.mem_append, ih]
      have hm := mono (subOps ops) (subStep s o)
      have hc : (subStep s o).count = s.count + b2n (fires s o) := by
        simp only [subStep]
        cases o <;> (repeat' split) <;> simp
      cases hf : fires s o
      · simp [hf, b2n] at hc ⊢
        rw [hc]
      · simp [hf, b2n] at hc ⊢
        omega
    · cases e <;> simp [project, subOps, XEv.toEv, ih]
    · simp [project, subOps, ih]

end St4sd.RepeatSub
