import St4sd.Model.Instance
/-!
Helper lemmas for C07: association-list dictionaries (`hasKey`, `get?`, `update`, `mapVals`) and the
interpolation function `interp` (closed templates are fixed points; more fuel changes nothing once the result
is closed; a context whose values were partly replaced by their closed interpolation resolves the same).
-/
namespace St4sd.Instance

/-! ### dictionaries -/

@[simp] theorem hasKey_nil (k : Name) : hasKey [] k = false := rfl
@[simp] theorem hasKey_cons (e : Name × Tmpl) (r : Dict) (k : Name) :
    hasKey (e :: r) k = (e.1 == k || hasKey r k) := rfl
@[simp] theorem mapVals_nil (f : Tmpl → Tmpl) : mapVals f [] = [] := rfl
@[simp] theorem mapVals_cons (f : Tmpl → Tmpl) (e : Name × Tmpl) (r : Dict) :
    mapVals f (e :: r) = (e.1, f e.2) :: mapVals f r := rfl
@[simp] theorem get?_nil (k : Name) : get? [] k = none := rfl
theorem get?_cons (e : Name × Tmpl) (r : Dict) (k : Name) :
    get? (e :: r) k = if e.1 == k then some e.2 else get? r k := by
  cases e; rfl

theorem mapVals_append (f : Tmpl → Tmpl) (a b : Dict) : mapVals f (a ++ b) = mapVals f a ++ mapVals f b := by
  simp [mapVals]

@[simp] theorem hasKey_mapVals (f : Tmpl → Tmpl) (d : Dict) (k : Name) : hasKey (mapVals f d) k = hasKey d k := by
  induction d with
  | nil => rfl
  | cons e r ih => simp [ih]

theorem hasKey_append (a b : Dict) (k : Name) : hasKey (a ++ b) k = (hasKey a k || hasKey b k) := by
  simp [hasKey, List.any_append]

theorem hasKey_filter_not (a b : Dict) (k : Name) :
    hasKey (a.filter (fun e => !hasKey b e.1)) k = (hasKey a k && !hasKey b k) := by
  induction a with
  | nil => simp
  | cons e r ih =>
    rw [List.filter_cons]
    cases hb : hasKey b e.1 with
    | true =>
      simp only [Bool.not_true, Bool.false_eq_true, if_false, hasKey_cons, ih]
      by_cases hek : e.1 = k
      · subst hek; simp [hb]
      · have hne : (e.1 == k) = false := by simpa using hek
        rw [hne]; simp
    | false =>
      simp only [Bool.not_false, if_true, hasKey_cons, ih]
      by_cases hek : e.1 = k
      · subst hek; simp [hb]
      · have hne : (e.1 == k) = false := by simpa using hek
        rw [hne]; simp

theorem hasKey_update (a b : Dict) (k : Name) : hasKey (update a b) k = (hasKey a k || hasKey b k) := by
  unfold update
  rw [hasKey_append, hasKey_filter_not]
  cases hasKey a k <;> cases hasKey b k <;> rfl

theorem mem_hasKey {d : Dict} {e : Name × Tmpl} (h : e ∈ d) : hasKey d e.1 = true := by
  induction d with
  | nil => cases h
  | cons x r ih =>
    rcases List.mem_cons.mp h with h | h
    · subst h; simp
    · simp [ih h]

theorem get?_eq_none_iff (d : Dict) (k : Name) : get? d k = none ↔ hasKey d k = false := by
  induction d with
  | nil => simp
  | cons e r ih =>
    rw [get?_cons, hasKey_cons]
    by_cases h : (e.1 == k) = true
    · simp [h]
    · have h' : (e.1 == k) = false := by simpa using h
      simp [h', ih]

theorem get?_some_mem {d : Dict} {k : Name} {v : Tmpl} (h : get? d k = some v) : (k, v) ∈ d := by
  induction d with
  | nil => simp at h
  | cons e r ih =>
    rw [get?_cons] at h
    by_cases hk : (e.1 == k) = true
    · rw [if_pos hk] at h
      have h1 : e.1 = k := by simpa using hk
      have h2 : e.2 = v := by simpa using h
      have : e = (k, v) := by cases e; simp_all
      rw [this]; exact List.mem_cons_self
    · rw [if_neg hk] at h
      exact List.mem_cons_of_mem _ (ih h)

theorem get?_append (a b : Dict) (k : Name) :
    get? (a ++ b) k = match get? a k with | some v => some v | none => get? b k := by
  induction a with
  | nil => simp
  | cons e r ih =>
    rw [List.cons_append, get?_cons, get?_cons]
    by_cases h : (e.1 == k) = true
    · simp [h]
    · simp [h, ih]

theorem get?_mapVals (f : Tmpl → Tmpl) (d : Dict) (k : Name) : get? (mapVals f d) k = (get? d k).map f := by
  induction d with
  | nil => simp
  | cons e r ih =>
    rw [mapVals_cons, get?_cons, get?_cons]
    by_cases h : (e.1 == k) = true
    · simp [h]
    · simp [h, ih]

theorem get?_filter_not (a b : Dict) (k : Name) :
    get? (a.filter (fun e => !hasKey b e.1)) k = if hasKey b k then none else get? a k := by
  induction a with
  | nil => simp
  | cons e r ih =>
    by_cases hek : e.1 = k
    · subst hek
      by_cases hb : hasKey b e.1 = true
      · simp [List.filter_cons, hb, ih]
      · have hb' : hasKey b e.1 = false := by simpa using hb
        simp [List.filter_cons, hb', get?_cons]
    · have hne : (e.1 == k) = false := by simpa using hek
      by_cases hb : hasKey b e.1 = true
      · simp [List.filter_cons, hb, ih, get?_cons, hne]
      · have hb' : hasKey b e.1 = false := by simpa using hb
        simp [List.filter_cons, hb', ih, get?_cons, hne]

theorem get?_update (a b : Dict) (k : Name) :
    get? (update a b) k = match get? b k with | some v => some v | none => get? a k := by
  unfold update
  rw [get?_append, get?_filter_not]
  cases hb : get? b k with
  | none =>
    have : hasKey b k = false := (get?_eq_none_iff b k).mp hb
    simp [this]
    cases get? a k <;> rfl
  | some v =>
    have : hasKey b k = true := by
      cases h : hasKey b k with
      | true => rfl
      | false => rw [(get?_eq_none_iff b k).mpr h] at hb; cases hb
    simp [this]

@[simp] theorem update_nil_left (b : Dict) : update [] b = b := by simp [update]
@[simp] theorem update_nil_right (a : Dict) : update a [] = a := by simp [update]

def keysSub (a b : Dict) : Prop := ∀ k, hasKey a k = true → hasKey b k = true

theorem keysSub_refl (a : Dict) : keysSub a a := fun _ h => h
theorem keysSub_trans {a b c : Dict} (h1 : keysSub a b) (h2 : keysSub b c) : keysSub a c := fun k h => h2 k (h1 k h)
theorem keysSub_update_left (a b : Dict) : keysSub a (update a b) := by
  intro k h; rw [hasKey_update, h]; rfl
theorem keysSub_update_right (a b : Dict) : keysSub b (update a b) := by
  intro k h; rw [hasKey_update, h]; simp
theorem keysSub_update {a b c : Dict} (h1 : keysSub a c) (h2 : keysSub b c) : keysSub (update a b) c := by
  intro k h
  rw [hasKey_update] at h
  cases ha : hasKey a k with
  | true => exact h1 k ha
  | false => rw [ha] at h; exact h2 k (by simpa using h)
theorem keysSub_mapVals_left {f : Tmpl → Tmpl} {a c : Dict} (h : keysSub a c) : keysSub (mapVals f a) c := by
  intro k hk; rw [hasKey_mapVals] at hk; exact h k hk
theorem keysSub_nil (c : Dict) : keysSub [] c := by intro k h; simp at h

/-- a dictionary whose keys all occur in `b` is absorbed by `b` -/
theorem update_absorb {a b : Dict} (h : keysSub a b) : update a b = b := by
  unfold update
  have : a.filter (fun e => !hasKey b e.1) = [] := by
    rw [List.filter_eq_nil_iff]
    intro e he
    simp [h e.1 (mem_hasKey he)]
  rw [this]; rfl

theorem update_self (a : Dict) : update a a = a := update_absorb (keysSub_refl a)

theorem filter_not_self (d : Dict) : d.filter (fun e => !hasKey d e.1) = [] := by
  rw [List.filter_eq_nil_iff]
  intro e he
  simp [mem_hasKey he]

theorem filter_not_mapVals (f : Tmpl → Tmpl) (d b : Dict) :
    (mapVals f d).filter (fun e => !hasKey b e.1) = mapVals f (d.filter (fun e => !hasKey b e.1)) := by
  induction d with
  | nil => rfl
  | cons e r ih =>
    by_cases hb : hasKey b e.1 = true
    · simp [List.filter_cons, hb, ih]
    · have hb' : hasKey b e.1 = false := by simpa using hb
      simp [List.filter_cons, hb', ih]

theorem filter_not_idem (a b : Dict) :
    (a.filter (fun e => !hasKey b e.1)).filter (fun e => !hasKey b e.1) = a.filter (fun e => !hasKey b e.1) := by
  rw [List.filter_filter]
  congr 1
  funext e
  cases hasKey b e.1 <;> rfl

theorem update_update_same (x o : Dict) : update (update x o) o = update x o := by
  unfold update
  rw [List.filter_append, filter_not_idem, filter_not_self]
  simp

/-- `update (mapVals f (update a o)) o` keeps the mapped part of `a` and takes `o` raw -/
theorem update_mapVals_update (f : Tmpl → Tmpl) (a o : Dict) :
    update (mapVals f (update a o)) o = mapVals f (a.filter (fun e => !hasKey o e.1)) ++ o := by
  unfold update
  rw [mapVals_append, List.filter_append, filter_not_mapVals, filter_not_idem, filter_not_mapVals, filter_not_self]
  simp

/-! ### templates -/

@[simp] theorem closedIn_nil (ctx : Dict) : closedIn ctx [] = true := rfl
theorem closedIn_cons (ctx : Dict) (s : Seg) (t : Tmpl) :
    closedIn ctx (s :: t) = ((match s with | .ch _ => true | .ref v => !hasKey ctx v) && closedIn ctx t) := by
  rfl
theorem closedIn_append (ctx : Dict) (a b : Tmpl) : closedIn ctx (a ++ b) = (closedIn ctx a && closedIn ctx b) := by
  simp [closedIn, List.all_append]

theorem closedIn_congr {c1 c2 : Dict} (h : ∀ k, hasKey c1 k = hasKey c2 k) (t : Tmpl) :
    closedIn c1 t = closedIn c2 t := by
  induction t with
  | nil => rfl
  | cons s t ih =>
    rw [closedIn_cons, closedIn_cons, ih]
    cases s with
    | ch c => rfl
    | ref v => simp [h v]

def stepSeg (n : Nat) (ctx : Dict) : Seg → Tmpl
  | .ch c => [.ch c]
  | .ref v =>
    match get? ctx v with
    | some r => interp n ctx r
    | none => [.ref v]

@[simp] theorem interp_zero (ctx : Dict) (t : Tmpl) : interp 0 ctx t = t := by
  cases t <;> rfl

theorem interp_succ (n : Nat) (ctx : Dict) (t : Tmpl) : interp (n + 1) ctx t = t.flatMap (stepSeg n ctx) := by
  first | rfl | rw [interp]

theorem interp_succ_nil (n : Nat) (ctx : Dict) : interp (n + 1) ctx [] = [] := by
  rw [interp_succ]; rfl

theorem interp_succ_cons (n : Nat) (ctx : Dict) (s : Seg) (t : Tmpl) :
    interp (n + 1) ctx (s :: t) = stepSeg n ctx s ++ interp (n + 1) ctx t := by
  rw [interp_succ, interp_succ, List.flatMap_cons]

/-- Lemma A: a template without references to defined variables is a fixed point -/
theorem interp_closed (n : Nat) (ctx : Dict) (t : Tmpl) (h : closedIn ctx t = true) : interp n ctx t = t := by
  cases n with
  | zero => simp
  | succ n =>
    induction t with
    | nil => exact interp_succ_nil n ctx
    | cons s t ih =>
      rw [closedIn_cons, Bool.and_eq_true] at h
      rw [interp_succ_cons, ih h.2]
      cases s with
      | ch c => rfl
      | ref v =>
        have hk : hasKey ctx v = false := by simpa using h.1
        have : get? ctx v = none := (get?_eq_none_iff ctx v).mpr hk
        simp [stepSeg, this]

/-- Lemma B: once the result is closed, one more unit of fuel changes nothing -/
theorem interp_succ_of_closed (ctx : Dict) : ∀ (n : Nat) (t : Tmpl),
    closedIn ctx (interp n ctx t) = true → interp (n + 1) ctx t = interp n ctx t := by
  intro n
  induction n with
  | zero =>
    intro t h
    rw [interp_zero] at h
    rw [interp_zero, interp_closed _ _ _ h]
  | succ n ihn =>
    intro t
    induction t with
    | nil => intro _; rw [interp_succ_nil, interp_succ_nil]
    | cons s t iht =>
      intro h
      rw [interp_succ_cons, closedIn_append, Bool.and_eq_true] at h
      rw [interp_succ_cons, interp_succ_cons n, iht h.2]
      congr 1
      cases s with
      | ch c => rfl
      | ref v =>
        cases hg : get? ctx v with
        | none => simp [stepSeg, hg]
        | some r =>
          have h1 := h.1
          simp only [stepSeg, hg] at h1 ⊢
          exact ihn r h1

theorem interp_add_of_closed (ctx : Dict) (a : Nat) (t : Tmpl) (h : closedIn ctx (interp a ctx t) = true) :
    ∀ k, interp (a + k) ctx t = interp a ctx t := by
  intro k
  induction k with
  | zero => rfl
  | succ k ih =>
    rw [← Nat.add_assoc, interp_succ_of_closed ctx (a + k) t (by rw [ih]; exact h), ih]

theorem interp_fuel_eq (ctx : Dict) (a b : Nat) (t : Tmpl) (ha : closedIn ctx (interp a ctx t) = true)
    (hb : closedIn ctx (interp b ctx t) = true) : interp a ctx t = interp b ctx t := by
  rcases Nat.le_total a b with h | h
  · obtain ⟨k, rfl⟩ := Nat.exists_eq_add_of_le h
    exact (interp_add_of_closed ctx a t ha k).symm
  · obtain ⟨k, rfl⟩ := Nat.exists_eq_add_of_le h
    exact interp_add_of_closed ctx b t hb k

/-- Lemma C: replacing some values of the context by their (closed) interpolation does not change what a
template resolves to -/
theorem interp_refine (N : Nat) (ctx ctx' : Dict) (hk : ∀ k, hasKey ctx' k = hasKey ctx k)
    (hr : ∀ v r, get? ctx v = some r →
      get? ctx' v = some r ∨ (get? ctx' v = some (interp N ctx r) ∧ closedIn ctx (interp N ctx r) = true)) :
    ∀ (n : Nat) (t : Tmpl), closedIn ctx (interp n ctx t) = true → interp n ctx' t = interp n ctx t := by
  intro n
  induction n with
  | zero => intro t _; simp
  | succ n ihn =>
    intro t
    induction t with
    | nil => intro _; rw [interp_succ_nil, interp_succ_nil]
    | cons s t iht =>
      intro h
      rw [interp_succ_cons, closedIn_append, Bool.and_eq_true] at h
      rw [interp_succ_cons, interp_succ_cons, iht h.2]
      congr 1
      cases s with
      | ch c => rfl
      | ref v =>
        cases hg : get? ctx v with
        | none =>
          have h0 : hasKey ctx v = false := (get?_eq_none_iff ctx v).mp hg
          have : get? ctx' v = none := (get?_eq_none_iff ctx' v).mpr (by rw [hk, h0])
          simp [stepSeg, hg, this]
        | some r =>
          have h1 := h.1
          simp only [stepSeg, hg] at h1 ⊢
          rcases hr v r hg with h2 | ⟨h2, h3⟩
          · simp only [h2]
            exact ihn r h1
          · simp only [h2]
            rw [interp_closed n ctx' _ (by rw [closedIn_congr hk]; exact h3)]
            exact interp_fuel_eq ctx N n r h3 h1

/-! ### dictionaries of templates -/

theorem dictClosed_iff (ctx d : Dict) : dictClosed ctx d = true ↔ ∀ e ∈ d, closedIn ctx e.2 = true := by
  simp [dictClosed, List.all_eq_true]

/-- interpolating a dictionary of closed values changes nothing (any fuel, any context with the same keys) -/
theorem mapVals_interp_closed (n : Nat) (ctx ctx' d : Dict) (hk : ∀ k, hasKey ctx' k = hasKey ctx k)
    (h : ∀ e ∈ d, closedIn ctx e.2 = true) : mapVals (interp n ctx') d = d := by
  induction d with
  | nil => rfl
  | cons e r ih =>
    rw [mapVals_cons, ih (fun x hx => h x (List.mem_cons_of_mem _ hx)),
      interp_closed n ctx' e.2 (by rw [closedIn_congr hk]; exact h e List.mem_cons_self)]

theorem mapVals_congr {f g : Tmpl → Tmpl} {d : Dict} (h : ∀ e ∈ d, f e.2 = g e.2) : mapVals f d = mapVals g d := by
  induction d with
  | nil => rfl
  | cons e r ih =>
    rw [mapVals_cons, mapVals_cons, h e List.mem_cons_self, ih (fun x hx => h x (List.mem_cons_of_mem _ hx))]

theorem mem_mapVals {f : Tmpl → Tmpl} {d : Dict} {e : Name × Tmpl} (h : e ∈ d) : (e.1, f e.2) ∈ mapVals f d := by
  unfold mapVals
  exact List.mem_map.mpr ⟨e, h, rfl⟩

theorem mapVals_mapVals (f g : Tmpl → Tmpl) (d : Dict) : mapVals g (mapVals f d) = mapVals (fun t => g (f t)) d := by
  induction d with
  | nil => rfl
  | cons e r ih => rw [mapVals_cons, mapVals_cons, mapVals_cons, ih]

theorem filter_keys_congr (base a b : Dict) (h : ∀ k, hasKey a k = hasKey b k) :
    base.filter (fun e => !hasKey a e.1) = base.filter (fun e => !hasKey b e.1) := by
  apply List.filter_congr
  intro e _
  rw [h]

/-! ### two refinements of a component context `C = base ∪ (A ++ O)`

`ctx0`: every own value replaced by its interpolation (what a stored component's `variables` hold);
`ctxP`: the values of `A` replaced, those of `O` (the raw override block, applied again) not. -/

theorem refine_all (N : Nat) (base X : Dict)
    (hcl : ∀ e ∈ X, closedIn (update base X) (interp N (update base X) e.2) = true) :
    ∀ (n : Nat) (t : Tmpl), closedIn (update base X) (interp n (update base X) t) = true →
      interp n (update base (mapVals (interp N (update base X)) X)) t = interp n (update base X) t := by
  apply interp_refine N
  · intro k; simp [hasKey_update]
  · intro v r hv
    rw [get?_update] at hv
    rw [get?_update, get?_mapVals]
    cases hX : get? X v with
    | none =>
      rw [hX] at hv
      left
      simpa using hv
    | some a =>
      rw [hX] at hv
      have : a = r := by simpa using hv
      subst this
      right
      exact ⟨by simp, hcl (v, a) (get?_some_mem hX)⟩

theorem refine_left (N : Nat) (base A O : Dict)
    (hcl : ∀ e ∈ A, closedIn (update base (A ++ O)) (interp N (update base (A ++ O)) e.2) = true) :
    ∀ (n : Nat) (t : Tmpl), closedIn (update base (A ++ O)) (interp n (update base (A ++ O)) t) = true →
      interp n (update base (mapVals (interp N (update base (A ++ O))) A ++ O)) t
        = interp n (update base (A ++ O)) t := by
  apply interp_refine N
  · intro k; simp [hasKey_update, hasKey_append]
  · intro v r hv
    rw [get?_update, get?_append] at hv
    rw [get?_update, get?_append, get?_mapVals]
    cases hA' : get? A v with
    | some a =>
      rw [hA'] at hv
      have : a = r := by simpa using hv
      subst this
      right
      exact ⟨by simp, hcl (v, a) (get?_some_mem hA')⟩
    | none =>
      rw [hA'] at hv
      left
      simpa using hv

/-- the resolved variable dictionaries of the two refined contexts coincide (abstract form) -/
theorem mapVals_ctx_eq (f g0 gP : Tmpl → Tmpl) (C base A O : Dict)
    (h0 : ∀ t, closedIn C (f t) = true → g0 t = f t) (hP : ∀ t, closedIn C (f t) = true → gP t = f t)
    (hfix0 : ∀ t, closedIn C t = true → g0 t = t) (hfixP : ∀ t, closedIn C t = true → gP t = t)
    (hcl : ∀ e ∈ A ++ O, closedIn C (f e.2) = true) (hbase : ∀ e ∈ base, closedIn C (f e.2) = true) :
    mapVals g0 (update base (mapVals f (A ++ O))) = mapVals gP (update base (mapVals f A ++ O)) := by
  unfold update
  rw [filter_keys_congr base (mapVals f (A ++ O)) (A ++ O) (fun k => by simp),
      filter_keys_congr base (mapVals f A ++ O) (A ++ O) (fun k => by simp [hasKey_append])]
  rw [mapVals_append f A O, mapVals_append, mapVals_append, mapVals_append, mapVals_append]
  congr 1
  · apply mapVals_congr
    intro e he
    have hb := hbase e (List.mem_filter.mp he).1
    rw [h0 _ hb, hP _ hb]
  · congr 1
    · rw [mapVals_mapVals, mapVals_mapVals]
      apply mapVals_congr
      intro e he
      have := hcl e (List.mem_append_left _ he)
      show g0 (f e.2) = gP (f e.2)
      rw [hfix0 _ this, hfixP _ this]
    · rw [mapVals_mapVals]
      apply mapVals_congr
      intro e he
      have := hcl e (List.mem_append_right _ he)
      show g0 (f e.2) = gP e.2
      rw [hfix0 _ this, hP _ this]

end St4sd.Instance
