import St4sd.Model.Hash
/-!
Helper lemmas for C16: cutting a separator-less buffer at the first occurrence of a key word.
-/
namespace St4sd.C16
open St4sd.Str St4sd.Hash

/-- `s.partition(key)`: the text before the first occurrence of `key` and the text after it -/
def splitAtKey (key : S) : S → Option (S × S)
  | [] => if key.isEmpty then some ([], []) else none
  | c :: s =>
    if key.isPrefixOf (c :: s) then some ([], (c :: s).drop key.length)
    else (splitAtKey key s).map (fun p => (c :: p.1, p.2))

/-- the key word does not occur in `v ++ key` before the end of `v` (neither inside `v` nor overlapping its end) -/
def NoEarly (key v : S) : Prop := splitAtKey key (v ++ key) = some (v, [])

instance (key v : S) : Decidable (NoEarly key v) := by unfold NoEarly; infer_instance

theorem isPrefixOf_append_of_le (key a rest : S) (h : key.length ≤ a.length) :
    key.isPrefixOf (a ++ rest) = key.isPrefixOf a := by
  induction key generalizing a with
  | nil => simp
  | cons k ks ih =>
    cases a with
    | nil => simp at h
    | cons x xs =>
      simp only [List.cons_append, List.isPrefixOf_cons_cons]
      rw [ih xs (by simpa using h)]

theorem isPrefixOf_self_append (key rest : S) : key.isPrefixOf (key ++ rest) = true := by
  induction key with
  | nil => simp
  | cons k ks ih => simp [ih]

theorem splitAtKey_append (key v rest : S) (hk : key ≠ []) (h : NoEarly key v) :
    splitAtKey key (v ++ key ++ rest) = some (v, rest) := by
  induction v with
  | nil =>
    cases key with
    | nil => exact absurd rfl hk
    | cons k ks =>
      have hp := isPrefixOf_self_append (k :: ks) rest
      simp only [List.nil_append, List.cons_append] at hp ⊢
      simp [splitAtKey, hp]
  | cons c v ih =>
    unfold NoEarly at h
    simp only [List.cons_append, splitAtKey] at h
    cases hb : key.isPrefixOf (c :: (v ++ key)) with
    | true => simp [hb] at h
    | false =>
      have hp' : key.isPrefixOf (c :: (v ++ key ++ rest)) = false := by
        have := isPrefixOf_append_of_le key (c :: (v ++ key)) rest (by simp; omega)
        simp only [List.cons_append] at this
        rw [this]; exact hb
      simp only [hb, Bool.false_eq_true, if_false] at h
      have hv : NoEarly key v := by
        unfold NoEarly
        cases hs : splitAtKey key (v ++ key) with
        | none => simp [hs] at h
        | some p =>
          obtain ⟨p1, p2⟩ := p
          simp only [hs, Option.map_some, Option.some.injEq, Prod.mk.injEq, List.cons.injEq, true_and] at h
          rw [h.1, h.2]
      have := ih hv
      simp only [List.cons_append, splitAtKey, hp', Bool.false_eq_true, if_false, this, Option.map_some]

/-- two buffers `v ++ key ++ rest` agree only if they agree piecewise — provided the key word occurs in
neither value early -/
theorem append_key_inj (key v v' rest rest' : S) (hk : key ≠ []) (h : NoEarly key v) (h' : NoEarly key v')
    (e : v ++ key ++ rest = v' ++ key ++ rest') : v = v' ∧ rest = rest' := by
  have a := splitAtKey_append key v rest hk h
  have b := splitAtKey_append key v' rest' hk h'
  rw [e, b] at a
  simpa [eq_comm] using a

end St4sd.C16
