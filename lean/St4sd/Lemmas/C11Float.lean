import St4sd.Model.ValSchema
/-!
# C11 — floats: never converted, reported by every rule that admits no float

`FlowIR.convert_component_types.convert` touches `str`/`int`/`bool` values and dictionaries only; a YAML float
reaches `validate_object_schema` as it was written.  Lemmas for `Props/C11.lean` (`floatMistype_rejected`).
-/
namespace St4sd.ValSchema

/-- no conversion (leaf or table) changes a float -/
theorem convert_float (c : Conv) (i : Int) (f : Bool) : convert c (.float i f) = some (.float i f) := by
  cases c <;> simp [convert, isConvertible]

/-- a leaf conversion leaves a dictionary alone -/
theorem convert_leaf_dict (k : ConvKind) (kvs : List (S × Val)) : convert (.leaf k) (.dict kvs) = some (.dict kvs) := by
  simp [convert, isConvertible]

theorem convert_node_dict (es : List (S × Conv)) (kvs : List (S × Val)) :
    convert (.node es) (.dict kvs) = (mapKvs (fun k v => convLookup es k v) kvs).map Val.dict := by
  simp [convert]

/-- the value of a key after the `for key in value` loop is the converted value of that key -/
theorem lookup_mapKvs {f : S → Val → Option Val} {kvs kvs' : List (S × Val)} {k : S} {v : Val}
    (h : mapKvs f kvs = some kvs') (hl : lookup k kvs = some v) :
    ∃ v', lookup k kvs' = some v' ∧ f k v = some v' := by
  induction kvs generalizing kvs' with
  | nil => simp [lookup] at hl
  | cons hd rest ih =>
    obtain ⟨k0, v0⟩ := hd
    rw [mapKvs] at h
    split at h
    · rename_i v0' rest' h0 hrest
      cases h
      rw [lookup] at hl
      by_cases hk : k = k0
      · subst hk
        rw [if_pos rfl] at hl
        cases hl
        exact ⟨v0', by simp [lookup], h0⟩
      · rw [if_neg hk] at hl
        obtain ⟨v', h1, h2⟩ := ih hrest hl
        exact ⟨v', by rw [lookup, if_neg hk]; exact h1, h2⟩
    · cases h

/-- the table entry of a key converts its value with some conversion, or there is none and the value stays -/
theorem convLookup_cases (es : List (S × Conv)) (k : S) (v v' : Val) (h : convLookup es k v = some v') :
    v' = v ∨ ∃ c, convert c v = some v' := by
  induction es with
  | nil => left; simp [convLookup] at h; exact h.symm
  | cons hd rest ih =>
    obtain ⟨k0, c0⟩ := hd
    rw [convLookup] at h
    split at h
    · exact .inr ⟨c0, h⟩
    · exact ih h

theorem pred_holds_float (p : Pred) (i j : Int) (f g : Bool) : p.holds (.float i f) = p.holds (.float j g) := by
  cases p <;> rfl

theorem ty_any_float (ts : List Ty) (i : Int) (f : Bool) :
    (ts.any (·.admits (.float i f))) = ts.contains .float := by
  induction ts with
  | nil => rfl
  | cons t rest ih =>
    rw [List.any_cons, List.contains_cons, ih]
    cases t <;> simp [Ty.admits]

mutual
/-- **a rule that admits no float reports every float** (whole or not) -/
theorem check_float (s : Schema) (i : Int) (f : Bool) (h : mayAdmitFloat s = false) :
    SErr.valueInvalid ∈ check s (.float i f) := by
  cases s with
  | null => simp [check]
  | const c => simp [check]
  | ty ts =>
    rw [mayAdmitFloat] at h
    rw [check, ty_any_float, h]
    simp
  | pred p =>
    rw [mayAdmitFloat] at h
    rw [check, pred_holds_float p i 0 f false, h]
    simp
  | opt s =>
    rw [mayAdmitFloat] at h
    rw [check]
    · exact check_float s i f h
    · intro hn; cases hn
  | or alts =>
    rw [mayAdmitFloat] at h
    rw [check, checkAny_float alts i f h]
    simp
  | many s => simp [check]
  | dict es => simp [check]
theorem checkAny_float (alts : List Schema) (i : Int) (f : Bool) (h : mayAdmitFloatAny alts = false) :
    checkAny alts (.float i f) = false := by
  cases alts with
  | nil => rfl
  | cons s rest =>
    rw [mayAdmitFloatAny, Bool.or_eq_false_iff] at h
    rw [checkAny, checkAny_float rest i f h.2, Bool.or_false]
    have := check_float s i f h.1
    cases hc : check s (.float i f) with
    | nil => rw [hc] at this; cases this
    | cons _ _ => rfl
end

/-- the rule of a key is one of the entries -/
theorem entryOf_mem {k : S} {entries : List (S × Bool × Schema)} {s : Schema} (h : entryOf k entries = some s) :
    ∃ o, (k, o, s) ∈ entries := by
  induction entries with
  | nil => simp [entryOf] at h
  | cons hd rest ih =>
    obtain ⟨k0, o0, s0⟩ := hd
    rw [entryOf] at h
    split at h
    · rename_i hk; cases h; subst hk; exact ⟨o0, .head _⟩
    · obtain ⟨o, ho⟩ := ih h; exact ⟨o, .tail _ ho⟩

end St4sd.ValSchema
