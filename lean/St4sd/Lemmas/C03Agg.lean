import St4sd.Model.Repl
/-!
# C03, text level, aggregator: where the path after a matched reference ends

Lemmas about `Repl.aggScan` / `Repl.aggExpand` / `Repl.pathLen` (the single-pass substitution of the repaired
`compile_component_aggregate`): the path suffix `(?:/[\w.*+~@-]+)+` that follows a matched reference stops at the
first character that is neither `[\w.*+~@-]` nor `/`, and the text after it is scanned on its own.
-/
namespace St4sd.Repl
open St4sd.Str

/-- a file path as the aggregator's pattern `(?:/[\w.*+~@-]+)+` reads it: `/seg/seg…` -/
def pathOf (segs : List S) : S := segs.flatMap fun seg => '/' :: seg
/-- every segment is a non-empty run of `[\w.*+~@-]` -/
def goodSegs (segs : List S) : Prop := ∀ seg ∈ segs, seg ≠ [] ∧ seg.all isPathChar = true
/-- a character that ends a path: neither `[\w.*+~@-]` nor `/` -/
def endsPath (c : Char) : Bool := !isPathChar c && c != '/'
/-- the text that follows: nothing, or it starts with a character that ends a path and is not a comma -/
def plainTail (tail : S) : Prop := tail = [] ∨ ∃ c r, tail = c :: r ∧ endsPath c = true ∧ c ≠ ','

theorem pathOf_nil : pathOf [] = [] := rfl

theorem pathOf_cons (seg : S) (segs : List S) : pathOf (seg :: segs) = '/' :: (seg ++ pathOf segs) := by
  simp [pathOf]

theorem slash_not_pathChar : isPathChar '/' = false := by decide

/-- empty, or starts with a character outside `[\w.*+~@-]` -/
def stops (t : S) : Prop := t = [] ∨ ∃ c r, t = c :: r ∧ isPathChar c = false

theorem takeWhile_seg (seg t : S) (hseg : seg.all isPathChar = true) (ht : stops t) :
    (seg ++ t).takeWhile isPathChar = seg := by
  induction seg with
  | nil =>
    rcases ht with rfl | ⟨c, r, rfl, hc⟩
    · rfl
    · simp [hc]
  | cons a seg ih =>
    simp only [List.all_cons, Bool.and_eq_true] at hseg
    simp [hseg.1, ih hseg.2]

theorem pathLen_nil (f : Nat) : pathLen f [] = 0 := by
  cases f <;> simp [pathLen]

theorem pathLen_slash (f : Nat) (rest : S) :
    pathLen (f + 1) ('/' :: rest) =
      if (rest.takeWhile isPathChar).isEmpty then 0
      else 1 + (rest.takeWhile isPathChar).length +
        pathLen f (rest.drop (rest.takeWhile isPathChar).length) := by
  simp [pathLen]

theorem pathLen_ne (f : Nat) (c : Char) (r : S) (hc : c ≠ '/') : pathLen f (c :: r) = 0 := by
  cases f with
  | zero => simp [pathLen]
  | succ f =>
    unfold pathLen
    split
    · rfl
    · rename_i h; simp_all
    · rfl

theorem pathLen_stops (segs : List S) (hs : goodSegs segs) (tail : S)
    (ht : tail = [] ∨ ∃ c r, tail = c :: r ∧ endsPath c = true) (f : Nat) (hf : segs.length ≤ f) :
    pathLen f (pathOf segs ++ tail) = (pathOf segs).length := by
  induction segs generalizing f with
  | nil =>
    simp only [pathOf_nil, List.nil_append, List.length_nil]
    rcases ht with rfl | ⟨c, r, rfl, hc⟩
    · exact pathLen_nil f
    · refine pathLen_ne f c r ?_
      simp [endsPath] at hc
      exact hc.2
  | cons seg segs ih =>
    have hseg := hs seg (by simp)
    have hs' : goodSegs segs := fun s h => hs s (by simp [h])
    cases f with
    | zero => simp at hf
    | succ f =>
      have hst : stops (pathOf segs ++ tail) := by
        cases segs with
        | nil =>
          rcases ht with rfl | ⟨c, r, rfl, hc⟩
          · left; rfl
          · right
            simp [endsPath] at hc
            exact ⟨c, r, by simp [pathOf_nil], hc.1⟩
        | cons s ss =>
          right
          exact ⟨'/', s ++ pathOf ss ++ tail, by simp [pathOf_cons], slash_not_pathChar⟩
      have hne : seg.isEmpty = false := by
        cases seg with
        | nil => exact absurd rfl hseg.1
        | cons a b => rfl
      rw [pathOf_cons, List.cons_append, List.append_assoc, pathLen_slash,
        takeWhile_seg seg _ hseg.2 hst]
      simp only [hne, Bool.false_eq_true, if_false, List.drop_left,
        ih hs' f (by simpa using hf), List.length_cons, List.length_append]
      omega

theorem pathOf_length_ge (segs : List S) : segs.length ≤ (pathOf segs).length := by
  induction segs with
  | nil => simp [pathOf_nil]
  | cons s ss ih => simp [pathOf_cons]; omega

theorem map_append_nil (reps : List S) : reps.map (· ++ ([] : S)) = reps := by simp

theorem aggExpand_stops (reps : List S) (segs : List S) (hs : goodSegs segs) (tail : S) (ht : plainTail tail) :
    aggExpand reps (pathOf segs ++ tail) = (join [' '] (reps.map (· ++ pathOf segs)), (pathOf segs).length) := by
  have ht' : tail = [] ∨ ∃ c r, tail = c :: r ∧ endsPath c = true := by
    rcases ht with h | ⟨c, r, h1, h2, _⟩
    · exact Or.inl h
    · exact Or.inr ⟨c, r, h1, h2⟩
  have hpl : pathLen (pathOf segs ++ tail).length (pathOf segs ++ tail) = (pathOf segs).length :=
    pathLen_stops segs hs tail ht' _ (by
      have := pathOf_length_ge segs
      simp only [List.length_append]; omega)
  unfold aggExpand
  simp only [hpl]
  cases segs with
  | nil => simp [pathOf_nil]
  | cons s ss =>
    have hpos : ((pathOf (s :: ss)).length == 0) = false := by simp [pathOf_cons]
    have hcom : (tail.takeWhile (· == ',')).isEmpty = true := by
      rcases ht with rfl | ⟨c, r, rfl, _, hc⟩
      · rfl
      · simp [hc]
    simp only [hpos, Bool.false_eq_true, if_false, List.take_left, List.drop_left, hcom, if_true]

theorem getLast?_cons_match (c : Char) (l : S) :
    (c :: l).getLast? = (match l.getLast? with | some d => some d | none => some c) := by
  cases l with
  | nil => rfl
  | cons a b =>
    rw [List.getLast?_cons_cons]
    cases h : (a :: b).getLast? with
    | none => simp at h
    | some d => rfl

theorem aggScan_skip (keys : List (S × List S)) (xs ys : S) (prev : Option Char) :
    aggScan keys xs.length prev (xs ++ ys) =
      aggScan keys 0 (match xs.getLast? with | some c => some c | none => prev) ys := by
  induction xs generalizing prev with
  | nil => simp
  | cons x xs ih =>
    simp only [List.length_cons, List.cons_append, aggScan]
    rw [ih (some x), getLast?_cons_match]
    cases xs.getLast? <;> rfl

/-- HEADLINE: a matched reference followed by a path and then by other text (shell punctuation such as `)` `;`
`|` `>`): the replacement is the copies with exactly that path, and the text after the path is scanned on its
own: it is neither swallowed into the path nor repeated after every copy. -/
theorem aggScan_reference_then_text (keys : List (S × List S)) (prev : Option Char) (k : S) (reps : List S)
    (segs : List S) (tail : S) (hk : k ≠ []) (hl : leftOk prev = true)
    (hm : firstMatchAgg keys (k ++ pathOf segs ++ tail) = some (k, reps))
    (hs : goodSegs segs) (ht : plainTail tail) :
    aggScan keys 0 prev (k ++ pathOf segs ++ tail) =
      join [' '] (reps.map (· ++ pathOf segs)) ++ aggScan keys 0 ((k ++ pathOf segs).getLast?) tail := by
  cases k with
  | nil => exact absurd rfl hk
  | cons c k' =>
    simp only [List.cons_append] at hm ⊢
    simp only [aggScan, hl, if_true, hm]
    have hd : (c :: (k' ++ pathOf segs ++ tail)).drop (c :: k').length = pathOf segs ++ tail := by
      simp [List.append_assoc]
    rw [hd, aggExpand_stops reps segs hs tail ht]
    have hlen : (c :: k').length + (pathOf segs).length - 1 = (k' ++ pathOf segs).length := by
      simp only [List.length_cons, List.length_append]; omega
    simp only [hlen]
    rw [aggScan_skip keys (k' ++ pathOf segs) tail (some c), getLast?_cons_match]

/-- non-vacuity: `$(cat A:ref/out/e.csv); sort` -/
example :
    aggScan [("A:ref".toList, ["stage0.A0:ref".toList, "stage0.A1:ref".toList])] 0 none
      "$(cat A:ref/out/e.csv); sort".toList =
      "$(cat stage0.A0:ref/out/e.csv stage0.A1:ref/out/e.csv); sort".toList := by
  decide

end St4sd.Repl
