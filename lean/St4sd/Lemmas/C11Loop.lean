import St4sd.Model.ValidateLoop
import St4sd.Lemmas.C11Vars
/-!
# C11 — lemmas about packages with DoWhile documents (`Model/ValidateLoop.lean`)

Decomposition of `docErrors l = []` / `loopErrorsFrom … = []` / `validateP … = []`; identifiers of the
iterations; the references of iteration `k+1` resolve in the document unrolled up to iteration `k+1`.  No Mathlib.
-/
namespace St4sd.C11
open St4sd.ValSchema St4sd.Validate

/-! ### `lookup` -/

theorem lookup_append {α : Type} (k : S) (a b : List (S × α)) :
    lookup k (a ++ b) = match lookup k a with
      | some v => some v
      | none => lookup k b := by
  induction a with
  | nil => rfl
  | cons hd tl ih =>
    obtain ⟨k', v⟩ := hd
    simp only [List.cons_append, lookup]
    split
    · rfl
    · exact ih

theorem lookup_map_snd {α β : Type} (k : S) (l : List (S × α)) (f : α → β) :
    lookup k (l.map (fun kv => (kv.1, f kv.2))) = (lookup k l).map f := by
  induction l with
  | nil => rfl
  | cons hd tl ih =>
    obtain ⟨k', v⟩ := hd
    simp only [List.map_cons, lookup]
    split
    · rfl
    · exact ih

theorem mem_of_lookup {α : Type} {k : S} {l : List (S × α)} {v : α} (h : lookup k l = some v) : (k, v) ∈ l := by
  induction l with
  | nil => cases h
  | cons hd tl ih =>
    obtain ⟨k', v'⟩ := hd
    simp only [lookup] at h
    split at h
    · rename_i hk; cases h; subst hk; exact List.mem_cons_self ..
    · exact List.mem_cons_of_mem _ (ih h)

/-! ### `docErrors` -/

theorem dupLooped_nil (l : List Id) (h : dupLooped l = []) : l.Nodup := by
  induction l with
  | nil => exact List.nodup_nil
  | cons i rest ih =>
    unfold dupLooped at h
    rw [List.append_eq_nil_iff] at h
    obtain ⟨h1, h2⟩ := h
    refine List.nodup_cons.mpr ⟨fun hm => ?_, ih h2⟩
    have : rest.contains i = true := by simpa using hm
    rw [if_pos this] at h1
    cases h1

/-- what `docErrors foreign l = []` says -/
structure LoopOk (foreign : List Id) (l : Loop) : Prop where
  nodup : (tmplIds l).Nodup
  bound : ∀ k ∈ l.inputs, ∃ i, lookup k l.bindings = some i
  declared : ∀ kv ∈ l.bindings ++ l.loopBindings, kv.1 ∈ l.inputs
  bindings : ∀ kv ∈ l.bindings, kv.2 ∈ foreign
  loopBindings : ∀ kv ∈ l.loopBindings, offset l kv.2 ∈ tmplIds l
  cond : offset l l.cond ∈ tmplIds l

theorem docErrors_nil {foreign : List Id} {l : Loop} (h : docErrors foreign l = []) : LoopOk foreign l := by
  unfold docErrors at h
  simp only [List.append_eq_nil_iff, List.map_eq_nil_iff, List.filter_eq_nil_iff] at h
  obtain ⟨⟨⟨⟨⟨h1, h2⟩, h3⟩, h4⟩, h5⟩, h6⟩ := h
  refine ⟨dupLooped_nil _ h1, fun k hk => ?_, fun kv hkv => ?_, fun kv hkv => ?_, fun kv hkv => ?_, ?_⟩
  · have := h2 k hk
    cases hl : lookup k l.bindings with
    | none => simp [hl] at this
    | some i => exact ⟨i, rfl⟩
  · simpa using h3 kv hkv
  · simpa using h4 kv hkv
  · simpa using h5 kv hkv
  · split at h6
    · rename_i hc; simpa using hc
    · cases h6

theorem loopErrorsFrom_nil {mainIds : List Id} {loops : List Loop} (h : loopErrorsFrom mainIds loops = []) :
    ∀ l ∈ loops, ∃ foreign, LoopOk foreign l ∧
      ∀ i ∈ foreign, i ∈ mainIds ∨ ∃ l' ∈ loops, i ∈ tmplIds l' := by
  induction loops with
  | nil => intro l hl; cases hl
  | cons l0 rest ih =>
    unfold loopErrorsFrom at h
    rw [List.append_eq_nil_iff, List.map_eq_nil_iff] at h
    obtain ⟨h1, h2⟩ := h
    intro l hl
    rcases List.mem_cons.mp hl with rfl | hl
    · refine ⟨_, docErrors_nil h1, fun i hi => ?_⟩
      rcases List.mem_append.mp hi with hi | hi
      · exact .inl hi
      · rw [List.mem_flatMap] at hi
        obtain ⟨l', hl', hi⟩ := hi
        exact .inr ⟨l', hl', hi⟩
    · obtain ⟨foreign, hok, hsub⟩ := ih h2 l hl
      refine ⟨foreign, hok, fun i hi => ?_⟩
      rcases hsub i hi with h | ⟨l', hl', h⟩
      · exact .inl h
      · exact .inr ⟨l', List.mem_cons_of_mem _ hl', h⟩

theorem validateP_nil {tbl sch} {p : Package} (h : validateP tbl sch p = []) :
    loopErrorsFrom (ids p.main ++ stubIds p) p.loops = [] ∧ validate tbl sch (flatten p) = [] := by
  unfold validateP at h
  rw [List.append_eq_nil_iff, List.map_eq_nil_iff] at h
  exact h

/-! ### identifiers of the iterations -/

theorem ids_inst (l : Loop) (k : Nat) :
    (inst l k).map Comp.id = (tmplIds l).map (fun i => (i.1, iterName k i.2)) := by
  unfold inst tmplIds
  simp [List.map_map, Comp.id, Function.comp_def]

theorem iterName_inj (k : Nat) {a b : S} (h : iterName k a = iterName k b) : a = b := by
  unfold iterName at h
  have := List.append_cancel_left h
  exact (List.cons.inj this).2

/-- the components of one iteration have pairwise different identifiers when the looped components have -/
theorem nodup_ids_inst {l : Loop} (h : (tmplIds l).Nodup) (k : Nat) : ((inst l k).map Comp.id).Nodup := by
  rw [ids_inst]
  refine List.Pairwise.map _ (fun a b hab heq => hab ?_) h
  obtain ⟨h1, h2⟩ := Prod.mk.inj heq
  exact Prod.ext h1 (iterName_inj k h2)

theorem mem_ids_inst_of_tmpl {l : Loop} {i : Id} (h : i ∈ tmplIds l) (k : Nat) :
    (i.1, iterName k i.2) ∈ (inst l k).map Comp.id := by
  rw [ids_inst]
  exact List.mem_map.mpr ⟨i, h, rfl⟩

theorem inst0_sub_flatten {p : Package} {l : Loop} (hl : l ∈ p.loops) {c : Comp} (hc : c ∈ inst l 0) :
    c ∈ (flatten p).comps := by
  unfold flatten
  exact List.mem_append_right _ (List.mem_flatMap.mpr ⟨l, hl, hc⟩)

theorem ids_flatten_sub_unrolled (p : Package) (l : Loop) (n : Nat) {i : Id} (h : i ∈ ids (flatten p)) :
    i ∈ ids (unrolled p l n) := by
  unfold ids unrolled at *
  simp only [List.map_append]
  exact List.mem_append_left _ h

theorem ids_inst_sub_unrolled (p : Package) (l : Loop) {n j : Nat} (hj : j < n) {i : Id}
    (h : i ∈ (inst l (j + 1)).map Comp.id) : i ∈ ids (unrolled p l n) := by
  unfold ids unrolled
  simp only [List.map_append]
  refine List.mem_append_right _ ?_
  rw [List.mem_map] at h ⊢
  obtain ⟨c, hc, rfl⟩ := h
  exact ⟨c, List.mem_flatMap.mpr ⟨j, List.mem_range.mpr hj, hc⟩, rfl⟩

/-! ### the references of the next iteration -/

/-- the target of a reference in iteration `k+1`: the component of iteration `k` a loop binding names, else the
target it has in iteration 0 -/
theorem target_succ (l : Loop) (k : Nat) (r : Id) :
    target (bindsAt l (k + 1)) l r =
      match lookup r.2 l.loopBindings with
      | some i0 => (l.stage + i0.1, iterName k i0.2)
      | none => target (bindsAt l 0) l r := by
  unfold target
  simp only [bindsAt]
  have hm := lookup_map_snd r.2 l.loopBindings (fun i => (l.stage + i.1, iterName k i.2))
  rw [lookup_append, hm]
  cases lookup r.2 l.loopBindings <;> rfl

/-- **core of `next_iteration_resolves`**: if every reference of the loaded document resolves and the loop
bindings of `l` point to looped components of `l`, then every reference of a component of iteration `k+1` is a
component of the document unrolled up to iteration `k+1`, or a placeholder of the loaded document. -/
theorem next_refs_resolve {p : Package} {l : Loop} (hl : l ∈ p.loops)
    (hres : ∀ c ∈ (flatten p).comps, ∀ r ∈ c.refs, r ∈ ids (flatten p) ∨ r ∈ placeholders (flatten p))
    (hlb : ∀ kv ∈ l.loopBindings, offset l kv.2 ∈ tmplIds l) (k : Nat) :
    ∀ c' ∈ inst l (k + 1), ∀ r ∈ c'.refs,
      r ∈ ids (unrolled p l (k + 1)) ∨ r ∈ placeholders (flatten p) := by
  intro c' hc' r hr
  unfold inst at hc'
  rw [List.mem_map] at hc'
  obtain ⟨t, ht, rfl⟩ := hc'
  simp only [List.mem_map] at hr
  obtain ⟨r0, hr0, rfl⟩ := hr
  -- the iteration-0 instance of the same template component and its rewritten reference
  have hc0 : ({ stage := l.stage + t.stage, name := iterName 0 t.name, refs := t.refs.map (rewriteRef l 0),
                argRefs := [], opts := t.opts, vars := ("loopIteration".toList, []) :: t.vars, uses := t.uses } : Comp)
      ∈ inst l 0 := List.mem_map.mpr ⟨t, ht, rfl⟩
  have h0 := hres _ (inst0_sub_flatten hl hc0) (rewriteRef l 0 r0) (List.mem_map.mpr ⟨r0, hr0, rfl⟩)
  unfold rewriteRef at h0 ⊢
  simp only at h0 ⊢
  rw [target_succ]
  cases hlk : lookup r0.2 l.loopBindings with
  | some i0 =>
    simp only
    have hmem := hlb _ (mem_of_lookup hlk)
    have hprev : (l.stage + i0.1, iterName k i0.2) ∈ ids (unrolled p l (k + 1)) := by
      have hin := mem_ids_inst_of_tmpl hmem k
      cases k with
      | zero =>
        apply ids_flatten_sub_unrolled
        rw [List.mem_map] at hin
        obtain ⟨c, hc, hcid⟩ := hin
        have h2 : c.id ∈ ids (flatten p) := List.mem_map_of_mem (inst0_sub_flatten hl hc)
        rw [hcid] at h2
        exact h2
      | succ j => exact ids_inst_sub_unrolled p l (by omega) hin
    split
    · rename_i hc
      left
      have hc' : (l.stage + i0.1, iterName k i0.2) ∈ tmplIds l := by simpa using hc
      exact ids_inst_sub_unrolled p l (Nat.lt_succ_self k) (mem_ids_inst_of_tmpl hc' (k + 1))
    · exact .inl hprev
  | none =>
    simp only
    split
    · rename_i hc
      left
      have hc' : target (bindsAt l 0) l r0 ∈ tmplIds l := by simpa using hc
      exact ids_inst_sub_unrolled p l (Nat.lt_succ_self k) (mem_ids_inst_of_tmpl hc' (k + 1))
    · rename_i hc
      rw [if_neg hc] at h0
      rcases h0 with h0 | h0
      · exact .inl (ids_flatten_sub_unrolled p l _ h0)
      · exact .inr h0

/-! ### the importing (`$import`) entries are no components of the loaded document -/

theorem afterHash_iterName0 (n : S) : afterHash (iterName 0 n) = some n := by
  rfl

/-- a component of the loaded document is a component of the main document or iteration 0 of a looped component -/
theorem mem_ids_flatten {p : Package} {i : Id} (h : i ∈ ids (flatten p)) :
    i ∈ ids p.main ∨ ∃ l ∈ p.loops, ∃ j ∈ tmplIds l, i = (j.1, iterName 0 j.2) := by
  unfold ids flatten at h
  simp only [List.map_append, List.mem_append] at h
  rcases h with h | h
  · exact .inl h
  · right
    obtain ⟨c, hc, rfl⟩ := List.mem_map.mp h
    obtain ⟨l, hl, hc⟩ := List.mem_flatMap.mp hc
    have : c.id ∈ (inst l 0).map Comp.id := List.mem_map_of_mem hc
    rw [ids_inst] at this
    obtain ⟨j, hj, hji⟩ := List.mem_map.mp this
    exact ⟨l, hl, j, hj, hji.symm⟩

/-- a placeholder of the loaded document is a placeholder of the main document or a looped component -/
theorem mem_placeholders_flatten {p : Package} {i : Id} (h : i ∈ placeholders (flatten p)) :
    i ∈ placeholders p.main ∨ ∃ l ∈ p.loops, i ∈ tmplIds l := by
  unfold placeholders flatten at h
  simp only [List.filterMap_append, List.mem_append] at h
  rcases h with h | h
  · exact .inl h
  · right
    obtain ⟨c, hc, hci⟩ := List.mem_filterMap.mp h
    obtain ⟨l, hl, hc⟩ := List.mem_flatMap.mp hc
    unfold inst at hc
    obtain ⟨t, ht, rfl⟩ := List.mem_map.mp hc
    simp only [afterHash_iterName0, Option.map_some] at hci
    cases hci
    exact ⟨l, hl, List.mem_map.mpr ⟨t, ht, rfl⟩⟩

/-- **an importing entry resolves to nothing**: an identifier whose name has no `#`, that no component and no
placeholder of the main document carries and that is no looped component of any document is neither a component
nor a placeholder of the loaded document. -/
theorem entry_not_resolved {p : Package} {e : Id} (hname : afterHash e.2 = none) (hmain : e ∉ ids p.main)
    (hph : e ∉ placeholders p.main) (htmpl : ∀ l ∈ p.loops, e ∉ tmplIds l) :
    refResolves (flatten p) e = false := by
  unfold refResolves
  rw [Bool.or_eq_false_iff]
  constructor
  · apply Bool.eq_false_iff.mpr
    intro h
    have h' : e ∈ ids (flatten p) := by simpa using h
    rcases mem_ids_flatten h' with h1 | ⟨l, _, j, _, rfl⟩
    · exact hmain h1
    · simp only [afterHash_iterName0] at hname
      cases hname
  · apply Bool.eq_false_iff.mpr
    intro h
    have h' : e ∈ placeholders (flatten p) := by simpa using h
    rcases mem_placeholders_flatten h' with h1 | ⟨l, hl, h1⟩
    · exact hph h1
    · exact htmpl l hl h1

end St4sd.C11
