import St4sd.Model.Validate
/-!
# C11 — lemmas about the variable scope of a component (`Validate.defsOf`)

`lookup` over concatenated and flattened definition lists; the scope of a component does not depend on the
sections of other stages.  No Mathlib.
-/
namespace St4sd.C11
open St4sd.ValSchema St4sd.Validate

theorem lookup_append_none {α : Type} (k : S) (a b : List (S × α)) (ha : lookup k a = none)
    (hb : lookup k b = none) : lookup k (a ++ b) = none := by
  induction a with
  | nil => simpa using hb
  | cons hd tl ih =>
    obtain ⟨k', v⟩ := hd
    simp only [List.cons_append, lookup] at ha ⊢
    split
    · rename_i h; simp [h] at ha
    · rename_i h; simp only [h, if_false] at ha; exact ih ha

theorem lookup_flatMap_none {α β : Type} (k : S) (l : List β) (f : β → List (S × α))
    (h : ∀ x ∈ l, lookup k (f x) = none) : lookup k (l.flatMap f) = none := by
  induction l with
  | nil => rfl
  | cons x xs ih =>
    rw [List.flatMap_cons]
    exact lookup_append_none k _ _ (h x (List.mem_cons_self ..)) (ih (fun y hy => h y (List.mem_cons_of_mem _ hy)))

/-- a name that no section FOR STAGE `s` defines is not defined by `sectionOf l s`, whatever the other sections hold -/
theorem lookup_sectionOf_none (k : S) (l : List (Nat × List (S × List S))) (s : Nat)
    (h : ∀ sec ∈ l, sec.1 = s → lookup k sec.2 = none) : lookup k (sectionOf l s) = none := by
  unfold sectionOf
  apply lookup_flatMap_none
  intro sec hsec
  rw [List.mem_filter] at hsec
  exact h sec hsec.1 (by simpa using hsec.2)

/-- `sectionOf` only sees the sections of its stage -/
theorem sectionOf_filter (l : List (Nat × List (S × List S))) (s : Nat) :
    sectionOf (l.filter (fun p => p.1 == s)) s = sectionOf l s := by
  unfold sectionOf
  rw [List.filter_filter]
  simp

/-- drop every stage section (`default`'s, the active platform's, those of the user's files) that is not for
stage `s` -/
def onlyStage (s : Nat) (d : Doc) : Doc :=
  { d with stageVars := d.stageVars.filter (fun p => p.1 == s),
           platStageVars := d.platStageVars.filter (fun p => p.1 == s),
           userFiles := d.userFiles.map (fun f => { f with stages := f.stages.filter (fun p => p.1 == s) }) }

theorem userGlobals_onlyStage (s : Nat) (d : Doc) : userGlobals (onlyStage s d) = userGlobals d := by
  unfold userGlobals onlyStage
  simp only
  rw [← List.map_reverse, List.flatMap_map]

theorem userStage_onlyStage (s : Nat) (d : Doc) : userStage (onlyStage s d) s = userStage d s := by
  unfold userStage onlyStage
  simp only
  rw [← List.map_reverse, List.flatMap_map]
  congr 1
  funext f
  exact sectionOf_filter f.stages s

end St4sd.C11
