import St4sd.Model.ArgSubstHistory
/-!
Lemmas for C10 about histories of one live component (`St4sd.ArgSubst.resolveRounds`): what a file holds after a
batch of operations is decided by the LAST operation naming it - whatever modification times and lengths were
involved -, and resolving the arguments looks at nothing but the contents the files hold at that moment.
-/
namespace St4sd.C10History
open St4sd.Str St4sd.ArgSubst

theorem stat_filter (fs : FS) (q p : S) :
    FS.stat (fs.filter fun e => !(e.1 = q)) p = if q = p then none else FS.stat fs p := by
  induction fs with
  | nil => simp [FS.stat]
  | cons e fs ih =>
    obtain ⟨k, r⟩ := e
    by_cases hk : k = q
    · subst hk
      by_cases hp : k = p
      · subst hp
        simpa [List.filter] using ih
      · simpa [List.filter, FS.stat, hp] using ih
    · by_cases hq : q = p
      · subst hq
        simp [List.filter, hk, FS.stat, ih]
      · simp [List.filter, hk, FS.stat, ih, hq]

theorem read_write_same (fs : FS) (p : S) (t : Nat) (c : S) :
    FS.read (FS.apply fs (.write p t c)) p = some c := by
  simp [FS.read, FS.apply, FS.stat]

theorem read_write_other (fs : FS) (q p : S) (t : Nat) (c : S) (h : q ≠ p) :
    FS.read (FS.apply fs (.write q t c)) p = FS.read fs p := by
  simp [FS.read, FS.apply, FS.stat, h]

theorem read_remove_same (fs : FS) (p : S) : FS.read (FS.apply fs (.remove p)) p = none := by
  simp [FS.read, FS.apply, stat_filter]

theorem read_remove_other (fs : FS) (q p : S) (h : q ≠ p) :
    FS.read (FS.apply fs (.remove q)) p = FS.read fs p := by
  simp [FS.read, FS.apply, stat_filter, h]

/-- after a batch of operations a path holds what the last operation naming it left there -/
theorem read_applyAll (ops : List FsOp) : ∀ (fs : FS) (p : S),
    FS.read (FS.applyAll fs ops) p = heldAfter ops p (FS.read fs p) := by
  unfold heldAfter
  induction ops with
  | nil => intro fs p; simp [FS.applyAll, effect]
  | cons op ops ih =>
    intro fs p
    simp only [FS.applyAll, effect]
    rw [ih]
    cases h : effect ops p with
    | some r => simp
    | none =>
      cases op with
      | write q t c =>
        by_cases hq : q = p
        · subst hq; simp [read_write_same]
        · simp [hq, read_write_other]
      | remove q =>
        by_cases hq : q = p
        · subst hq; simp [read_remove_same]
        · simp [hq, read_remove_other]

theorem psource_at_congr (fs fs' : FS) (h : ∀ p, FS.read fs p = FS.read fs' p) (s : PSource) :
    s.at fs = s.at fs' := by
  cases s with
  | fixed s => rfl
  | fileAt p => simp [PSource.at, h]
  | filesAt ps =>
    simp only [PSource.at]
    congr 1
    exact List.map_congr_left fun p _ => h p
  | instFilesAt l =>
    simp only [PSource.at]
    congr 1
    exact List.map_congr_left fun x _ => by rw [h]

theorem resolveAt_congr (fs fs' : FS) (h : ∀ p, FS.read fs p = FS.read fs' p) (decls : List HDecl) (args : S) :
    resolveAt fs decls args = resolveAt fs' decls args := by
  unfold resolveAt
  congr 1
  exact List.map_congr_left fun d _ => by simp [HDecl.at, psource_at_congr fs fs' h]

/-- give every file another modification time -/
def retime (f : S → Nat → Nat) : FS → FS
  | [] => []
  | (p, r) :: fs => (p, { r with mtime := f p r.mtime }) :: retime f fs

theorem read_retime (f : S → Nat → Nat) (fs : FS) (p : S) : FS.read (retime f fs) p = FS.read fs p := by
  induction fs with
  | nil => rfl
  | cons e fs ih =>
    obtain ⟨k, r⟩ := e
    by_cases hk : k = p
    · simp [retime, FS.read, FS.stat, hk]
    · simp only [FS.read] at ih
      simp [retime, FS.read, FS.stat, hk, ih]

/-- the file systems a history goes through -/
def states (fs : FS) : List (List FsOp) → List FS
  | [] => [fs]
  | ops :: rounds => fs :: states (FS.applyAll fs ops) rounds

theorem resolveRounds_eq_map (decls : List HDecl) (args : S) (rounds : List (List FsOp)) : ∀ fs : FS,
    resolveRounds fs decls args rounds = (states fs rounds).map fun st => resolveAt st decls args := by
  induction rounds with
  | nil => intro fs; rfl
  | cons ops rounds ih => intro fs; simp [resolveRounds, states, ih]

end St4sd.C10History
