import St4sd.Model.InstanceDir
/-!
Helper lemmas for C07 (instance directory): deploying a manifest only appends folder entries; every manifest
key is then a folder of the listing; the implied folders are monotone in the listing.
-/
namespace St4sd.InstanceDir

theorem hasName_iff (l : Listing) (n : Name) : hasName l n = true ↔ ∃ k, (n, k) ∈ l := by
  unfold hasName
  rw [List.any_eq_true]
  constructor
  · rintro ⟨⟨a, k⟩, hm, he⟩
    have : a = n := by simpa using he
    subst this
    exact ⟨k, hm⟩
  · rintro ⟨k, hm⟩
    exact ⟨(n, k), hm, by simp⟩

theorem mem_implied (l : Listing) (n : Name) : n ∈ implied l ↔ ∃ k, (n, k) ∈ l ∧ isFolder k = true := by
  unfold implied
  simp only [List.mem_map, List.mem_filter]
  constructor
  · rintro ⟨⟨a, k⟩, ⟨hm, hf⟩, rfl⟩
    exact ⟨k, hm, hf⟩
  · rintro ⟨k, hm, hf⟩
    exact ⟨(n, k), ⟨hm, hf⟩, rfl⟩

/-- one deployed entry: the old entries stay, the listing still consists of folders, the key's first segment
is an entry -/
theorem deployEntry_spec {l l' : Listing} {e : Entry} (h : deployEntry l e = some l') (hf : allFolders l) :
    grows l l' ∧ allFolders l' ∧ hasName l' e.top = true := by
  unfold deployEntry at h
  by_cases hn : e.nested = true
  · rw [if_pos hn] at h
    by_cases hh : hasName l e.top = true
    · rw [if_pos hh] at h
      cases h
      exact ⟨fun x hx => hx, hf, hh⟩
    · rw [if_neg hh] at h
      cases hm : e.method with
      | link => rw [hm] at h; cases h
      | copy =>
        rw [hm] at h
        cases h
        refine ⟨fun x hx => List.mem_append_left _ hx, ?_, ?_⟩
        · intro x hx
          rcases List.mem_append.mp hx with hx | hx
          · exact hf x hx
          · have : x = (e.top, Kind.dir) := by simpa using hx
            subst this; rfl
        · exact (hasName_iff _ _).mpr ⟨.dir, List.mem_append_right _ (by simp)⟩
  · rw [if_neg hn] at h
    by_cases hh : hasName l e.top = true
    · rw [if_pos hh] at h; cases h
    · rw [if_neg hh] at h
      cases h
      refine ⟨fun x hx => List.mem_append_left _ hx, ?_, ?_⟩
      · intro x hx
        rcases List.mem_append.mp hx with hx | hx
        · exact hf x hx
        · have : x = (e.top, kindOf e.method) := by simpa using hx
          subst this
          show isFolder (kindOf e.method) = true
          cases e.method <;> rfl
      · exact (hasName_iff _ _).mpr ⟨kindOf e.method, List.mem_append_right _ (by simp)⟩

theorem hasName_grows {l l' : Listing} (hg : grows l l') {n : Name} (h : hasName l n = true) :
    hasName l' n = true := by
  obtain ⟨k, hk⟩ := (hasName_iff l n).mp h
  exact (hasName_iff l' n).mpr ⟨k, hg _ hk⟩

theorem deploy_spec : ∀ (m : List Entry) {l l' : Listing}, deploy l m = some l' → allFolders l →
    grows l l' ∧ allFolders l' ∧ ∀ e ∈ m, hasName l' e.top = true
  | [], l, l', h, hf => by
    have : l = l' := by simpa [deploy] using h
    subst this
    exact ⟨fun x hx => hx, hf, fun e he => by cases he⟩
  | e :: r, l, l', h, hf => by
    unfold deploy at h
    cases h1 : deployEntry l e with
    | none => rw [h1] at h; cases h
    | some l1 =>
      rw [h1] at h
      obtain ⟨g1, f1, n1⟩ := deployEntry_spec h1 hf
      obtain ⟨g2, f2, n2⟩ := deploy_spec r h f1
      refine ⟨fun x hx => g2 x (g1 x hx), f2, ?_⟩
      intro e' he'
      rcases List.mem_cons.mp he' with rfl | he'
      · exact hasName_grows g2 n1
      · exact n2 e' he'

theorem implied_mono {l l' : Listing} (hg : grows l l') : ∀ n, n ∈ implied l → n ∈ implied l' := by
  intro n hn
  obtain ⟨k, hm, hf⟩ := (mem_implied l n).mp hn
  exact (mem_implied l' n).mpr ⟨k, hg _ hm, hf⟩

theorem contains_iff (l : List Name) (n : Name) : l.contains n = true ↔ n ∈ l := by
  simp

end St4sd.InstanceDir
