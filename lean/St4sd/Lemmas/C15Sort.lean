import St4sd.Model.Layer
/-!
Order lemmas for `Str.lexLt` (code point order of Python strings) and permutation invariance of the two
insertion sorts of `Model/Layer.lean` (C15, memoization serialisation).
-/
namespace St4sd.Sort
open St4sd.Str St4sd.Layer

theorem lexLt_irrefl : ∀ a : S, lexLt a a = false
  | [] => rfl
  | c :: s => by simp [lexLt, Char.lt_irrefl, lexLt_irrefl s]

theorem lexLt_asymm : ∀ a b : S, lexLt a b = true → lexLt b a = false
  | [], [] => by simp [lexLt]
  | [], _ :: _ => by simp [lexLt]
  | _ :: _, [] => by simp [lexLt]
  | a :: s, b :: t => by
    simp only [lexLt, Bool.or_eq_true, decide_eq_true_eq, Bool.and_eq_true, beq_iff_eq,
      Bool.or_eq_false_iff, decide_eq_false_iff_not, Bool.and_eq_false_imp]
    intro h
    rcases h with h | ⟨h1, h2⟩
    · exact ⟨Char.lt_asymm h, fun e => by subst e; exact absurd h (Char.lt_irrefl _)⟩
    · subst h1; exact ⟨Char.lt_irrefl _, fun _ => lexLt_asymm s t h2⟩

theorem lexLt_trans : ∀ a b c : S, lexLt a b = true → lexLt b c = true → lexLt a c = true
  | [], [], _ => by simp [lexLt]
  | [], _ :: _, [] => by simp [lexLt]
  | [], _ :: _, _ :: _ => by simp [lexLt]
  | _ :: _, [], _ => by simp [lexLt]
  | _ :: _, _ :: _, [] => by simp [lexLt]
  | a :: s, b :: t, c :: u => by
    simp only [lexLt, Bool.or_eq_true, decide_eq_true_eq, Bool.and_eq_true, beq_iff_eq]
    intro h1 h2
    rcases h1 with h1 | ⟨e1, h1⟩ <;> rcases h2 with h2 | ⟨e2, h2⟩
    · exact Or.inl (Char.lt_trans h1 h2)
    · subst e2; exact Or.inl h1
    · subst e1; exact Or.inl h2
    · subst e1; subst e2; exact Or.inr ⟨rfl, lexLt_trans s t u h1 h2⟩

theorem lexLt_trichotomy : ∀ a b : S, lexLt a b = false → lexLt b a = false → a = b
  | [], [] => by simp
  | [], _ :: _ => by simp [lexLt]
  | _ :: _, [] => by simp [lexLt]
  | a :: s, b :: t => by
    simp only [lexLt, Bool.or_eq_false_iff, decide_eq_false_iff_not, Bool.and_eq_false_imp, beq_iff_eq]
    intro ⟨h1, h2⟩ ⟨h3, h4⟩
    have e : a = b := Char.le_antisymm (Char.not_lt.mp h3) (Char.not_lt.mp h1)
    subst e
    rw [lexLt_trichotomy s t (h2 rfl) (h4 rfl)]

theorem leS_total (a b : S) : leS a b = true ∨ leS b a = true := by
  unfold leS
  cases h : lexLt b a with
  | false => simp
  | true => simp [lexLt_asymm b a h]

theorem leS_antisymm (a b : S) (h1 : leS a b = true) (h2 : leS b a = true) : a = b := by
  unfold leS at h1 h2
  exact lexLt_trichotomy a b (by simpa using h2) (by simpa using h1)

theorem leS_trans (a b c : S) (h1 : leS a b = true) (h2 : leS b c = true) : leS a c = true := by
  unfold leS at *
  simp only [Bool.not_eq_true', Bool.not_eq_eq_eq_not, Bool.not_true] at *
  cases hca : lexLt c a with
  | false => rfl
  | true =>
    -- c < a; compare b with c
    cases hbc : lexLt b c with
    | true => rw [lexLt_trans b c a hbc hca] at h1; exact h1
    | false =>
      have : b = c := lexLt_trichotomy b c hbc h2
      subst this
      rw [hca] at h1; exact h1

/-! ### insertion commutes -/

theorem insertBy_comm (a b : S × S) (hne : a.1 ≠ b.1) (l : List (S × S)) :
    insertBy a (insertBy b l) = insertBy b (insertBy a l) := by
  induction l with
  | nil =>
    simp only [insertBy]
    cases hab : leS a.1 b.1 <;> cases hba : leS b.1 a.1 <;> simp
    · rcases leS_total a.1 b.1 with h | h <;> simp_all
    · exact absurd (leS_antisymm _ _ hab hba) hne
  | cons c r ih =>
    simp only [insertBy]
    cases hbc : leS b.1 c.1 <;> cases hac : leS a.1 c.1 <;> simp only [insertBy, hbc, hac, ih, if_true, if_false, Bool.false_eq_true]
    · -- a ≤ c, ¬ b ≤ c: then ¬ b ≤ a
      have : leS b.1 a.1 = false := by
        cases h : leS b.1 a.1 with
        | false => rfl
        | true => rw [leS_trans _ _ _ h hac] at hbc; exact absurd hbc (by simp)
      simp [this]
    · have : leS a.1 b.1 = false := by
        cases h : leS a.1 b.1 with
        | false => rfl
        | true => rw [leS_trans _ _ _ h hbc] at hac; exact absurd hac (by simp)
      simp [this]
    · cases hab : leS a.1 b.1 <;> cases hba : leS b.1 a.1 <;> simp [hac, hbc]
      · rcases leS_total a.1 b.1 with h | h <;> simp_all
      · exact absurd (leS_antisymm _ _ hab hba) hne

theorem insertS_comm (a b : S) (l : List S) : insertS a (insertS b l) = insertS b (insertS a l) := by
  by_cases hne : a = b
  · subst hne; rfl
  induction l with
  | nil =>
    simp only [insertS]
    cases hab : leS a b <;> cases hba : leS b a <;> simp
    · rcases leS_total a b with h | h <;> simp_all
    · exact absurd (leS_antisymm _ _ hab hba) hne
  | cons c r ih =>
    simp only [insertS]
    cases hbc : leS b c <;> cases hac : leS a c <;> simp only [insertS, hbc, hac, ih, if_true, if_false, Bool.false_eq_true]
    · have : leS b a = false := by
        cases h : leS b a with
        | false => rfl
        | true => rw [leS_trans _ _ _ h hac] at hbc; exact absurd hbc (by simp)
      simp [this]
    · have : leS a b = false := by
        cases h : leS a b with
        | false => rfl
        | true => rw [leS_trans _ _ _ h hbc] at hac; exact absurd hac (by simp)
      simp [this]
    · cases hab : leS a b <;> cases hba : leS b a <;> simp [hac, hbc]
      · rcases leS_total a b with h | h <;> simp_all
      · exact absurd (leS_antisymm _ _ hab hba) hne

/-- sorting the entries of a dictionary (distinct keys) does not depend on their order -/
theorem sortByKey_perm (l₁ l₂ : List (S × S)) (h : l₁.Perm l₂) (hnd : (l₁.map Prod.fst).Nodup) :
    sortByKey l₁ = sortByKey l₂ := by
  induction h with
  | nil => rfl
  | cons x _ ih =>
    simp only [List.map_cons, List.nodup_cons] at hnd
    simp [sortByKey, ih hnd.2]
  | swap x y l =>
    simp only [List.map_cons, List.nodup_cons, List.mem_cons, not_or] at hnd
    simp only [sortByKey]
    exact insertBy_comm y x hnd.1.1 _
  | trans p₁ _ ih₁ ih₂ =>
    rw [ih₁ hnd, ih₂ (((p₁.map Prod.fst).nodup_iff).mp hnd)]

/-- sorting the items of a list does not depend on their order -/
theorem sortS_perm (l₁ l₂ : List S) (h : l₁.Perm l₂) : sortS l₁ = sortS l₂ := by
  induction h with
  | nil => rfl
  | cons x _ ih => simp [sortS, ih]
  | swap x y l => simp only [sortS]; exact insertS_comm y x _
  | trans _ _ ih₁ ih₂ => rw [ih₁, ih₂]

end St4sd.Sort
