import St4sd.Model.StatusFile
/-! Helper lemmas for C14: the `unicode_escape` model round-trips. -/
namespace St4sd.StatusFile

theorem hexVal_hexDigit_fin : ∀ d : Fin 16, hexVal (hexDigit d.val) = some d.val := by decide

theorem hexVal_hexDigit (d : Nat) (h : d < 16) : hexVal (hexDigit d) = some d :=
  hexVal_hexDigit_fin ⟨d, h⟩

theorem ofCode_toNat (c : Char) : ofCode c.toNat = some c := by
  unfold ofCode
  have h : c.toNat.isValidChar := c.valid
  simp only [h, dite_true]
  rfl

/-- reading the `k+1` hex digits of `n` in state `hex k acc` yields `acc * 16^(k+1) + n % 16^(k+1)` -/
theorem unesc_hex (k : Nat) : ∀ (acc n : Nat) (rest : List Char),
    unesc (.hex k acc) (toHex (k + 1) n ++ rest) =
      match ofCode (acc * 16 ^ (k + 1) + n % 16 ^ (k + 1)) with
      | none => none
      | some ch => (unesc .normal rest).map (ch :: ·) := by
  induction k with
  | zero =>
    intro acc n rest
    have hd : hexVal (hexDigit (n / 16 ^ 0 % 16)) = some (n % 16) := by
      rw [hexVal_hexDigit _ (Nat.mod_lt _ (by decide))]; simp
    simp only [toHex, List.cons_append, List.nil_append, unesc, hd]
    have e : acc * 16 ^ (0 + 1) + n % 16 ^ (0 + 1) = acc * 16 + n % 16 := by simp
    rw [e]
    cases ofCode (acc * 16 + n % 16) <;> rfl
  | succ k ih =>
    intro acc n rest
    have hd : hexVal (hexDigit (n / 16 ^ (k + 1) % 16)) = some (n / 16 ^ (k + 1) % 16) :=
      hexVal_hexDigit _ (Nat.mod_lt _ (by decide))
    have step : toHex (k + 1 + 1) n = hexDigit (n / 16 ^ (k + 1) % 16) :: toHex (k + 1) n := rfl
    rw [step]
    simp only [List.cons_append, unesc, hd]
    rw [ih]
    have harith : (acc * 16 + n / 16 ^ (k + 1) % 16) * 16 ^ (k + 1) + n % 16 ^ (k + 1)
        = acc * 16 ^ (k + 1 + 1) + n % 16 ^ (k + 1 + 1) := by
      rw [Nat.mod_pow_succ (b := 16) (k := k + 1), Nat.add_mul, Nat.pow_succ 16 (k + 1)]
      rw [Nat.mul_assoc, Nat.mul_comm 16 (16 ^ (k + 1)), Nat.mul_comm (n / 16 ^ (k + 1) % 16)]
      omega
    rw [harith]

theorem unesc_bs_x (rest : List Char) : unesc .bs ('x' :: rest) = unesc (.hex 1 0) rest := by
  simp [unesc]
theorem unesc_bs_u (rest : List Char) : unesc .bs ('u' :: rest) = unesc (.hex 3 0) rest := by
  simp [unesc]
theorem unesc_bs_U (rest : List Char) : unesc .bs ('U' :: rest) = unesc (.hex 7 0) rest := by
  simp [unesc]

theorem unesc_normal_bs (rest : List Char) : unesc .normal ('\\' :: rest) = unesc .bs rest := by
  simp [unesc]

theorem unesc_escapeChar (c : Char) (rest : List Char) :
    unesc .normal (escapeChar c ++ rest) = (unesc .normal rest).map (c :: ·) := by
  unfold escapeChar
  by_cases h1 : c = '\\'
  · subst h1; simp [unesc]
  by_cases h2 : c = '\t'
  · subst h2; simp [unesc]
  by_cases h3 : c = '\n'
  · subst h3; simp [unesc]
  by_cases h4 : c = '\r'
  · subst h4; simp [unesc]
  simp only [h1, h2, h3, h4, if_false]
  have hvalid : c.toNat < 1114112 := by
    have hv : c.toNat.isValidChar := c.valid
    unfold Nat.isValidChar at hv
    omega
  by_cases h5 : c.toNat < 32
  · simp only [h5, if_true, List.cons_append, unesc_normal_bs, unesc_bs_x]
    rw [unesc_hex 1 0 c.toNat rest]
    have e : 0 * 16 ^ (1 + 1) + c.toNat % 16 ^ (1 + 1) = c.toNat := by omega
    rw [e, ofCode_toNat]
  simp only [h5, if_false]
  by_cases h6 : c.toNat < 127
  · simp only [h6, if_true, List.cons_append, List.nil_append, unesc, h1, if_false]
  simp only [h6, if_false]
  by_cases h7 : c.toNat < 256
  · simp only [h7, if_true, List.cons_append, unesc_normal_bs, unesc_bs_x]
    rw [unesc_hex 1 0 c.toNat rest]
    have e : 0 * 16 ^ (1 + 1) + c.toNat % 16 ^ (1 + 1) = c.toNat := by omega
    rw [e, ofCode_toNat]
  simp only [h7, if_false]
  by_cases h8 : c.toNat < 65536
  · simp only [h8, if_true, List.cons_append, unesc_normal_bs, unesc_bs_u]
    rw [unesc_hex 3 0 c.toNat rest]
    have e : 0 * 16 ^ (3 + 1) + c.toNat % 16 ^ (3 + 1) = c.toNat := by omega
    rw [e, ofCode_toNat]
  · simp only [h8, if_false, List.cons_append, unesc_normal_bs, unesc_bs_U]
    rw [unesc_hex 7 0 c.toNat rest]
    have e : 0 * 16 ^ (7 + 1) + c.toNat % 16 ^ (7 + 1) = c.toNat := by omega
    rw [e, ofCode_toNat]

theorem unescape_escape (s : List Char) : unescape (escape s) = some s := by
  unfold unescape
  induction s with
  | nil => simp [escape, unesc]
  | cons c s ih => simp only [escape, unesc_escapeChar, ih, Option.map_some]

end St4sd.StatusFile
