import St4sd.Model.HashCache
import St4sd.Lemmas.C16Multi
/-!
Helper lemmas for the session / cache theorems of C16 (`Props/C16.lean`, *sessions* and *chains of producers*):
monotonicity of the hash in the producer hashes, the shape of `hashes`, the producer cone.
-/
namespace St4sd.C16
open St4sd.Str St4sd.Hash

/-! ### the hash is monotone in the hashes of the producers

Every place where the hash of a producer is looked up fails when there is none.  So a hash that exists was
computed from producer hashes that exist, and stays the same when more producers have a hash. -/

/-- `ph'` knows at least the producer hashes `ph` knows, for the producers reference `r` mentions -/
def PhLeAt (r : Ref) (ph ph' : Nat → Option S) : Prop :=
  ∀ p, r.target.producer? = some p → ∀ h, ph p = some h → ph' p = some h

def PhLe (l : List Ref) (ph ph' : Nat → Option S) : Prop := ∀ r ∈ l, PhLeAt r ph ph'

theorem PhLe.tail {x : Ref} {l : List Ref} {ph ph' : Nat → Option S} (h : PhLe (x :: l) ph ph') : PhLe l ph ph' :=
  fun r hr => h r (List.mem_cons_of_mem _ hr)

theorem PhLe.head {x : Ref} {l : List Ref} {ph ph' : Nat → Option S} (h : PhLe (x :: l) ph ph') : PhLeAt x ph ph' :=
  h x (List.mem_cons_self ..)

theorem entryOf_mono (md5 : S → S) (fuzzy : Bool) (ph ph' : Nat → Option S) (r : Ref) (hle : PhLeAt r ph ph') :
    entryOf md5 fuzzy ph r = .fail ∨ entryOf md5 fuzzy ph' r = entryOf md5 fuzzy ph r := by
  unfold entryOf
  cases ht : r.target with
  | file c => cases c <;> simp
  | dir => simp
  | prodDir p => simp
  | prodFile p c =>
    cases c with
    | none => simp
    | some c =>
      cases fuzzy with
      | false => simp
      | true =>
        cases hp : ph p with
        | none => simp [hp]
        | some h =>
          have := hle p (by simp [ht, Target.producer?]) h hp
          simp [this, hp]

theorem fileEntries_mono (md5 : S → S) (fuzzy : Bool) (ph ph' : Nat → Option S) (l : List Ref)
    (E : List FileEntry) (hle : PhLe l ph ph') (h : fileEntries md5 fuzzy ph l = some E) :
    fileEntries md5 fuzzy ph' l = some E := by
  induction l generalizing E with
  | nil => simpa [fileEntries] using h
  | cons x xs ih =>
    simp only [fileEntries] at h ⊢
    rcases entryOf_mono md5 fuzzy ph ph' x hle.head with hf | heq
    · simp [hf] at h
    · rw [heq]
      cases he : entryOf md5 fuzzy ph x with
      | fail => simp [he] at h
      | skip => simp only [he] at h ⊢; exact ih E hle.tail h
      | entry e =>
        simp only [he] at h ⊢
        cases hxs : fileEntries md5 fuzzy ph xs with
        | none => simp [hxs] at h
        | some E' =>
          simp only [hxs, Option.map_some, Option.some.injEq] at h
          simp [ih E' hle.tail hxs, h]

theorem replacementOf_mono (fuzzy : Bool) (es : List FileEntry) (ph ph' : Nat → Option S) (r : Ref)
    (x : Option S) (hle : PhLeAt r ph ph') (h : replacementOf fuzzy es ph r = some x) :
    replacementOf fuzzy es ph' r = some x := by
  unfold replacementOf at h ⊢
  cases hf : es.find? (fun e => e.abs == r.abs) with
  | some e => simp only [hf] at h ⊢; exact h
  | none =>
    simp only [hf] at h ⊢
    cases hp : r.target.producer? with
    | none => simp only [hp] at h ⊢; exact h
    | some p =>
      simp only [hp] at h ⊢
      cases hh : ph p with
      | none => simp only [hh] at h; cases h
      | some v =>
        simp only [hh] at h
        simp only [hle p hp v hh]
        exact h

theorem replaceRefs_mono (fuzzy : Bool) (toks : List S) (es : List FileEntry) (ph ph' : Nat → Option S)
    (l : List Ref) (a a' : S) (hle : PhLe l ph ph') (h : replaceRefs fuzzy toks es ph l a = some a') :
    replaceRefs fuzzy toks es ph' l a = some a' := by
  induction l generalizing a with
  | nil => simpa [replaceRefs] using h
  | cons x xs ih =>
    simp only [replaceRefs] at h ⊢
    generalize (if toks.contains x.abs = true then some x.abs else if toks.contains x.rel = true then some x.rel
      else none) = orig at h ⊢
    cases orig with
    | none => exact ih a hle.tail h
    | some o =>
      simp only at h ⊢
      cases hr : replacementOf fuzzy es ph x with
      | none => simp only [hr] at h; cases h
      | some v =>
        rw [replacementOf_mono fuzzy es ph ph' x v hle.head hr]
        cases v with
        | none => simp only [hr] at h ⊢; exact ih a hle.tail h
        | some rep => simp only [hr] at h ⊢; exact ih _ hle.tail h

theorem le_sortRefs {l : List Ref} {ph ph' : Nat → Option S} (h : PhLe l ph ph') : PhLe (sortRefs l) ph ph' :=
  fun r hr => h r ((sortRefs_perm l).mem_iff.mp hr)

theorem mkInfo_mono (md5 : S → S) (fuzzy : Bool) (bps : Blueprints) (ph ph' : Nat → Option S) (c : Comp)
    (i : Info) (hle : PhLe c.refs ph ph') (h : mkInfo md5 fuzzy bps ph c = some i) :
    mkInfo md5 fuzzy bps ph' c = some i := by
  unfold mkInfo at h ⊢
  cases hb : lookupBp bps (c.stage, blueprintName bps c) with
  | none => simp [hb] at h
  | some exe =>
    simp only [hb, infoCore] at h ⊢
    cases hE : fileEntries md5 fuzzy ph (sortRefs c.refs) with
    | none => simp [hE] at h
    | some E =>
      simp only [hE] at h
      rw [fileEntries_mono md5 fuzzy ph ph' _ E (le_sortRefs hle) hE]
      simp only
      cases hR : replaceRefs fuzzy (tokens c.args) E ph (sortRefs c.refs) c.args with
      | none => simp [hR] at h
      | some a =>
        simp only [hR] at h
        rw [replaceRefs_mono fuzzy _ E ph ph' _ _ a (le_sortRefs hle) hR]
        exact h

/-- a hash that exists stays the same when more producers have a hash -/
theorem hashOne_mono (md5 : S → S) (fuzzy : Bool) (bps : Blueprints) (hs hs' : List (Option S)) (c : Comp)
    (x : S) (hle : PhLe c.refs (getH hs) (getH hs')) (h : hashOne md5 fuzzy bps hs c = some x) :
    hashOne md5 fuzzy bps hs' c = some x := by
  unfold hashOne at h ⊢
  cases hi : mkInfo md5 fuzzy bps (getH hs) c with
  | none => simp [hi] at h
  | some i =>
    rw [mkInfo_mono md5 fuzzy bps _ _ c i hle hi]
    simpa [hi] using h

/-- the hash depends on the producer hashes only at the producers the references mention -/
theorem hashOne_congr (md5 : S → S) (fuzzy : Bool) (bps : Blueprints) (hs hs' : List (Option S)) (c : Comp)
    (heq : ∀ r ∈ c.refs, ∀ p, r.target.producer? = some p → getH hs p = getH hs' p) :
    hashOne md5 fuzzy bps hs c = hashOne md5 fuzzy bps hs' c := by
  have h1 : PhLe c.refs (getH hs) (getH hs') := fun r hr p hp h hh => by rw [← heq r hr p hp]; exact hh
  have h2 : PhLe c.refs (getH hs') (getH hs) := fun r hr p hp h hh => by rw [heq r hr p hp]; exact hh
  cases ha : hashOne md5 fuzzy bps hs c with
  | some x => exact (hashOne_mono md5 fuzzy bps hs hs' c x h1 ha).symm
  | none =>
    cases hb : hashOne md5 fuzzy bps hs' c with
    | none => rfl
    | some y => rw [hashOne_mono md5 fuzzy bps hs' hs c y h2 hb] at ha; cases ha

/-! ### the shape of `hashes` -/

theorem getH_eq (hs : List (Option S)) (p : Nat) : getH hs p = (hs[p]?).join := by
  unfold getH
  cases h : hs[p]? with
  | none => rfl
  | some v => cases v <;> rfl

theorem getH_append_left (a b : List (Option S)) (p : Nat) (h : p < a.length) : getH (a ++ b) p = getH a p := by
  simp [getH_eq, List.getElem?_append_left h]

theorem getH_take (hs : List (Option S)) (k p : Nat) : getH (hs.take k) p = if p < k then getH hs p else none := by
  simp only [getH_eq, List.getElem?_take]
  split <;> rfl

/-- `hashesAux cs acc = acc ++ tail`, one entry per component, each computed from what precedes it -/
theorem hashesAux_spec (md5 : S → S) (fuzzy : Bool) (bps : Blueprints) (cs : List Comp) (acc : List (Option S)) :
    ∃ tail : List (Option S), hashesAux md5 fuzzy bps cs acc = acc ++ tail ∧ tail.length = cs.length ∧
      ∀ k c, cs[k]? = some c → tail[k]? = some (hashOne md5 fuzzy bps (acc ++ tail.take k) c) := by
  induction cs generalizing acc with
  | nil => exact ⟨[], by simp [hashesAux], rfl, by simp⟩
  | cons c cs ih =>
    obtain ⟨tail, h1, h2, h3⟩ := ih (acc ++ [hashOne md5 fuzzy bps acc c])
    refine ⟨hashOne md5 fuzzy bps acc c :: tail, ?_, ?_, ?_⟩
    · simp [hashesAux, h1]
    · simp [h2]
    · intro k c' hk
      cases k with
      | zero =>
        simp only [List.getElem?_cons_zero, Option.some.injEq] at hk
        simp [hk]
      | succ k =>
        simp only [List.getElem?_cons_succ] at hk ⊢
        rw [h3 k c' hk]
        simp

theorem hashes_length (md5 : S → S) (fuzzy : Bool) (bps : Blueprints) (cs : List Comp) :
    (hashes md5 fuzzy bps cs).length = cs.length := by
  obtain ⟨tail, h1, h2, _⟩ := hashesAux_spec md5 fuzzy bps cs []
  simp [hashes, h1, h2]

/-- the hash of component `k` is computed from the hashes of the components before it -/
theorem hashes_at (md5 : S → S) (fuzzy : Bool) (bps : Blueprints) (cs : List Comp) (k : Nat) (c : Comp)
    (hk : cs[k]? = some c) :
    (hashes md5 fuzzy bps cs)[k]? = some (hashOne md5 fuzzy bps ((hashes md5 fuzzy bps cs).take k) c) := by
  obtain ⟨tail, h1, _, h3⟩ := hashesAux_spec md5 fuzzy bps cs []
  simp only [hashes, h1, List.nil_append] at h3 ⊢
  exact h3 k c hk

/-! ### the producer cone -/

/-- **Cone congruence.**  `K` is a set of positions that is closed under "producer of"; if two lists of
components agree at the positions of `K`, their hashes agree at the positions of `K` — whatever the other
components are and consume. -/
theorem hashes_congr_on (md5 : S → S) (fuzzy : Bool) (bps : Blueprints) (cs₁ cs₂ : List Comp) (K : Nat → Prop)
    (hlen : cs₁.length = cs₂.length)
    (hK : ∀ k, K k → cs₁[k]? = cs₂[k]? ∧
      ∀ c, cs₁[k]? = some c → ∀ r ∈ c.refs, ∀ p, r.target.producer? = some p → K p) :
    ∀ k, K k → (hashes md5 fuzzy bps cs₁)[k]? = (hashes md5 fuzzy bps cs₂)[k]? := by
  intro k
  induction k using Nat.strongRecOn with
  | _ k ih =>
    intro hk
    obtain ⟨heq, hclosed⟩ := hK k hk
    cases hc : cs₁[k]? with
    | none =>
      have h1 : cs₁.length ≤ k := by
        rcases Nat.lt_or_ge k cs₁.length with h | h
        · simp [List.getElem?_eq_getElem h] at hc
        · exact h
      rw [List.getElem?_eq_none (by rw [hashes_length]; exact h1),
        List.getElem?_eq_none (by rw [hashes_length, ← hlen]; exact h1)]
    | some c =>
      rw [hashes_at md5 fuzzy bps cs₁ k c hc, hashes_at md5 fuzzy bps cs₂ k c (heq ▸ hc)]
      congr 1
      apply hashOne_congr
      intro r hr p hp
      rw [getH_take, getH_take]
      split
      · rename_i hpk
        have := ih p hpk (hclosed c hc r hr p hp)
        simp [getH_eq, this]
      · rfl

/-! ### references of resolved components -/

theorem resolve_producer (fs : Fs) (r : SRef) : (r.resolve fs).target.producer? = r.loc.producer? := by
  cases hl : r.loc with
  | direct q =>
    cases hv : view fs q with
    | none => simp [SRef.resolve, resolveTarget, hl, Loc.path, hv, targetOf, Target.producer?, Loc.producer?]
    | some v =>
      cases v <;> simp [SRef.resolve, resolveTarget, hl, Loc.path, hv, targetOf, Target.producer?, Loc.producer?]
  | produced p q =>
    cases hv : view fs q with
    | none => simp [SRef.resolve, resolveTarget, hl, Loc.path, hv, targetOf, Target.producer?, Loc.producer?]
    | some v =>
      cases v <;> simp [SRef.resolve, resolveTarget, hl, Loc.path, hv, targetOf, Target.producer?, Loc.producer?]

theorem mem_resolve_refs (fs : Fs) (c : SComp) (r' : Ref) (h : r' ∈ (c.resolve fs).refs) :
    ∃ r ∈ c.refs, r' = r.resolve fs := by
  simp only [SComp.resolve, List.mem_map] at h
  obtain ⟨r, hr, rfl⟩ := h
  exact ⟨r, hr, rfl⟩

/-! ### caches -/

theorem getH_set (l : List (Option S)) (j k : Nat) (v : Option S) (h : S) (hg : getH (l.set j v) k = some h) :
    (k = j ∧ v = some h) ∨ getH l k = some h := by
  rw [getH_eq, List.getElem?_set] at hg
  split at hg
  · rename_i hjk
    split at hg
    · left; exact ⟨hjk.symm, by simpa using hg⟩
    · simp at hg
  · right; rw [getH_eq]; exact hg

theorem getH_lt (l : List (Option S)) (k : Nat) (h : S) (hg : getH l k = some h) : k < l.length := by
  rw [getH_eq] at hg
  rcases Nat.lt_or_ge k l.length with hk | hk
  · exact hk
  · rw [List.getElem?_eq_none hk] at hg; simp at hg

theorem mem_cachedIdx (l : List (Option S)) (k : Nat) (h : S) (hg : getH l k = some h) : k ∈ cachedIdx l := by
  simp only [cachedIdx, List.mem_filter, List.mem_range]
  exact ⟨getH_lt l k h hg, by simp [hg]⟩

theorem mem_producersOf (c : SComp) (r : SRef) (p : Nat) (hr : r ∈ c.refs) (hp : r.loc.producer? = some p) :
    p ∈ producersOf c := by
  simp only [producersOf, List.mem_filterMap]
  exact ⟨r, hr, hp⟩

end St4sd.C16
