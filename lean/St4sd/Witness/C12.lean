import St4sd.Model.Restart
import St4sd.Model.RestartKill
/-!
Witnesses for C12: the code as it is in the tree (`ctrlRestartOld` = `restartHookOn` tested before the
SubmissionFailed/cap branch, with `repeatingRestartOld` = `maxRestarts`/`restartHookOn` never read by
`RepeatingEngine.restart`) violates the full statements proved in `Props/C12.lean` for the repaired order.
The harness replays the same inputs on the real code (corpus of harness/c12.py).
-/
namespace St4sd.C12.Witness
open St4sd.Restart St4sd.Gen

/-- component that lists SubmissionFailed in restartHookOn (accepted by the schema) -/
def cfgListsSF : Cfg := ⟨none, false, [.submissionFailed], false, false, .scripted⟩
def subFailed : Inp := ⟨.submissionFailed, .ctx .possible, false, false, true, .task⟩

/-- Six consecutive failed submissions are all answered by RestartInitiated: the cap of five is never
consulted (`resubmission_cap` is false of the old order) … -/
theorem old_order_exceeds_cap :
    schemaValid cfgListsSF = true ∧
    (execOld false cfgListsSF St.init (List.replicate 6 subFailed)).all Ev.isResub = true ∧
    ¬ (List.replicate 6 subFailed).length ≤ C12.resubmissionCap := by decide

/-- … and it goes on: twelve in a row, counter at twelve. -/
theorem old_order_twelve :
    (finalOld false cfgListsSF St.init (List.replicate 12 subFailed)).resub = 12 := by decide

/-- the repaired order refuses the sixth -/
theorem new_order_caps :
    (exec false cfgListsSF St.init (List.replicate 6 subFailed)).map (·.code) =
      [.initiated, .initiated, .initiated, .initiated, .initiated, .maxAttemptsExceeded] := by decide

/-- repeating component with `maxRestarts: 0` -/
def cfgRepeatingZero : Cfg := ⟨some 0, false, [.resourceExhausted], false, true, .fallback⟩
def exhausted (stable : Bool) : Inp := ⟨.resourceExhausted, .junk, false, false, stable, .none⟩

/-- `RepeatingEngine.restart` never reads maxRestarts: one restart although the maximum is zero
(`restarts_le_max` is false of the old code) -/
theorem old_repeating_ignores_max :
    schemaValid cfgRepeatingZero = true ∧ effMax cfgRepeatingZero = 0 ∧
    (finalOld false cfgRepeatingZero St.init [exhausted true]).restarts = 1 ∧
    (final false cfgRepeatingZero St.init [exhausted true]).restarts = 0 := by decide

/-- repeating component that does not list ResourceExhausted -/
def cfgRepeatingUnlisted : Cfg := ⟨none, false, [.knownIssue], false, true, .fallback⟩

/-- with an unstable system the controller's third branch restarts the RepeatingEngine although the exit
reason is not listed (`only_listed_reasons` is false of the old code) -/
theorem old_repeating_restarts_unlisted :
    Reason.resourceExhausted ∉ cfgRepeatingUnlisted.hookOn ∧
    (execOld false cfgRepeatingUnlisted St.init [exhausted false]).map (·.code) = [.initiated] ∧
    (exec false cfgRepeatingUnlisted St.init [exhausted false]).map (·.code) = [.notRequired] := by decide

/-- If the streak of failed submissions were ended by the creation of a Task object (reset in `SetLaunchTime`)
instead of by a successful task, tasks that are created fine and then REPORT SubmissionFailed would be
re-submitted without bound: seven in a row are all answered by RestartInitiated, the counter never passes 1
(`resubmissions_without_success_le_cap` is false of that variant) … -/
theorem reset_at_creation_exceeds_cap :
    (execGen arriveResetAtCreation ctrlRestart true ⟨none, false, [.knownIssue], false, false, .scripted⟩ St.init
        (List.replicate 7 subFailed)).all Ev.isResub = true ∧
    (finalGen arriveResetAtCreation ctrlRestart true ⟨none, false, [.knownIssue], false, false, .scripted⟩ St.init
        (List.replicate 7 subFailed)).resub = 1 := by decide

/-- … while the code as it is refuses the sixth and finalises the component -/
theorem reset_on_success_caps :
    (exec true ⟨none, false, [.knownIssue], false, false, .scripted⟩ St.init (List.replicate 7 subFailed)).map
      (fun e => (e.code, e.st.shutdown)) =
      [(.initiated, false), (.initiated, false), (.initiated, false), (.initiated, false), (.initiated, false),
       (.maxAttemptsExceeded, true), (.maxAttemptsExceeded, true)] := by decide


/-! ## The loader and the hook cache -/

/-- a component that writes `restartHookOn: []` -/
def wEmpty : Written := ⟨none, none, some []⟩
def exhaustedTask : Inp := ⟨.resourceExhausted, .ctx .possible, false, false, true, .task⟩

/-- a defaulting of the `written or default` kind turns the explicit empty list into `[ResourceExhausted]` and the
task of a component that lists nothing is started again (three times: the default budget) … -/
theorem falsy_defaulting_restarts_unlisted :
    (loadFalsy wEmpty).hookOn = [.resourceExhausted] ∧
    (exec false ((loadFalsy wEmpty).cfg false false .scripted) St.init (List.replicate 4 exhaustedTask)).map (·.code) =
      [.initiated, .initiated, .initiated, .maxAttemptsExceeded] := by decide

/-- … and loses an explicit `maxRestarts: 0`; the loader as it is keeps both. -/
theorem falsy_defaulting_loses_zero :
    (loadFalsy ⟨some 0, none, none⟩).maxRestarts = none ∧ (load ⟨some 0, none, none⟩).maxRestarts = some 0 ∧
    (exec false ((load wEmpty).cfg false false .scripted) St.init (List.replicate 4 exhaustedTask)).all
      (fun e => e.code != .initiated) = true := by decide

def allowRefuse : String → HookAns := fun f => if f = "allow.py" then .ctx .possible else .ctx .notPossible
def firstSecond : Nat → MCfg := fun k =>
  ⟨⟨none, true, [.resourceExhausted], false, false, .scripted⟩, if k = 0 then "allow.py" else "refuse.py"⟩

/-- importing the hook once per instance (cache keyed by the hooks directory only): the component whose own file
refuses is restarted by the answer of the other component's file (and without bound: hook file named, no maximum),
while with per-component selection it is refused and gets its final state. -/
theorem shared_hook_cache_restarts_refused_component :
    (allowRefuse (firstSecond 1).hookFile).refuses = true ∧
    (eventsOf 1 (mexecCached true allowRefuse firstSecond none (fun _ => St.init)
      ([⟨0, exhaustedTask⟩] ++ List.replicate 6 ⟨1, exhaustedTask⟩))).all (fun e => e.code == .initiated) = true ∧
    (eventsOf 1 (mexec true allowRefuse firstSecond (fun _ => St.init)
      ([⟨0, exhaustedTask⟩] ++ List.replicate 6 ⟨1, exhaustedTask⟩))).all (fun e => e.code != .initiated) = true := by
  decide

/-- `Engine.restart` without its `self.process = None` (`keep = true`): the kill that arrives in the launch delay of
the restart is reported with the exit reason of the previous task, the restart is initiated and `run()` is called
again - `killed_before_launch_never_started_again` is false of that variant; with the reset the same history is refused. -/
theorem stale_task_object_restarts_killed_task :
    let c : Cfg := ⟨none, false, [.resourceExhausted], false, false, .fallback⟩
    let k : RestartKill.Arrival → RestartKill.KInp := fun a => ⟨a, ⟨.success, .ctx .possible, true, false, true, .task⟩⟩
    let hist := [k (.exits .task .resourceExhausted), k .kill]
    schemaValid c = true ∧
    (RestartKill.kexec true true c (St.init, RestartKill.run RestartKill.Eng.init) hist).map
      (fun ev => (ev.killable, ev.reported, ev.code, ev.st.runs)) =
      [(true, .resourceExhausted, .initiated, 1), (true, .resourceExhausted, .initiated, 2)] ∧
    (RestartKill.kexec false true c (St.init, RestartKill.run RestartKill.Eng.init) hist).map
      (fun ev => (ev.killable, ev.reported, ev.code, ev.st.runs)) =
      [(true, .resourceExhausted, .initiated, 1), (true, .killed, .couldNotInitiate, 1)] := by decide

end St4sd.C12.Witness
