import St4sd.Model.Repeat
import St4sd.Lemmas.C13Kill
/-!
Witnesses for C13 (machine-checked by `decide`; the harness replays the same scripts on the real engine).

* the code before the two proposed repairs never stops in two situations;
* the code that exists (repaired or not) stops without having looked at the final producer output in two
  narrow situations excluded by the hypotheses of `stop_implies_final_output_seen_partial`.
-/
namespace St4sd.C13.Witness
open St4sd.Repeat

private def it0 : Iter := { gap := [], s0 := [], s1 := [], s2 := [], s3 := [], s4 := [], out := .ok }

def cfgOld : Cfg :=
  { retries := 3, dieAfter := false, prods := [⟨0, true, false⟩], pre := [],
    guardNone := false, killOnSuicidePoll := false, killAfterLaunch := false }

/-- engine.py 1890 before the repair: the task generator raises on every launch after the producers
finished (8 polls): `my_process.returncode` on `None`, the action dies before the bookkeeping, no retry is
used up, the cancel event is never set — although `repeatRetries + 1 = 4`. -/
theorem old_launch_raises_never_stops :
    let s := (runScript cfgOld (init cfgOld)
      ([{ it0 with s0 := [.out 0] }, { it0 with gap := [.fin], out := .raised }] ++
        List.replicate 7 { it0 with out := .raised })).1.getLast?.getD (init cfgOld)
    s.cancel = false ∧ s.retries = 3 ∧ s.pollsFin = 8 ∧ s.books = 0 ∧ s.execLog.length = 9 := by decide

def cfgOldDie : Cfg := { cfgOld with prods := [⟨0, true, true⟩], dieAfter := true, guardNone := true }

/-- before the repair: the kill-delay timer fires between two polls after one launch: `suicide()` only
signals the finished process, every later poll is a no-op, the engine never stops. -/
theorem old_kill_delay_between_polls_never_stops :
    let s := (runScript cfgOldDie (init cfgOldDie)
      ([{ it0 with s0 := [.out 0] }, { it0 with gap := [.fin] }, { it0 with gap := [.die] }] ++
        List.replicate 6 it0)).1.getLast?.getD (init cfgOldDie)
    s.suicide = true ∧ s.cancel = false ∧ alive s = true ∧ s.pollsFin = 8 ∧ s.pc = .idle := by decide

def cfgZero : Cfg :=
  { retries := 0, dieAfter := false, prods := [⟨0, true, true⟩], pre := [],
    guardNone := true, killOnSuicidePoll := true, killAfterLaunch := true }

/-- `repeatRetries: 0`: new output and the notification land between the output check and the
producers-done sample of a poll: that poll does not launch, finds no retries left and stops; the only launch
began before the final output appeared. -/
theorem zero_retries_race_misses_final_output :
    let s := (runScript cfgZero (init cfgZero)
      [{ it0 with s0 := [.out 0] }, { it0 with s1 := [.out 0, .fin] }, it0]).1.getLast?.getD (init cfgZero)
    s.cause = some .retries ∧ s.consume = true ∧ s.hasOutput = true ∧ s.pc = .stopped ∧
    s.execLog.all (fun e => decide (e.launch < s.lastOutput)) = true ∧ s.execLog.length = 1 := by decide

def cfgPre : Cfg := { cfgZero with retries := 3, pre := [0] }

/-- producer output exists before `run()` and none appears afterwards; the notification arrives before the
first poll: four polls find no *new* output, the retries are used up before the 20 s override can fire, and
the engine stops without ever launching although it can consume. -/
theorem output_before_run_never_looked_at :
    let s := (runScript cfgPre (init cfgPre)
      ([{ it0 with gap := [.fin] }] ++ List.replicate 4 it0)).1.getLast?.getD (init cfgPre)
    s.cause = some .retries ∧ s.consume = true ∧ s.hasOutput = true ∧ s.pc = .stopped ∧
    s.execLog = [] := by decide

/-- two same-stage producers: the output of producer 4 (listed first) predates `run()`, producer 9 (listed
last) never writes anything and both finish: although there is producer output the engine is never able to
consume (the `never was able to consume` exemption of the property), launches nothing and stops when its
retries are used up. -/
theorem two_producers_one_silent_never_consumes :
    let cfg := { cfgZero with retries := 1, prods := [⟨4, true, true⟩, ⟨9, true, true⟩], pre := [4] }
    let s := (runScript cfg (init cfg) ([{ it0 with gap := [.fin] }] ++ List.replicate 3 it0)).1.getLast?.getD (init cfg)
    s.cause = some .retries ∧ s.consume = false ∧ s.hasOutput = true ∧ s.pc = .stopped ∧ s.execLog = [] := by
  decide

/-- the code before the third repair (fixes/C13-kill-delay-expires-before-launch.diff): `kill-after-producers-done-delay` expires between the `_suicide` check at
the start of a poll and the launch of that poll (the engine has launched before, so `suicide()` only signals the OLD,
finished task); the task launched now never ends by itself: nobody kills it, the engine thread waits for ever, the
cancel event is never set - however many further steps the engine thread is given.  Excluded by hypothesis `hw` of
`kill_delay_expiry_stops_partial`; impossible with the repair (`kill_delay_expiry_stops`). -/
def cfgRace : Cfg :=
  { retries := 3, dieAfter := true, prods := [⟨0, true, false⟩], pre := [0], guardNone := true,
    killOnSuicidePoll := true, killAfterLaunch := false }

def histRace : List Op :=
  [.eng .ok, .eng .ok, .eng .ok, .eng .ok, .eng .ok, .eng .ok,      -- one whole poll, a task ran and ended
   .env .fin, .eng .ok, .eng .ok,                                    -- notification; next poll passed the check
   .env .die,                                                        -- the delay expires HERE
   .eng .hang, .eng .hang]                                           -- the poll goes on and launches

theorem kill_delay_expiring_before_launch_leaves_never_ending_task_running (n : Nat) :
    let s := run cfgRace (exec cfgRace histRace) (List.replicate n (.eng .hang))
    (exec cfgRace histRace).suicide = true ∧ (exec cfgRace histRace).prodDone = true ∧
    s.cancel = false ∧ blocked s = true := by
  have hb : blocked (exec cfgRace histRace) = true := by decide
  obtain ⟨h1, h2, _⟩ := blocked_forever cfgRace .hang n _ hb
  exact ⟨by decide, by decide, by rw [h2]; decide, h1⟩

end St4sd.C13.Witness
