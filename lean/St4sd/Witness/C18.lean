import St4sd.Model.Confine
import St4sd.Lemmas.C18Confine
import St4sd.Model.C18Keys
import St4sd.Model.C18Stagers
/-!
Witnesses for C18: the code as committed (`checkOld` = textual prefix test of data.py 227-232,
`validateOld` = `Manifest.validate` refusing absolute keys only, deployment without guard) violates the
confinement statement.  Sandbox: `/i/w` is the working / instance directory, `/o` with the file `/o/v` is
outside.  The harness replays the same inputs on the real code (corpus cases of `harness/c18.py`).
-/
namespace St4sd.C18.Witness
open St4sd.Confine

def fs0 : Fs := [([['w'], ['i']], Node.dir), ([['i']], Node.dir), ([['o']], Node.dir), ([['v'], ['o']], Node.file [['v'], ['o']])]
def dest : Path := [['w'], ['i']]

/-- does the log contain a location outside `dest`? -/
def escapes (r : St × Option Err) : Bool := r.1.log.any fun p => !under dest p

/-- C18a: member `../e` is accepted by the committed check and created in `/i`, outside the working directory -/
theorem old_parent_segment_escapes :
    let ms := [Member.file (parsePath ['.', '.', '/', 'e'])]
    checkOld dest ms = true ∧ (stageExtractOld dest ⟨fs0, []⟩ ms).1.log = [[['e'], ['i']]] ∧
    (stageExtractOld dest ⟨fs0, []⟩ ms).2 = none := by decide

/-- C18b: symlink member `l -> ..` followed by file member `l/e`: no `..` in any *name*, the file is written
through the link to `/i/e` -/
theorem old_symlink_then_file_escapes :
    let ms := [Member.sym (parsePath ['l']) (parsePath ['.', '.']), Member.file (parsePath ['l', '/', 'e'])]
    checkOld dest ms = true ∧ escapes (stageExtractOld dest ⟨fs0, []⟩ ms) = true ∧
    (stageExtractOld dest ⟨fs0, []⟩ ms).1.fs.get [['e'], ['i']] = some (Node.file [['e'], ['i']]) := by decide

/-- C18b': hard link member `h -> ../../o/v` followed by file member `h`: the content of `/o/v` is overwritten -/
theorem old_hardlink_then_file_modifies_outside :
    let ms := [Member.hard (parsePath ['h']) (parsePath ['.', '.', '/', '.', '.', '/', 'o', '/', 'v']),
               Member.file (parsePath ['h'])]
    checkOld dest ms = true ∧ (stageExtractOld dest ⟨fs0, []⟩ ms).2 = none ∧
    [['v'], ['o']] ∈ (stageExtractOld dest ⟨fs0, []⟩ ms).1.log := by decide

/-- why the repaired check does not merely normalise names (`os.path.normpath`): with the members
`a/b/` (dir), `a/b/c -> ../..` (a link to the working directory itself) and the file `a/b/c/../e`, every
normalised name and the normalised link target stay inside, yet the kernel writes `/i/e`. -/
theorem normpath_repair_would_be_unsound :
    let name := parsePath ['a', '/', 'b', '/', 'c', '/', '.', '.', '/', 'e']
    let ms := [Member.dir (parsePath ['a', '/', 'b']),
               Member.sym (parsePath ['a', '/', 'b', '/', 'c']) (parsePath ['.', '.', '/', '.', '.']),
               Member.file name]
    allNames (normalize false [] name.segs) = true ∧
    normalize false [] ([Seg.name ['a'], Seg.name ['b']] ++ [Seg.up, Seg.up]) = [] ∧
    escapes (extractAll dest ⟨fs0, []⟩ ms) = true ∧
    checkFixed dest ms = false := by decide

/-! ### the textual-normalisation rule for link targets (`checkNormpath`) is unsound

In each archive below no member name has a `..` component or is absolute, every link target is relative and
its `os.path.normpath` against the directory holding the link (archive root for a hard link) is still under
the destination, so `checkNormpath` accepts; extraction nevertheless creates a file outside `dest = /i/w`
without any error.  The repaired check refuses all of them before anything is touched. -/

/-- chain of two links, the second one placed *through* the first: `a/s -> ..` is the working directory; `a/s/esc -> ..` is textually `a`, but it is created as `/i/w/esc` and points to `/i`; the file member `a/s/esc/P` is written to `/i/P` -/
theorem normpath_link_rule_unsound_on_chain :
    let ms := [Member.sym (parsePath ['a', '/', 's']) (parsePath ['.', '.']),
               Member.sym (parsePath ['a', '/', 's', '/', 'e', 's', 'c']) (parsePath ['.', '.']),
               Member.file (parsePath ['a', '/', 's', '/', 'e', 's', 'c', '/', 'P'])]
    (ms.all fun m => descending m.name) = true ∧ checkNormpath dest ms = true ∧
    escapes (stageExtractNormpath dest ⟨fs0, []⟩ ms) = true ∧
    (stageExtractNormpath dest ⟨fs0, []⟩ ms).2 = none ∧
    (stageExtractNormpath dest ⟨fs0, []⟩ ms).1.fs.get [['P'], ['i']] = some (Node.file [['P'], ['i']]) ∧
    checkFixed dest ms = false ∧ (stageExtractFixed dest ⟨fs0, []⟩ ms).2 = some Err.rejected ∧
    (stageExtractFixed dest ⟨fs0, []⟩ ms).1.log = [] := by decide

/-- the same with three links, each placed through the previous one, below a deeper directory -/
theorem normpath_link_rule_unsound_on_chain_depth3 :
    let ms := [Member.sym (parsePath ['a', '/', 'b', '/', 's']) (parsePath ['.', '.']),
               Member.sym (parsePath ['a', '/', 'b', '/', 's', '/', 't']) (parsePath ['.', '.']),
               Member.sym (parsePath ['a', '/', 'b', '/', 's', '/', 't', '/', 'u']) (parsePath ['.', '.']),
               Member.file (parsePath ['a', '/', 'b', '/', 's', '/', 't', '/', 'u', '/', 'P'])]
    (ms.all fun m => descending m.name) = true ∧ checkNormpath dest ms = true ∧
    escapes (stageExtractNormpath dest ⟨fs0, []⟩ ms) = true ∧
    (stageExtractNormpath dest ⟨fs0, []⟩ ms).2 = none ∧
    (stageExtractNormpath dest ⟨fs0, []⟩ ms).1.fs.get [['P'], ['i']] = some (Node.file [['P'], ['i']]) ∧
    checkFixed dest ms = false ∧ (stageExtractFixed dest ⟨fs0, []⟩ ms).2 = some Err.rejected ∧
    (stageExtractFixed dest ⟨fs0, []⟩ ms).1.log = [] := by decide

/-- a hard link member copies an earlier link into another directory: `a/b/s -> ../..` is the working directory, its second name `h` (no `..` in the hard link target `a/b/s`) has the same text `../..` one directory higher and points to `/`; `h/P` is written to `/P` -/
theorem normpath_link_rule_unsound_on_hardlinked_link :
    let ms := [Member.dir (parsePath ['a', '/', 'b']),
               Member.sym (parsePath ['a', '/', 'b', '/', 's']) (parsePath ['.', '.', '/', '.', '.']),
               Member.hard (parsePath ['h']) (parsePath ['a', '/', 'b', '/', 's']),
               Member.file (parsePath ['h', '/', 'P'])]
    (ms.all fun m => descending m.name) = true ∧ checkNormpath dest ms = true ∧
    escapes (stageExtractNormpath dest ⟨fs0, []⟩ ms) = true ∧
    (stageExtractNormpath dest ⟨fs0, []⟩ ms).2 = none ∧
    (stageExtractNormpath dest ⟨fs0, []⟩ ms).1.fs.get [['P']] = some (Node.file [['P']]) ∧
    checkFixed dest ms = false ∧ (stageExtractFixed dest ⟨fs0, []⟩ ms).2 = some Err.rejected ∧
    (stageExtractFixed dest ⟨fs0, []⟩ ms).1.log = [] := by decide

/-- a link whose *target* passes through an earlier link: `a/s -> ..`, `m -> a/s/..` is textually `a`, really the parent of the working directory; `m/P` is written to `/i/P` -/
theorem normpath_link_rule_unsound_on_target_through_link :
    let ms := [Member.sym (parsePath ['a', '/', 's']) (parsePath ['.', '.']),
               Member.sym (parsePath ['m']) (parsePath ['a', '/', 's', '/', '.', '.']),
               Member.file (parsePath ['m', '/', 'P'])]
    (ms.all fun m => descending m.name) = true ∧ checkNormpath dest ms = true ∧
    escapes (stageExtractNormpath dest ⟨fs0, []⟩ ms) = true ∧
    (stageExtractNormpath dest ⟨fs0, []⟩ ms).2 = none ∧
    (stageExtractNormpath dest ⟨fs0, []⟩ ms).1.fs.get [['P'], ['i']] = some (Node.file [['P'], ['i']]) ∧
    checkFixed dest ms = false ∧ (stageExtractFixed dest ⟨fs0, []⟩ ms).2 = some Err.rejected ∧
    (stageExtractFixed dest ⟨fs0, []⟩ ms).1.log = [] := by decide

/-! ### the hypothesis `Safe` of `extract_confined` is needed: inputs staged by `link` into the same directory

`Job.stageIn` stages every reference of a component into the same working directory.  A reference staged with
`:link` leaves an *absolute* symbolic link there (`stageLink`), so the state is not `Safe`; an archive extracted
afterwards whose member is named `<that link>/evil` has no `..`, nothing absolute — the repaired check accepts
it — and `tarfile` writes through the link into the linked source directory.  Recorded as known finding
`C18-extract-through-staged-link`; the harness replays the same input on the real code. -/

/-- the working directory `/i/w` after link-staging the input `/o` -/
def fsLinked : Fs := (stageLink dest ⟨fs0, []⟩ ['/', 'o']).1.fs

/-- link-staging `/o`, then extracting `[file o/evil]`: accepted, no error, `/o/evil` is created outside the
working directory -/
theorem link_then_extract_escapes :
    let ms := [Member.file (parsePath ['o', '/', 'e', 'v', 'i', 'l'])]
    (stageLink dest ⟨fs0, []⟩ ['/', 'o']).2 = none ∧
    fsLinked.get [['o'], ['w'], ['i']] = some (Node.link true [Seg.name ['o']]) ∧
    checkFixed dest ms = true ∧ (stageExtractFixed dest ⟨fsLinked, []⟩ ms).2 = none ∧
    escapes (stageExtractFixed dest ⟨fsLinked, []⟩ ms) = true ∧
    (stageExtractFixed dest ⟨fsLinked, []⟩ ms).1.fs.get [['e', 'v', 'i', 'l'], ['o']] =
      some (Node.file [['e', 'v', 'i', 'l'], ['o']]) := by decide

/-- the same through a *descending* archive link to the staged name: `x -> o`, `x/evil` -/
theorem link_then_extract_escapes_via_descending_member_link :
    let ms := [Member.sym (parsePath ['x']) (parsePath ['o']), Member.file (parsePath ['x', '/', 'e', 'v', 'i', 'l'])]
    checkFixed dest ms = true ∧ (stageExtractFixed dest ⟨fsLinked, []⟩ ms).2 = none ∧
    escapes (stageExtractFixed dest ⟨fsLinked, []⟩ ms) = true := by decide

/-- that state violates the hypothesis of `extract_confined` (the link under `dest` is absolute) … -/
theorem linked_state_not_safe : ¬ Safe dest fsLinked := by
  intro h
  have := h [['o'], ['w'], ['i']] (Node.link true [Seg.name ['o']]) (by decide) (by decide)
  simp [NodeOk] at this

/-- … whereas copy-staging the same input keeps the later extraction inside: the member lands in `/i/w/o/evil` -/
theorem copy_then_extract_stays_inside :
    let ms := [Member.file (parsePath ['o', '/', 'e', 'v', 'i', 'l'])]
    let st := (stageCopy dest ⟨fs0, []⟩ ['/', 'o'] RefKind.dir).1
    (stageExtractFixed dest ⟨st.fs, []⟩ ms).2 = none ∧ escapes (stageExtractFixed dest ⟨st.fs, []⟩ ms) = false := by decide

/-- C18c: manifest key `../x` passes `Manifest.validate` as committed and is deployed to `/i/x` -/
theorem old_manifest_parent_key_escapes :
    let es := [Entry.mk (parsePath ['.', '.', '/', 'x']) [Seg.name ['o']] Method.copy]
    validateOld es = true ∧ escapes (deployAll false dest ⟨fs0, []⟩ es) = true ∧
    (deployAll false dest ⟨fs0, []⟩ es).1.fs.get [['x'], ['i']] = some Node.dir := by decide

/-- C18d: no `..` anywhere: key `a` linked to `/o`, key `a/b` copied — the copy lands in the *source* folder `/o/b` -/
theorem old_manifest_nested_under_link_escapes :
    let es := [Entry.mk (parsePath ['a']) [Seg.name ['o']] Method.link,
               Entry.mk (parsePath ['a', '/', 'b']) [Seg.name ['o']] Method.copy]
    validateOld es = true ∧ validateFixed es = true ∧
    (deployAll false dest ⟨fs0, []⟩ es).1.fs.get [['b'], ['o']] = some Node.dir ∧
    (deployAll true dest ⟨fs0, []⟩ es).2 = some Err.rejected ∧
    escapes (deployAll true dest ⟨fs0, []⟩ es) = false := by decide

/-- C18e: key `conf` linked to `/o`: the package file is written to `/o/flowir_package.yaml` -/
theorem old_manifest_conf_link_escapes :
    let es := [Entry.mk (parsePath ['c', 'o', 'n', 'f']) [Seg.name ['o']] Method.link]
    escapes (deploy false dest ⟨fs0, []⟩ es true) = true ∧ (deploy false dest ⟨fs0, []⟩ es true).2 = none ∧
    (deploy true dest ⟨fs0, []⟩ es true).2 = some Err.rejected ∧
    escapes (deploy true dest ⟨fs0, []⟩ es true) = false := by decide

/-! ### a string-prefix test without the separator

`/i/w-s` is a sibling of the target `/i/w` whose NAME extends the target's name.  Component-wise it is not under
`/i/w`; as text `/i/w-s` starts with `/i/w`. -/

def sib : Path := [['w', '-', 's'], ['i']]
def fsSib : Fs := (sib, Node.dir) :: fs0

/-- the separator-less test accepts the sibling (and everything in it); the test of the code (with the separator)
and the model's `under` do not -/
theorem string_prefix_accepts_sibling :
    underText dest sib = true ∧ underText dest (['e'] :: sib) = true ∧
    underTextSep dest sib = false ∧ under dest sib = false ∧ underTextSep dest (['x'] :: dest) = true := by decide

/-- **Deployment guarded by the separator-less test writes outside the instance directory**: key `d` linked to the
sibling `/i/w-s`, then the nested key `d/e` copied — its real parent `/i/w-s` passes the string test, the copy
lands in `/i/w-s/e`; no error.  The guard of the code (`under`, = `underTextSep` by
`Props.C18.underTextSep_eq_under`) rejects the manifest and nothing outside changes. -/
theorem string_prefix_guard_deploys_into_sibling :
    let es := [Entry.mk (parsePath ['d']) [Seg.name ['i'], Seg.name ['w', '-', 's']] Method.link,
               Entry.mk (parsePath ['d', '/', 'e']) [Seg.name ['o']] Method.copy]
    validateFixed es = true ∧
    (deployAllWith underText dest ⟨fsSib, []⟩ es).2 = none ∧
    (deployAllWith underText dest ⟨fsSib, []⟩ es).1.fs.get (['e'] :: sib) = some Node.dir ∧
    escapes (deployAllWith underText dest ⟨fsSib, []⟩ es) = true ∧
    (deployAll true dest ⟨fsSib, []⟩ es).2 = some Err.rejected ∧
    escapes (deployAll true dest ⟨fsSib, []⟩ es) = false := by decide

/-- the same for extraction: the absolute member name `/i/w-s/e` starts, as text, with `/i/w`; a name check without
the separator accepts it and the file is written into the sibling, the repaired check refuses the archive -/
theorem string_prefix_check_extracts_into_sibling :
    let ms := [Member.file (parsePath ['/', 'i', '/', 'w', '-', 's', '/', 'e'])]
    (stageExtractText dest ⟨fsSib, []⟩ ms).2 = none ∧
    (stageExtractText dest ⟨fsSib, []⟩ ms).1.log = [['e'] :: sib] ∧
    escapes (stageExtractText dest ⟨fsSib, []⟩ ms) = true ∧
    (stageExtractFixed dest ⟨fsSib, []⟩ ms).2 = some Err.rejected ∧
    escapes (stageExtractFixed dest ⟨fsSib, []⟩ ms) = false := by decide

/-! ### a copy entry that merges into an existing destination (`copytree(..., dirs_exist_ok=True)`)

NOT the code: `shutil.copytree(src, dst)` refuses an existing destination, and that refusal is what keeps a copy
entry from being written through a link that an earlier entry (another spelling of the same key) or an earlier
deployment left at the destination — the guard of `expandPackageToDirectory` looks at the PARENT of the
destination only.  `deployOneOverlay` is the guarded step with a merging copy. -/

/-- `k` linked to `/o`, then `k/` copied (`k/` parses to the same entry as `k`): the guard passes (the parent is
the instance directory), the merging copy follows the link and creates `/o/f`; no error.  The code as it is
(`deployAllK true`) answers the second entry with an error and touches nothing outside. -/
theorem overlay_copy_writes_through_link_of_alias_key :
    let es := [KEntry.mk ['k'] [Seg.name ['o']] Method.link, KEntry.mk ['k', '/'] [Seg.name ['o']] Method.copy]
    validateK true es = true ∧
    (deployAllOverlay dest ⟨fs0, []⟩ (es.map KEntry.entry)).2 = none ∧
    (deployAllOverlay dest ⟨fs0, []⟩ (es.map KEntry.entry)).1.fs.get [['f'], ['o']] = some (Node.file [['f'], ['o']]) ∧
    escapes (deployAllOverlay dest ⟨fs0, []⟩ (es.map KEntry.entry)) = true ∧
    (deployAllK true dest ⟨fs0, []⟩ es).2 = some Err.os ∧
    escapes (deployAllK true dest ⟨fs0, []⟩ es) = false := by decide

/-- the same through a history: the instance directory was deployed with `k` linked to `/o`; the manifest
changes to `k: …:copy` and is deployed into the same directory again -/
theorem overlay_copy_writes_through_link_of_earlier_deployment :
    let st1 := (deployK true dest ⟨fs0, []⟩ [KEntry.mk ['k'] [Seg.name ['o']] Method.link]).1
    let e2 := Entry.mk (parsePath ['k']) [Seg.name ['o']] Method.copy
    (deployK true dest ⟨fs0, []⟩ [KEntry.mk ['k'] [Seg.name ['o']] Method.link]).2 = none ∧
    (deployOneOverlay dest ⟨st1.fs, []⟩ e2).2 = none ∧
    escapes (deployOneOverlay dest ⟨st1.fs, []⟩ e2) = true ∧
    (deployOne true dest ⟨st1.fs, []⟩ e2).2 = some Err.os ∧
    (deployOne true dest ⟨st1.fs, []⟩ e2).1.log = [] := by decide

/-- a merging copy is harmless where the existing destination is a real directory of the instance -/
theorem overlay_copy_onto_directory_stays_inside :
    let es := [Entry.mk (parsePath ['k']) [Seg.name ['o']] Method.copy,
               Entry.mk (parsePath ['k']) [Seg.name ['o']] Method.copy]
    (deployAllOverlay dest ⟨fs0, []⟩ es).2 = none ∧ escapes (deployAllOverlay dest ⟨fs0, []⟩ es) = false := by decide

/-! ### extraction relative to a process-wide `chdir`

NOT the code: `tar.extractall(dest)` gets the absolute working directory.  `CStager` does
`previous = getcwd(); chdir(dest); extractall(); chdir(previous)`; the current directory belongs to the process,
so when a second component stages at the same time the members are created wherever the cwd points at that
moment.  `/i/w` and `/i/u` are the two working directories, the process starts in `/o`. -/

def fs2 : Fs := ([['u'], ['i']], Node.dir) :: fs0
def dest2 : Path := [['u'], ['i']]
def cwd0 : Path := [['o']]

/-- two harmless one-member archives (`a`, `b`).  Schedule: first `chdir`, second `chdir`, first extracts and
restores, second extracts and restores.  The first stager's member lands in the SECOND working directory, the
second stager's member in `/o` (outside both), neither component receives its own file, and the process is left
in the first working directory. -/
theorem shared_cwd_interleaving_escapes :
    let w := runCStagers fs2 cwd0 dest dest2 [Member.file (parsePath ['a'])] [Member.file (parsePath ['b'])]
      [false, true, false, false, true, true]
    w.a.res = none ∧ w.b.res = none ∧ w.a.prog.isEmpty = true ∧ w.b.prog.isEmpty = true ∧
    w.a.log = [[['a'], ['u'], ['i']]] ∧ w.b.log = [[['b'], ['o']]] ∧
    w.fs.get [['a'], ['w'], ['i']] = none ∧ w.fs.get [['b'], ['u'], ['i']] = none ∧
    w.cwd = dest ∧ w.cwd ≠ cwd0 := by decide

/-- one after the other (no interleaving) the same two stagers are fine — which is why no single-threaded run
can tell the difference -/
theorem shared_cwd_sequential_is_confined :
    let w := runCStagers fs2 cwd0 dest dest2 [Member.file (parsePath ['a'])] [Member.file (parsePath ['b'])]
      [false, false, false, true, true, true]
    w.a.log = [[['a'], ['w'], ['i']]] ∧ w.b.log = [[['b'], ['u'], ['i']]] ∧ w.cwd = cwd0 := by decide

/-- a properly nested preemption is fine too (the second stager runs completely between the first one's `chdir`
and its extraction: it restores the cwd to the first working directory) — two preemptions are needed -/
theorem shared_cwd_nested_is_confined :
    let w := runCStagers fs2 cwd0 dest dest2 [Member.file (parsePath ['a'])] [Member.file (parsePath ['b'])]
      [false, true, true, true, false, false]
    w.a.log = [[['a'], ['w'], ['i']]] ∧ w.b.log = [[['b'], ['u'], ['i']]] ∧ w.cwd = cwd0 := by decide

/-- the code as it is (absolute destinations, `runStagers`) under the corresponding member schedule -/
theorem absolute_destinations_same_schedule_confined :
    let w := runStagers fs2 dest dest2 [Member.file (parsePath ['a'])] [Member.file (parsePath ['b'])] [false, true]
    w.a.log = [[['a'], ['w'], ['i']]] ∧ w.b.log = [[['b'], ['u'], ['i']]] := by decide

end St4sd.C18.Witness
